import GqlModel.Token
import GqlModel.Ast
/-! # S — the GraphQL syntactic grammar the library targets (property C03, parser half)

Two renderings of the same productions, both independent of the parser's idioms (`reverse`, `zinteger`,
`fallthrough`, `PrevEnd`):

1. **Derivation relations** (`DValue`, `DType`, `DSelectionSet`, `DDefinition`, `DerivesDoc` …), one
   constructor per production, building the AST the production defines.  A relation `D p x p'` reads: starting
   at position `p` (a token list plus the end offset `p.e` of the token just before it) the nonterminal derives
   a prefix of the tokens, denotes the node `x`, and leaves position `p'`.  Every node's location is
   `⟨p.start, p'.e⟩` = (start of the first token of the node, end of its last token) — the end offset is a
   synthesised attribute threaded through the derivation (`Tok` sets it), and `Props/C03Parser.lean` proves it is
   the end of the last token of the derived span (`loc_stop_is_last_token`).
2. **An executable recogniser** `recognise`: the productions transcribed as data (`rule : NT → G`, EBNF with
   ordered choice `alt`, longest-match `opt`/`star`, and `optIf`/`starIf` for the optional / repeated parts that are
   recognised by their first token) and a generic interpreter `run`.  The correspondence harness runs the real
   parser against it on every input, and `Props/C03Parser.lean` proves that whenever it answers, the answer is
   `true` exactly for the token lists `DerivesDoc` derives (`recognise_iff_derives`).

Edition.  The productions are the ones quoted in the comments of parser.go (pre-`null` value grammar,
`&`-separated interfaces with optional leading `&`, string/block-string descriptions, `extend type` only, no
leading `|` in unions and directive locations).  Where comments and the upstream fixtures disagree the fixtures
win (checked against the real parser, see notes/agents/C03-parser.md): the bodies of object / interface / enum /
input-object definitions are `{ Item* }` (the comments say `+`), braces mandatory; `schema { … }`, selection
sets, arguments, argument definitions and variable definitions need ≥ 1 entry; `DirectiveDefinition` takes a
`Description?` (the AST has the field).  `extend ObjectTypeDefinition` is taken literally (so the extended
definition may carry a description), and `EnumValueDefinition`'s `EnumValue : Name` literally too (`true`,
`false`, `null` allowed there, excluded in values).

Optional and repeated parts are longest-match: the constructor for an ABSENT optional part (or the end of an
undelimited repetition) requires that the next token cannot start that part (`p.kind ≠ …`).  For this grammar
the side conditions do not change the language (FIRST(part) never meets the FOLLOW set of the place it is
optional in); they make every sub-derivation unique, which the completeness proof uses. -/
namespace GqlModel.Grammar
open GqlModel

/-- a position in the token list: the tokens still ahead and the end offset of the token just consumed -/
structure Pos where
  e : Nat
  ts : List Token

/-- start offset of the next token -/
def Pos.start (p : Pos) : Nat :=
  match p.ts with
  | t :: _ => t.start
  | [] => 0

/-- kind of the next token (`eof` when there is none) -/
def Pos.kind (p : Pos) : TokenKind :=
  match p.ts with
  | t :: _ => t.kind
  | [] => .eof

/-- the next token is the name `s` -/
def Pos.isName (p : Pos) (s : String) : Prop :=
  match p.ts with
  | t :: _ => t.kind = .name ∧ t.value = s
  | [] => False

/-- terminal: one token of kind `k` -/
inductive Tok (k : TokenKind) : Pos → Token → Pos → Prop
  | mk (e : Nat) (t : Token) (r : List Token) : t.kind = k → Tok k ⟨e, t :: r⟩ t ⟨t.stop, r⟩

/-- keyword: a name token with the given text -/
inductive Kw (s : String) : Pos → Pos → Prop
  | mk {p t p'} : Tok .name p t p' → t.value = s → Kw s p p'

/-- `item*` -/
inductive Many {α : Type} (item : Pos → α → Pos → Prop) : Pos → List α → Pos → Prop
  | nil {p} : Many item p [] p
  | cons {p x p1 xs p2} : item p x p1 → Many item p1 xs p2 → Many item p (x :: xs) p2

/-- Name -/
inductive DName : Pos → Name → Pos → Prop
  | mk {p t p'} : Tok .name p t p' → DName p ⟨t.value, ⟨p.start, p'.e⟩⟩ p'

/-! ## Values

```
Value[Const] : [~Const] Variable | IntValue | FloatValue | StringValue | BooleanValue | EnumValue
             | ListValue[?Const] | ObjectValue[?Const]
BooleanValue : one of `true` `false`
EnumValue : Name but not `true`, `false` or `null`
ListValue[Const] : [ ] | [ Value[?Const]+ ]
ObjectValue[Const] : { } | { ObjectField[?Const]+ }
ObjectField[Const] : Name : Value[?Const]
Variable : $ Name
``` -/

/-- Variable : `$` Name — the inner name and the location of the Variable node -/
inductive DVariable : Pos → Name × Loc → Pos → Prop
  | mk {p0 d p1 n p2} : Tok .dollar p0 d p1 → DName p1 n p2 → DVariable p0 (n, ⟨p0.start, p2.e⟩) p2

mutual
inductive DValue : Bool → Pos → Value → Pos → Prop
  | var {p0 n l p1} : DVariable p0 (n, l) p1 → DValue false p0 (.var n.value l) p1
  | int {c p0 t p1} : Tok .int p0 t p1 → DValue c p0 (.int t.value ⟨p0.start, p1.e⟩) p1
  | float {c p0 t p1} : Tok .float p0 t p1 → DValue c p0 (.float t.value ⟨p0.start, p1.e⟩) p1
  | string {c p0 t p1} : Tok .string p0 t p1 → DValue c p0 (.str t.value ⟨p0.start, p1.e⟩) p1
  | blockString {c p0 t p1} : Tok .blockString p0 t p1 → DValue c p0 (.str t.value ⟨p0.start, p1.e⟩) p1
  | tru {c p0 p1} : Kw "true" p0 p1 → DValue c p0 (.bool true ⟨p0.start, p1.e⟩) p1
  | fls {c p0 p1} : Kw "false" p0 p1 → DValue c p0 (.bool false ⟨p0.start, p1.e⟩) p1
  | enum {c p0 t p1} : Tok .name p0 t p1 → t.value ≠ "true" → t.value ≠ "false" → t.value ≠ "null" →
      DValue c p0 (.enum t.value ⟨p0.start, p1.e⟩) p1
  | list {c p0 o p1 vs p2 cl p3} : Tok .bracketL p0 o p1 → DValues c p1 vs p2 → Tok .bracketR p2 cl p3 →
      DValue c p0 (.list vs ⟨p0.start, p3.e⟩) p3
  | obj {c p0 o p1 fs p2 cl p3} : Tok .braceL p0 o p1 → DObjFields c p1 fs p2 → Tok .braceR p2 cl p3 →
      DValue c p0 (.obj fs ⟨p0.start, p3.e⟩) p3
/-- `Value*` -/
inductive DValues : Bool → Pos → List Value → Pos → Prop
  | nil {c p} : DValues c p [] p
  | cons {c p v p1 vs p2} : DValue c p v p1 → DValues c p1 vs p2 → DValues c p (v :: vs) p2
/-- `ObjectField*` -/
inductive DObjFields : Bool → Pos → List ObjField → Pos → Prop
  | nil {c p} : DObjFields c p [] p
  | cons {c p f p1 fs p2} : DObjField c p f p1 → DObjFields c p1 fs p2 → DObjFields c p (f :: fs) p2
inductive DObjField : Bool → Pos → ObjField → Pos → Prop
  | mk {c p0 n p1 cl p2 v p3} : DName p0 n p1 → Tok .colon p1 cl p2 → DValue c p2 v p3 →
      DObjField c p0 (.mk n v ⟨p0.start, p3.e⟩) p3
end

/-! ## Arguments, directives

```
Arguments : ( Argument+ )        Argument : Name : Value
Directives : Directive+          Directive : @ Name Arguments?
``` -/

inductive DArgument : Pos → Argument → Pos → Prop
  | mk {p0 n p1 cl p2 v p3} : DName p0 n p1 → Tok .colon p1 cl p2 → DValue false p2 v p3 →
      DArgument p0 ⟨n, v, ⟨p0.start, p3.e⟩⟩ p3

/-- `Arguments?` -/
inductive DArguments : Pos → List Argument → Pos → Prop
  | none {p} : p.kind ≠ .parenL → DArguments p [] p
  | some {p0 o p1 args p2 cl p3} : Tok .parenL p0 o p1 → Many DArgument p1 args p2 → args ≠ [] →
      Tok .parenR p2 cl p3 → DArguments p0 args p3

inductive DDirective : Pos → Directive → Pos → Prop
  | mk {p0 a p1 n p2 args p3} : Tok .at p0 a p1 → DName p1 n p2 → DArguments p2 args p3 →
      DDirective p0 ⟨n, args, ⟨p0.start, p3.e⟩⟩ p3

/-- `Directives?` -/
inductive DDirectives : Pos → List Directive → Pos → Prop
  | nil {p} : p.kind ≠ .at → DDirectives p [] p
  | cons {p d p1 ds p2} : DDirective p d p1 → DDirectives p1 ds p2 → DDirectives p (d :: ds) p2

/-! ## Types

```
Type : NamedType | ListType | NonNullType
NamedType : Name        ListType : [ Type ]        NonNullType : NamedType ! | ListType !
``` -/

inductive DNamedType : Pos → TypeRef → Pos → Prop
  | mk {p0 n p1} : DName p0 n p1 → DNamedType p0 (.named n.value ⟨p0.start, p1.e⟩) p1

mutual
/-- NamedType | ListType -/
inductive DBaseType : Pos → TypeRef → Pos → Prop
  | named {p0 t p1} : DNamedType p0 t p1 → DBaseType p0 t p1
  | list {p0 o p1 t p2 cl p3} : Tok .bracketL p0 o p1 → DType p1 t p2 → Tok .bracketR p2 cl p3 →
      DBaseType p0 (.list t ⟨p0.start, p3.e⟩) p3
inductive DType : Pos → TypeRef → Pos → Prop
  | plain {p0 t p1} : DBaseType p0 t p1 → p1.kind ≠ .bang → DType p0 t p1
  | nonNull {p0 t p1 b p2} : DBaseType p0 t p1 → Tok .bang p1 b p2 → DType p0 (.nonNull t ⟨p0.start, p2.e⟩) p2
end

/-! ## Selection sets

```
SelectionSet : { Selection+ }
Selection : Field | FragmentSpread | InlineFragment
Field : Alias? Name Arguments? Directives? SelectionSet?        Alias : Name :
FragmentSpread : ... FragmentName Directives?                   FragmentName : Name but not `on`
InlineFragment : ... TypeCondition? Directives? SelectionSet    TypeCondition : on NamedType
``` -/

inductive DFragmentName : Pos → Name → Pos → Prop
  | mk {p n p'} : DName p n p' → n.value ≠ "on" → DFragmentName p n p'

/-- `TypeCondition?` -/
inductive DTypeCondition : Pos → Option TypeRef → Pos → Prop
  | none {p} : ¬ p.isName "on" → DTypeCondition p none p
  | some {p0 p1 t p2} : Kw "on" p0 p1 → DNamedType p1 t p2 → DTypeCondition p0 (some t) p2

mutual
inductive DSelectionSet : Pos → SelectionSet → Pos → Prop
  | mk {p0 o p1 sels p2 cl p3} : Tok .braceL p0 o p1 → DSelections p1 sels p2 → sels ≠ [] → Tok .braceR p2 cl p3 →
      DSelectionSet p0 (.mk sels ⟨p0.start, p3.e⟩) p3
/-- `Selection*` -/
inductive DSelections : Pos → List Selection → Pos → Prop
  | nil {p} : DSelections p [] p
  | cons {p s p1 ss p2} : DSelection p s p1 → DSelections p1 ss p2 → DSelections p (s :: ss) p2
inductive DSelection : Pos → Selection → Pos → Prop
  | field {p0 n p1 args p2 dirs p3 sel p4} : DName p0 n p1 → p1.kind ≠ .colon → DArguments p1 args p2 →
      DDirectives p2 dirs p3 → DOptSelectionSet p3 sel p4 →
      DSelection p0 (.field none n args dirs sel ⟨p0.start, p4.e⟩) p4
  | aliased {p0 a p1 cl p2 n p3 args p4 dirs p5 sel p6} : DName p0 a p1 → Tok .colon p1 cl p2 → DName p2 n p3 →
      DArguments p3 args p4 → DDirectives p4 dirs p5 → DOptSelectionSet p5 sel p6 →
      DSelection p0 (.field (some a) n args dirs sel ⟨p0.start, p6.e⟩) p6
  | spread {p0 s p1 n p2 dirs p3} : Tok .spread p0 s p1 → DFragmentName p1 n p2 → DDirectives p2 dirs p3 →
      DSelection p0 (.spread n dirs ⟨p0.start, p3.e⟩) p3
  | inline {p0 s p1 tc p2 dirs p3 sel p4} : Tok .spread p0 s p1 → DTypeCondition p1 tc p2 → DDirectives p2 dirs p3 →
      DSelectionSet p3 sel p4 → DSelection p0 (.inline tc dirs sel ⟨p0.start, p4.e⟩) p4
/-- `SelectionSet?` -/
inductive DOptSelectionSet : Pos → Option SelectionSet → Pos → Prop
  | none {p} : p.kind ≠ .braceL → DOptSelectionSet p none p
  | some {p s p'} : DSelectionSet p s p' → DOptSelectionSet p (some s) p'
end

/-! ## Operations and fragments

```
OperationDefinition : SelectionSet | OperationType Name? VariableDefinitions? Directives? SelectionSet
OperationType : one of query mutation subscription
VariableDefinitions : ( VariableDefinition+ )
VariableDefinition : Variable : Type DefaultValue?        DefaultValue : = Value[Const]
FragmentDefinition : fragment FragmentName on TypeCondition Directives? SelectionSet
``` -/

inductive DOpType : Pos → OpType → Pos → Prop
  | query {p p'} : Kw "query" p p' → DOpType p .query p'
  | mutation {p p'} : Kw "mutation" p p' → DOpType p .mutation p'
  | subscription {p p'} : Kw "subscription" p p' → DOpType p .subscription p'

/-- `DefaultValue?` -/
inductive DDefault : Pos → Option Value → Pos → Prop
  | none {p} : p.kind ≠ .equals → DDefault p none p
  | some {p0 q p1 v p2} : Tok .equals p0 q p1 → DValue true p1 v p2 → DDefault p0 (some v) p2

inductive DVarDef : Pos → VarDef → Pos → Prop
  | mk {p0 n vl p1 cl p2 t p3 d p4} : DVariable p0 (n, vl) p1 → Tok .colon p1 cl p2 → DType p2 t p3 → DDefault p3 d p4 →
      DVarDef p0 { var := n, varLoc := vl, type := some t, default := d, loc := ⟨p0.start, p4.e⟩ } p4

/-- `VariableDefinitions?` -/
inductive DVarDefs : Pos → List VarDef → Pos → Prop
  | none {p} : p.kind ≠ .parenL → DVarDefs p [] p
  | some {p0 o p1 vs p2 cl p3} : Tok .parenL p0 o p1 → Many DVarDef p1 vs p2 → vs ≠ [] → Tok .parenR p2 cl p3 →
      DVarDefs p0 vs p3

/-- `Name?` -/
inductive DOptName : Pos → Option Name → Pos → Prop
  | none {p} : p.kind ≠ .name → DOptName p none p
  | some {p n p'} : DName p n p' → DOptName p (some n) p'

/-! ## Type system definitions

```
SchemaDefinition : schema Directives? { OperationTypeDefinition+ }
OperationTypeDefinition : OperationType : NamedType
ScalarTypeDefinition : Description? scalar Name Directives?
ObjectTypeDefinition : Description? type Name ImplementsInterfaces? Directives? { FieldDefinition* }
ImplementsInterfaces : implements `&`? NamedType | ImplementsInterfaces & NamedType
FieldDefinition : Description? Name ArgumentsDefinition? : Type Directives?
ArgumentsDefinition : ( InputValueDefinition+ )
InputValueDefinition : Description? Name : Type DefaultValue? Directives?
InterfaceTypeDefinition : Description? interface Name Directives? { FieldDefinition* }
UnionTypeDefinition : Description? union Name Directives? = UnionMembers
UnionMembers : NamedType | UnionMembers | NamedType
EnumTypeDefinition : Description? enum Name Directives? { EnumValueDefinition* }
EnumValueDefinition : Description? EnumValue Directives?        EnumValue : Name
InputObjectTypeDefinition : Description? input Name Directives? { InputValueDefinition* }
TypeExtensionDefinition : extend ObjectTypeDefinition
DirectiveDefinition : Description? directive @ Name ArgumentsDefinition? on DirectiveLocations
DirectiveLocations : Name | DirectiveLocations | Name
Description : StringValue
``` -/

/-- `Description?` -/
inductive DDescription : Pos → Option String → Pos → Prop
  | none {p} : p.kind ≠ .string → p.kind ≠ .blockString → DDescription p none p
  | string {p t p'} : Tok .string p t p' → DDescription p (some t.value) p'
  | blockString {p t p'} : Tok .blockString p t p' → DDescription p (some t.value) p'

inductive DOpTypeDef : Pos → OpTypeDef → Pos → Prop
  | mk {p0 op p1 cl p2 t p3} : DOpType p0 op p1 → Tok .colon p1 cl p2 → DNamedType p2 t p3 →
      DOpTypeDef p0 ⟨op, t, ⟨p0.start, p3.e⟩⟩ p3

/-- `item (sep item)*` -/
inductive SepBy {α : Type} (sep : TokenKind) (item : Pos → α → Pos → Prop) : Pos → List α → Pos → Prop
  | one {p x p'} : item p x p' → p'.kind ≠ sep → SepBy sep item p [x] p'
  | cons {p x p1 s p2 xs p3} : item p x p1 → Tok sep p1 s p2 → SepBy sep item p2 xs p3 → SepBy sep item p (x :: xs) p3

/-- `ImplementsInterfaces?` -/
inductive DImplements : Pos → List TypeRef → Pos → Prop
  | none {p} : ¬ p.isName "implements" → DImplements p [] p
  | plain {p0 p1 ts p2} : Kw "implements" p0 p1 → p1.kind ≠ .amp → SepBy .amp DNamedType p1 ts p2 → DImplements p0 ts p2
  | leadingAmp {p0 p1 a p2 ts p3} : Kw "implements" p0 p1 → Tok .amp p1 a p2 → SepBy .amp DNamedType p2 ts p3 →
      DImplements p0 ts p3

inductive DInputValueDef : Pos → InputValueDef → Pos → Prop
  | mk {p0 desc p1 n p2 cl p3 t p4 d p5 dirs p6} : DDescription p0 desc p1 → DName p1 n p2 → Tok .colon p2 cl p3 →
      DType p3 t p4 → DDefault p4 d p5 → DDirectives p5 dirs p6 →
      DInputValueDef p0 { description := desc, name := n, type := t, default := d, dirs := dirs, loc := ⟨p0.start, p6.e⟩ } p6

/-- `ArgumentsDefinition?` -/
inductive DArgumentDefs : Pos → List InputValueDef → Pos → Prop
  | none {p} : p.kind ≠ .parenL → DArgumentDefs p [] p
  | some {p0 o p1 ds p2 cl p3} : Tok .parenL p0 o p1 → Many DInputValueDef p1 ds p2 → ds ≠ [] → Tok .parenR p2 cl p3 →
      DArgumentDefs p0 ds p3

inductive DFieldDef : Pos → FieldDef → Pos → Prop
  | mk {p0 desc p1 n p2 args p3 cl p4 t p5 dirs p6} : DDescription p0 desc p1 → DName p1 n p2 → DArgumentDefs p2 args p3 →
      Tok .colon p3 cl p4 → DType p4 t p5 → DDirectives p5 dirs p6 →
      DFieldDef p0 { description := desc, name := n, args := args, type := t, dirs := dirs, loc := ⟨p0.start, p6.e⟩ } p6

/-- `{ item* }` -/
inductive Braced {α : Type} (item : Pos → α → Pos → Prop) : Pos → List α → Pos → Prop
  | mk {p0 o p1 xs p2 cl p3} : Tok .braceL p0 o p1 → Many item p1 xs p2 → Tok .braceR p2 cl p3 → Braced item p0 xs p3

inductive DObjectDef : Pos → ObjectDef → Pos → Prop
  | mk {p0 desc p1 p2 n p3 ifs p4 dirs p5 fs p6} : DDescription p0 desc p1 → Kw "type" p1 p2 → DName p2 n p3 →
      DImplements p3 ifs p4 → DDirectives p4 dirs p5 → Braced DFieldDef p5 fs p6 →
      DObjectDef p0 { description := desc, name := n, interfaces := ifs, dirs := dirs, fields := fs, loc := ⟨p0.start, p6.e⟩ } p6

inductive DEnumValueDef : Pos → EnumValueDef → Pos → Prop
  | mk {p0 desc p1 n p2 dirs p3} : DDescription p0 desc p1 → DName p1 n p2 → DDirectives p2 dirs p3 →
      DEnumValueDef p0 ⟨desc, n, dirs, ⟨p0.start, p3.e⟩⟩ p3

/-! ## Definitions and the document

```
Document : Definition+
Definition : OperationDefinition | FragmentDefinition | TypeSystemDefinition
TypeSystemDefinition : SchemaDefinition | TypeDefinition | TypeExtensionDefinition | DirectiveDefinition
``` -/

inductive DDefinition : Pos → Definition → Pos → Prop
  | query {p0 s p1} : DSelectionSet p0 s p1 → DDefinition p0 (.operation .query none [] [] s ⟨p0.start, p1.e⟩) p1
  | operation {p0 op p1 n p2 vs p3 dirs p4 s p5} : DOpType p0 op p1 → DOptName p1 n p2 → DVarDefs p2 vs p3 →
      DDirectives p3 dirs p4 → DSelectionSet p4 s p5 → DDefinition p0 (.operation op n vs dirs s ⟨p0.start, p5.e⟩) p5
  | fragment {p0 p1 n p2 p3 tc p4 dirs p5 s p6} : Kw "fragment" p0 p1 → DFragmentName p1 n p2 → Kw "on" p2 p3 →
      DNamedType p3 tc p4 → DDirectives p4 dirs p5 → DSelectionSet p5 s p6 →
      DDefinition p0 (.fragment n tc dirs s ⟨p0.start, p6.e⟩) p6
  | schema {p0 p1 dirs p2 o p3 ops p4 cl p5} : Kw "schema" p0 p1 → DDirectives p1 dirs p2 → Tok .braceL p2 o p3 →
      Many DOpTypeDef p3 ops p4 → ops ≠ [] → Tok .braceR p4 cl p5 → DDefinition p0 (.schema dirs ops ⟨p0.start, p5.e⟩) p5
  | scalar {p0 desc p1 p2 n p3 dirs p4} : DDescription p0 desc p1 → Kw "scalar" p1 p2 → DName p2 n p3 → DDirectives p3 dirs p4 →
      DDefinition p0 (.scalar desc n dirs ⟨p0.start, p4.e⟩) p4
  | object {p0 d p1} : DObjectDef p0 d p1 → DDefinition p0 (.object d) p1
  | interface {p0 desc p1 p2 n p3 dirs p4 fs p5} : DDescription p0 desc p1 → Kw "interface" p1 p2 → DName p2 n p3 →
      DDirectives p3 dirs p4 → Braced DFieldDef p4 fs p5 → DDefinition p0 (.interface desc n dirs fs ⟨p0.start, p5.e⟩) p5
  | union {p0 desc p1 p2 n p3 dirs p4 q p5 ms p6} : DDescription p0 desc p1 → Kw "union" p1 p2 → DName p2 n p3 →
      DDirectives p3 dirs p4 → Tok .equals p4 q p5 → SepBy .pipe DNamedType p5 ms p6 →
      DDefinition p0 (.union desc n dirs ms ⟨p0.start, p6.e⟩) p6
  | enum {p0 desc p1 p2 n p3 dirs p4 vs p5} : DDescription p0 desc p1 → Kw "enum" p1 p2 → DName p2 n p3 →
      DDirectives p3 dirs p4 → Braced DEnumValueDef p4 vs p5 → DDefinition p0 (.enum desc n dirs vs ⟨p0.start, p5.e⟩) p5
  | inputObject {p0 desc p1 p2 n p3 dirs p4 fs p5} : DDescription p0 desc p1 → Kw "input" p1 p2 → DName p2 n p3 →
      DDirectives p3 dirs p4 → Braced DInputValueDef p4 fs p5 → DDefinition p0 (.inputObject desc n dirs fs ⟨p0.start, p5.e⟩) p5
  | extend {p0 p1 d p2} : Kw "extend" p0 p1 → DObjectDef p1 d p2 → DDefinition p0 (.extend d ⟨p0.start, p2.e⟩) p2
  | directive {p0 desc p1 p2 a p3 n p4 args p5 p6 locs p7} : DDescription p0 desc p1 → Kw "directive" p1 p2 → Tok .at p2 a p3 →
      DName p3 n p4 → DArgumentDefs p4 args p5 → Kw "on" p5 p6 → SepBy .pipe DName p6 locs p7 →
      DDefinition p0 (.directive desc n args locs ⟨p0.start, p7.e⟩) p7

/-- `Document : Definition+` on the tokens before `<EOF>`; the document's location runs from the first token to
the EOF offset. -/
inductive DerivesDoc (toks : List Token) (eofPos : Nat) : Document → Prop
  | mk {defs e} : Many DDefinition ⟨0, toks⟩ defs ⟨e, []⟩ → defs ≠ [] →
      DerivesDoc toks eofPos ⟨defs, ⟨(Pos.mk 0 toks).start, eofPos⟩⟩

/-- `Value[~Const]` as a whole input (`parser.ParseValue` consumes one value; trailing tokens are not looked at) -/
def DerivesValue (c : Bool) (toks : List Token) (v : Value) (rest : List Token) : Prop :=
  ∃ e, DValue c ⟨0, toks⟩ v ⟨e, rest⟩

/-! # The executable recogniser: productions as data + a generic interpreter -/

inductive NT
  | document | definition | operationDefinition | operationType | variableDefinitions | variableDefinition
  | var | defaultValue | selectionSet | selection | field | alias | arguments | argument
  | fragmentSpread | inlineFragment | fragmentDefinition | fragmentName | typeCondition
  | value | constValue | listValue | constListValue | objectValue | constObjectValue | objectField | constObjectField
  | booleanValue | enumValue | directives | directive | type | namedType | listType | nonNullType
  | typeSystemDefinition | schemaDefinition | operationTypeDefinition | scalarTypeDefinition | objectTypeDefinition
  | implementsInterfaces | fieldDefinition | argumentsDefinition | inputValueDefinition | interfaceTypeDefinition
  | unionTypeDefinition | unionMembers | enumTypeDefinition | enumValueDefinition | inputObjectTypeDefinition
  | typeExtensionDefinition | directiveDefinition | directiveLocations | description
deriving DecidableEq, Repr

/-- one-token look-ahead conditions -/
inductive Look
  | kind (k : TokenKind)
  | kw (s : String)

def Look.holds : Look → List Token → Bool
  | .kind k, t :: _ => decide (t.kind = k)
  | .kw s, t :: _ => decide (t.kind = .name ∧ t.value = s)
  | _, [] => false

/-- EBNF right-hand sides.  `alt` is ordered choice, `opt`/`star` are longest match; `optIf c g` / `starIf c g` are
the optional / repeated parts that are recognised by their first token (`g?` resp. `g*` where every `g` starts with a
token satisfying `c` and nothing that may follow does — the grammar is LL(1) at these places): present iff the next
token satisfies `c`. -/
inductive G
  | tok (k : TokenKind)
  | kw (s : String)
  | nameBut (excluded : List String)
  | eps
  | seq (a b : G)
  | alt (a b : G)
  | opt (g : G)
  | star (g : G)
  | optIf (c : Look) (g : G)
  | starIf (c : Look) (g : G)
  | nt (n : NT)

def G.seqs : List G → G
  | [] => .eps
  | [g] => g
  | g :: gs => .seq g (G.seqs gs)

def G.alts : List G → G
  | [] => .eps
  | [g] => g
  | g :: gs => .alt g (G.alts gs)

/-- `g+` -/
def G.plus (g : G) : G := .seq g (.star g)

open G NT in
/-- the productions (compare with the comments quoted above and in parser.go); `directives` is `Directives?`,
i.e. `Directive*` -/
def rule : NT → G
  | document => plus (nt definition)
  | definition => alts [nt operationDefinition, nt fragmentDefinition, nt typeSystemDefinition]
  | operationDefinition => alt (nt selectionSet)
      (seqs [nt operationType, opt (tok .name), optIf (.kind .parenL) (nt variableDefinitions), nt directives, nt selectionSet])
  | operationType => alts [kw "query", kw "mutation", kw "subscription"]
  | variableDefinitions => seqs [tok .parenL, plus (nt variableDefinition), tok .parenR]
  | variableDefinition => seqs [nt var, tok .colon, nt type, optIf (.kind .equals) (nt defaultValue)]
  | var => seq (tok .dollar) (tok .name)
  | defaultValue => seq (tok .equals) (nt constValue)
  | selectionSet => seqs [tok .braceL, plus (nt selection), tok .braceR]
  | selection => alts [nt field, nt fragmentSpread, nt inlineFragment]
  | field => seqs [opt (nt alias), tok .name, optIf (.kind .parenL) (nt arguments), nt directives,
      optIf (.kind .braceL) (nt selectionSet)]
  | alias => seq (tok .name) (tok .colon)
  | arguments => seqs [tok .parenL, plus (nt argument), tok .parenR]
  | argument => seqs [tok .name, tok .colon, nt value]
  | fragmentSpread => seqs [tok .spread, nt fragmentName, nt directives]
  | inlineFragment => seqs [tok .spread, optIf (.kw "on") (nt typeCondition), nt directives, nt selectionSet]
  | fragmentDefinition => seqs [kw "fragment", nt fragmentName, nt typeCondition, nt directives, nt selectionSet]
  | fragmentName => nameBut ["on"]
  | typeCondition => seq (kw "on") (nt namedType)
  | value => alts [nt var, tok .int, tok .float, tok .string, tok .blockString, nt booleanValue, nt enumValue,
      nt listValue, nt objectValue]
  | constValue => alts [tok .int, tok .float, tok .string, tok .blockString, nt booleanValue, nt enumValue,
      nt constListValue, nt constObjectValue]
  | listValue => seqs [tok .bracketL, star (nt value), tok .bracketR]
  | constListValue => seqs [tok .bracketL, star (nt constValue), tok .bracketR]
  | objectValue => seqs [tok .braceL, star (nt objectField), tok .braceR]
  | constObjectValue => seqs [tok .braceL, star (nt constObjectField), tok .braceR]
  | objectField => seqs [tok .name, tok .colon, nt value]
  | constObjectField => seqs [tok .name, tok .colon, nt constValue]
  | booleanValue => alt (kw "true") (kw "false")
  | enumValue => nameBut ["true", "false", "null"]
  | directives => starIf (.kind .at) (nt directive)
  | directive => seqs [tok .at, tok .name, optIf (.kind .parenL) (nt arguments)]
  | type => alts [nt nonNullType, nt namedType, nt listType]
  | namedType => tok .name
  | listType => seqs [tok .bracketL, nt type, tok .bracketR]
  | nonNullType => alt (seq (nt namedType) (tok .bang)) (seq (nt listType) (tok .bang))
  | typeSystemDefinition => alts [nt schemaDefinition, nt scalarTypeDefinition, nt objectTypeDefinition,
      nt interfaceTypeDefinition, nt unionTypeDefinition, nt enumTypeDefinition, nt inputObjectTypeDefinition,
      nt typeExtensionDefinition, nt directiveDefinition]
  | schemaDefinition => seqs [kw "schema", nt directives, tok .braceL, plus (nt operationTypeDefinition), tok .braceR]
  | operationTypeDefinition => seqs [nt operationType, tok .colon, nt namedType]
  | scalarTypeDefinition => seqs [opt (nt description), kw "scalar", tok .name, nt directives]
  | objectTypeDefinition => seqs [opt (nt description), kw "type", tok .name,
      optIf (.kw "implements") (nt implementsInterfaces), nt directives, tok .braceL, star (nt fieldDefinition), tok .braceR]
  | implementsInterfaces => seqs [kw "implements", opt (tok .amp), nt namedType,
      starIf (.kind .amp) (seq (tok .amp) (nt namedType))]
  | fieldDefinition => seqs [opt (nt description), tok .name, optIf (.kind .parenL) (nt argumentsDefinition), tok .colon,
      nt type, nt directives]
  | argumentsDefinition => seqs [tok .parenL, plus (nt inputValueDefinition), tok .parenR]
  | inputValueDefinition => seqs [opt (nt description), tok .name, tok .colon, nt type,
      optIf (.kind .equals) (nt defaultValue), nt directives]
  | interfaceTypeDefinition => seqs [opt (nt description), kw "interface", tok .name, nt directives,
      tok .braceL, star (nt fieldDefinition), tok .braceR]
  | unionTypeDefinition => seqs [opt (nt description), kw "union", tok .name, nt directives, tok .equals,
      nt unionMembers]
  | unionMembers => seq (nt namedType) (starIf (.kind .pipe) (seq (tok .pipe) (nt namedType)))
  | enumTypeDefinition => seqs [opt (nt description), kw "enum", tok .name, nt directives,
      tok .braceL, star (nt enumValueDefinition), tok .braceR]
  | enumValueDefinition => seqs [opt (nt description), tok .name, nt directives]
  | inputObjectTypeDefinition => seqs [opt (nt description), kw "input", tok .name, nt directives,
      tok .braceL, star (nt inputValueDefinition), tok .braceR]
  | typeExtensionDefinition => seq (kw "extend") (nt objectTypeDefinition)
  | directiveDefinition => seqs [opt (nt description), kw "directive", tok .at, tok .name,
      optIf (.kind .parenL) (nt argumentsDefinition), kw "on", nt directiveLocations]
  | directiveLocations => seq (tok .name) (starIf (.kind .pipe) (seq (tok .pipe) (tok .name)))
  | description => alt (tok .string) (tok .blockString)

/-- result of the interpreter: out of fuel, no match, or the tokens left -/
inductive R
  | fuel
  | no
  | rest (ts : List Token)

/-- generic interpreter -/
def run : Nat → G → List Token → R
  | 0, _, _ => .fuel
  | n + 1, g, ts =>
    match g with
    | .tok k => match ts with
      | t :: r => if t.kind = k then .rest r else .no
      | [] => .no
    | .kw s => match ts with
      | t :: r => if t.kind = .name ∧ t.value = s then .rest r else .no
      | [] => .no
    | .nameBut ex => match ts with
      | t :: r => if t.kind = .name ∧ ¬ t.value ∈ ex then .rest r else .no
      | [] => .no
    | .eps => .rest ts
    | .seq a b => match run n a ts with
      | .rest r => run n b r
      | x => x
    | .alt a b => match run n a ts with
      | .no => run n b ts
      | x => x
    | .opt a => match run n a ts with
      | .no => .rest ts
      | x => x
    | .star a => match run n a ts with
      | .no => .rest ts
      | .fuel => .fuel
      | .rest r => if r.length < ts.length then run n (.star a) r else .rest r
    | .optIf c a => if c.holds ts then run n a ts else .rest ts
    | .starIf c a =>
      if c.holds ts then
        match run n a ts with
        | .rest r => if r.length < ts.length then run n (.starIf c a) r else .rest r
        | x => x
      else .rest ts
    | .nt x => run n (rule x) ts

/-- fuel for the interpreter: the call depth is linear in the number of tokens -/
def recogniseFuel (toks : List Token) : Nat := 64 * toks.length + 256

/-- S as a program: `some true` iff the tokens before `<EOF>` are a `Document` -/
def recogniseToks (toks : List Token) : Option Bool :=
  match run (recogniseFuel toks) (.nt .document) toks with
  | .fuel => none
  | .no => some false
  | .rest r => some r.isEmpty

/-! ## Completion of a prefix (C18: "the text before the reported token is the beginning of a valid document")

`complete g ts` runs the productions on a token list that may END inside `g`: it answers `done r` (matched, `r` left),
`no`, or `more c` — the input ran out inside `g` and the tokens `c` finish it.  `shortest g` is a shortest sentence of
`g`.  `completeDoc prefix` is therefore a CANDIDATE witness that `prefix` is viable: `prefix ++ c` should be a document.
`complete` is not proved correct (that it finds a completion of every viable prefix is the open half of C18's syntax
clause); instead `certifiedCompletion` re-runs the recogniser on `prefix ++ c`, and the recogniser IS proved sound
(`recognise_sound`), so a `some` answer proves viability of that prefix (`certified_completion_viable`).  The C03 harness
demands a certified completion for every rejected case and additionally that the real parser accepts the text before
the reported token followed by the completion. -/

/-- a representative token of a kind (offsets irrelevant) -/
def sampleTok (k : TokenKind) : Token :=
  ⟨k, 0, 0, match k with
    | .name => "a" | .int => "1" | .float => "1.5" | .string => "s" | .blockString => "b" | _ => ""⟩

/-- a shortest sentence of `g` (`none`: out of fuel) -/
def shortest : Nat → G → Option (List Token)
  | 0, _ => none
  | n + 1, g =>
    match g with
    | .tok k => some [sampleTok k]
    | .kw s => some [⟨.name, 0, 0, s⟩]
    | .nameBut _ => some [sampleTok .name]
    | .eps => some []
    | .seq a b => match shortest n a, shortest n b with
      | some x, some y => some (x ++ y)
      | _, _ => none
    | .alt a b => match shortest n a, shortest n b with
      | some x, some y => some (if y.length < x.length then y else x)
      | some x, none => some x
      | none, y => y
    | .opt _ => some []
    | .star _ => some []
    | .optIf _ _ => some []
    | .starIf _ _ => some []
    | .nt x => shortest n (rule x)

inductive CR
  | fuel
  | no
  | done (rest : List Token)
  | more (completion : List Token)

def shortestFuel : Nat := 64

/-- the productions on a possibly truncated input -/
def complete : Nat → G → List Token → CR
  | 0, _, _ => .fuel
  | n + 1, g, ts =>
    match g with
    | .tok k => match ts with
      | t :: r => if t.kind = k then .done r else .no
      | [] => .more [sampleTok k]
    | .kw s => match ts with
      | t :: r => if t.kind = .name ∧ t.value = s then .done r else .no
      | [] => .more [⟨.name, 0, 0, s⟩]
    | .nameBut ex => match ts with
      | t :: r => if t.kind = .name ∧ ¬ t.value ∈ ex then .done r else .no
      | [] => .more [sampleTok .name]
    | .eps => .done ts
    | .seq a b => match complete n a ts with
      | .done r => complete n b r
      | .more c => match shortest shortestFuel b with
        | some y => .more (c ++ y)
        | none => .fuel
      | x => x
    | .alt a b => match complete n a ts with
      | .no => complete n b ts
      | x => x
    | .opt a => match ts with
      | [] => .done []
      | _ => match complete n a ts with
        | .no => .done ts
        | x => x
    | .star a => match ts with
      | [] => .done []
      | _ => match complete n a ts with
        | .no => .done ts
        | .done r => if r.length < ts.length then complete n (.star a) r else .done r
        | x => x
    | .optIf c a => match ts with
      | [] => .done []
      | _ => if c.holds ts then complete n a ts else .done ts
    | .starIf c a => match ts with
      | [] => .done []
      | _ =>
        if c.holds ts then
          match complete n a ts with
          | .done r => if r.length < ts.length then complete n (.starIf c a) r else .done r
          | x => x
        else .done ts
    | .nt x => complete n (rule x) ts

/-- tokens that turn `pre` into a document (`none`: `pre` is not viable, or out of fuel) -/
def completeDoc (pre : List Token) : Option (List Token) :=
  match complete (recogniseFuel pre) (.nt .document) pre with
  | .done [] => some []
  | .more c => some c
  | _ => none

/-- the completion, kept only when S as a program accepts `pre ++ completion`: a CERTIFICATE that `pre` is the beginning of
a document (`Props/C18Syntax.lean: certified_completion_viable`), whatever `complete` did to find it -/
def certifiedCompletion (pre : List Token) : Option (List Token) :=
  match completeDoc pre with
  | some c => if recogniseToks (pre ++ c) = some true then some c else none
  | none => none

/-- on the complete token list (ending in EOF); anything after the first EOF token is ignored, as the parser does -/
def recognise (all : List Token) : Option Bool :=
  recogniseToks (all.takeWhile (fun t => t.kind ≠ .eof))

end GqlModel.Grammar
