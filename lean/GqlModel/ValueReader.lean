import GqlModel.Ast
/-! # A small reference reader for the value and type sub-languages (C08, round trip independent of the parser model)

`readValue` / `readType` read one value literal / one type reference from a character list and return the AST
(all locations `Loc.none`) together with the unread rest.  They are written directly after the GraphQL grammar as the
real lexer + `parseValueLiteral` / `parseType` implement it for the text the printer emits:

* Ignored between tokens: space, TAB, LF, CR, comma (no comments, no BOM: the printer never emits them);
* Name `[_A-Za-z][_0-9A-Za-z]*`; `true` / `false` are booleans, `null` is rejected (parser.go:610), every other name
  is an enum value; `$` Name is a variable;
* numbers exactly as `readNumber` (lexer.go:139): `-?(0|[1-9][0-9]*)(\.[0-9]+)?([eE][+-]?[0-9]+)?`, a digit after a
  leading `0` is an error;
* `"…"` strings with the escapes of `readString` (`\" \/ \\ \b \f \n \r \t \uXXXX`), raw control characters other
  than TAB rejected; block strings are not handled (the printer never emits them for values);
* `[` Value* `]`, `{` (Name `:` Value)* `}`;
* types: Name | `[` Type `]`, each optionally followed by `!`.

Recursion is on an explicit fuel argument; `readValueTop`/`readTypeTop` supply `2·length + 2` / `length + 1`, which
always suffices because every recursive call happens after at least one character was consumed. -/
namespace GqlModel.Reader

abbrev Chars := List Char

def isDigit (c : Char) : Bool := 48 ≤ c.toNat && c.toNat ≤ 57
def isNameStart (c : Char) : Bool :=
  c.toNat = 95 || (65 ≤ c.toNat && c.toNat ≤ 90) || (97 ≤ c.toNat && c.toNat ≤ 122)
def isNameCont (c : Char) : Bool := isNameStart c || isDigit c
def isIgnored (c : Char) : Bool := c = ' ' || c = ',' || c = '\n' || c = '\r' || c = '\t'

def skipIgnored : Chars → Chars
  | [] => []
  | c :: cs => if isIgnored c then skipIgnored cs else c :: cs

/-- longest prefix satisfying `p`, and the rest -/
def spanC (p : Char → Bool) : Chars → Chars × Chars
  | [] => ([], [])
  | c :: cs => if p c then ((spanC p cs).1.cons c, (spanC p cs).2) else ([], c :: cs)

/-- a Name token at the head of the input -/
def readName (cs : Chars) : Option (Chars × Chars) :=
  match cs with
  | c :: r => if isNameStart c then some (c :: (spanC isNameCont r).1, (spanC isNameCont r).2) else none
  | [] => none

/-! ## numbers (`readNumber`, `readDigits`) -/

def readDigits (cs : Chars) : Option (Chars × Chars) :=
  if (spanC isDigit cs).1.isEmpty then none else some (spanC isDigit cs)

/-- integer part after the optional sign -/
def readIntPart (cs : Chars) : Option (Chars × Chars) :=
  match cs with
  | c :: r =>
    if c = '0' then
      match r with
      | d :: _ => if isDigit d then none else some (['0'], r)
      | [] => some (['0'], r)
    else readDigits cs
  | [] => none

/-- optional fraction: text, rest, present? -/
def readFrac (cs : Chars) : Option (Chars × Chars × Bool) :=
  match cs with
  | c :: r => if c = '.' then (readDigits r).map (fun p => ('.' :: p.1, p.2, true)) else some ([], cs, false)
  | [] => some ([], cs, false)

def readExpSign (cs : Chars) : Chars × Chars :=
  match cs with
  | s :: r => if s = '+' ∨ s = '-' then ([s], r) else ([], cs)
  | [] => ([], cs)

/-- optional exponent: text, rest, present? -/
def readExp (cs : Chars) : Option (Chars × Chars × Bool) :=
  match cs with
  | e :: r =>
    if e = 'e' ∨ e = 'E' then
      (readDigits (readExpSign r).2).map (fun p => (e :: (readExpSign r).1 ++ p.1, p.2, true))
    else some ([], cs, false)
  | [] => some ([], cs, false)

def readSign (cs : Chars) : Chars × Chars :=
  match cs with
  | c :: r => if c = '-' then (['-'], r) else ([], cs)
  | [] => ([], cs)

/-- `readNumber`: is it a FLOAT, the token text, the rest -/
def readNumber (cs : Chars) : Option (Bool × Chars × Chars) :=
  match readIntPart (readSign cs).2 with
  | none => none
  | some (ip, cs2) =>
    match readFrac cs2 with
    | none => none
    | some (fp, cs3, f1) =>
      match readExp cs3 with
      | none => none
      | some (ep, cs4, f2) => some (f1 || f2, (readSign cs).1 ++ ip ++ fp ++ ep, cs4)

/-! ## strings (`readString`) -/

def hexValC (c : Char) : Option Nat :=
  if 48 ≤ c.toNat ∧ c.toNat ≤ 57 then some (c.toNat - 48)
  else if 65 ≤ c.toNat ∧ c.toNat ≤ 70 then some (c.toNat - 55)
  else if 97 ≤ c.toNat ∧ c.toNat ≤ 102 then some (c.toNat - 87)
  else none

/-- `WriteRune`: surrogate halves become U+FFFD -/
def runeOf (cp : Nat) : Char := if 0xD800 ≤ cp ∧ cp < 0xE000 then Char.ofNat 0xFFFD else Char.ofNat cp

def unescapeC : Chars → Option (Char × Chars)
  | [] => none
  | c :: rest =>
    if c = '"' then some ('"', rest)
    else if c = '/' then some ('/', rest)
    else if c = '\\' then some ('\\', rest)
    else if c = 'b' then some (Char.ofNat 8, rest)
    else if c = 'f' then some (Char.ofNat 12, rest)
    else if c = 'n' then some ('\n', rest)
    else if c = 'r' then some ('\r', rest)
    else if c = 't' then some ('\t', rest)
    else if c = 'u' then
      match rest with
      | a :: b :: c' :: d :: rest' =>
        match hexValC a, hexValC b, hexValC c', hexValC d with
        | some x, some y, some z, some w => some (runeOf (x * 4096 + y * 256 + z * 16 + w), rest')
        | _, _, _, _ => none
      | _ => none
    else none

/-- body of a `"…"` literal after the opening quote -/
def unquoteBodyC : Nat → Chars → Option (Chars × Chars)
  | 0, _ => none
  | _+1, [] => none
  | n+1, c :: rest =>
    if c = '"' then some ([], rest)
    else if c = '\\' then
      match unescapeC rest with
      | none => none
      | some (x, rest') => (unquoteBodyC n rest').map (fun p => (x :: p.1, p.2))
    else if c = '\n' ∨ c = '\r' then none
    else if c.toNat < 32 ∧ c ≠ '\t' then none
    else (unquoteBodyC n rest).map (fun p => (c :: p.1, p.2))

/-- a `"…"` literal at the head of the input: decoded value and rest -/
def unquoteC (cs : Chars) : Option (Chars × Chars) :=
  match cs with
  | c :: rest => if c = '"' then unquoteBodyC (rest.length + 1) rest else none
  | [] => none

/-! ## types -/

/-- optional `!` after a type -/
def readBang (t : TypeRef) (cs : Chars) : TypeRef × Chars :=
  match skipIgnored cs with
  | c :: r => if c = '!' then (.nonNull t Loc.none, r) else (t, cs)
  | [] => (t, cs)

def readType : Nat → Chars → Option (TypeRef × Chars)
  | 0, _ => none
  | n+1, cs =>
    match skipIgnored cs with
    | [] => none
    | c :: r =>
      if c = '[' then
        match readType n r with
        | none => none
        | some (t, r1) =>
          match skipIgnored r1 with
          | c1 :: r2 => if c1 = ']' then some (readBang (.list t Loc.none) r2) else none
          | [] => none
      else
        match readName (c :: r) with
        | none => none
        | some (nm, r1) => some (readBang (.named (String.ofList nm) Loc.none) r1)

def readTypeTop (cs : Chars) : Option (TypeRef × Chars) := readType (cs.length + 1) cs

/-! ## values -/

def trueC : Chars := ['t', 'r', 'u', 'e']
def falseC : Chars := ['f', 'a', 'l', 's', 'e']
def nullC : Chars := ['n', 'u', 'l', 'l']

/-- scalar literal (everything except lists and objects) at a non-ignored head -/
def readScalar (cs : Chars) : Option (Value × Chars) :=
  match cs with
  | [] => none
  | c :: r =>
    if c = '$' then
      (readName (skipIgnored r)).map (fun p => (.var (String.ofList p.1) Loc.none, p.2))
    else if c = '"' then
      (unquoteC cs).map (fun p => (.str (String.ofList p.1) Loc.none, p.2))
    else if c = '-' ∨ isDigit c then
      (readNumber cs).map (fun p =>
        (if p.1 then .float (String.ofList p.2.1) Loc.none else .int (String.ofList p.2.1) Loc.none, p.2.2))
    else
      match readName cs with
      | none => none
      | some (nm, r1) =>
        if nm = trueC then some (.bool true Loc.none, r1)
        else if nm = falseC then some (.bool false Loc.none, r1)
        else if nm = nullC then none
        else some (.enum (String.ofList nm) Loc.none, r1)

mutual
def readValue : Nat → Chars → Option (Value × Chars)
  | 0, _ => none
  | n+1, cs =>
    match skipIgnored cs with
    | [] => none
    | c :: r =>
      if c = '[' then (readList n r).map (fun p => (.list p.1 Loc.none, p.2))
      else if c = '{' then (readFields n r).map (fun p => (.obj p.1 Loc.none, p.2))
      else readScalar (c :: r)
/-- `Value* ]` -/
def readList : Nat → Chars → Option (List Value × Chars)
  | 0, _ => none
  | n+1, cs =>
    match skipIgnored cs with
    | [] => none
    | c :: r =>
      if c = ']' then some ([], r)
      else
        match readValue n (c :: r) with
        | none => none
        | some (v, r1) => (readList n r1).map (fun p => (v :: p.1, p.2))
/-- `(Name : Value)* }` -/
def readFields : Nat → Chars → Option (List ObjField × Chars)
  | 0, _ => none
  | n+1, cs =>
    match skipIgnored cs with
    | [] => none
    | c :: r =>
      if c = '}' then some ([], r)
      else
        match readName (c :: r) with
        | none => none
        | some (nm, r1) =>
          match skipIgnored r1 with
          | c1 :: r2 =>
            if c1 = ':' then
              match readValue n r2 with
              | none => none
              | some (v, r3) =>
                (readFields n r3).map (fun p => (.mk ⟨String.ofList nm, Loc.none⟩ v Loc.none :: p.1, p.2))
            else none
          | [] => none
end

def readValueTop (cs : Chars) : Option (Value × Chars) := readValue (2 * cs.length + 2) cs

/-! ## well-formedness of the leaves (what the lexer guarantees for parser-produced trees) -/

/-- `[_A-Za-z][_0-9A-Za-z]*` -/
def isNameC (cs : Chars) : Bool :=
  match cs with
  | c :: r => isNameStart c && r.all isNameCont
  | [] => false

/-- `0 | [1-9][0-9]*` -/
def isIntBody (cs : Chars) : Bool :=
  match cs with
  | c :: r => if c = '0' then r.isEmpty else isDigit c && r.all isDigit
  | [] => false

/-- IntValue: `-?(0|[1-9][0-9]*)` -/
def isIntLit (cs : Chars) : Bool :=
  match cs with
  | c :: r => if c = '-' then isIntBody r else isIntBody cs
  | [] => false

/-- `.[0-9]+` -/
def isFracPart (cs : Chars) : Bool :=
  match cs with
  | c :: ds => c = '.' && !ds.isEmpty && ds.all isDigit
  | [] => false

/-- `[eE][+-]?[0-9]+` -/
def isExpPart (cs : Chars) : Bool :=
  match cs with
  | e :: r =>
    (e = 'e' || e = 'E') &&
      (match r with
       | s :: ds => if s = '+' ∨ s = '-' then !ds.isEmpty && ds.all isDigit else r.all isDigit
       | [] => false)
  | [] => false

/-- FloatValue: integer part, then a fraction, an exponent, or both -/
def IsFloatLit (cs : Chars) : Prop :=
  ∃ ip fp ep, cs = ip ++ fp ++ ep ∧ isIntLit ip = true ∧ (fp = [] ∨ isFracPart fp = true) ∧
    (ep = [] ∨ isExpPart ep = true) ∧ (fp ≠ [] ∨ ep ≠ [])

mutual
/-- names are GraphQL names (enum values not `true`/`false`/`null`), number texts are well-formed; string contents are arbitrary -/
def WFValue : Value → Prop
  | .var n _ => isNameC n.toList = true
  | .int r _ => isIntLit r.toList = true
  | .float r _ => IsFloatLit r.toList
  | .str _ _ => True
  | .bool _ _ => True
  | .enum v _ => isNameC v.toList = true ∧ v.toList ≠ trueC ∧ v.toList ≠ falseC ∧ v.toList ≠ nullC
  | .list vs _ => WFValues vs
  | .obj fs _ => WFFields fs
def WFValues : List Value → Prop
  | [] => True
  | v :: vs => WFValue v ∧ WFValues vs
def WFField : ObjField → Prop
  | .mk n v _ => isNameC n.value.toList = true ∧ WFValue v
def WFFields : List ObjField → Prop
  | [] => True
  | f :: fs => WFField f ∧ WFFields fs
end

/-- named types are GraphQL names; `!` is never applied twice (the parser cannot produce `T!!`) -/
def WFType : TypeRef → Prop
  | .named n _ => isNameC n.toList = true
  | .list t _ => WFType t
  | .nonNull t _ => WFType t ∧ (match t with | .nonNull _ _ => False | _ => True)

/-- what may follow a Name or number token without being absorbed into it -/
def Delim (rest : Chars) : Prop :=
  match rest with
  | [] => True
  | c :: _ => isNameCont c = false ∧ c ≠ '.'

/-- what may follow a type reference: additionally no `!` after optional ignored characters -/
def TypeDelim (rest : Chars) : Prop :=
  Delim rest ∧ (match skipIgnored rest with | c :: _ => c ≠ '!' | [] => True)

end GqlModel.Reader
