import GqlModel.Exec
/-! # Conformance of a response to schema and query (C04)

`Conforms c t nodes v` — the specification, an inductive relation: the value `v` at a response position of declared
type `t`, produced for the merged field occurrences `nodes`, is well-formed:

* a non-null position is never `null`;
* a list position holds a list (every element conforming to the item type) or `null`;
* a leaf position holds `null` or a legal serialisation of its type (`legalLeaf`: Int — an integer within 32 bits;
  Float — a number; String/ID — a string; Boolean — a boolean; custom scalar — an output of its serialize table;
  enum — one of its value names);
* an object position holds `null` or an object whose every key is a response key of the merged sub-selection
  (`collectMerged`) for the position's object type — for an abstract position: for SOME possible object type of it —
  and whose value under that key conforms to the type of the field the key selects (`__typename` holds that type's name).

`conformsB` is the executable checker (fuel = nesting depth of the data), run by the driver on the REAL executor's
output; `GqlProofs/ExecConforms.lean` proves it sound for `Conforms`. -/
namespace GqlModel.Exec
open GqlModel.Coerce

/-- legal non-null serialisations of a leaf type -/
def legalLeaf (s : Schema) (n : String) (v : JVal) : Bool :=
  match s.find? n with
  | some (.scalar _ k _) =>
    (match k with
    | .int => (match v with | .int i => inInt32 i | _ => false)
    | .float => (match v with | .int _ => true | .dec _ _ => true | _ => false)
    | .string | .id => (match v with | .str _ => true | _ => false)
    | .boolean => (match v with | .bool _ => true | _ => false)
    | .custom ser _ _ => ser.any (fun p => p.2 == v))
  | some (.enum _ vals _) => (match v with | .str x => vals.any (fun ev => ev.name == x) | _ => false)
  | _ => false

mutual
inductive Conforms (c : Ctx) : GType → List FieldNode → JVal → Prop
  | nonNull {t nodes v} : v ≠ .null → Conforms c t nodes v → Conforms c (.nonNull t) nodes v
  | listNull {t nodes} : Conforms c (.list t) nodes .null
  | list {t nodes xs} : (∀ x, x ∈ xs → Conforms c t nodes x) → Conforms c (.list t) nodes (.list xs)
  | null {n nodes} : Conforms c (.named n) nodes .null
  | leaf {n nodes v} : c.schema.isLeaf n = true → legalLeaf c.schema n v = true → Conforms c (.named n) nodes v
  | object {n nodes fs} : c.schema.isObject n = true →
      (∀ kv, kv ∈ fs → FieldConforms c n (collectMerged c n nodes) kv.1 kv.2) → Conforms c (.named n) nodes (.obj fs)
  | abstract {n ot nodes fs} : c.schema.isAbstract n = true → c.schema.isObject ot = true →
      c.schema.isPossibleType n ot = true →
      (∀ kv, kv ∈ fs → FieldConforms c ot (collectMerged c ot nodes) kv.1 kv.2) → Conforms c (.named n) nodes (.obj fs)
/-- the entry `k : v` of an object of runtime type `ot` produced for the collected `groups` -/
inductive FieldConforms (c : Ctx) : String → Groups → String → JVal → Prop
  | typename {ot groups k ns node} : (k, ns) ∈ groups → ns.head? = some node → node.name = "__typename" →
      FieldConforms c ot groups k (.str ot)
  | field {ot groups k ns node fd v} : (k, ns) ∈ groups → ns.head? = some node → node.name ≠ "__typename" →
      fieldDef? c.schema ot node.name = some fd → Conforms c fd.type ns v → FieldConforms c ot groups k v
end

/-- a whole object (also: the response's `data`) -/
def FieldsConform (c : Ctx) (ot : String) (groups : Groups) (fs : List (String × JVal)) : Prop :=
  ∀ kv, kv ∈ fs → FieldConforms c ot groups kv.1 kv.2

/-! ## The checker -/

def fieldConformB (c : Ctx) (self : GType → List FieldNode → JVal → Bool) (ot : String) (groups : Groups)
    (k : String) (v : JVal) : Bool :=
  groups.any (fun g => g.1 == k &&
    match g.2.head? with
    | none => false
    | some node =>
      if node.name == "__typename" then (match v with | .str x => x == ot | _ => false)
      else match fieldDef? c.schema ot node.name with
        | none => false
        | some fd => self fd.type g.2 v)

def fieldsConformB (c : Ctx) (self : GType → List FieldNode → JVal → Bool) (ot : String) (groups : Groups)
    (fs : List (String × JVal)) : Bool :=
  fs.all (fun kv => fieldConformB c self ot groups kv.1 kv.2)

/-- one level of object nesting; `self` checks the values of the fields of an object -/
def conformsStep (c : Ctx) (self : GType → List FieldNode → JVal → Bool) : GType → List FieldNode → JVal → Bool
  | .nonNull t, nodes, v => !v.isNull && conformsStep c self t nodes v
  | .list t, nodes, v =>
    (match v with
    | .null => true
    | .list xs => xs.all (conformsStep c self t nodes)
    | _ => false)
  | .named n, nodes, v =>
    (match v with
    | .null => true
    | _ =>
      if c.schema.isLeaf n then legalLeaf c.schema n v
      else match v with
        | .obj fs =>
          if c.schema.isAbstract n then
            (c.schema.possibleTypes n).any (fun ot =>
              c.schema.isObject ot && fieldsConformB c self ot (collectMerged c ot nodes) fs)
          else if c.schema.isObject n then fieldsConformB c self n (collectMerged c n nodes) fs
          else false
        | _ => false)

def conformsF (c : Ctx) : Nat → GType → List FieldNode → JVal → Bool
  | 0 => fun _ _ _ => false
  | n + 1 => conformsStep c (conformsF c n)

/-- the checker at a position (fuel ≥ object nesting depth of `v` + 1 is enough) -/
def conformsB (c : Ctx) (fuel : Nat) (t : GType) (nodes : List FieldNode) (v : JVal) : Bool := conformsF c fuel t nodes v

/-! ## Request level -/

/-- what `execute` computes before it runs a resolver: context (coerced variables, fragments), root type, root selection -/
def requestCtx (s : Schema) (doc : Document) (opName : String) (inputs : Vars) (w : World) :
    Option (Ctx × String × SelectionSet) :=
  match selectOperation doc opName with
  | .ok (.operation op _ varDefs _ sel _) =>
    (match s.rootFor op.toString with
    | none => none
    | some root =>
      match getVariableValues s varDefs inputs with
      | .error _ => none
      | .ok vars => some ({ schema := s, frags := doc.fragments, vars := vars, world := w }, root, sel))
  | _ => none

def rootGroups (c : Ctx) (root : String) (sel : SelectionSet) : Groups := (collect c root sel ([], [])).1

/-- driver op: does `data` (the REAL executor's output) conform to the request's root selection? -/
def conformsData (s : Schema) (doc : Document) (opName : String) (inputs : Vars) (w : World)
    (data : List (String × JVal)) : Bool :=
  match requestCtx s doc opName inputs w with
  | none => false
  | some (c, root, sel) =>
    fieldsConformB c (conformsF c (odepthFields data + 1)) root (rootGroups c root sel) data

end GqlModel.Exec
