import GqlModel.Printer
/-! # Token-level view of the printer

`docI d` is the printed document as a list of *items*: tokens (kind, value as the lexer would report it, and the
text the token is written with) and separators (runs of Ignored characters: spaces, newlines, commas).
Every function is the `…C` function of `GqlModel/Printer.lean` with strings replaced by item lists, written with the
same helpers (`joinI`/`wrapI`/`blockI`/`indentI` drop, wrap and indent exactly where `join`/`wrap`/`block`/`indent`
do; emptiness is emptiness of the rendered text).  `GqlProofs/PrinterTokens.lean` proves `render (docI d) = documentC d`
and that every separator consists of Ignored characters only.

`printTokens d` is the token sequence (kind, value) — what the round-trip proof composes with the parser model.
Values follow `GqlModel/Token.lean`: the text for NAME / INT / FLOAT, the decoded string for STRING / BLOCK_STRING,
empty for punctuators.  A description is one BLOCK_STRING token when it is block-safe and one STRING token otherwise;
its text is what `descC` prints (for block strings the text depends on the indentation of the enclosing blocks, which
is why items carry their text). -/
namespace GqlModel.Printer

inductive Item where
  | tok (kind : TokenKind) (value : String) (text : Chars)
  | sep (text : Chars)
deriving Repr

def Item.text : Item → Chars
  | .tok _ _ t => t
  | .sep t => t

def render : List Item → Chars
  | [] => []
  | i :: is => i.text ++ render is

def Item.indent : Item → Item
  | .tok k v t => .tok k v (indentC t)
  | .sep t => .sep (indentC t)

def indentI (is : List Item) : List Item := is.map Item.indent

/-- tokens of an item list, in order -/
def tokensOf : List Item → List (TokenKind × String)
  | [] => []
  | .tok k v _ :: is => (k, v) :: tokensOf is
  | .sep _ :: is => tokensOf is

/-- punctuator -/
def pI (k : TokenKind) (text : Chars) : List Item := [.tok k "" text]
/-- NAME token from an AST string -/
def nI (s : String) : List Item := [.tok .name s s.toList]
/-- NAME token for a keyword -/
def kI (s : Chars) : List Item := [.tok .name (String.ofList s) s]
/-- separator -/
def sI (s : Chars) : List Item := [.sep s]

def interI (sep : List Item) : List (List Item) → List Item
  | [] => []
  | [x] => x
  | x :: y :: rest => x ++ sep ++ interI sep (y :: rest)

def joinI (xs : List (List Item)) (sep : List Item) : List Item :=
  interI sep (xs.filter (fun x => !(render x).isEmpty))

def wrapI (start mid stop : List Item) : List Item := if (render mid).isEmpty then [] else start ++ mid ++ stop

def blockI (xs : List (List Item)) : List Item :=
  if xs.isEmpty then pI .braceL ['{'] ++ pI .braceR ['}']
  else indentI (pI .braceL ['{'] ++ sI ['\n'] ++ joinI xs (sI ['\n'])) ++ sI ['\n'] ++ pI .braceR ['}']

def spI : List Item := sI [' ']
def commaSpI : List Item := sI [',', ' ']
def colonSpI : List Item := pI .colon [':'] ++ sI [' ']

/-- a description: one BLOCK_STRING token when block-safe, one STRING token otherwise -/
def descI (d : Option String) : List Item :=
  match d with
  | none => []
  | some s => [.tok (if descBlockSafeC s.toList then .blockString else .string) s (descC (some s))]

def withDescTopI (d : Option String) (str : List Item) : List Item :=
  if (render (descI d)).isEmpty then str else descI d ++ sI ['\n'] ++ str

def withDescMemberI (d : Option String) (str : List Item) : List Item :=
  if (render (descI d)).isEmpty then str else sI ['\n'] ++ descI d ++ sI ['\n'] ++ str

def typeI : TypeRef → List Item
  | .named n _ => nI n
  | .list t _ => pI .bracketL ['['] ++ typeI t ++ pI .bracketR [']']
  | .nonNull t _ => typeI t ++ pI .bang ['!']

def optTypeI : Option TypeRef → List Item
  | none => []
  | some t => typeI t

mutual
def valueI : Value → List Item
  | .var n _ => pI .dollar ['$'] ++ nI n
  | .int raw _ => [.tok .int raw raw.toList]
  | .float raw _ => [.tok .float raw raw.toList]
  | .str s _ => [.tok .string s (quoteC s.toList)]
  | .bool b _ => if b then kI ['t', 'r', 'u', 'e'] else kI ['f', 'a', 'l', 's', 'e']
  | .enum v _ => nI v
  | .list vs _ => pI .bracketL ['['] ++ joinI (valuesI vs) commaSpI ++ pI .bracketR [']']
  | .obj fs _ => pI .braceL ['{'] ++ joinI (fieldsI fs) commaSpI ++ pI .braceR ['}']
def valuesI : List Value → List (List Item)
  | [] => []
  | v :: vs => valueI v :: valuesI vs
def fieldI : ObjField → List Item
  | .mk n v _ => nI n.value ++ colonSpI ++ valueI v
def fieldsI : List ObjField → List (List Item)
  | [] => []
  | f :: fs => fieldI f :: fieldsI fs
end

def optValueI : Option Value → List Item
  | none => []
  | some v => valueI v

def argI (a : Argument) : List Item := nI a.name.value ++ colonSpI ++ valueI a.value

def directiveI (d : Directive) : List Item :=
  pI .at ['@'] ++ nI d.name.value ++ wrapI (pI .parenL ['(']) (joinI (d.args.map argI) commaSpI) (pI .parenR [')'])

def directivesI (ds : List Directive) : List Item := joinI (ds.map directiveI) spI

def optNameI : Option Name → List Item
  | none => []
  | some n => nI n.value

def spreadI : List Item := pI .spread ['.', '.', '.']

mutual
def selectionI : Selection → List Item
  | .field alias name args dirs sel _ =>
    joinI [wrapI [] (optNameI alias) colonSpI ++ nI name.value ++
             wrapI (pI .parenL ['(']) (joinI (args.map argI) commaSpI) (pI .parenR [')']),
           directivesI dirs,
           optSelSetI sel] spI
  | .spread name dirs _ => spreadI ++ nI name.value ++ wrapI spI (directivesI dirs) []
  | .inline tc dirs sel _ =>
    joinI [spreadI, wrapI (kI kwOnW ++ spI) (optTypeI tc) [], directivesI dirs, selSetI sel] spI
def selSetI : SelectionSet → List Item
  | .mk sels _ => blockI (selectionsI sels)
def optSelSetI : Option SelectionSet → List Item
  | none => []
  | some s => selSetI s
def selectionsI : List Selection → List (List Item)
  | [] => []
  | s :: ss => selectionI s :: selectionsI ss
end

def varDefI (v : VarDef) : List Item :=
  pI .dollar ['$'] ++ nI v.var.value ++ colonSpI ++ optTypeI v.type ++
    wrapI (spI ++ (pI .equals ['='] ++ spI)) (optValueI v.default) []

def inputValueDefI (d : InputValueDef) : List Item :=
  withDescMemberI d.description
    (joinI [nI d.name.value ++ colonSpI ++ typeI d.type, wrapI (pI .equals ['='] ++ spI) (optValueI d.default) [],
            directivesI d.dirs] spI)

def argDefsI (args : List InputValueDef) : List Item :=
  if hasArgDesc args then
    wrapI (pI .parenL ['(']) (indentI (sI ['\n'] ++ joinI (args.map inputValueDefI) (sI ['\n']))) (sI ['\n'] ++ pI .parenR [')'])
  else wrapI (pI .parenL ['(']) (joinI (args.map inputValueDefI) commaSpI) (pI .parenR [')'])

def fieldDefI (d : FieldDef) : List Item :=
  withDescMemberI d.description
    (nI d.name.value ++ argDefsI d.args ++ colonSpI ++ typeI d.type ++ wrapI spI (directivesI d.dirs) [])

def enumValueDefI (d : EnumValueDef) : List Item :=
  withDescMemberI d.description (joinI [nI d.name.value, directivesI d.dirs] spI)

def opTypeDefI (d : OpTypeDef) : List Item := kI d.operation.toString.toList ++ colonSpI ++ typeI d.type

def operationI (op : OpType) (name : Option Name) (vars : List VarDef) (dirs : List Directive) (sel : SelectionSet) :
    List Item :=
  let nameS := optNameI name
  let varDefs := wrapI (pI .parenL ['(']) (joinI (vars.map varDefI) commaSpI) (pI .parenR [')'])
  let directives := directivesI dirs
  let selectionSet := selSetI sel
  if (render nameS).isEmpty && (render directives).isEmpty && (render varDefs).isEmpty && op == .query then selectionSet
  else joinI [kI op.toString.toList, joinI [nameS, varDefs] [], directives, selectionSet] spI

def onI : List Item := spI ++ kI kwOnW ++ spI
def ampI : List Item := spI ++ pI .amp ['&'] ++ spI
def pipeI : List Item := spI ++ pI .pipe ['|'] ++ spI

def fragmentI (name : Name) (tc : TypeRef) (dirs : List Directive) (sel : SelectionSet) : List Item :=
  kI kwFragmentW ++ spI ++ nI name.value ++ onI ++ typeI tc ++ spI ++ wrapI [] (directivesI dirs) spI ++ selSetI sel

def schemaI (dirs : List Directive) (ops : List OpTypeDef) : List Item :=
  joinI [kI kwSchema, directivesI dirs, blockI (ops.map opTypeDefI)] spI

def scalarI (desc : Option String) (name : Name) (dirs : List Directive) : List Item :=
  withDescTopI desc (joinI [kI kwScalar, nI name.value, directivesI dirs] spI)

def objectDefI (d : ObjectDef) : List Item :=
  withDescTopI d.description
    (joinI [kI kwType, nI d.name.value,
            wrapI (kI kwImplementsW ++ spI) (joinI (d.interfaces.map typeI) ampI) [],
            directivesI d.dirs, blockI (d.fields.map fieldDefI)] spI)

def interfaceI (desc : Option String) (name : Name) (dirs : List Directive) (fields : List FieldDef) : List Item :=
  withDescTopI desc (joinI [kI kwInterface, nI name.value, directivesI dirs, blockI (fields.map fieldDefI)] spI)

def unionI (desc : Option String) (name : Name) (dirs : List Directive) (types : List TypeRef) : List Item :=
  withDescTopI desc (joinI [kI kwUnion, nI name.value, directivesI dirs,
                            pI .equals ['='] ++ spI ++ joinI (types.map typeI) pipeI] spI)

def enumI (desc : Option String) (name : Name) (dirs : List Directive) (values : List EnumValueDef) : List Item :=
  withDescTopI desc (joinI [kI kwEnum, nI name.value, directivesI dirs, blockI (values.map enumValueDefI)] spI)

def inputObjectI (desc : Option String) (name : Name) (dirs : List Directive) (fields : List InputValueDef) : List Item :=
  withDescTopI desc (joinI [kI kwInput, nI name.value, directivesI dirs, blockI (fields.map inputValueDefI)] spI)

def extendI (d : ObjectDef) : List Item := kI kwExtendW ++ spI ++ objectDefI d

def directiveDefI (desc : Option String) (name : Name) (args : List InputValueDef) (locations : List Name) : List Item :=
  withDescTopI desc (kI kwDirectiveW ++ spI ++ pI .at ['@'] ++ nI name.value ++ argDefsI args ++ onI ++
                     joinI (locations.map (fun n => nI n.value)) pipeI)

def definitionI : Definition → List Item
  | .operation op name vars dirs sel _ => operationI op name vars dirs sel
  | .fragment name tc dirs sel _ => fragmentI name tc dirs sel
  | .schema dirs ops _ => schemaI dirs ops
  | .scalar desc name dirs _ => scalarI desc name dirs
  | .object d => objectDefI d
  | .interface desc name dirs fields _ => interfaceI desc name dirs fields
  | .union desc name dirs types _ => unionI desc name dirs types
  | .enum desc name dirs values _ => enumI desc name dirs values
  | .inputObject desc name dirs fields _ => inputObjectI desc name dirs fields
  | .extend d _ => extendI d
  | .directive desc name args locations _ => directiveDefI desc name args locations

def docI (d : Document) : List Item := joinI (d.defs.map definitionI) (sI ['\n', '\n']) ++ sI ['\n']

/-- the token sequence (kind, value) the printed text consists of -/
def printTokens (d : Document) : List (TokenKind × String) := tokensOf (docI d)
def printValueTokens (v : Value) : List (TokenKind × String) := tokensOf (valueI v)
def printTypeTokens (t : TypeRef) : List (TokenKind × String) := tokensOf (typeI t)

/-- Ignored characters the printer uses between tokens -/
def isIgnoredChar (c : Char) : Bool := c == ' ' || c == '\n' || c == ','

/-- every separator of the item list consists of Ignored characters only -/
def sepsIgnored : List Item → Bool
  | [] => true
  | .tok _ _ _ :: is => sepsIgnored is
  | .sep t :: is => t.all isIgnoredChar && sepsIgnored is

end GqlModel.Printer
