/-! # C06 — the plan cache (`/repo/plan_cache.go`) as an executable model (M) and its specification (S)

`S` (specification): no cache at all — every `Get` is `build s q op` (= `planAndValidate`, parse + validate +
plan from scratch).  `M` (this file): `PlanCache` function by function.

Representation.  Go keeps `entries map[string]*list.Element` plus `order *list.List` (front = most recently
used).  The model keeps the `order` list only (`items`, MRU first); `entries[key]` is "the first element of
`items` with that key" (`findKey`), `order.Remove(el)`/`delete(entries,key)` is `removeKey` (removes exactly that
one element).  Theorem `keys_nodup` shows that every reachable `items` has pairwise distinct keys, i.e. the map and
the list of the Go code stay in bijection, which is what justifies the single-list representation.

* strings are byte strings (`Bytes = List UInt8`): `len(query)`, `len(operationName)` are byte lengths in Go;
* a schema is its pointer identity `S` (any type with decidable equality; the harness uses fresh numbers);
* a cached `PlanResult` is an abstract `R`; `build : S → Bytes → Bytes → R` is the from-scratch pipeline;
* the mutex is not modelled (single-threaded histories; concurrency is property C07);
* `hits`/`misses` are the two atomic counters.

Normalisation (`plan_cache_normalize.go`) is *opaque* in the cache model: `NormOut` is what the parse +
`normalizeDocument` prefix of `Get` delivers for this request (parse error / normalise error / `(normKey,
synthArgs)`); the cache logic around it (FNV fallback key for `normKey = ""`, `opName ++ "\x00" ++ normKey`,
lookup, per-call synthetic arguments, store without them) is modelled.  The second half of the file models the
*structural fingerprint* writer (`fingerprintDocument`, plan_cache_normalize.go:129-317) over a small document
AST, as a function to the byte string that is fed to FNV-1a — enough to state which parts of a document do
and do not participate in the key (after the repairs of D-06b/c/g: directives, variable defaults and
length-prefixed string contents do). -/
namespace GqlModel.PlanCache

abbrev Bytes := List UInt8

/-! ## Decimal and hexadecimal rendering, FNV-1a (strconv.Itoa, strconv.FormatUint(·,16), hash/fnv) -/

/-- ASCII digit of `d < 10` (`'0'` = 48). -/
def digit (d : Nat) : UInt8 :=
  match d with
  | 0 => 48 | 1 => 49 | 2 => 50 | 3 => 51 | 4 => 52 | 5 => 53 | 6 => 54 | 7 => 55 | 8 => 56 | _ => 57

/-- `strconv.Itoa n` for `n ≥ 0`, by recursion on fuel (`fuel > n` always suffices). -/
def decAux : Nat → Nat → Bytes
  | 0, _ => []
  | f+1, n => if n < 10 then [digit n] else decAux f (n / 10) ++ [digit (n % 10)]

def dec (n : Nat) : Bytes := decAux (n + 1) n

/-- lower-case hex digit of `d < 16`. -/
def hexDigit (d : Nat) : UInt8 :=
  if d < 10 then digit d else
  match d with
  | 10 => 97 | 11 => 98 | 12 => 99 | 13 => 100 | 14 => 101 | _ => 102

def hexAux : Nat → Nat → Bytes
  | 0, _ => []
  | f+1, n => if n < 16 then [hexDigit n] else hexAux f (n / 16) ++ [hexDigit (n % 16)]

/-- `strconv.FormatUint(n, 16)`. -/
def hex (n : Nat) : Bytes := hexAux (n + 1) n

/-- 64-bit FNV-1a (`hash/fnv.New64a`): offset basis 14695981039346656037, prime 1099511628211. -/
def fnv1a64 (bs : Bytes) : UInt64 :=
  bs.foldl (fun h b => (h ^^^ b.toUInt64) * 1099511628211) 14695981039346656037

/-! ## Cache state -/

structure Entry (S R : Type) where
  key : Bytes
  schema : S
  res : R
deriving Repr

/-- `PlanCacheOptions` as given by the caller (plan_cache.go:49-53). -/
structure Opts where
  maxEntries : Int
  maxQueryBytes : Int
  normalize : Bool
deriving Repr, DecidableEq

def defaultMaxEntries : Nat := 1024
def defaultMaxQueryBytes : Nat := 64 * 1024

/-- a non-nil `*PlanCache`; `cap`/`maxBytes` are `opts.MaxEntries`/`opts.MaxQueryBytes` *after* `NewPlanCache`
replaced non-positive values by the defaults. `maxBytes` stays an `Int` because `shouldCache` still tests `<= 0`. -/
structure Cache (S R : Type) where
  cap : Nat
  maxBytes : Int
  normalize : Bool
  items : List (Entry S R)
  hits : Nat
  misses : Nat

variable {S R A : Type} [DecidableEq S]

/-- `NewPlanCache` (plan_cache.go:86-98). -/
def newPlanCache (o : Opts) : Cache S R :=
  { cap := if o.maxEntries ≤ 0 then defaultMaxEntries else o.maxEntries.toNat
    maxBytes := if o.maxQueryBytes ≤ 0 then (defaultMaxQueryBytes : Int) else o.maxQueryBytes
    normalize := o.normalize
    items := [], hits := 0, misses := 0 }

/-- `shouldCache` (plan_cache.go:213-215). -/
def shouldCache (c : Cache S R) (querySize : Nat) : Bool :=
  decide (c.maxBytes ≤ 0) || decide ((querySize : Int) ≤ c.maxBytes)

/-- `entries[key]`: the element the map points to. -/
def findKey (k : Bytes) : List (Entry S R) → Option (Entry S R)
  | [] => none
  | e :: es => if e.key = k then some e else findKey k es

/-- `order.Remove(el); delete(entries, key)`: drops that one element. -/
def removeKey (k : Bytes) : List (Entry S R) → List (Entry S R)
  | [] => []
  | e :: es => if e.key = k then es else e :: removeKey k es

/-- `lookup` (plan_cache.go:217-235): unknown key → miss; schema-pointer mismatch → the stale entry is removed,
miss; otherwise `MoveToFront`, hit. -/
def lookup (c : Cache S R) (s : S) (k : Bytes) : Cache S R × Option R :=
  match findKey k c.items with
  | none => ({ c with misses := c.misses + 1 }, none)
  | some e =>
    if e.schema ≠ s then ({ c with items := removeKey k c.items, misses := c.misses + 1 }, none)
    else ({ c with items := e :: removeKey k c.items, hits := c.hits + 1 }, some e.res)

/-- the eviction loop of `store` (plan_cache.go:250-258): `for order.Len() > MaxEntries { remove Back() }`,
with `oldest == nil → break`.  Fuel = number of iterations allowed (`l.length` always suffices). -/
def evictLoop (cap : Nat) : Nat → List (Entry S R) → List (Entry S R)
  | 0, l => l
  | f+1, l =>
    if l.length > cap then
      match l.getLast? with
      | none => l
      | some _ => evictLoop cap f l.dropLast
    else l

/-- `store` (plan_cache.go:237-259): known key → overwrite schema and result in place and `MoveToFront`;
new key → `PushFront`, then evict from the back while over capacity. -/
def store (c : Cache S R) (s : S) (k : Bytes) (r : R) : Cache S R :=
  match findKey k c.items with
  | some _ => { c with items := ⟨k, s, r⟩ :: removeKey k c.items }
  | none => { c with items := evictLoop c.cap (c.items.length + 1) (⟨k, s, r⟩ :: c.items) }

/-- `Reset` on a non-nil cache (plan_cache.go:203-211): entries dropped, counters kept. -/
def reset (c : Cache S R) : Cache S R := { c with items := [] }

/-- the raw-mode key as coded now (plan_cache.go:134):
`strconv.Itoa(len(operationName)) + ":" + operationName + query`. -/
def rawKey (op q : Bytes) : Bytes := dec op.length ++ 58 :: (op ++ q)

/-- the key D-06a was about (`operationName + "\x00" + query`), kept to state that it was *not* injective. -/
def oldRawKey (op q : Bytes) : Bytes := op ++ 0 :: q

/-- what happened to a `Get` inside the cache -/
inductive Outcome | hit | miss | bypass | noLookup
deriving DecidableEq, Repr

/-- `Get`, raw branch (plan_cache.go:132-141), generic in the key function so that the transparency theorem
can say exactly what it needs from the key. -/
def getRawWith (keyOf : Bytes → Bytes → Bytes) (build : S → Bytes → Bytes → R)
    (c : Cache S R) (s : S) (q op : Bytes) : Cache S R × R × Outcome :=
  match lookup c s (keyOf op q) with
  | (c', some r) => (c', r, .hit)
  | (c', none) => (store c' s (keyOf op q) (build s q op), build s q op, .miss)

/-- What the prefix of the normalising branch computes for this request (plan_cache.go:147-155):
`parser.Parse` failed, `normalizeDocument` failed, or `(normKey, synthArgs)` (`normKey` may be empty). -/
inductive NormOut (A : Type) where
  | parseErr
  | normErr
  | ok (normKey : Bytes) (synth : A)

/-- `"raw:" + strconv.FormatUint(fnv64a(query), 16)` (plan_cache.go:163-165 as coded up to 0654bec). -/
def rawFallbackKey (q : Bytes) : Bytes := [114, 97, 119, 58] ++ hex (fnv1a64 q).toNat

/-- `"raw:" + query`: the fallback key of the repair `notes/fixes/D-06k.diff` (no hash). -/
def rawFallbackKeyText (q : Bytes) : Bytes := [114, 97, 119, 58] ++ q

/-- `operationName + "\x00" + normKey` (plan_cache.go:167 as coded up to 0654bec) -/
def nulJoin (op k : Bytes) : Bytes := op ++ 0 :: k

/-- How the normalising branch builds its cache key from the operation name and `normKey`, and which `normKey` a
request gets that normalisation does not apply to. Two instances: the code as it is and the code after
`notes/fixes/D-06k.diff`; the driver is told by the harness which one the code under test computes (the harness finds
out on two fixed requests and compares key bytes at every step). Every theorem holds for ANY `KeyShape`. -/
structure KeyShape where
  join : Bytes → Bytes → Bytes
  fallback : Bytes → Bytes

/-- as coded up to 0654bec: `operationName + "\x00" + normKey`, fallback `"raw:" + hex(fnv64a(query))` -/
def keyShapeCoded : KeyShape := ⟨nulJoin, rawFallbackKey⟩
/-- after D-06k.diff: the same join, fallback `"raw:" + query` (no hash) -/
def keyShapeRepaired : KeyShape := ⟨nulJoin, rawFallbackKeyText⟩

/-- cache key of the normalising branch (plan_cache.go:156-167) -/
def normCacheKey (fb : KeyShape) (op q normKey : Bytes) : Bytes :=
  fb.join op (if normKey = [] then fb.fallback q else normKey)

/-- Result of a `Get` in normalising mode: the (shared) cached part and this call's synthetic arguments.
`synth = none` on the paths where the code returns a `PlanResult` without `SynthArgs`. -/
structure NormResult (R A : Type) where
  res : R
  synth : Option A

/-- `Get`, normalising branch (plan_cache.go:143-188).  `errRes` is the `PlanResult{Errors}` of the two early
returns, `buildN s q op` is validate + plan of the *normalised* document (the value stored), `failed r` tells
whether that result carries errors (then it is returned without synthetic arguments). -/
def getNorm (fb : KeyShape) (norm : S → Bytes → Bytes → NormOut A) (errRes : S → Bytes → Bytes → R)
    (buildN : S → Bytes → Bytes → R) (failed : R → Bool)
    (c : Cache S R) (s : S) (q op : Bytes) : Cache S R × NormResult R A × Outcome :=
  match norm s q op with
  | .parseErr => (c, ⟨errRes s q op, none⟩, .noLookup)
  | .normErr => (c, ⟨errRes s q op, none⟩, .noLookup)
  | .ok nk synth =>
    match lookup c s (normCacheKey fb op q nk) with
    | (c', some r) => (c', ⟨r, some synth⟩, .hit)
    | (c', none) =>
      (store c' s (normCacheKey fb op q nk) (buildN s q op),
        ⟨buildN s q op, if failed (buildN s q op) then none else some synth⟩, .miss)

/-- `Get` (plan_cache.go:120-189) with `Normalize = false`, on a possibly nil cache. -/
def get (build : S → Bytes → Bytes → R) (c : Option (Cache S R)) (s : S) (q op : Bytes) :
    Option (Cache S R) × R × Outcome :=
  match c with
  | none => (none, build s q op, .bypass)
  | some c =>
    if !shouldCache c q.length then (some c, build s q op, .bypass)
    else
      let (c', r, o) := getRawWith rawKey build c s q op
      (some c', r, o)

/-- `HitsMisses` (plan_cache.go:193-198). -/
def hitsMisses : Option (Cache S R) → Nat × Nat
  | none => (0, 0)
  | some c => (c.hits, c.misses)

/-- `Reset` (plan_cache.go:203-211), nil-safe. -/
def resetOpt : Option (Cache S R) → Option (Cache S R)
  | none => none
  | some c => some (reset c)

/-! ## Histories -/

/-- one cache operation; `get s q op` carries the schema *pointer* of the request, so "schema replacement"
is simply a later `get` with another `s`. -/
inductive Op (S : Type) where
  | get (s : S) (q op : Bytes)
  | reset

def stepOp (build : S → Bytes → Bytes → R) (c : Option (Cache S R)) : Op S → Option (Cache S R) × Option (R × Outcome)
  | .get s q op => let (c', r, o) := get build c s q op; (c', some (r, o))
  | .reset => (resetOpt c, none)

/-- run a history; returns the final cache and what each operation returned. -/
def run (build : S → Bytes → Bytes → R) : Option (Cache S R) → List (Op S) → Option (Cache S R) × List (Option (R × Outcome))
  | c, [] => (c, [])
  | c, o :: os =>
    let (c', out) := stepOp build c o
    let (c'', outs) := run build c' os
    (c'', out :: outs)

/-- the same with an arbitrary (injective or not) key function and no size limit / nil handling:
the object of `transparent_raw`. -/
def stepWith (keyOf : Bytes → Bytes → Bytes) (build : S → Bytes → Bytes → R) (c : Cache S R) :
    Op S → Cache S R × Option (R × Outcome)
  | .get s q op =>
    if !shouldCache c q.length then (c, some (build s q op, .bypass))
    else let (c', r, o) := getRawWith keyOf build c s q op; (c', some (r, o))
  | .reset => (reset c, none)

def runWith (keyOf : Bytes → Bytes → Bytes) (build : S → Bytes → Bytes → R) :
    Cache S R → List (Op S) → Cache S R × List (Option (R × Outcome))
  | c, [] => (c, [])
  | c, o :: os =>
    let (c', out) := stepWith keyOf build c o
    let (c'', outs) := runWith keyOf build c' os
    (c'', out :: outs)

/-- histories in normalising mode; `build` is the raw from-scratch pipeline that the over-size bypass uses
(plan_cache.go:127-130), `buildN` validate + plan of the normalised document -/
def stepNorm (fb : KeyShape) (norm : S → Bytes → Bytes → NormOut A) (build errRes buildN : S → Bytes → Bytes → R) (failed : R → Bool)
    (c : Cache S R) : Op S → Cache S R × Option (NormResult R A × Outcome)
  | .get s q op =>
    if !shouldCache c q.length then (c, some (⟨build s q op, none⟩, .bypass))
    else let (c', r, o) := getNorm fb norm errRes buildN failed c s q op; (c', some (r, o))
  | .reset => (reset c, none)

def runNorm (fb : KeyShape) (norm : S → Bytes → Bytes → NormOut A) (build errRes buildN : S → Bytes → Bytes → R) (failed : R → Bool) :
    Cache S R → List (Op S) → Cache S R × List (Option (NormResult R A × Outcome))
  | c, [] => (c, [])
  | c, o :: os =>
    let (c', out) := stepNorm fb norm build errRes buildN failed c o
    let (c'', outs) := runNorm fb norm build errRes buildN failed c' os
    (c'', out :: outs)

/-- Histories over schema *slots*: the server holds schemas in slots; `replace i` rebuilds slot `i` (same shape,
new pointer).  Pointers are numbers, a replacement takes the next unused one. -/
inductive HOp where
  | get (slot : Nat) (q op : Bytes)
  | reset
  | replace (slot : Nat)

structure Sys (R : Type) where
  cache : Option (Cache Nat R)
  ptr : Nat → Nat
  next : Nat

def stepH (build : Nat → Bytes → Bytes → R) (y : Sys R) : HOp → Sys R × Option (R × Outcome)
  | .get i q op => let (c', r, o) := get build y.cache (y.ptr i) q op; ({ y with cache := c' }, some (r, o))
  | .reset => ({ y with cache := resetOpt y.cache }, none)
  | .replace i => ({ y with ptr := fun j => if j = i then y.next else y.ptr j, next := y.next + 1 }, none)

def runH (build : Nat → Bytes → Bytes → R) : Sys R → List HOp → Sys R × List (Option (R × Outcome))
  | y, [] => (y, [])
  | y, o :: os =>
    let (y', out) := stepH build y o
    let (y'', outs) := runH build y' os
    (y'', out :: outs)

/-- the specification of a slot history: no cache, every `get` builds from scratch against the slot's current pointer -/
def specH (build : Nat → Bytes → Bytes → R) : (Nat → Nat) → Nat → List HOp → List (Option R)
  | _, _, [] => []
  | ptr, next, .get i q op :: os => some (build (ptr i) q op) :: specH build ptr next os
  | ptr, next, .reset :: os => none :: specH build ptr next os
  | ptr, next, .replace i :: os => none :: specH build (fun j => if j = i then next else ptr j) (next + 1) os

def keysOf (c : Cache S R) : List Bytes := c.items.map (·.key)

/-- S: what an operation returns when there is no cache at all -/
def specOp (build : S → Bytes → Bytes → R) : Op S → Option R
  | .get s q op => some (build s q op)
  | .reset => none

/-- a `Get` that reaches `lookup` (raw mode): non-nil cache and `shouldCache` -/
def cacheable (c : Cache S R) : Op S → Bool
  | .get _ q _ => shouldCache c q.length
  | .reset => false

def outcomeOf {X : Type} (o : Option (X × Outcome)) : Option Outcome := o.map (·.2)
def countOutcome {X : Type} (w : Outcome) (outs : List (Option (X × Outcome))) : Nat :=
  (outs.filter (fun o => outcomeOf o == some w)).length

/-! ## Interleavings of the two critical sections of `Get`

`Get` takes the mutex twice: once inside `lookup`, once inside `store`; parsing / validation / planning run between them
without the lock. Concurrent (or re-entrant) `Get`s therefore interleave at the granularity of these two primitives: any
`store s k r` may arrive when the entry for `k` has meanwhile been written by another `Get` — possibly for ANOTHER schema
pointer (schema roll-over). `r` is what the storing `Get` computed for (`s`, `k`): `build s k`. -/

inductive Prim (S : Type) where
  | lookup (s : S) (k : Bytes)
  | store (s : S) (k : Bytes)
  | reset

/-- one primitive; `storeF` is the store function (the model's `store`, or a variant for the negative witness) -/
def stepPrim (storeF : Cache S R → S → Bytes → R → Cache S R) (build : S → Bytes → R) (c : Cache S R) :
    Prim S → Cache S R × Option (Option R)
  | .lookup s k => ((lookup c s k).1, some (lookup c s k).2)
  | .store s k => (storeF c s k (build s k), none)
  | .reset => (reset c, none)

def runPrim (storeF : Cache S R → S → Bytes → R → Cache S R) (build : S → Bytes → R) :
    Cache S R → List (Prim S) → Cache S R × List (Option (Option R))
  | c, [] => (c, [])
  | c, o :: os =>
    ((runPrim storeF build (stepPrim storeF build c o).1 os).1,
      (stepPrim storeF build c o).2 :: (runPrim storeF build (stepPrim storeF build c o).1 os).2)

/-- the variant of `store` that refreshes the result of an entry that is already there WITHOUT re-labelling it with the
storing request's schema (seeded/C06-7): the slot can then hold a plan built for schema B while labelled schema A -/
def storeKeepLabel (c : Cache S R) (s : S) (k : Bytes) (r : R) : Cache S R :=
  match findKey k c.items with
  | some e => { c with items := ⟨k, e.schema, r⟩ :: removeKey k c.items }
  | none => { c with items := evictLoop c.cap (c.items.length + 1) (⟨k, s, r⟩ :: c.items) }

end GqlModel.PlanCache

/-! ## The structural fingerprint (`fingerprintDocument`, plan_cache_normalize.go:129-317)

A small document AST carrying everything the writer looks at, so that "what participates in the key" is a
statement about this function. The writer output is
the byte string fed to FNV-1a. Fragment spreads are followed through an association list of fragment
definitions with the `visited` set of the Go code; recursion is on explicit fuel. -/
namespace GqlModel.PlanCache.Fp

inductive Ty where
  | named (n : Bytes)
  | list (t : Ty)
  | nonNull (t : Ty)

inductive Val where
  | var (n : Bytes)
  | int (s : Bytes)
  | float (s : Bytes)
  | str (s : Bytes)
  | bool (b : Bool)
  | enum (s : Bytes)
  | list (vs : List Val)
  | obj (fs : List (Bytes × Val))

structure Directive where
  name : Bytes
  args : List (Bytes × Val)

inductive Sel where
  | field (alias : Option Bytes) (name : Bytes) (args : List (Bytes × Val)) (dirs : List Directive) (sub : Option (List Sel))
  | inline (typeCond : Option Bytes) (dirs : List Directive) (sub : List Sel)
  | spread (name : Bytes) (dirs : List Directive)

structure VarDef where
  name : Bytes
  type : Ty
  default : Option Val

structure Frag where
  name : Bytes
  typeCond : Bytes
  dirs : List Directive
  sel : List Sel

structure OpDef where
  operation : Bytes          -- "query" | "mutation" | "subscription"
  varDefs : List VarDef
  dirs : List Directive
  sel : List Sel

def str (s : String) : Bytes := s.toUTF8.toList

/-- `writeType` -/
def writeType : Ty → Bytes
  | .named n => n
  | .list t => 91 :: writeType t ++ [93]
  | .nonNull t => writeType t ++ [33]

mutual
/-- `writeValue` -/
def writeValue : Val → Bytes
  | .var n => 86 :: n
  | .int s => 105 :: s
  | .float s => 102 :: s
  | .str s => 115 :: GqlModel.PlanCache.dec s.length ++ 58 :: s      -- length-prefixed: contents cannot imitate the encoding
  | .bool b => [98, if b then 49 else 48]
  | .enum s => 101 :: s
  | .list vs => 91 :: writeValues vs ++ [93]
  | .obj fs => 123 :: writeFields fs ++ [125]
def writeValues : List Val → Bytes
  | [] => []
  | v :: vs => writeValue v ++ 44 :: writeValues vs
def writeFields : List (Bytes × Val) → Bytes
  | [] => []
  | (n, v) :: fs => n ++ 61 :: writeValue v ++ 44 :: writeFields fs
end

/-- `writeVariableDefs`: name ':' type ['=' default] ',' -/
def writeVarDefs (ds : List VarDef) : Bytes :=
  str "VD(" ++ (ds.flatMap fun d => d.name ++ 58 :: writeType d.type ++
    (match d.default with | some v => 61 :: writeValue v | none => []) ++ [44]) ++ [41]

/-- `writeDirectives`: '@' name '(' (arg '=' value ',')* ')' for every directive -/
def writeDirectives (ds : List Directive) : Bytes :=
  ds.flatMap fun d => 64 :: d.name ++ 40 :: writeFields d.args ++ [41]

/-- `collectFragmentDefs` builds a map, so of two definitions with one name the later wins -/
def findFrag (n : Bytes) : List Frag → Option Frag
  | [] => none
  | f :: fs =>
    match findFrag n fs with
    | some g => some g
    | none => if f.name = n then some f else none

/-- `writeSelectionSet`/`writeFragmentBody`, threading the `visited` set; returns the bytes written and the
new visited set. Directives are written where they stand (field: after the arguments; inline fragment: after the
type condition; spread: after the name; fragment definition: after its type condition). -/
def writeSels (frags : List Frag) : Nat → List Bytes → List Sel → Bytes × List Bytes
  | 0, vis, _ => ([], vis)
  | _+1, vis, [] => ([], vis)
  | f+1, vis, .field alias name args dirs sub :: rest =>
    let a := match alias with | some a => a ++ [58] | none => []
    let ar := if args.isEmpty then [] else 40 :: writeFields args ++ [41]
    let (sb, vis1) := match sub with
      | none => (([] : Bytes), vis)
      | some ss => let (b, v) := writeSels frags f vis ss; (123 :: b ++ [125], v)
    let (rb, vis2) := writeSels frags f vis1 rest
    (a ++ name ++ ar ++ writeDirectives dirs ++ sb ++ 59 :: rb, vis2)
  | f+1, vis, .inline tc dirs sub :: rest =>
    let (b, vis1) := writeSels frags f vis sub
    let (rb, vis2) := writeSels frags f vis1 rest
    (str "..." ++ (tc.getD []) ++ writeDirectives dirs ++ 123 :: b ++ 125 :: 59 :: rb, vis2)
  | f+1, vis, .spread name dirs :: rest =>
    let (fb, vis1) :=
      if vis.contains name then (([] : Bytes), vis)
      else match findFrag name frags with
        | none => ([], name :: vis)
        | some fr => let (b, v) := writeSels frags f (name :: vis) fr.sel; (70 :: fr.typeCond ++ writeDirectives fr.dirs ++ 123 :: b ++ [125], v)
    let (rb, vis2) := writeSels frags f vis1 rest
    (str "..." ++ name ++ writeDirectives dirs ++ 59 :: fb ++ rb, vis2)

/-- the bytes hashed by `fingerprintDocument(doc, op, operationName)` -/
def fingerprintBytes (frags : List Frag) (o : OpDef) (operationName : Bytes) (fuel : Nat) : Bytes :=
  str "OP:" ++ o.operation ++ 0 :: operationName ++ 0 :: writeVarDefs o.varDefs ++ writeDirectives o.dirs ++
    123 :: (writeSels frags fuel [] o.sel).1 ++ [125]

/-- `fingerprintDocument`: hex of FNV-1a-64 of those bytes -/
def fingerprint (frags : List Frag) (o : OpDef) (operationName : Bytes) (fuel : Nat) : Bytes :=
  GqlModel.PlanCache.hex (GqlModel.PlanCache.fnv1a64 (fingerprintBytes frags o operationName fuel)).toNat

end GqlModel.PlanCache.Fp
