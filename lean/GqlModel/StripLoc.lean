import GqlModel.Ast
/-! # Erasing source locations (shape comparison for C08)

`x.stripLoc` is `x` with every `Loc` replaced by `Loc.none`; two trees are "structurally identical, locations
aside" when their `stripLoc` images are equal.  (The Go harness does the same on the astjson rendering: it drops
the `"l"` / `"vl"` members.) -/
namespace GqlModel

def Name.stripLoc (n : Name) : Name := ⟨n.value, Loc.none⟩

def TypeRef.stripLoc : TypeRef → TypeRef
  | .named n _ => .named n Loc.none
  | .list t _ => .list t.stripLoc Loc.none
  | .nonNull t _ => .nonNull t.stripLoc Loc.none

mutual
def Value.stripLoc : Value → Value
  | .var n _ => .var n Loc.none
  | .int r _ => .int r Loc.none
  | .float r _ => .float r Loc.none
  | .str s _ => .str s Loc.none
  | .bool b _ => .bool b Loc.none
  | .enum v _ => .enum v Loc.none
  | .list vs _ => .list (Value.stripLocList vs) Loc.none
  | .obj fs _ => .obj (ObjField.stripLocList fs) Loc.none
def Value.stripLocList : List Value → List Value
  | [] => []
  | v :: vs => v.stripLoc :: Value.stripLocList vs
def ObjField.stripLoc : ObjField → ObjField
  | .mk n v _ => .mk n.stripLoc v.stripLoc Loc.none
def ObjField.stripLocList : List ObjField → List ObjField
  | [] => []
  | f :: fs => f.stripLoc :: ObjField.stripLocList fs
end

def Argument.stripLoc (a : Argument) : Argument := ⟨a.name.stripLoc, a.value.stripLoc, Loc.none⟩

def Directive.stripLoc (d : Directive) : Directive := ⟨d.name.stripLoc, d.args.map Argument.stripLoc, Loc.none⟩

mutual
def Selection.stripLoc : Selection → Selection
  | .field alias name args dirs sel _ =>
    .field (alias.map Name.stripLoc) name.stripLoc (args.map Argument.stripLoc) (dirs.map Directive.stripLoc)
      (SelectionSet.stripLocOpt sel) Loc.none
  | .spread name dirs _ => .spread name.stripLoc (dirs.map Directive.stripLoc) Loc.none
  | .inline tc dirs sel _ => .inline (tc.map TypeRef.stripLoc) (dirs.map Directive.stripLoc) sel.stripLoc Loc.none
def SelectionSet.stripLoc : SelectionSet → SelectionSet
  | .mk sels _ => .mk (Selection.stripLocList sels) Loc.none
def SelectionSet.stripLocOpt : Option SelectionSet → Option SelectionSet
  | none => none
  | some s => some s.stripLoc
def Selection.stripLocList : List Selection → List Selection
  | [] => []
  | s :: ss => s.stripLoc :: Selection.stripLocList ss
end

def VarDef.stripLoc (v : VarDef) : VarDef :=
  ⟨v.var.stripLoc, Loc.none, v.type.map TypeRef.stripLoc, v.default.map Value.stripLoc, Loc.none⟩

def InputValueDef.stripLoc (d : InputValueDef) : InputValueDef :=
  ⟨d.description, d.name.stripLoc, d.type.stripLoc, d.default.map Value.stripLoc, d.dirs.map Directive.stripLoc, Loc.none⟩

def FieldDef.stripLoc (d : FieldDef) : FieldDef :=
  ⟨d.description, d.name.stripLoc, d.args.map InputValueDef.stripLoc, d.type.stripLoc, d.dirs.map Directive.stripLoc, Loc.none⟩

def EnumValueDef.stripLoc (d : EnumValueDef) : EnumValueDef :=
  ⟨d.description, d.name.stripLoc, d.dirs.map Directive.stripLoc, Loc.none⟩

def OpTypeDef.stripLoc (d : OpTypeDef) : OpTypeDef := ⟨d.operation, d.type.stripLoc, Loc.none⟩

def ObjectDef.stripLoc (d : ObjectDef) : ObjectDef :=
  ⟨d.description, d.name.stripLoc, d.interfaces.map TypeRef.stripLoc, d.dirs.map Directive.stripLoc,
   d.fields.map FieldDef.stripLoc, Loc.none⟩

def Definition.stripLoc : Definition → Definition
  | .operation op name vars dirs sel _ =>
    .operation op (name.map Name.stripLoc) (vars.map VarDef.stripLoc) (dirs.map Directive.stripLoc) sel.stripLoc Loc.none
  | .fragment name tc dirs sel _ => .fragment name.stripLoc tc.stripLoc (dirs.map Directive.stripLoc) sel.stripLoc Loc.none
  | .schema dirs ops _ => .schema (dirs.map Directive.stripLoc) (ops.map OpTypeDef.stripLoc) Loc.none
  | .scalar d name dirs _ => .scalar d name.stripLoc (dirs.map Directive.stripLoc) Loc.none
  | .object d => .object d.stripLoc
  | .interface d name dirs fields _ =>
    .interface d name.stripLoc (dirs.map Directive.stripLoc) (fields.map FieldDef.stripLoc) Loc.none
  | .union d name dirs types _ => .union d name.stripLoc (dirs.map Directive.stripLoc) (types.map TypeRef.stripLoc) Loc.none
  | .enum d name dirs values _ =>
    .enum d name.stripLoc (dirs.map Directive.stripLoc) (values.map EnumValueDef.stripLoc) Loc.none
  | .inputObject d name dirs fields _ =>
    .inputObject d name.stripLoc (dirs.map Directive.stripLoc) (fields.map InputValueDef.stripLoc) Loc.none
  | .extend d _ => .extend d.stripLoc Loc.none
  | .directive d name args locations _ =>
    .directive d name.stripLoc (args.map InputValueDef.stripLoc) (locations.map Name.stripLoc) Loc.none

def Document.stripLoc (d : Document) : Document := ⟨d.defs.map Definition.stripLoc, Loc.none⟩

end GqlModel
