import GqlModel.Schema
import GqlModel.Ast
/-! # Input coercion (C05): variables, literals, arguments

Model of `/repo/values.go`, `/repo/scalars.go`, `Enum.ParseValue/ParseLiteral` (`/repo/definition.go`),
`isValidLiteralValue` (`/repo/rules.go`) and `planArguments` (`/repo/plan.go`), plus the specification `Spec`
(GraphQL input coercion, edition without a `null` literal: an absent value and `null` are the same thing).

**M** (as coded, bug-faithful): `isValidInputValue`, `coerceValue`, `isValidLiteralValue`, `valueFromAST`,
`getVariableValues`, `getArgumentValues`, `planArguments`/`plannedArgs`, built-in scalar coercions, enum
parsing, table-driven custom scalars.

**S** (`Coerce.Spec`): `coerceVariable`, `coerceLiteral`, `argumentValues`, `coerceVariableValues`.

Recursion: every recursive function is `iter junk step fuel`: `step self` is structurally recursive on the
*type* (wrappers `nonNull`/`list`) and calls `self` only when it descends from a named input-object type into
the type of one of its fields, which always happens on a strictly smaller part of the value (or on an absent
part). Hence fuel `> odepth value` (object-nesting depth) suffices; the fuel-free API uses `odepth + 1` and
`GqlProofs/CoerceFuel.lean` proves that any larger fuel gives the same result.

Numbers: `JVal.int`/`JVal.dec` are exact; Go's `int` and integral `float64` are both `JVal.int`.
Numeric *strings* given to Int/Float: only the grammar `-?digits(.digits)?` is modelled (Go's
`strconv.ParseFloat` also takes exponents, hex floats, `inf`, `nan`, `+`, `.5`, `5.`: not modelled).
Float literals: `-?digits(.digits)?([eE][+-]?digits)?` evaluated exactly (no binary rounding, no overflow). -/
namespace GqlModel.Coerce

abbrev Vars := List (String × JVal)

/-- `m[k]` of a Go map: the zero value `nil` when absent -/
def lookupD (kv : List (String × JVal)) (k : String) : JVal := (JVal.lookup kv k).getD .null

/-- a Go map filled by successive assignments, rendered canonically (sorted keys, last assignment wins) -/
def mkObj (entries : List (String × JVal)) : List (String × JVal) :=
  entries.foldl (fun acc e => JVal.insertSorted e.1 e.2 acc) []

/-! ## Generic fuel iteration -/

def iter {α β : Type} (junk : GType → α → β) (step : (GType → α → β) → GType → α → β) : Nat → GType → α → β
  | 0 => junk
  | n + 1 => step (iter junk step n)

/-! ## Object-nesting depth of values and literals -/

mutual
def odepth : JVal → Nat
  | .list xs => odepthList xs
  | .obj fs => odepthFields fs + 1
  | _ => 0
def odepthList : List JVal → Nat
  | [] => 0
  | x :: xs => max (odepth x) (odepthList xs)
def odepthFields : List (String × JVal) → Nat
  | [] => 0
  | (_, v) :: fs => max (odepth v) (odepthFields fs)
end

mutual
def litDepth : Value → Nat
  | .list vs _ => litDepthList vs
  | .obj fs _ => litDepthFields fs + 1
  | _ => 0
def litDepthList : List Value → Nat
  | [] => 0
  | v :: vs => max (litDepth v) (litDepthList vs)
def litDepthFields : List ObjField → Nat
  | [] => 0
  | (.mk _ v _) :: fs => max (litDepth v) (litDepthFields fs)
end

def optLitDepth : Option Value → Nat
  | none => 0
  | some l => litDepth l

/-! ## Numbers -/

def minInt32 : Int := -2147483648
def maxInt32 : Int := 2147483647
def inInt32 (i : Int) : Bool := decide (minInt32 ≤ i) && decide (i ≤ maxInt32)

def allDigits (cs : List Char) : Bool := !cs.isEmpty && cs.all Char.isDigit

def natOfDigits (cs : List Char) : Option Nat :=
  if allDigits cs then some (Nat.ofDigitChars 10 cs 0) else none

/-- `-?digits` -/
def intOfChars : List Char → Option Int
  | '-' :: cs => (natOfDigits cs).map (fun n => -(n : Int))
  | cs => (natOfDigits cs).map (fun n => (n : Int))

def intChars (i : Int) : List Char :=
  if i < 0 then '-' :: Nat.toDigits 10 i.natAbs else Nat.toDigits 10 i.natAbs

def intString (i : Int) : String := String.ofList (intChars i)

/-- splits at the first `.` -/
def splitDot : List Char → List Char × Option (List Char)
  | [] => ([], none)
  | c :: cs => if c == '.' then ([], some cs) else
      let r := splitDot cs
      (c :: r.1, r.2)

/-- `digits(.digits)?` as (mantissa, scale): the number is mantissa · 10^-scale -/
def unsignedDec (cs : List Char) : Option (Nat × Nat) :=
  match splitDot cs with
  | (ip, none) => (natOfDigits ip).map (fun n => (n, 0))
  | (ip, some fp) =>
    if allDigits ip && allDigits fp then some (Nat.ofDigitChars 10 (ip ++ fp) 0, fp.length) else none

/-- `-?digits(.digits)?` -/
def parseDec : List Char → Option (Int × Nat)
  | '-' :: cs => (unsignedDec cs).map (fun p => (-(p.1 : Int), p.2))
  | cs => (unsignedDec cs).map (fun p => ((p.1 : Int), p.2))

/-- canonical JVal of m · 10^-e : trailing zeros stripped, integral values become `int` -/
def normDec (m : Int) : Nat → JVal
  | 0 => .int m
  | e + 1 => if m % 10 == 0 then normDec (m / 10) e else .dec m (e + 1)

/-- splits at the first `e`/`E` -/
def splitExp : List Char → List Char × Option (List Char)
  | [] => ([], none)
  | c :: cs => if c == 'e' || c == 'E' then ([], some cs) else
      let r := splitExp cs
      (c :: r.1, r.2)

def expOfChars : List Char → Option Int
  | '+' :: cs => (natOfDigits cs).map (fun n => (n : Int))
  | cs => intOfChars cs

def scale10 (m : Int) (sc : Nat) (x : Int) : JVal :=
  if x ≥ (sc : Int) then .int (m * 10 ^ (x - sc).toNat) else normDec m ((sc : Int) - x).toNat

/-- value of an Int/Float literal's raw text read as a float (`strconv.ParseFloat`), exact -/
def parseFloatLit (cs : List Char) : Option JVal :=
  match splitExp cs with
  | (mc, none) => (parseDec mc).map (fun p => normDec p.1 p.2)
  | (mc, some ec) =>
    match parseDec mc, expOfChars ec with
    | some p, some x => some (scale10 p.1 p.2 x)
    | _, _ => none

/-- digits of m · 10^-e with a decimal point: `strconv.FormatFloat(v, 'f', -1, 64)` of an exact binary decimal
(what `coerceString` does with a float64 since the D-05c repair); `%v` of a float64 *nested* in a list/map agrees
with it only for decimal exponents in [-4, 6) -/
def decChars (m : Int) (e : Nat) : List Char :=
  let ds := Nat.toDigits 10 m.natAbs
  let pad := List.replicate (e + 1 - ds.length) '0' ++ ds
  let k := pad.length - e
  (if m < 0 then ['-'] else []) ++ (pad.take k ++ '.' :: pad.drop k)

/-! ## Built-in scalars on JVal kinds (scalars.go:17-515) -/

/-- The spellings `strconv.ParseFloat` reads as a non-finite number: `[+-]?(inf|infinity)` and `nan`, in any
letter case. `coerceInt` rejects them (NaN guard, range check), `coerceFloat` yields NaN/±Inf, which `isNullish`
treats as no value: both are `null` here. -/
def isNonFiniteSpelling (x : String) : Bool :=
  let cs := x.toList.map Char.toLower
  let inf := cs == "inf".toList || cs == "infinity".toList
  match cs with
  | '+' :: r => r == "inf".toList || r == "infinity".toList
  | '-' :: r => r == "inf".toList || r == "infinity".toList
  | _ => inf || cs == "nan".toList

/-- `coerceInt(float64)`: range check on the float, then truncation toward zero -/
def intOfDec (m : Int) (e : Nat) : JVal :=
  let p : Int := 10 ^ e
  if m < minInt32 * p || m > maxInt32 * p then .null else .int (m.tdiv p)

def coerceInt : JVal → JVal
  | .bool b => .int (if b then 1 else 0)
  | .int i => if inInt32 i then .int i else .null
  | .dec m e => intOfDec m e
  | .str x =>
    if isNonFiniteSpelling x then .null else
    match parseDec x.toList with
    | some p => intOfDec p.1 p.2
    | none => .null
  | _ => .null

def coerceFloat : JVal → JVal
  | .bool b => .int (if b then 1 else 0)
  | .int i => .int i
  | .dec m e => .dec m e
  | .str x =>
    if isNonFiniteSpelling x then .null else
    match parseDec x.toList with
    | some p => normDec p.1 p.2
    | none => .null
  | _ => .null

def coerceBool : JVal → JVal
  | .bool b => .bool b
  | .str x => .bool (!(x == "" || x == "false"))
  | .int i => .bool (i != 0)
  | .dec m _ => .bool (m != 0)
  | _ => .bool false

mutual
/-- `fmt.Sprintf("%v", value)` (coerceString); object keys are printed in the given order (Go sorts them: the
driver decodes objects with sorted keys) -/
def fmtV : JVal → String
  | .null => "<nil>"
  | .bool b => if b then "true" else "false"
  | .int i => intString i
  | .dec m e => String.ofList (decChars m e)
  | .str x => x
  | .list xs => "[" ++ fmtList xs ++ "]"
  | .obj fs => "map[" ++ fmtFields fs ++ "]"
def fmtList : List JVal → String
  | [] => ""
  | x :: xs => match xs with
    | [] => fmtV x
    | _ :: _ => fmtV x ++ " " ++ fmtList xs
def fmtFields : List (String × JVal) → String
  | [] => ""
  | (k, v) :: fs => match fs with
    | [] => k ++ ":" ++ fmtV v
    | _ :: _ => k ++ ":" ++ fmtV v ++ " " ++ fmtFields fs
end

def tableLookup (tbl : List (JVal × JVal)) (v : JVal) : JVal :=
  match tbl.find? (fun p => p.1 == v) with
  | some p => p.2
  | none => .null

/-- `Scalar.ParseValue` on a non-nullish value; `null` = "no value" -/
def parseValue (k : ScalarKind) (v : JVal) : JVal :=
  match k with
  | .int => coerceInt v
  | .float => coerceFloat v
  | .string => .str (fmtV v)
  | .boolean => coerceBool v
  | .id => .str (fmtV v)
  | .custom _ pv _ => tableLookup pv v

/-- key under which harness/gq looks a literal up in a custom scalar's parseLiteral table; composite
literals (and variables) get a key no table contains -/
def litWire : Value → JVal
  | .int raw _ => match intOfChars raw.toList with
      | some i => .int i
      | none => .str raw
  | .float raw _ => .obj [("$lit", .str ("float:" ++ raw))]
  | .str x _ => .str x
  | .bool b _ => .bool b
  | .enum x _ => .obj [("$lit", .str ("enum:" ++ x))]
  | _ => .obj [("$lit", .str "composite")]

/-- `Scalar.ParseLiteral` -/
def parseLiteral (k : ScalarKind) (l : Value) : JVal :=
  match k with
  | .int => match l with
      | .int raw _ => match intOfChars raw.toList with
          | some i => if inInt32 i then .int i else .null
          | none => .null
      | _ => .null
  | .float => match l with
      | .float raw _ => (parseFloatLit raw.toList).getD .null
      | .int raw _ => (parseFloatLit raw.toList).getD .null
      | _ => .null
  | .string => match l with
      | .str x _ => .str x
      | _ => .null
  | .boolean => match l with
      | .bool b _ => .bool b
      | _ => .null
  | .id => match l with
      | .int raw _ => .str raw
      | .str x _ => .str x
      | _ => .null
  | .custom _ _ pl => tableLookup pl (litWire l)

/-! ## Enums (definition.go:975-1055) -/

/-- `EnumValueDefinition.Value`: a nil configured value is replaced by the name -/
def enumInternal (ev : EnumValueS) : JVal := if ev.internal.isNull then .str ev.name else ev.internal

def enumByName (vals : List EnumValueS) (x : String) : JVal :=
  match vals.find? (fun ev => ev.name == x) with
  | some ev => enumInternal ev
  | none => .null

def enumParseValue (vals : List EnumValueS) : JVal → JVal
  | .str x => enumByName vals x
  | _ => .null

def enumParseLiteral (vals : List EnumValueS) : Value → JVal
  | .enum x _ => enumByName vals x
  | _ => .null

/-! ## Shared pieces of the object cases -/

/-- `if isNullish(v) { v = field.DefaultValue }; if !isNullish(v) { obj[name] = v }` -/
def entryOf (name : String) (dflt : Option JVal) (c : JVal) : Option (String × JVal) :=
  let c := if c.isNull then dflt.getD .null else c
  if c.isNull then none else some (name, c)

def fieldEntry (f : InputFieldS) (c : JVal) : Option (String × JVal) := entryOf f.name f.default c

def knownField (fields : List InputFieldS) (k : String) : Bool := fields.any (fun f => f.name == k)

/-- `fieldASTs[name]` of a map filled in source order: the last field of that name -/
def litLookup : List ObjField → String → Option Value
  | [], _ => none
  | f :: fs, k => match litLookup fs k with
    | some v => some v
    | none => if f.name.value == k then some f.value else none

/-- `argASTMap[name]`: the last argument of that name -/
def argLookup : List Argument → String → Option Value
  | [], _ => none
  | a :: as, k => match argLookup as k with
    | some v => some v
    | none => if a.name.value == k then some a.value else none

/-! ## M: coerceValue (values.go:133-179) -/

def coerceStep (s : Schema) (self : GType → JVal → JVal) : GType → JVal → JVal
  | .nonNull t, v => if v.isNull then .null else coerceStep s self t v
  | .list t, v =>
    match v with
    | .null => .null
    | .list xs => .list (xs.map (coerceStep s self t))
    | v => .list [coerceStep s self t v]
  | .named n, v =>
    if v.isNull then .null else
    match s.find? n with
    | some (.inputObject _ fields _) =>
      match v with
      | .obj kv => .obj (mkObj (fields.filterMap (fun f => fieldEntry f (self f.type (lookupD kv f.name)))))
      | _ => .obj (mkObj (fields.filterMap (fun f => fieldEntry f .null)))  -- not a map: every `valueMap[name]` is nil
    | some (.scalar _ k _) => parseValue k v
    | some (.enum _ vals _) => enumParseValue vals v
    | _ => .null

def coerceValueF (s : Schema) : Nat → GType → JVal → JVal := iter (fun _ _ => .null) (coerceStep s)

def coerceValue (s : Schema) (t : GType) (v : JVal) : JVal := coerceValueF s (odepth v + 1) t v

/-! ## M: isValidInputValue (values.go:217-299); only the boolean (it is `len(messages) == 0` throughout) -/

def validStep (s : Schema) (self : GType → JVal → Bool) : GType → JVal → Bool
  | .nonNull t, v => if v.isNull then false else validStep s self t v
  | .list t, v =>
    match v with
    | .null => true
    | .list xs => xs.all (validStep s self t)
    | v => validStep s self t v
  | .named n, v =>
    if v.isNull then true else
    match s.find? n with
    | some (.inputObject _ fields _) =>
      match v with
      | .obj kv => kv.all (fun p => knownField fields p.1) && fields.all (fun f => self f.type (lookupD kv f.name))
      | _ => false
    | some (.scalar _ k _) => !(parseValue k v).isNull
    | some (.enum _ vals _) => !(enumParseValue vals v).isNull
    | _ => true

def isValidInputValueF (s : Schema) : Nat → GType → JVal → Bool := iter (fun _ _ => false) (validStep s)

def isValidInputValue (s : Schema) (t : GType) (v : JVal) : Bool := isValidInputValueF s (odepth v + 1) t v

/-! ## M: isValidLiteralValue (rules.go:1727-1809); `none` = Go's nil `ast.Value` (argument / field not given) -/

def validLitStep (s : Schema) (self : GType → Option Value → Bool) : GType → Option Value → Bool
  | .nonNull t, lit =>
    match lit with
    | none => false
    | some l => validLitStep s self t (some l)
  | .list t, lit =>
    match lit with
    | none => true
    | some (.var _ _) => true
    | some (.list ls _) => ls.all (fun l => validLitStep s self t (some l))
    | some l => validLitStep s self t (some l)
  | .named n, lit =>
    match lit with
    | none => true
    | some (.var _ _) => true
    | some l =>
      match s.find? n with
      | some (.inputObject _ fields _) =>
        match l with
        | .obj fs _ => fs.all (fun f => knownField fields f.name.value) && fields.all (fun f => self f.type (litLookup fs f.name))
        | _ => false
      | some (.scalar _ k _) => !(parseLiteral k l).isNull
      | some (.enum _ vals _) => !(enumParseLiteral vals l).isNull
      | _ => true

def isValidLiteralValueF (s : Schema) : Nat → GType → Option Value → Bool := iter (fun _ _ => false) (validLitStep s)

def isValidLiteralValue (s : Schema) (t : GType) (lit : Option Value) : Bool :=
  isValidLiteralValueF s (optLitDepth lit + 1) t lit

/-! ## M: valueFromAST (values.go:354-417); a nil variable map behaves like the empty one -/

def fromASTStep (s : Schema) (vars : Vars) (self : GType → Option Value → JVal) : GType → Option Value → JVal
  | .nonNull t, lit =>
    match lit with
    | none => .null
    | some (.var x _) => lookupD vars x
    | some l => fromASTStep s vars self t (some l)
  | .list t, lit =>
    match lit with
    | none => .null
    | some (.var x _) => lookupD vars x
    | some (.list ls _) => .list (ls.map (fun l => fromASTStep s vars self t (some l)))
    | some l => .list [fromASTStep s vars self t (some l)]
  | .named n, lit =>
    match lit with
    | none => .null
    | some (.var x _) => lookupD vars x
    | some l =>
      match s.find? n with
      | some (.inputObject _ fields _) =>
        match l with
        | .obj fs _ => .obj (mkObj (fields.filterMap (fun f => fieldEntry f (self f.type (litLookup fs f.name)))))
        | _ => .null
      | some (.scalar _ k _) => parseLiteral k l
      | some (.enum _ vals _) => enumParseLiteral vals l
      | _ => .null

def valueFromASTF (s : Schema) (vars : Vars) : Nat → GType → Option Value → JVal :=
  iter (fun _ _ => .null) (fromASTStep s vars)

def valueFromAST (s : Schema) (t : GType) (lit : Option Value) (vars : Vars) : JVal :=
  valueFromASTF s vars (optLitDepth lit + 1) t lit

/-! ## M: variables and arguments (values.go:20-130, 41-68) -/

/-- `typeFromAST`: names are resolved lazily by `Schema.find?` -/
def typeOfRef : TypeRef → GType
  | .named n _ => .named n
  | .list t _ => .list (typeOfRef t)
  | .nonNull t _ => .nonNull (typeOfRef t)

/-- `ttype != nil && IsInputType(ttype)` -/
def isInputType (s : Schema) (t : GType) : Bool := s.isInputTypeName t.namedName

def getVariableValue (s : Schema) (d : VarDef) (input : JVal) : Except String JVal :=
  match d.type with
  | none => .error s!"Variable \"${d.var.value}\" expected value of a type which cannot be used as an input type."
  | some tr =>
    let t := typeOfRef tr
    if !isInputType s t then
      .error s!"Variable \"${d.var.value}\" expected value of type \"{tr.render}\" which cannot be used as an input type."
    else if isValidInputValue s t input then
      match input.isNull, d.default with
      | true, some dv => .ok (valueFromAST s t (some dv) [])
      | _, _ => .ok (coerceValue s t input)
    else if input.isNull then
      .error s!"Variable \"${d.var.value}\" of required type \"{tr.render}\" was not provided."
    else .error s!"Variable \"${d.var.value}\" got invalid value."

def getVariableValuesGo (s : Schema) (inputs : Vars) : List VarDef → Vars → Except String Vars
  | [], acc => .ok acc
  | d :: ds, acc =>
    match getVariableValue s d (lookupD inputs d.var.value) with
    | .error e => .error e
    | .ok v => getVariableValuesGo s inputs ds (JVal.insertSorted d.var.value v acc)

/-- values.go:20-37. The result has one entry per declared variable (a `null` entry when the coerced value is
nil, as the Go map has), keys sorted; the first uncoercible variable aborts. -/
def getVariableValues (s : Schema) (defs : List VarDef) (inputs : Vars) : Except String Vars :=
  getVariableValuesGo s inputs defs []

def argEntry (s : Schema) (asts : List Argument) (vars : Vars) (d : ArgDef) : Option (String × JVal) :=
  entryOf d.name d.default (valueFromAST s d.type (argLookup asts d.name) vars)

/-- values.go:41-68; canonical: sorted keys, nullish results omitted as the Go map omits them -/
def getArgumentValues (s : Schema) (argDefs : List ArgDef) (argASTs : List Argument) (vars : Vars) :
    List (String × JVal) :=
  mkObj (argDefs.filterMap (argEntry s argASTs vars))

/-! ## M: planArguments (plan.go:491-544) and the argument switch of resolvePlannedField (plan.go:792-805) -/

mutual
def hasVars : Value → Bool
  | .var _ _ => true
  | .list vs _ => hasVarsList vs
  | .obj fs _ => hasVarsFields fs
  | _ => false
def hasVarsList : List Value → Bool
  | [] => false
  | v :: vs => hasVars v || hasVarsList vs
def hasVarsFields : List ObjField → Bool
  | [] => false
  | (.mk _ v _) :: fs => hasVars v || hasVarsFields fs
end

def astHasVariables (asts : List Argument) : Bool := asts.any (fun a => hasVars a.value)

inductive ArgPlan where
  | empty                                                   -- `argPlan{}`
  | static (args : List (String × JVal))                    -- all-literal, coerced once
  | dynamic (defs : List ArgDef) (asts : List Argument)     -- contains a variable: coerced per request

def planArguments (s : Schema) (defs : List ArgDef) (asts : List Argument) : ArgPlan :=
  if defs.isEmpty && asts.isEmpty then .empty
  else if astHasVariables asts then .dynamic defs asts
  else
    let static := getArgumentValues s defs asts []
    if static.isEmpty then .empty else .static static

def plannedArgs (s : Schema) (p : ArgPlan) (vars : Vars) : List (String × JVal) :=
  match p with
  | .empty => []
  | .static args => args
  | .dynamic defs asts => getArgumentValues s defs asts vars

/-! ## S: the specification (GraphQL input coercion) -/

namespace Spec

inductive Err where
  | nullForNonNull
  | badScalar (type : String)
  | unknownEnumValue (type : String)
  | notAnObject (type : String)
  | unknownField (type : String)
  | notAnInputType (type : String)
  | fuel
deriving DecidableEq, Repr

def isOk {α : Type} : Except Err α → Bool
  | .ok _ => true
  | .error _ => false

/-- all-or-nothing map -/
def mapE {α β : Type} (f : α → Except Err β) : List α → Except Err (List β)
  | [] => .ok []
  | a :: as =>
    match f a with
    | .error e => .error e
    | .ok b =>
      match mapE f as with
      | .error e => .error e
      | .ok bs => .ok (b :: bs)

/-- Result coercion of a *variable value* for the built-in scalars, as the spec words it; custom scalars: table. -/
def scalarValue (n : String) (k : ScalarKind) (v : JVal) : Except Err JVal :=
  match k, v with
  | .int, .int i => if inInt32 i then .ok (.int i) else .error (.badScalar n)
  | .float, .int i => .ok (.int i)
  | .float, .dec m e => .ok (.dec m e)
  | .string, .str x => .ok (.str x)
  | .boolean, .bool b => .ok (.bool b)
  | .id, .str x => .ok (.str x)
  | .id, .int i => .ok (.str (intString i))
  | .custom _ pv _, v =>
    match tableLookup pv v with
    | .null => .error (.badScalar n)
    | r => .ok r
  | _, _ => .error (.badScalar n)

/-- Input coercion of a *literal* for the built-in scalars: Int takes an Int literal within 32 bits, Float an
Int or Float literal, String a String literal, Boolean a Boolean literal, ID a String or Int literal. -/
def scalarLiteral (n : String) (k : ScalarKind) (l : Value) : Except Err JVal :=
  match k, l with
  | .int, .int raw _ =>
    match intOfChars raw.toList with
    | some i => if inInt32 i then .ok (.int i) else .error (.badScalar n)
    | none => .error (.badScalar n)
  | .float, .int raw _ =>
    match parseFloatLit raw.toList with
    | some r => .ok r
    | none => .error (.badScalar n)
  | .float, .float raw _ =>
    match parseFloatLit raw.toList with
    | some r => .ok r
    | none => .error (.badScalar n)
  | .string, .str x _ => .ok (.str x)
  | .boolean, .bool b _ => .ok (.bool b)
  | .id, .str x _ => .ok (.str x)
  | .id, .int raw _ => .ok (.str raw)
  | .custom _ _ pl, l =>
    match tableLookup pl (litWire l) with
    | .null => .error (.badScalar n)
    | r => .ok r
  | _, _ => .error (.badScalar n)

/-- an enum value is denoted by its name; the result is the internal value -/
def enumValue (n : String) (vals : List EnumValueS) (x : String) : Except Err JVal :=
  match vals.find? (fun ev => ev.name == x) with
  | some ev => .ok (enumInternal ev)
  | none => .error (.unknownEnumValue n)

/-- An input-object field whose coerced value is absent/null takes the field's default if there is one,
otherwise no entry is added. -/
def fieldEntry (f : InputFieldS) (r : JVal) : Option (String × JVal) :=
  match r, f.default with
  | .null, some d => if d.isNull then none else some (f.name, d)
  | .null, none => none
  | r, _ => some (f.name, r)

def fieldResult (f : InputFieldS) (r : Except Err JVal) : Except Err (Option (String × JVal)) :=
  match r with
  | .error e => .error e
  | .ok r => .ok (fieldEntry f r)

def objectOf (es : List (Option (String × JVal))) : JVal := .obj (mkObj (es.filterMap id))

def varStep (s : Schema) (self : GType → JVal → Except Err JVal) : GType → JVal → Except Err JVal
  | .nonNull t, v => if v.isNull then .error .nullForNonNull else varStep s self t v
  | .list t, v =>
    match v with
    | .null => .ok .null
    | .list xs =>
      match mapE (varStep s self t) xs with
      | .error e => .error e
      | .ok rs => .ok (.list rs)
    | v =>
      match varStep s self t v with          -- a non-list value is a list of one
      | .error e => .error e
      | .ok r => .ok (.list [r])
  | .named n, v =>
    if v.isNull then .ok .null else
    match s.find? n with
    | some (.scalar _ k _) => scalarValue n k v
    | some (.enum _ vals _) =>
      match v with
      | .str x => enumValue n vals x
      | _ => .error (.unknownEnumValue n)
    | some (.inputObject _ fields _) =>
      match v with
      | .obj kv =>
        if kv.all (fun p => knownField fields p.1) then
          match mapE (fun f => fieldResult f (self f.type (lookupD kv f.name))) fields with
          | .error e => .error e
          | .ok es => .ok (objectOf es)
        else .error (.unknownField n)
      | _ => .error (.notAnObject n)
    | _ => .error (.notAnInputType n)

def coerceVariableF (s : Schema) : Nat → GType → JVal → Except Err JVal := iter (fun _ _ => .error .fuel) (varStep s)

/-- Coercion of a variable value to its declared type; `none` (absent) and `some null` are the same. -/
def coerceVariable (s : Schema) (t : GType) (v : Option JVal) : Except Err JVal :=
  let v := v.getD .null
  coerceVariableF s (odepth v + 1) t v

/-- Coercion of a literal (or nothing, `none`) in a position of type `t`. A variable stands for its runtime
value, which was coerced against the variable's declared type; in a non-null position it must have one. -/
def litStep (s : Schema) (vars : Vars) (self : GType → Option Value → Except Err JVal) :
    GType → Option Value → Except Err JVal
  | .nonNull t, lit =>
    match lit with
    | none => .error .nullForNonNull
    | some (.var x _) => if (lookupD vars x).isNull then .error .nullForNonNull else .ok (lookupD vars x)
    | some l => litStep s vars self t (some l)
  | .list t, lit =>
    match lit with
    | none => .ok .null
    | some (.var x _) => .ok (lookupD vars x)
    | some (.list ls _) =>
      match mapE (fun l => litStep s vars self t (some l)) ls with
      | .error e => .error e
      | .ok rs => .ok (.list rs)
    | some l =>
      match litStep s vars self t (some l) with
      | .error e => .error e
      | .ok r => .ok (.list [r])
  | .named n, lit =>
    match lit with
    | none => .ok .null
    | some (.var x _) => .ok (lookupD vars x)
    | some l =>
      match s.find? n with
      | some (.scalar _ k _) => scalarLiteral n k l
      | some (.enum _ vals _) =>
        match l with
        | .enum x _ => enumValue n vals x
        | _ => .error (.unknownEnumValue n)
      | some (.inputObject _ fields _) =>
        match l with
        | .obj fs _ =>
          if fs.all (fun f => knownField fields f.name.value) then
            match mapE (fun f => fieldResult f (self f.type (litLookup fs f.name))) fields with
            | .error e => .error e
            | .ok es => .ok (objectOf es)
          else .error (.unknownField n)
        | _ => .error (.notAnObject n)
      | _ => .error (.notAnInputType n)

def coerceLiteralF (s : Schema) (vars : Vars) : Nat → GType → Option Value → Except Err JVal :=
  iter (fun _ _ => .error .fuel) (litStep s vars)

def coerceLiteral (s : Schema) (t : GType) (lit : Option Value) (vars : Vars) : Except Err JVal :=
  coerceLiteralF s vars (optLitDepth lit + 1) t lit

/-- CoerceArgumentValues: literal / variable (whose own default was applied when the variables were coerced) /
argument default / nothing. -/
def argumentValues (s : Schema) (argDefs : List ArgDef) (argASTs : List Argument) (vars : Vars) :
    Except Err (List (String × JVal)) :=
  match mapE (fun d => fieldResult ⟨d.name, d.type, d.default, ""⟩
                         (coerceLiteral s d.type (argLookup argASTs d.name) vars)) argDefs with
  | .error e => .error e
  | .ok es => .ok (mkObj (es.filterMap id))

/-- CoerceVariableValues for one definition: the declared type must be an input type; no (or null) value:
the default literal if there is one; otherwise coercion of the value. In this edition a non-null
variable is required whether or not it has a default. -/
def variableValue (s : Schema) (d : VarDef) (input : Option JVal) : Except Err JVal :=
  match d.type with
  | none => .error (.notAnInputType "")
  | some tr =>
    let t := typeOfRef tr
    if !isInputType s t then .error (.notAnInputType t.namedName) else
    match coerceVariable s t input with
    | .error e => .error e
    | .ok r =>
      match (input.getD .null).isNull, d.default with
      | true, some dv => coerceLiteral s t (some dv) []
      | _, _ => .ok r

end Spec

/-! ## Where S applies: `strictlyTyped`

DESIGN §4 C05: the library's leniency for booleans and numeric strings given to Int/Float and its truncation
of fractional numbers for Int are implementation-defined, and the property does not list "a non-string for
String" / "a non-boolean for Boolean" among the uncoercible values (the library stringifies / truthifies
anything). `strictlyTyped` excludes exactly these (type, value) pairs, and values of types that are not input
types (which `getVariableValue` rejects before validating). Everything else — in particular every value for
enums, input objects, custom scalars, every integer or non-numeric value for Int/Float — is in. -/

def isNumericString (x : String) : Bool := (parseDec x.toList).isSome

def strictScalar (k : ScalarKind) (v : JVal) : Bool :=
  match k, v with
  | .int, .bool _ => false
  | .int, .dec _ _ => false
  | .int, .str x => !isNumericString x
  | .int, _ => true
  | .float, .bool _ => false
  | .float, .str x => !isNumericString x
  | .float, _ => true
  | .string, .str _ => true
  | .string, _ => false
  | .boolean, .bool _ => true
  | .boolean, _ => false
  | .id, .str _ => true
  | .id, .int _ => true
  | .id, _ => false
  | .custom _ _ _, _ => true

def strictStep (s : Schema) (self : GType → JVal → Bool) : GType → JVal → Bool
  | .nonNull t, v => if v.isNull then true else strictStep s self t v
  | .list t, v =>
    match v with
    | .null => true
    | .list xs => xs.all (strictStep s self t)
    | v => strictStep s self t v
  | .named n, v =>
    if v.isNull then true else
    match s.find? n with
    | some (.scalar _ k _) => strictScalar k v
    | some (.enum _ _ _) => true
    | some (.inputObject _ fields _) =>
      match v with
      | .obj kv => fields.all (fun f => self f.type (lookupD kv f.name))
      | _ => true
    | _ => false

def strictlyTypedF (s : Schema) : Nat → GType → JVal → Bool := iter (fun _ _ => false) (strictStep s)

def strictlyTyped (s : Schema) (v : JVal) (t : GType) : Bool := strictlyTypedF s (odepth v + 1) t v

/-! ## Conformant values and their literal form (`literal_variable_agree`) -/

/-- A custom scalar's ParseValue and ParseLiteral are user code; literal/variable agreement can only hold when
they agree on the values that have a literal form (the tables of the generated scalar `Odd` do). -/
def customCoherent (s : Schema) : Prop :=
  ∀ n n' sv pv pl d, s.find? n = some (.scalar n' (.custom sv pv pl) d) →
    (∀ i, tableLookup pl (.int i) = tableLookup pv (.int i)) ∧
    (∀ x, tableLookup pl (.str x) = tableLookup pv (.str x)) ∧
    (∀ b, tableLookup pl (.bool b) = tableLookup pv (.bool b))

/-- the strict external representation of a scalar value that has a literal form -/
def conformScalar (k : ScalarKind) (v : JVal) : Bool :=
  match k, v with
  | .int, .int i => inInt32 i
  | .float, .int _ => true
  | .float, .dec m e => decide (m % 10 ≠ 0) && decide (0 < e)
  | .string, .str _ => true
  | .boolean, .bool _ => true
  | .id, .str _ => true
  | .id, .int _ => true
  | .custom _ pv _, .int i => !(tableLookup pv (.int i)).isNull
  | .custom _ pv _, .str x => !(tableLookup pv (.str x)).isNull
  | .custom _ pv _, .bool b => !(tableLookup pv (.bool b)).isNull
  | _, _ => false

def conformStep (s : Schema) (self : GType → JVal → Bool) : GType → JVal → Bool
  | .nonNull t, v => !v.isNull && conformStep s self t v
  | .list t, v =>
    match v with
    | .null => true
    | .list xs => xs.all (fun x => !x.isNull && conformStep s self t x)
    | v => conformStep s self t v
  | .named n, v =>
    if v.isNull then true else
    match s.find? n with
    | some (.scalar _ k _) => conformScalar k v
    | some (.enum _ vals _) =>
      match v with
      | .str x => vals.any (fun ev => ev.name == x)
      | _ => false
    | some (.inputObject _ fields _) =>
      match v with
      | .obj kv => kv.all (fun p => knownField fields p.1) && fields.all (fun f => self f.type (lookupD kv f.name))
      | _ => false
    | _ => false

def conformantF (s : Schema) : Nat → GType → JVal → Bool := iter (fun _ _ => false) (conformStep s)

/-- `v` is a value of type `t` in its strict external form (so that it can also be written as a literal):
no nulls inside lists, no leniency, known fields only, required fields present. -/
def conformant (s : Schema) (t : GType) (v : JVal) : Bool := conformantF s (odepth v + 1) t v

def embedScalar (k : ScalarKind) (v : JVal) : Option Value :=
  match k, v with
  | .float, .dec m e => some (.float (String.ofList (decChars m e)) Loc.none)
  | .string, .str x => some (.str x Loc.none)
  | .id, .str x => some (.str x Loc.none)
  | .custom _ _ _, .str x => some (.str x Loc.none)
  | .int, .int i => some (.int (intString i) Loc.none)
  | .float, .int i => some (.int (intString i) Loc.none)
  | .id, .int i => some (.int (intString i) Loc.none)
  | .custom _ _ _, .int i => some (.int (intString i) Loc.none)
  | .boolean, .bool b => some (.bool b Loc.none)
  | .custom _ _ _, .bool b => some (.bool b Loc.none)
  | _, _ => none

def embedStep (s : Schema) (self : GType → JVal → Option Value) : GType → JVal → Option Value
  | .nonNull t, v => embedStep s self t v
  | .list t, v =>
    match v with
    | .null => none
    | .list xs => some (.list (xs.filterMap (embedStep s self t)) Loc.none)
    | v => embedStep s self t v
  | .named n, v =>
    if v.isNull then none else
    match s.find? n with
    | some (.scalar _ k _) => embedScalar k v
    | some (.enum _ _ _) =>
      match v with
      | .str x => some (.enum x Loc.none)
      | _ => none
    | some (.inputObject _ fields _) =>
      match v with
      | .obj kv => some (.obj (fields.filterMap (fun f =>
          (self f.type (lookupD kv f.name)).map (fun l => ObjField.mk ⟨f.name, Loc.none⟩ l Loc.none))) Loc.none)
      | _ => none
    | _ => none

def embedF (s : Schema) : Nat → GType → JVal → Option Value := iter (fun _ _ => none) (embedStep s)

/-- the literal that denotes the conformant value `v` in a position of type `t` (`none`: nothing is written) -/
def embed (s : Schema) (t : GType) (v : JVal) : Option Value := embedF s (odepth v + 1) t v

/-! ## Premises about variables inside literals -/

/-- Where S applies to a literal: every variable that occurs in a non-null position has a (non-null) runtime
value — what VariablesInAllowedPosition plus successful variable coercion guarantee — and every named type
a (non-variable) literal is read against is an input type (scalar, enum, input object), which schema
construction guarantees for argument, input-field and variable types. -/
def varsProvidedStep (s : Schema) (vars : Vars) (self : GType → Option Value → Bool) : GType → Option Value → Bool
  | .nonNull t, lit =>
    match lit with
    | none => true
    | some (.var x _) => !(lookupD vars x).isNull
    | some l => varsProvidedStep s vars self t (some l)
  | .list t, lit =>
    match lit with
    | some (.list ls _) => ls.all (fun l => varsProvidedStep s vars self t (some l))
    | some (.var _ _) => true
    | none => true
    | some l => varsProvidedStep s vars self t (some l)
  | .named n, lit =>
    match lit with
    | none => true
    | some (.var _ _) => true
    | some l =>
      match s.find? n with
      | some (.scalar _ _ _) => true
      | some (.enum _ _ _) => true
      | some (.inputObject _ fields _) =>
        match l with
        | .obj fs _ => fields.all (fun f => self f.type (litLookup fs f.name))
        | _ => true
      | _ => false

def varsProvidedF (s : Schema) (vars : Vars) : Nat → GType → Option Value → Bool :=
  iter (fun _ _ => true) (varsProvidedStep s vars)

def varsProvided (s : Schema) (t : GType) (lit : Option Value) (vars : Vars) : Bool :=
  varsProvidedF s vars (optLitDepth lit + 1) t lit

/-- Go builds `InputObject.Fields()` as a map: field names of an input object are distinct. -/
def inputFieldsNodup (s : Schema) : Prop :=
  ∀ n n' fields d, s.find? n = some (.inputObject n' fields d) → (fields.map (·.name)).Nodup

end GqlModel.Coerce
