import GqlModel.Exec
/-! # Declarative specification of CollectFields (C01)

`Occurs c rt sels f`: the field node `f` *occurs* in the selection list `sels` for an object of runtime type `rt`
under the request context `c` (schema, fragment definitions, coerced variables): it is a field selection of
`sels` whose directives include it, or it occurs — recursively — in the body of an inline fragment / of the
definition of a named fragment spread whose directives include it and whose type condition applies to `rt`.

This is an inductive predicate (least fixed point): it does not run `collect`, has no visited set and no
fuel; on cyclic fragment definitions it is still well defined (a derivation is finite).  It is the reference
against which `collect` / `collectMerged` are proved sound and complete in `Props/C01.lean`. -/
namespace GqlModel.Exec

/-- the field node the executor builds for a field selection -/
def mkNode (alias : Option Name) (name : Name) (args : List Argument) (sel : Option SelectionSet) (loc : Loc) :
    FieldNode :=
  { alias := alias.map (·.value), name := name.value, args := args, sel := sel, loc := loc }

inductive Occurs (c : Ctx) (rt : String) : List Selection → FieldNode → Prop
  | field {sels alias name args dirs sel loc} :
      Selection.field alias name args dirs sel loc ∈ sels →
      included c.schema c.vars dirs = true →
      Occurs c rt sels (mkNode alias name args sel loc)
  | inline {sels tc dirs inner l1 l2 f} :
      Selection.inline tc dirs (.mk inner l1) l2 ∈ sels →
      included c.schema c.vars dirs = true →
      condApplies c.schema tc rt = true →
      Occurs c rt inner f →
      Occurs c rt sels f
  | spread {sels name dirs l tc inner l1 f} :
      Selection.spread name dirs l ∈ sels →
      included c.schema c.vars dirs = true →
      c.frag? name.value = some (tc, .mk inner l1) →
      condApplies c.schema (some tc) rt = true →
      Occurs c rt inner f →
      Occurs c rt sels f

/-- `f` is stored in the groups `g`: in the group of its own response key -/
def Stored (g : Groups) (f : FieldNode) : Prop := ∃ p ∈ g, p.1 = f.key ∧ f ∈ p.2

/-- number of fragment definitions whose name is not in the visited list: the fuel `expandSpread` can still need -/
def unvisited (c : Ctx) (vis : List String) : Nat := (c.frags.map (·.1)).countP (fun n => !vis.contains n)

/-! ## Vocabulary for operation selection -/

def isOperation : Definition → Bool
  | .operation .. => true
  | _ => false

/-- operations and fragment definitions; anything else makes the request non-executable -/
def isExecutable : Definition → Bool
  | .operation .. => true
  | .fragment .. => true
  | _ => false

def opName? : Definition → Option String
  | .operation _ name _ _ _ _ => name.map (·.value)
  | _ => none

/-- an operation definition carrying the name `n` -/
def isOperationNamed (n : String) (d : Definition) : Bool := isOperation d && opName? d == some n

end GqlModel.Exec
