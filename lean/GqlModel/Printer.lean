import GqlModel.Ast
import GqlModel.Token
/-! # M: the printer (`/repo/language/printer/printer.go`)

`printer.Print` runs `visitor.Visit` with a *leave* function per node kind (`printDocASTReducer`): children are
reduced to strings first, the visitor copies the parent into a `map[string]interface{}` whose visited child keys
hold those strings (`visitor.go`: `convertMap`, edit application on the way out), and the parent's leave function
assembles its own string from that map.  The model below is the same bottom-up reduction written as a structural
recursion: one function per node kind, with the same helpers

* `joinC`  = `join` (printer.go:153): drops empty strings, then `strings.Join`;
* `wrapC`  = `wrap` (printer.go:199): empty if the middle is empty;
* `blockC` = `block` (printer.go:207): `{}` for an empty slice, else `indent("{\n" + join(s, "\n")) + "\n}"`;
* `indentC`= `indent` (printer.go:215): every `\n` becomes `\n` + two spaces (also inside descriptions!);
* `quoteC` = `quoteString` (printer.go:167): `\" \\ \b \f \n \r \t`, `\u00XX` for other bytes < 0x20 and 0x7f,
  everything else raw.  Go works on bytes, the model on `Char`s; the two agree on valid UTF-8 because every byte
  of a multi-byte sequence is ≥ 0x80 and is copied unchanged by either (byte-level statement: `Props/C08.lean`,
  `quote_unquote`);
* `descC`  = `getDescription` (printer.go:72): nothing when the description is absent; `"""` + text + `"""`, with
  `\n` around the text iff it contains `\n`, when the text is block-safe (`blockStringSafe`); `quoteString` otherwise.

Strings are `List Char` inside (`Chars`), `String` at the surface (`print`, `printValue`, …).
Nil children that the Go parser can leave (`Option`s of `GqlModel.Ast`) print as the empty string, exactly like
`getMapValueString` on a nil map entry.  The `map[string]interface{}` branch of every reducer is the one that
runs for parser-produced trees whenever the node has at least one visited child; the pointer branches that can run
(`StringValue`, `IntValue`, …, `Name`, empty `ListValue`/`ObjectValue`/`SelectionSet`) give the same text.
`hasArgDesc` (printer.go:705, 993) is modelled as "some argument has a description", which is what the
`strings.HasPrefix(strings.TrimSpace(arg), "\"")` test of the map branch decides (a printed argument starts with
`\n"` exactly when it has a description, with its name otherwise). -/
namespace GqlModel.Printer

abbrev Chars := List Char

/-! ## helpers -/

/-- `strings.Join(xs, sep)` -/
def interC (sep : Chars) : List Chars → Chars
  | [] => []
  | [x] => x
  | x :: y :: rest => x ++ sep ++ interC sep (y :: rest)

/-- printer.go `join`: empty strings are dropped first -/
def joinC (xs : List Chars) (sep : Chars) : Chars := interC sep (xs.filter (fun x => !x.isEmpty))

/-- printer.go `wrap` -/
def wrapC (start mid stop : Chars) : Chars := if mid.isEmpty then [] else start ++ mid ++ stop

/-- printer.go `indent`: `strings.Replace(str, "\n", "\n  ", -1)` -/
def indentC : Chars → Chars
  | [] => []
  | c :: cs => if c = '\n' then '\n' :: ' ' :: ' ' :: indentC cs else c :: indentC cs

/-- printer.go `block`; the emptiness test is on the slice, before `join` drops empty strings -/
def blockC (xs : List Chars) : Chars :=
  if xs.isEmpty then ['{', '}'] else indentC (['{', '\n'] ++ joinC xs ['\n']) ++ ['\n', '}']

/-- upper-case hex digit (`%04X`) -/
def hexDigit (n : Nat) : Char := if n < 10 then Char.ofNat (48 + n) else Char.ofNat (55 + n)

/-- one byte/character of `quoteString` -/
def escC (c : Char) : Chars :=
  if c = '"' then ['\\', '"']
  else if c = '\\' then ['\\', '\\']
  else if c.toNat = 8 then ['\\', 'b']
  else if c.toNat = 12 then ['\\', 'f']
  else if c = '\n' then ['\\', 'n']
  else if c = '\r' then ['\\', 'r']
  else if c = '\t' then ['\\', 't']
  else if c.toNat < 32 ∨ c.toNat = 127 then ['\\', 'u', '0', '0', hexDigit (c.toNat / 16), hexDigit (c.toNat % 16)]
  else [c]

def quoteBodyC : Chars → Chars
  | [] => []
  | c :: cs => escC c ++ quoteBodyC cs

/-- printer.go `quoteString` -/
def quoteC (s : Chars) : Chars := '"' :: quoteBodyC s ++ ['"']

/-! ## descriptions (`getDescription`, `blockStringSafe`)

A description that is present is printed as a block string `"""` … `"""` — on lines of its own when it contains a
newline; every enclosing `block`/argument list then adds two spaces after each of its newlines (`indent`) — **if**
that text reads back (`readBlockString` + `blockStringValue`, lexer.go) as the same description, i.e. if
`descBlockSafe` holds (printer.go `blockStringSafe`, repair of D-08b):

* it is not empty;
* it does not contain `"""` (would close the literal early) and no byte below 0x20 other than TAB and LF
  (CR is folded into LF by `blockStringValue`, the other controls are rejected by the lexer);
* single line: it is not blank (blank first lines are dropped) and does not end in `"` or `\\`
  (`x"` + `"""` closes one character early, `x\\` + `"""` reads as an escaped triple quote);
* several lines: the first and the last line are not blank (leading/trailing blank lines are dropped) and some
  non-blank line starts in column 0 (otherwise the common indentation is removed from every line).

Every other description is printed as an ordinary quoted string (`quoteString`). -/

def isBlankLine (l : Chars) : Bool := l.all (fun c => c == ' ' || c == '\t')

/-- `strings.Split(s, "\n")`; never empty -/
def splitLines : Chars → List Chars
  | [] => [[]]
  | c :: cs =>
    if c = '\n' then [] :: splitLines cs
    else match splitLines cs with
      | [] => [[c]]
      | l :: ls => (c :: l) :: ls

def hasTripleQuote : Chars → Bool
  | '"' :: '"' :: '"' :: _ => true
  | _ :: cs => hasTripleQuote cs
  | [] => false

def startsInColumn0 (l : Chars) : Bool :=
  match l with
  | [] => false
  | c :: _ => !(c == ' ' || c == '\t')

/-- printer.go `blockStringSafe` -/
def descBlockSafeC (t : Chars) : Bool :=
  !t.isEmpty && !hasTripleQuote t && t.all (fun c => c.toNat ≥ 32 || c == '\t' || c == '\n') &&
  (let ls := splitLines t
   match ls with
   | [] => false
   | [l] => !isBlankLine l && !(l.getLast? == some '"' || l.getLast? == some '\\')
   | first :: rest =>
     !isBlankLine first && !isBlankLine (rest.getLast?.getD []) &&
     ls.any (fun l => !isBlankLine l && startsInColumn0 l))

def descBlockSafe (s : String) : Bool := descBlockSafeC s.toList

def tq : Chars := ['"', '"', '"']

/-- printer.go `getDescription`: the printed description, empty when absent -/
def descC (d : Option String) : Chars :=
  match d with
  | none => []
  | some s =>
    let t := s.toList
    if !descBlockSafeC t then quoteC t
    else if t.contains '\n' then tq ++ ['\n'] ++ t ++ ['\n'] ++ tq
    else tq ++ t ++ tq

/-- `if desc != "" { str = desc + "\n" + str }` (definitions at top level) -/
def withDescTop (d : Option String) (str : Chars) : Chars :=
  if (descC d).isEmpty then str else descC d ++ ['\n'] ++ str

/-- `if desc != "" { str = "\n" + desc + "\n" + str }` (members of a block or of an argument list) -/
def withDescMember (d : Option String) (str : Chars) : Chars :=
  if (descC d).isEmpty then str else ['\n'] ++ descC d ++ ['\n'] ++ str

def sp : Chars := [' ']
def commaSp : Chars := [',', ' ']
def colonSp : Chars := [':', ' ']

/-! ## types and values -/

/-- reducers `Named`, `List`, `NonNull` -/
def typeC : TypeRef → Chars
  | .named n _ => n.toList
  | .list t _ => ['['] ++ typeC t ++ [']']
  | .nonNull t _ => typeC t ++ ['!']

def optTypeC : Option TypeRef → Chars
  | none => []
  | some t => typeC t

mutual
/-- reducers `Variable`, `IntValue`, `FloatValue`, `StringValue`, `BooleanValue`, `EnumValue`, `ListValue`, `ObjectValue` -/
def valueC : Value → Chars
  | .var n _ => '$' :: n.toList
  | .int raw _ => raw.toList
  | .float raw _ => raw.toList
  | .str s _ => quoteC s.toList
  | .bool b _ => if b then ['t', 'r', 'u', 'e'] else ['f', 'a', 'l', 's', 'e']
  | .enum v _ => v.toList
  | .list vs _ => ['['] ++ joinC (valuesC vs) commaSp ++ [']']
  | .obj fs _ => ['{'] ++ joinC (fieldsC fs) commaSp ++ ['}']
def valuesC : List Value → List Chars
  | [] => []
  | v :: vs => valueC v :: valuesC vs
/-- reducer `ObjectField` -/
def fieldC : ObjField → Chars
  | .mk n v _ => n.value.toList ++ colonSp ++ valueC v
def fieldsC : List ObjField → List Chars
  | [] => []
  | f :: fs => fieldC f :: fieldsC fs
end

def optValueC : Option Value → Chars
  | none => []
  | some v => valueC v

/-- reducer `Argument` -/
def argC (a : Argument) : Chars := a.name.value.toList ++ colonSp ++ valueC a.value

/-- reducer `Directive` -/
def directiveC (d : Directive) : Chars :=
  '@' :: d.name.value.toList ++ wrapC ['('] (joinC (d.args.map argC) commaSp) [')']

def directivesC (ds : List Directive) : Chars := joinC (ds.map directiveC) sp

/-! ## selections -/

def optNameC : Option Name → Chars
  | none => []
  | some n => n.value.toList

mutual
/-- reducers `Field`, `FragmentSpread`, `InlineFragment` -/
def selectionC : Selection → Chars
  | .field alias name args dirs sel _ =>
    joinC [wrapC [] (optNameC alias) colonSp ++ name.value.toList ++ wrapC ['('] (joinC (args.map argC) commaSp) [')'],
           directivesC dirs,
           optSelSetC sel] sp
  | .spread name dirs _ => ['.', '.', '.'] ++ name.value.toList ++ wrapC sp (directivesC dirs) []
  | .inline tc dirs sel _ =>
    joinC [['.', '.', '.'], wrapC ['o', 'n', ' '] (optTypeC tc) [], directivesC dirs, selSetC sel] sp
/-- reducer `SelectionSet` -/
def selSetC : SelectionSet → Chars
  | .mk sels _ => blockC (selectionsC sels)
def optSelSetC : Option SelectionSet → Chars
  | none => []
  | some s => selSetC s
def selectionsC : List Selection → List Chars
  | [] => []
  | s :: ss => selectionC s :: selectionsC ss
end

/-! ## definitions -/

/-- reducer `VariableDefinition` (with `Variable` inlined: `"$" + name`) -/
def varDefC (v : VarDef) : Chars :=
  '$' :: v.var.value.toList ++ colonSp ++ optTypeC v.type ++ wrapC [' ', '=', ' '] (optValueC v.default) []

/-- reducer `InputValueDefinition` -/
def inputValueDefC (d : InputValueDef) : Chars :=
  withDescMember d.description
    (joinC [d.name.value.toList ++ colonSp ++ typeC d.type, wrapC ['=', ' '] (optValueC d.default) [], directivesC d.dirs] sp)

/-- `hasArgDesc` of `FieldDefinition` / `DirectiveDefinition` -/
def hasArgDesc (args : List InputValueDef) : Bool := args.any (fun a => a.description.isSome)

/-- the `argsStr` of `FieldDefinition` / `DirectiveDefinition` -/
def argDefsC (args : List InputValueDef) : Chars :=
  if hasArgDesc args then wrapC ['('] (indentC (['\n'] ++ joinC (args.map inputValueDefC) ['\n'])) ['\n', ')']
  else wrapC ['('] (joinC (args.map inputValueDefC) commaSp) [')']

/-- reducer `FieldDefinition` -/
def fieldDefC (d : FieldDef) : Chars :=
  withDescMember d.description
    (d.name.value.toList ++ argDefsC d.args ++ colonSp ++ typeC d.type ++ wrapC sp (directivesC d.dirs) [])

/-- reducer `EnumValueDefinition` -/
def enumValueDefC (d : EnumValueDef) : Chars :=
  withDescMember d.description (joinC [d.name.value.toList, directivesC d.dirs] sp)

/-- reducer `OperationTypeDefinition` -/
def opTypeDefC (d : OpTypeDef) : Chars := d.operation.toString.toList ++ colonSp ++ typeC d.type

/-- reducer `OperationDefinition` -/
def operationC (op : OpType) (name : Option Name) (vars : List VarDef) (dirs : List Directive) (sel : SelectionSet) : Chars :=
  let nameS := optNameC name
  let varDefs := wrapC ['('] (joinC (vars.map varDefC) commaSp) [')']
  let directives := directivesC dirs
  let selectionSet := selSetC sel
  -- anonymous queries with no directives or variable definitions use the query short form
  if nameS.isEmpty && directives.isEmpty && varDefs.isEmpty && op == .query then selectionSet
  else joinC [op.toString.toList, joinC [nameS, varDefs] [], directives, selectionSet] sp

def kwFragmentW : Chars := "fragment".toList
def kwFragment : Chars := kwFragmentW ++ sp          -- "fragment "
def kwOnW : Chars := ['o', 'n']
def kwOn : Chars := sp ++ kwOnW ++ sp                -- " on "
def kwSchema : Chars := "schema".toList
def kwScalar : Chars := "scalar".toList
def kwType : Chars := "type".toList
def kwImplementsW : Chars := "implements".toList
def kwImplements : Chars := kwImplementsW ++ sp      -- "implements "
def kwInterface : Chars := "interface".toList
def kwUnion : Chars := "union".toList
def kwEnum : Chars := "enum".toList
def kwInput : Chars := "input".toList
def kwExtendW : Chars := "extend".toList
def kwExtend : Chars := kwExtendW ++ sp              -- "extend "
def kwDirectiveW : Chars := "directive".toList
def kwDirectiveAt : Chars := kwDirectiveW ++ sp ++ ['@']   -- "directive @"

/-- reducer `FragmentDefinition` -/
def fragmentC (name : Name) (tc : TypeRef) (dirs : List Directive) (sel : SelectionSet) : Chars :=
  kwFragment ++ name.value.toList ++ kwOn ++ typeC tc ++ sp ++ wrapC [] (directivesC dirs) sp ++ selSetC sel

/-- reducer `SchemaDefinition` -/
def schemaC (dirs : List Directive) (ops : List OpTypeDef) : Chars :=
  joinC [kwSchema, directivesC dirs, blockC (ops.map opTypeDefC)] sp

/-- reducer `ScalarDefinition` -/
def scalarC (desc : Option String) (name : Name) (dirs : List Directive) : Chars :=
  withDescTop desc (joinC [kwScalar, name.value.toList, directivesC dirs] sp)

/-- reducer `ObjectDefinition` -/
def objectDefC (d : ObjectDef) : Chars :=
  withDescTop d.description
    (joinC [kwType, d.name.value.toList,
            wrapC kwImplements (joinC (d.interfaces.map typeC) [' ', '&', ' ']) [],
            directivesC d.dirs, blockC (d.fields.map fieldDefC)] sp)

/-- reducer `InterfaceDefinition` -/
def interfaceC (desc : Option String) (name : Name) (dirs : List Directive) (fields : List FieldDef) : Chars :=
  withDescTop desc (joinC [kwInterface, name.value.toList, directivesC dirs, blockC (fields.map fieldDefC)] sp)

/-- reducer `UnionDefinition` -/
def unionC (desc : Option String) (name : Name) (dirs : List Directive) (types : List TypeRef) : Chars :=
  withDescTop desc (joinC [kwUnion, name.value.toList, directivesC dirs,
                           ['=', ' '] ++ joinC (types.map typeC) [' ', '|', ' ']] sp)

/-- reducer `EnumDefinition` -/
def enumC (desc : Option String) (name : Name) (dirs : List Directive) (values : List EnumValueDef) : Chars :=
  withDescTop desc (joinC [kwEnum, name.value.toList, directivesC dirs, blockC (values.map enumValueDefC)] sp)

/-- reducer `InputObjectDefinition` -/
def inputObjectC (desc : Option String) (name : Name) (dirs : List Directive) (fields : List InputValueDef) : Chars :=
  withDescTop desc (joinC [kwInput, name.value.toList, directivesC dirs, blockC (fields.map inputValueDefC)] sp)

/-- reducer `TypeExtensionDefinition` -/
def extendC (d : ObjectDef) : Chars := kwExtend ++ objectDefC d

/-- reducer `DirectiveDefinition` -/
def directiveDefC (desc : Option String) (name : Name) (args : List InputValueDef) (locations : List Name) : Chars :=
  withDescTop desc (kwDirectiveAt ++ name.value.toList ++ argDefsC args ++ kwOn ++
                    joinC (locations.map (fun n => n.value.toList)) [' ', '|', ' '])

/-- dispatch on the definition kind -/
def definitionC : Definition → Chars
  | .operation op name vars dirs sel _ => operationC op name vars dirs sel
  | .fragment name tc dirs sel _ => fragmentC name tc dirs sel
  | .schema dirs ops _ => schemaC dirs ops
  | .scalar desc name dirs _ => scalarC desc name dirs
  | .object d => objectDefC d
  | .interface desc name dirs fields _ => interfaceC desc name dirs fields
  | .union desc name dirs types _ => unionC desc name dirs types
  | .enum desc name dirs values _ => enumC desc name dirs values
  | .inputObject desc name dirs fields _ => inputObjectC desc name dirs fields
  | .extend d _ => extendC d
  | .directive desc name args locations _ => directiveDefC desc name args locations

/-- reducer `Document` -/
def documentC (d : Document) : Chars := joinC (d.defs.map definitionC) ['\n', '\n'] ++ ['\n']

/-- all descriptions of a document, in document order -/
def inputValueDescs (ds : List InputValueDef) : List String := ds.filterMap (·.description)
def fieldDefDescs (ds : List FieldDef) : List String :=
  ds.flatMap (fun d => d.description.toList ++ inputValueDescs d.args)
def definitionDescs : Definition → List String
  | .scalar d _ _ _ => d.toList
  | .object o => o.description.toList ++ fieldDefDescs o.fields
  | .interface d _ _ fs _ => d.toList ++ fieldDefDescs fs
  | .union d _ _ _ _ => d.toList
  | .enum d _ _ vs _ => d.toList ++ vs.filterMap (·.description)
  | .inputObject d _ _ fs _ => d.toList ++ inputValueDescs fs
  | .extend o _ => o.description.toList ++ fieldDefDescs o.fields
  | .directive d _ args _ _ => d.toList ++ inputValueDescs args
  | _ => []
def documentDescs (d : Document) : List String := d.defs.flatMap definitionDescs

/-! ## `String` surface -/

def print (d : Document) : String := String.ofList (documentC d)
def printDefinition (d : Definition) : String := String.ofList (definitionC d)
def printValue (v : Value) : String := String.ofList (valueC v)
def printType (t : TypeRef) : String := String.ofList (typeC t)
def printSelectionSet (s : SelectionSet) : String := String.ofList (selSetC s)
def printSelection (s : Selection) : String := String.ofList (selectionC s)
def printDirective (d : Directive) : String := String.ofList (directiveC d)
def printArgument (a : Argument) : String := String.ofList (argC a)
def printVarDef (v : VarDef) : String := String.ofList (varDefC v)
def printFieldDef (d : FieldDef) : String := String.ofList (fieldDefC d)
def printInputValueDef (d : InputValueDef) : String := String.ofList (inputValueDefC d)
def quoteString (s : String) : String := String.ofList (quoteC s.toList)

end GqlModel.Printer
