import GqlModel.Exec
/-! # Comparing two responses outside a subtree (C04, two-world sibling independence) — specification vocabulary

`JVal.getAt v r`: the value at the relative response path `r` below `v` (objects by first binding of the key, lists by
index), `none` when `r` addresses nothing. `comparable a r`: `r` is a prefix or an extension of `a`.
`errsOutside a` / `logOutside a`: the errors / invocations whose path is not at or below `a`. -/
namespace GqlModel
open GqlModel.Exec

/-- the value at a response path below `v` -/
def JVal.getAt : JVal → Path → Option JVal
  | v, [] => some v
  | .obj fs, .key k :: p =>
    (match JVal.lookup fs k with
    | some v => JVal.getAt v p
    | none => none)
  | .list xs, .idx i :: p =>
    (match xs[i]? with
    | some v => JVal.getAt v p
    | none => none)
  | _, _ => none

end GqlModel
namespace GqlModel.Exec

/-- errors that are not at or below the position `a` -/
def errsOutside (a : Path) (l : List (Path × Bool)) : List (Path × Bool) := l.filter (fun e => !(a.isPrefixOf e.1))

/-- invocations that are not at or below the position `a` -/
def logOutside (a : Path) (l : List LogEntry) : List LogEntry := l.filter (fun e => !(a.isPrefixOf e.path))

/-- the value of a response as one tree: `null` when `data` is absent -/
def dataTree : Option (List (String × JVal)) → JVal
  | some fs => .obj fs
  | none => .null

end GqlModel.Exec
