import GqlModel.Validate.Local
import GqlModel.Validate.Graph
import GqlModel.Validate.Overlap
/-! # `ValidateDocument` with `graphql.SpecifiedRules`: all 24 rules (C02)

`specifiedRuleFns` lists the rules AS CODED (the `…_M` function where the code is a stateful visitor or reads
TypeInfo, else the rule function itself) in the order of `graphql.SpecifiedRules` (rules.go:18-43; tied to the
regenerated table by `Props/C02All.specified_rules_order`). drv_c02 takes its registry of M functions from this list,
so the per-rule correspondence of harness/cmd/c02 is about exactly these functions.

`validate s d` concatenates the rules' reports rule by rule. The real `ValidateDocument` runs the rules in parallel
over one traversal, so its error list is the same multiset in node-visit order (harness: the errors of the
`SpecifiedRules` run = the union of the single-rule runs = `validate`, as multisets); `validate s d = []` — the
document is accepted — does not depend on the order. -/
namespace GqlModel.Validate
open Graph Overlap

def specifiedRuleFns : List (String × RuleFn) := [
  ("ArgumentsOfCorrectType", argumentsOfCorrectType_S),
  ("DefaultValuesOfCorrectType", defaultValuesOfCorrectType_S),
  ("FieldsOnCorrectType", fieldsOnCorrectType_S),
  ("FragmentsOnCompositeTypes", fragmentsOnCompositeTypes_S),
  ("KnownArgumentNames", knownArgumentNames_S),
  ("KnownDirectives", knownDirectives_S),
  ("KnownFragmentNames", knownFragmentNames_S),
  ("KnownTypeNames", knownTypeNames_S),
  ("LoneAnonymousOperation", loneAnonymousOperation_M),
  (ruleCycles, noFragmentCycles),
  (ruleUndefVar, noUndefinedVariables),
  (ruleUnusedFrag, noUnusedFragments),
  (ruleUnusedVar, noUnusedVariables),
  (ruleOverlap, overlappingFieldsCanBeMerged),
  ("PossibleFragmentSpreads", possibleFragmentSpreads_M),
  ("ProvidedNonNullArguments", providedNonNullArguments_S),
  ("ScalarLeafs", scalarLeafs_S),
  ("UniqueArgumentNames", uniqueArgumentNames_M),
  ("UniqueFragmentNames", uniqueFragmentNames_M),
  ("UniqueInputFieldNames", uniqueInputFieldNames_M),
  ("UniqueOperationNames", uniqueOperationNames_M),
  ("UniqueVariableNames", uniqueVariableNames_M),
  ("VariablesAreInputTypes", variablesAreInputTypes_S),
  (ruleVarPos, variablesInAllowedPosition)]

/-- all errors of `ValidateDocument(schema, doc, SpecifiedRules)`, grouped by rule -/
def validate (s : Schema) (d : Document) : List VErr := specifiedRuleFns.flatMap (fun r => r.2 s d)

end GqlModel.Validate
