import GqlModel.Validate.Literal
/-! # Decidable side conditions of the C02 theorems about the type-directed rules (evaluated by drv_c02 per case) -/
namespace GqlModel.Validate

/-- the name is a scalar, enum or input-object type of `S` -/
def inputKind (S : Schema) (n : String) : Bool :=
  match S.find? n with
  | some (.scalar ..) | some (.enum ..) | some (.inputObject ..) => true
  | _ => false

def argsOK (S : Schema) (args : List ArgDef) : Bool := args.all (fun a => inputKind S a.type.namedName)

def typeDefInputsOK (S : Schema) : TypeDef → Bool
  | .object _ _ fs _ _ => fs.all (fun f => argsOK S f.args)
  | .interface _ fs _ _ => fs.all (fun f => argsOK S f.args)
  | .inputObject _ fs _ => fs.all (fun f => inputKind S f.type.namedName)
  | _ => true

/-- argument, directive-argument and input-field types are input types (scalar, enum, input object) of the schema
extended with the introspection types. `NewSchema` / `defineFieldMap` / `NewDirective` reject anything else. -/
def schemaInputsOkB (s : Schema) : Bool :=
  s.plus.types.all (typeDefInputsOK s.plus) && argsOK s.plus typeMetaField.args
    && s.allDirectives.all (fun dd => argsOK s.plus dd.args)

/-- every declared interface / union has at least one possible type -/
def abstractInhabitedB (s : Schema) : Bool :=
  s.types.all (fun td => match td with
    | .interface n _ _ _ => !(s.possibleTypes n).isEmpty
    | .union n _ _ _ => !(s.possibleTypes n).isEmpty
    | _ => true)

end GqlModel.Validate
