import GqlModel.Validate.Common
import GqlModel.Validate.Literal
/-! # TypeInfo as a top-down function (C14 "type tracking", unit c14ti; also the type context of C02)

`tiRecords s d` lists, for every node of the executable definitions at which the real `TypeInfo` can be observed
(`visitor.VisitWithTypeInfo`, after `TypeInfo.Enter(node)`), what `Type() / ParentType() / InputType() / FieldDef() /
Directive() / Argument()` must be there — computed TOP-DOWN from the schema and the position alone (no stacks: a
child's context is a function of its parent's). The real TypeInfo (type_info.go:87-230) is a stack machine with
Enter/Leave; that both agree on every node is the claim "type tracking reports at each node the schema types that
apply at that position" and is checked by harness/cmd/c14ti on every generated document (an unbalanced push/pop or a
wrong element / field type shows up as a differing record at some later node). -/
namespace GqlModel.Validate

structure TIState where
  c : TCtx
  input : Option GType                 -- InputType(); an unknown named core is the never-defined name `""`
  directive : Option DirectiveDefS     -- Directive()
  inDirective : Bool
  argument : Option String             -- Argument().Name()

structure TIRec where
  kind : String
  loc : Loc
  st : TIState

def TIState.ofCtx (c : TCtx) : TIState := { c := c, input := none, directive := none, inDirective := false, argument := none }

def valueKind : Value → String
  | .var .. => "Variable" | .int .. => "IntValue" | .float .. => "FloatValue" | .str .. => "StringValue"
  | .bool .. => "BooleanValue" | .enum .. => "EnumValue" | .list .. => "ListValue" | .obj .. => "ObjectValue"

mutual
/-- a value node and everything below it; `st.input` is `InputType()` at the value's position -/
def valueRecs (s : Schema) (st : TIState) : Value → List TIRec
  | .list vs lc =>
    let st' := { st with input := listItemType st.input }     -- Enter(ListValue) pushes the element type
    ⟨"ListValue", lc, st'⟩ :: valuesRecs s st' vs
  | .obj fs lc => ⟨"ObjectValue", lc, st⟩ :: objFieldsRecs s st fs
  | v => [⟨valueKind v, v.loc, st⟩]
def valuesRecs (s : Schema) (st : TIState) : List Value → List TIRec
  | [] => []
  | v :: vs => valueRecs s st v ++ valuesRecs s st vs
def objFieldsRecs (s : Schema) (st : TIState) : List ObjField → List TIRec
  | [] => []
  | .mk nm v lc :: fs =>
    let st' := { st with input := inputFieldType s st.input nm.value }   -- Enter(ObjectField) pushes the field's type
    (⟨"ObjectField", lc, st'⟩ :: valueRecs s st' v) ++ objFieldsRecs s st fs
end

def argRecs (s : Schema) (st : TIState) (a : Argument) : List TIRec :=
  let argDef := argDefFor st.directive (if st.inDirective then none else st.c.fieldDef) a.name.value
  let st' := { st with input := argDef.map (·.type), argument := argDef.map (·.name) }
  ⟨"Argument", a.loc, st'⟩ :: valueRecs s st' a.value

def dirRecs (s : Schema) (st : TIState) (d : Directive) : List TIRec :=
  let st' := { st with directive := s.directive? d.name.value, inDirective := true }
  ⟨"Directive", d.loc, st'⟩ :: d.args.flatMap (argRecs s st')

def varDefRecs (s : Schema) (st : TIState) (v : VarDef) : List TIRec :=
  let st' := { st with input := (typeFromRef s v.type).map (astType s) }
  [⟨"VariableDefinition", v.loc, st'⟩, ⟨"Variable", v.varLoc, st'⟩]
    ++ (match v.default with | some dv => valueRecs s st' dv | none => [])

mutual
def selRecs (s : Schema) (c : TCtx) : Selection → List TIRec
  | .field _ nm args dirs sel lc =>
    let st := TIState.ofCtx (c.enterField s nm.value)
    ⟨"Field", lc, st⟩ :: (args.flatMap (argRecs s st) ++ dirs.flatMap (dirRecs s st) ++ optSetRecs s st.c sel)
  | .spread _ dirs lc =>
    let st := TIState.ofCtx c
    ⟨"FragmentSpread", lc, st⟩ :: dirs.flatMap (dirRecs s st)
  | .inline tc dirs ss lc =>
    let st := TIState.ofCtx (c.enterInline s tc)
    ⟨"InlineFragment", lc, st⟩ :: (dirs.flatMap (dirRecs s st) ++ setRecs s st.c ss)
def setRecs (s : Schema) (c : TCtx) : SelectionSet → List TIRec
  | .mk sels lc => ⟨"SelectionSet", lc, TIState.ofCtx (c.enterSelSet s)⟩ :: selsRecs s (c.enterSelSet s) sels
def optSetRecs (s : Schema) (c : TCtx) : Option SelectionSet → List TIRec
  | none => []
  | some ss => setRecs s c ss
def selsRecs (s : Schema) (c : TCtx) : List Selection → List TIRec
  | [] => []
  | x :: xs => selRecs s c x ++ selsRecs s c xs
end

def defRecs (s : Schema) : Definition → List TIRec
  | .operation op _ vars dirs sel lc =>
    let st := TIState.ofCtx (TCtx.enterOp s op)
    ⟨"OperationDefinition", lc, st⟩ :: (vars.flatMap (varDefRecs s st) ++ dirs.flatMap (dirRecs s st) ++ setRecs s st.c sel)
  | .fragment _ tc dirs sel lc =>
    let st := TIState.ofCtx (TCtx.enterFragment s tc)
    ⟨"FragmentDefinition", lc, st⟩ :: (dirs.flatMap (dirRecs s st) ++ setRecs s st.c sel)
  | _ => []

def tiRecords (s : Schema) (d : Document) : List TIRec := d.defs.flatMap (defRecs s)

/-- rendering shared with the harness: `nil` for an absent type, also inside wrappers -/
def renderType : GType → String
  | .named n => if n == "" then "nil" else n
  | .list t => "[" ++ renderType t ++ "]"
  | .nonNull t => renderType t ++ "!"

def renderOptType : Option GType → String
  | none => "nil"
  | some t => renderType t

end GqlModel.Validate
