import GqlModel.Validate.Common
/-! # C02 — the GRAPH rules of validation

NoFragmentCycles, NoUnusedFragments, NoUndefinedVariables, NoUnusedVariables, VariablesInAllowedPosition
(/repo/rules.go:821-1136, 1649-1720) and the `ValidationContext` helpers they are built on
(/repo/validator.go:127-269).

**S (declarative).** The *spread graph* of a document: nodes are fragment names, `a → b` when the definition that
`Fragment(a)` resolves to contains `...b` anywhere in its body (`SpreadEdge`). `Reaches` is its reflexive-transitive
closure, `ReachesPlus` the transitive one, `Cyclic` = some name reaches itself in ≥ 1 step, `FragUsed sel x` = `x` is
reachable from a spread of the selection set `sel`, `VarUsedIn` = the variable occurs in the operation itself or in
a fragment used by it, `VarDefined` = the operation declares it. The executable versions (`…S` rule functions)
decide reachability by bounded breadth-first iteration (`closeN`), independent of the worklists of M.

**M (as coded).**
* `fragmentSpreads`        `ValidationContext.FragmentSpreads` — explicit stack of selection sets (validator.go:148-182)
* `recursivelyReferenced`  `RecursivelyReferencedFragments` — worklist + `collectedNames` (validator.go:184-221)
* `detect` / `cycleRun`    `detectCycleRecursive` with `visitedFrags`, `spreadPath`, `spreadPathIndexByName`
                           (rules.go:822-925), recursion on explicit fuel; `oof` records fuel exhaustion
* `varUsagesOp/Frag`       `VariableUsages` — the nested typed traversal (validator.go:222-254) written as the
                           structural walk it is by C14 `machine_eq_reference`, carrying `TypeInfo.InputType()`
* `recursiveUsages`        `RecursiveVariableUsages` (validator.go:255-269)
The pointer-keyed memo tables of `ValidationContext` (`fragmentSpreads`, `recursivelyReferencedFragments`,
`variableUsages`, `recursiveVariableUsages`) cache pure functions of the node and are not modelled.

Fuel bounds are PROVED sufficient in `GqlProofs/ValidateGraph.lean` (`fsLoop_ok`, `rrf_no_oof`, `cycleRun_no_oof`). -/
namespace GqlModel.Validate.Graph
open GqlModel.Validate

/-! ## Fragment table -/

/-- a fragment definition -/
structure Frag where
  name : Name
  typeCond : TypeRef
  dirs : List Directive
  sel : SelectionSet
  loc : Loc
deriving Inhabited

/-- the `FragmentDefinition` nodes of a document, in document order -/
def fragDefs (d : Document) : List Frag :=
  d.defs.filterMap (fun
    | .fragment n t ds s l => some ⟨n, t, ds, s, l⟩
    | _ => none)

/-- `ValidationContext.Fragment(name)`: the map is filled by assignment in document order — the LAST definition
with a given name wins -/
def lookupFrag : List Frag → String → Option Frag
  | [], _ => none
  | f :: fs, n =>
    match lookupFrag fs n with
    | some g => some g
    | none => if f.name.value = n then some f else none

def fragNames (tbl : List Frag) : List String := tbl.map (·.name.value)

/-- precondition under which S is defined for the graph rules (UniqueFragmentNames is a rule of its own) -/
def uniqueFragNames (d : Document) : Bool := decide (fragNames (fragDefs d)).Nodup

/-- a `FragmentSpread` node: the spread name and the location of the spread node -/
structure Spread where
  name : String
  loc : Loc
deriving DecidableEq, Repr, Inhabited

/-! ## S: spreads of a selection set (anywhere below it), spread graph, reachability -/

mutual
def spreadsSel : Selection → List Spread
  | .field _ _ _ _ sel _ => spreadsOpt sel
  | .spread n _ l => [⟨n.value, l⟩]
  | .inline _ _ ss _ => spreadsSet ss
def spreadsSet : SelectionSet → List Spread
  | .mk sels _ => spreadsSels sels
def spreadsOpt : Option SelectionSet → List Spread
  | none => []
  | some ss => spreadsSet ss
def spreadsSels : List Selection → List Spread
  | [] => []
  | x :: xs => spreadsSel x ++ spreadsSels xs
end

/-- names spread anywhere below a selection set -/
def spreadNames (ss : SelectionSet) : List String := (spreadsSet ss).map (·.name)

/-- successors of a fragment name in the spread graph -/
def succs (tbl : List Frag) (a : String) : List String :=
  match lookupFrag tbl a with
  | some f => spreadNames f.sel
  | none => []

/-- `a → b`: the fragment named `a` spreads `b` -/
def SpreadEdge (tbl : List Frag) (a b : String) : Prop := b ∈ succs tbl a

/-- reflexive-transitive closure of the spread graph -/
inductive Reaches (tbl : List Frag) : String → String → Prop
  | refl (a : String) : Reaches tbl a a
  | step {a b c : String} : SpreadEdge tbl a b → Reaches tbl b c → Reaches tbl a c

/-- transitive closure: at least one edge -/
def ReachesPlus (tbl : List Frag) (a c : String) : Prop := ∃ b, SpreadEdge tbl a b ∧ Reaches tbl b c

/-- the spread graph has a cycle -/
def Cyclic (tbl : List Frag) : Prop := ∃ a, ReachesPlus tbl a a

/-- fragment name `x` is reachable from a spread of the selection set `sel` (of an operation) -/
def FragUsed (tbl : List Frag) (sel : SelectionSet) (x : String) : Prop :=
  ∃ r, r ∈ spreadNames sel ∧ Reaches tbl r x

/-! ### executable reachability for the `…S` rule functions: bounded breadth-first closure -/

/-- `xs ∪ ys`, keeping order, no new duplicates -/
def unionNew : List String → List String → List String
  | acc, [] => acc
  | acc, y :: ys => if y ∈ acc then unionNew acc ys else unionNew (acc ++ [y]) ys

/-- `n` rounds of `R := R ∪ succ(R)` -/
def closeN (tbl : List Frag) : Nat → List String → List String
  | 0, r => r
  | n + 1, r => closeN tbl n (unionNew r (r.flatMap (succs tbl)))

/-- names reachable from `roots` (reflexively); `|tbl| + 1` rounds reach every simple path -/
def reachS (tbl : List Frag) (roots : List String) : List String :=
  closeN tbl (tbl.length + 1) (unionNew [] roots)

/-! ## M: `FragmentSpreads` (validator.go:148-182) -/

/-- the `for _, selection := range set.Selections` loop: appends spreads, pushes sub-selection sets
(the Go slice `setsToVisit` is a stack whose top is its END; here the top is the HEAD) -/
def fsScan : List Selection → List Spread → List SelectionSet → List Spread × List SelectionSet
  | [], acc, stk => (acc, stk)
  | .spread n _ l :: xs, acc, stk => fsScan xs (acc ++ [⟨n.value, l⟩]) stk
  | .field _ _ _ _ (some ss) _ :: xs, acc, stk => fsScan xs acc (ss :: stk)
  | .field _ _ _ _ none _ :: xs, acc, stk => fsScan xs acc stk
  | .inline _ _ ss _ :: xs, acc, stk => fsScan xs acc (ss :: stk)

/-- the `for { pop; scan }` loop; the flag is fuel exhaustion -/
def fsLoop : Nat → List SelectionSet → List Spread → List Spread × Bool
  | _, [], acc => (acc, false)
  | 0, _ :: _, acc => (acc, true)
  | fuel + 1, ss :: stk, acc =>
    fsLoop fuel (fsScan ss.sels acc stk).2 (fsScan ss.sels acc stk).1

mutual
/-- number of selection sets at or below a node = number of iterations of the `FragmentSpreads` loop -/
def setsSel : Selection → Nat
  | .field _ _ _ _ sel _ => setsOpt sel
  | .spread .. => 0
  | .inline _ _ ss _ => setsSet ss
def setsSet : SelectionSet → Nat
  | .mk sels _ => 1 + setsSels sels
def setsOpt : Option SelectionSet → Nat
  | none => 0
  | some ss => setsSet ss
def setsSels : List Selection → Nat
  | [] => 0
  | x :: xs => setsSel x + setsSels xs
end

def fragmentSpreadsF (ss : SelectionSet) : List Spread × Bool := fsLoop (setsSet ss) [ss] []

/-- `ctx.FragmentSpreads(node)` -/
def fragmentSpreads (ss : SelectionSet) : List Spread := (fragmentSpreadsF ss).1

/-! ## M: `RecursivelyReferencedFragments` (validator.go:184-221) -/

/-- the `for _, spread := range spreads` loop with `collectedNames`, `fragments`, `nodesToVisit` -/
def rrfScan (tbl : List Frag) : List Spread → List String → List Frag → List SelectionSet →
    List String × List Frag × List SelectionSet
  | [], col, frs, stk => (col, frs, stk)
  | sp :: rest, col, frs, stk =>
    if sp.name ∈ col then rrfScan tbl rest col frs stk
    else
      match lookupFrag tbl sp.name with
      | some f => rrfScan tbl rest (sp.name :: col) (frs ++ [f]) (f.sel :: stk)
      | none => rrfScan tbl rest (sp.name :: col) frs stk

/-- the outer `for { pop; spreads := FragmentSpreads(node); … }` loop -/
def rrfLoop (tbl : List Frag) : Nat → List SelectionSet → List String → List Frag → List Frag × Bool
  | _, [], _, frs => (frs, false)
  | 0, _ :: _, _, frs => (frs, true)
  | fuel + 1, ss :: stk, col, frs =>
    rrfLoop tbl fuel (rrfScan tbl (fragmentSpreads ss) col frs stk).2.2
      (rrfScan tbl (fragmentSpreads ss) col frs stk).1 (rrfScan tbl (fragmentSpreads ss) col frs stk).2.1

def recursivelyReferencedF (tbl : List Frag) (opSel : SelectionSet) : List Frag × Bool :=
  rrfLoop tbl (tbl.length + 1) [opSel] [] []

/-- `ctx.RecursivelyReferencedFragments(operation)` -/
def recursivelyReferenced (tbl : List Frag) (opSel : SelectionSet) : List Frag :=
  (recursivelyReferencedF tbl opSel).1

/-! ## M: NoFragmentCycles (rules.go:822-925) -/

structure CState where
  visited : List String          -- keys of `visitedFrags` (values are only ever `true`)
  path : List Spread             -- `spreadPath`, in Go order (append at the end)
  index : List (String × Nat)    -- `spreadPathIndexByName`: assignment = cons (shadows), `delete` = filter
  errs : List VErr
  oof : Bool                     -- fuel exhausted (proved impossible: `cycleRun_no_oof`)
deriving Inhabited

def CState.init : CState := ⟨[], [], [], [], false⟩

def ruleCycles : String := "NoFragmentCycles"

/-- one iteration of `for _, spreadNode := range spreadNodes` (rules.go:853-894); `rec` is the recursive call -/
def stepSpread (tbl : List Frag) (rec : Frag → CState → CState) (st : CState) (sp : Spread) : CState :=
  match st.index.lookup sp.name with
  | none =>
    let st1 := { st with path := st.path ++ [sp] }
    let st2 :=
      if sp.name ∈ st1.visited then st1
      else
        match lookupFrag tbl sp.name with
        | some g => rec g st1
        | none => st1
    { st2 with path := st2.path.dropLast }
  | some ci =>
    { st with errs := st.errs ++ [⟨ruleCycles, ((st.path.drop ci) ++ [sp]).map (·.loc)⟩] }

/-- body of `detectCycleRecursive` -/
def detectBody (tbl : List Frag) (rec : Frag → CState → CState) (f : Frag) (st : CState) : CState :=
  let st0 := { st with visited := f.name.value :: st.visited }
  if (fragmentSpreads f.sel).isEmpty then st0
  else
    let st1 := { st0 with index := (f.name.value, st0.path.length) :: st0.index }
    let st2 := (fragmentSpreads f.sel).foldl (stepSpread tbl rec) st1
    { st2 with index := st2.index.filter (fun p => p.1 != f.name.value) }

/-- `detectCycleRecursive`, recursion on explicit fuel (bound on the recursion depth) -/
def detect (tbl : List Frag) : Nat → Frag → CState → CState
  | 0 => fun _ st => { st with oof := true }
  | fuel + 1 => detectBody tbl (detect tbl fuel)

/-- the `FragmentDefinition` visitor: every definition node in document order, unless its NAME was visited -/
def cycleRun (tbl : List Frag) : CState :=
  tbl.foldl (fun st f => if f.name.value ∈ st.visited then st else detect tbl (tbl.length + 1) f st) CState.init

def noFragmentCycles (_ : Schema) (d : Document) : List VErr := (cycleRun (fragDefs d)).errs

/-! ## M: NoUnusedFragments (rules.go:1002-1062) -/

def ruleUnusedFrag : String := "NoUnusedFragments"

/-- selection sets of the operation definitions, in document order -/
def opSels (d : Document) : List SelectionSet :=
  d.defs.filterMap (fun | .operation _ _ _ _ sel _ => some sel | _ => none)

/-- keys of `fragmentNameUsed` -/
def usedFragNames (tbl : List Frag) (ops : List SelectionSet) : List String :=
  ops.flatMap (fun sel => (recursivelyReferenced tbl sel).map (·.name.value))

def noUnusedFragments (_ : Schema) (d : Document) : List VErr :=
  let tbl := fragDefs d
  let used := usedFragNames tbl (opSels d)
  tbl.filterMap (fun f => if f.name.value ∈ used then none else some ⟨ruleUnusedFrag, [f.loc]⟩)

/-! ## `VariableUsages` (validator.go:222-254): Variable nodes outside VariableDefinitions, with `InputType()` -/

structure Usage where
  name : String
  loc : Loc
  type : Option GType
deriving Repr, Inhabited

mutual
def valueUsages (s : Schema) (t : Option GType) : Value → List Usage
  | .var n l => [⟨n, l, t⟩]
  | .list vs _ => valuesUsages s (listItemType t) vs
  | .obj fs _ => objFieldsUsages s t fs
  | _ => []
def valuesUsages (s : Schema) (t : Option GType) : List Value → List Usage
  | [] => []
  | v :: vs => valueUsages s t v ++ valuesUsages s t vs
def objFieldUsages (s : Schema) (t : Option GType) : ObjField → List Usage
  | .mk n v _ => valueUsages s (inputFieldType s t n.value) v
def objFieldsUsages (s : Schema) (t : Option GType) : List ObjField → List Usage
  | [] => []
  | f :: fs => objFieldUsages s t f ++ objFieldsUsages s t fs
end

def argsUsages (s : Schema) (dir : Option DirectiveDefS) (fd : Option FieldDefS) (args : List Argument) : List Usage :=
  args.flatMap (fun a => valueUsages s ((argDefFor dir fd a.name.value).map (·.type)) a.value)

/-- usages in the arguments of directives: typed by the directive's definition only — since d5ff7af an unknown
directive's arguments are no longer looked up in the enclosing field (`TypeInfo.inDirective`) -/
def dirsUsages (s : Schema) (dirs : List Directive) : List Usage :=
  dirs.flatMap (fun d => argsUsages s (s.directive? d.name.value) none d.args)

mutual
def selUsages (s : Schema) (c : TCtx) : Selection → List Usage
  | .field _ nm args dirs sel _ =>
    let c' := c.enterField s nm.value
    argsUsages s none c'.fieldDef args ++ dirsUsages s dirs ++ optUsages s c' sel
  | .spread _ dirs _ => dirsUsages s dirs
  | .inline tc dirs ss _ =>
    let c' := c.enterInline s tc
    dirsUsages s dirs ++ setUsages s c' ss
def setUsages (s : Schema) (c : TCtx) : SelectionSet → List Usage
  | .mk sels _ => selsUsages s (c.enterSelSet s) sels
def optUsages (s : Schema) (c : TCtx) : Option SelectionSet → List Usage
  | none => []
  | some ss => setUsages s c ss
def selsUsages (s : Schema) (c : TCtx) : List Selection → List Usage
  | [] => []
  | x :: xs => selUsages s c x ++ selsUsages s c xs
end

/-- an operation definition as the variable rules see it -/
structure Op where
  kind : OpType
  vars : List VarDef
  dirs : List Directive
  sel : SelectionSet
  loc : Loc
deriving Inhabited

def opDefs (d : Document) : List Op :=
  d.defs.filterMap (fun | .operation k _ vs ds sel l => some ⟨k, vs, ds, sel, l⟩ | _ => none)

/-- `VariableUsages(operation)`: the variable definitions are skipped -/
def varUsagesOp (s : Schema) (o : Op) : List Usage :=
  dirsUsages s o.dirs ++ setUsages s (TCtx.enterOp s o.kind) o.sel

/-- `VariableUsages(fragment)` -/
def varUsagesFrag (s : Schema) (f : Frag) : List Usage :=
  dirsUsages s f.dirs ++ setUsages s (TCtx.enterFragment s f.typeCond) f.sel

/-- `RecursiveVariableUsages(operation)` -/
def recursiveUsages (s : Schema) (tbl : List Frag) (o : Op) : List Usage :=
  varUsagesOp s o ++ (recursivelyReferenced tbl o.sel).flatMap (varUsagesFrag s)

/-! ## M: NoUndefinedVariables, NoUnusedVariables, VariablesInAllowedPosition -/

def ruleUndefVar : String := "NoUndefinedVariables"
def ruleUnusedVar : String := "NoUnusedVariables"
def ruleVarPos : String := "VariablesInAllowedPosition"

/-- keys of `variableNameDefined` at `Leave(OperationDefinition)` -/
def definedVars (o : Op) : List String := o.vars.map (·.var.value)

def noUndefinedVariables (s : Schema) (d : Document) : List VErr :=
  let tbl := fragDefs d
  (opDefs d).flatMap (fun o =>
    (recursiveUsages s tbl o).filterMap (fun u =>
      if u.name ∈ definedVars o then none else some ⟨ruleUndefVar, [u.loc, o.loc]⟩))

/-- keys of `variableNameUsed`: the empty name is never entered (rules.go:1096) -/
def usedVars (us : List Usage) : List String := (us.map (·.name)).filter (fun n => n != "")

def noUnusedVariables (s : Schema) (d : Document) : List VErr :=
  let tbl := fragDefs d
  (opDefs d).flatMap (fun o =>
    let used := usedVars (recursiveUsages s tbl o)
    o.vars.filterMap (fun v => if v.var.value ∈ used then none else some ⟨ruleUnusedVar, [v.loc]⟩))

/-- `isTypeSubTypeOf` (schema.go:519-563) on type references; the identity test on named types is equality of
KNOWN names (an unknown inner name is Go's nil, which equals no type of the schema) -/
def isSubType (s : Schema) : GType → GType → Bool
  | .nonNull a, .nonNull b => isSubType s a b
  | _, .nonNull _ => false
  | .nonNull a, b => isSubType s a b
  | .list a, .list b => isSubType s a b
  | _, .list _ => false
  | .list _, _ => false
  | .named a, .named b =>
    (a == b && s.known a) || (s.abstractT b && s.objectT a && s.isPossibleType b a)

/-- `effectiveType` (rules.go:1649-1658) -/
def effectiveType (t : GType) (hasDefault : Bool) : GType :=
  if hasDefault then (match t with | .nonNull _ => t | _ => .nonNull t) else t

/-- `varDefMap[name]`: last definition wins; the empty name is never entered (rules.go:1707) -/
def varDefFor (vars : List VarDef) (n : String) : Option VarDef :=
  if n = "" then none else (vars.reverse.find? (fun v => v.var.value == n))

def varPosBad (s : Schema) (v : VarDef) (u : Usage) : Bool :=
  match u.type, typeFromRef s v.type with
  | some ut, some vt => !isSubType s (effectiveType vt v.default.isSome) ut
  | _, _ => false

def variablesInAllowedPosition (s : Schema) (d : Document) : List VErr :=
  let tbl := fragDefs d
  (opDefs d).flatMap (fun o =>
    (recursiveUsages s tbl o).filterMap (fun u =>
      match varDefFor o.vars u.name with
      | some v => if varPosBad s v u then some ⟨ruleVarPos, [v.loc, u.loc]⟩ else none
      | none => none))

/-! ## S: the rules, declaratively, and their executable forms -/

/-- `u` is a variable usage of the operation: in the operation itself or in a fragment it (transitively) spreads -/
def UsageIn (s : Schema) (tbl : List Frag) (o : Op) (u : Usage) : Prop :=
  u ∈ varUsagesOp s o ∨
  ∃ f x, FragUsed tbl o.sel x ∧ lookupFrag tbl x = some f ∧ u ∈ varUsagesFrag s f

/-- the variable is used in the operation's reachable selection -/
def VarUsedIn (s : Schema) (tbl : List Frag) (o : Op) (v : String) : Prop :=
  ∃ u, UsageIn s tbl o u ∧ u.name = v

def VarDefined (o : Op) (v : String) : Prop := v ∈ definedVars o

/-- fragments used by the operation, via the bounded closure -/
def usedFragsS (tbl : List Frag) (sel : SelectionSet) : List Frag :=
  (reachS tbl (spreadNames sel)).filterMap (lookupFrag tbl)

def usagesS (s : Schema) (tbl : List Frag) (o : Op) : List Usage :=
  varUsagesOp s o ++ (usedFragsS tbl o.sel).flatMap (varUsagesFrag s)

/-- S NoFragmentCycles: the offending nodes are the spreads `...b` inside a fragment `a` with `b →* a` -/
def noFragmentCyclesS (_ : Schema) (d : Document) : List VErr :=
  let tbl := fragDefs d
  let bad := tbl.flatMap (fun f =>
    if lookupFrag tbl f.name.value |>.isSome then
      (spreadsSet f.sel).filter (fun sp => f.name.value ∈ reachS tbl [sp.name])
    else [])
  if bad.isEmpty then [] else [⟨ruleCycles, bad.map (·.loc)⟩]

/-- S NoUnusedFragments: a definition whose name no operation reaches -/
def noUnusedFragmentsS (_ : Schema) (d : Document) : List VErr :=
  let tbl := fragDefs d
  let used := (opSels d).flatMap (fun sel => reachS tbl (spreadNames sel))
  tbl.filterMap (fun f => if f.name.value ∈ used then none else some ⟨ruleUnusedFrag, [f.loc]⟩)

def noUndefinedVariablesS (s : Schema) (d : Document) : List VErr :=
  let tbl := fragDefs d
  (opDefs d).flatMap (fun o =>
    (usagesS s tbl o).filterMap (fun u =>
      if u.name ∈ definedVars o then none else some ⟨ruleUndefVar, [u.loc, o.loc]⟩))

def noUnusedVariablesS (s : Schema) (d : Document) : List VErr :=
  let tbl := fragDefs d
  (opDefs d).flatMap (fun o =>
    let used : List String := (usagesS s tbl o).map (·.name)
    o.vars.filterMap (fun v => if v.var.value ∈ used then none else some ⟨ruleUnusedVar, [v.loc]⟩))

def variablesInAllowedPositionS (s : Schema) (d : Document) : List VErr :=
  let tbl := fragDefs d
  (opDefs d).flatMap (fun o =>
    (usagesS s tbl o).filterMap (fun u =>
      match varDefFor o.vars u.name with
      | some v => if varPosBad s v u then some ⟨ruleVarPos, [v.loc, u.loc]⟩ else none
      | none => none))

end GqlModel.Validate.Graph

namespace GqlModel.Validate
open Graph

/-- M rule functions of this module, keyed by the Go rule name (without the `Rule` suffix) -/
def graphRules : List (String × (Schema → Document → List VErr)) := [
  (ruleCycles, noFragmentCycles), (ruleUnusedFrag, noUnusedFragments), (ruleUndefVar, noUndefinedVariables),
  (ruleUnusedVar, noUnusedVariables), (ruleVarPos, variablesInAllowedPosition)]

/-- S rule functions (defined modulo `Graph.uniqueFragNames`) -/
def graphRulesS : List (String × (Schema → Document → List VErr)) := [
  (ruleCycles, noFragmentCyclesS), (ruleUnusedFrag, noUnusedFragmentsS), (ruleUndefVar, noUndefinedVariablesS),
  (ruleUnusedVar, noUnusedVariablesS), (ruleVarPos, variablesInAllowedPositionS)]

end GqlModel.Validate
