import GqlModel.Validate.Graph
import GqlModel.Printer
/-! # C02 / C19 — OverlappingFieldsCanBeMerged (/repo/rules_overlapping_fields_can_be_merged.go)

Both S and M are generic in an environment `Env` = schema + fragment table + the FIELD-DEFINITION LOOKUP `lk`.
* `envM`: `lk` = `lkFields` — what `collectFieldsAndFragmentNames` does (lines 496-507): `parentType.Fields()[name]`,
  plus `__typename` under every non-nil parent (repair of D-02b); `__schema`, `__type` have NO definition there;
* `envS`: `lk` = `Schema.fieldDef?` — the field definition the spec (and `TypeInfo`) assigns, meta fields included.
The theorems of `Props/C02Graph.lean` hold for every `Env`; the only difference between `overlapRules` (M, `envM`) and
`overlapRulesS` (S, `envS`) that is not covered by them is therefore this lookup.

**S.** `flat e pt ss` = the fully flattened field set of a selection set: its fields through inline fragments
(`directSet`) plus those of every fragment reachable through named spreads (`shallowFrags`), each with its parent
type. `PairConflict e excl a b` (inductive, least fixed point — well defined on cyclic fragments too) = the two
fields cannot be merged: different names / arguments unless mutually exclusive (`exclusive` = different concrete
object parent types), conflicting return types (`¬ SameResponseShape` on the types), or a conflicting pair among the
flattened sub-selections. `SetConflict` = some two fields with one response key in `flat` conflict
(= ¬ FieldsInSetCanMerge). `pairConflictB` decides `PairConflict` by searching the finite graph of
(excl, field, field) states with a visited set; `overlapS` is the rule.

**M.** The memoised algorithm, function for function: `collectInfo` (getFieldsAndFragmentNames, 477-553) with
`getInfo`/`getRefInfo` (cacheMap, 478, 555-565), `fcBody` (findConflict 383-472), `ssBody`
(findConflictsBetweenSubSelectionSets 288-318), `ffBody` (collectConflictsBetweenFieldsAndFragment 207-239), `bfBody`
(collectConflictsBetweenFragments 243-283), `betweenCalls` (collectConflictsBetween 356-380), `withinCalls`
(collectConflictsWithin 321-349), `visitSet` (findConflictsWithinSelectionSet 179-203). The recursion is open:
bodies take the recursive call as a parameter `rec : Call → OState → OState × List Conflict`; `run` ties the knot
on explicit fuel. The identity of an `*ast.SelectionSet` / `*fieldsAndFragmentNames` pointer is the selection
set's `Loc` (distinct selection sets of a parsed document start at distinct bytes: `locsDistinct`).

**Counters (C19).** `OState.nFC` counts `findConflict` bodies (`VerifSiteFindConflict`), `OState.logFF` /
`OState.logBF` log the memo key of every executed `collectConflictsBetweenFieldsAndFragment` /
`collectConflictsBetweenFragments` body at the `verifCount` sites (lines 213, 261); `cntFF`/`cntBF` are their lengths
(`VerifSiteFieldsAndFragment`, `VerifSiteBetweenFragments`). -/
namespace GqlModel.Validate.Overlap
open GqlModel.Validate GqlModel.Validate.Graph

/-! ## Vocabulary -/

/-- `*ast.Field` as far as the rule looks at it -/
structure FieldNode where
  alias : Option Name
  name : Name
  args : List Argument
  sel : Option SelectionSet
  loc : Loc
deriving Inhabited

/-- response name -/
def FieldNode.key (f : FieldNode) : String :=
  match f.alias with
  | some a => a.value
  | none => f.name.value

/-- `fieldDefPair`: parent type (name of a type of the type map, `none` = nil), field, its definition -/
structure FieldOcc where
  parent : Option String
  node : FieldNode
  fdef : Option FieldDefS
deriving Inhabited

abbrev Lookup := String → String → Option FieldDefS

structure Env where
  s : Schema
  lk : Lookup
  tbl : List Frag

/-- the field definition `collectFieldsAndFragmentNames` assigns (lines 496-507): `parentType.Fields()[fieldName]` for
Object / Interface parents, and — since the repair of D-02b — `TypeNameMetaFieldDef` for `__typename` under any
non-nil parent type. `__schema` / `__type` have no definition here. -/
def lkFields (s : Schema) : Lookup := fun p f =>
  match (s.fieldsOf p).find? (fun d => d.name == f) with
  | some d => some d
  | none => if f == "__typename" then some typeNameMetaField else none

def envM (s : Schema) (d : Document) : Env := ⟨s, lkFields s, fragDefs d⟩
def envS (s : Schema) (d : Document) : Env := ⟨s, s.fieldDef?, fragDefs d⟩

/-- `typeFromAST` of a type condition, as a `Named`: the type-map entry, or nil -/
def namedOf (s : Schema) : TypeRef → Option String
  | .named n _ => if s.known n then some n else none
  | _ => none

/-- parent type of the sub-selection of a field: `GetNamed(def.Type)`, nil without a definition -/
def FieldOcc.subParent (a : FieldOcc) : Option String := a.fdef.map (·.type.namedName)

/-- two parent types are mutually exclusive: different concrete OBJECT types (lines 402-404) -/
def exclusive (s : Schema) : Option String → Option String → Bool
  | some x, some y => x != y && s.objectT x && s.objectT y
  | _, _ => false

/-- `doTypesConflict` (lines 723-752), in the order of the code -/
def doTypesConflict (s : Schema) : GType → GType → Bool
  | .list a, .list b => doTypesConflict s a b
  | .list _, _ => true
  | _, .list _ => true
  | .nonNull a, .nonNull b => doTypesConflict s a b
  | .nonNull _, _ => true
  | _, .nonNull _ => true
  | .named a, .named b => if s.leafT a || s.leafT b then a != b else false

/-- `type1 != nil && type2 != nil && doTypesConflict(type1, type2)` -/
def typesConflict (s : Schema) (a b : FieldOcc) : Bool :=
  match a.fdef, b.fdef with
  | some x, some y => doTypesConflict s x.type y.type
  | _, _ => false

/-- `sameValue` (lines 710-718): equality of the printed values -/
def sameValue (v w : Value) : Bool := decide (Printer.valueC v = Printer.valueC w)

/-- `sameArguments` (lines 677-708) -/
def sameArguments (xs ys : List Argument) : Bool :=
  xs.length == ys.length &&
  xs.all (fun x =>
    match ys.find? (fun y => y.name.value == x.name.value) with
    | some y => sameValue x.value y.value
    | none => false)

/-! ## Collection: `getFieldsAndFragmentNames` -/

/-- `fieldsAndFragmentNames`; `id` identifies the selection set it was computed for (= the pointer) -/
structure FieldsInfo where
  id : Loc
  fields : List (String × List FieldOcc)   -- `fieldMap` in `fieldsOrder`
  frags : List String                      -- `fragmentNames`
deriving Inhabited

structure Acc where
  fields : List (String × List FieldOcc)
  frags : List String

def addField : List (String × List FieldOcc) → String → FieldOcc → List (String × List FieldOcc)
  | [], k, o => [(k, [o])]
  | (k', os) :: rest, k, o => if k' = k then (k', os ++ [o]) :: rest else (k', os) :: addField rest k o

mutual
def collectSel (e : Env) (pt : Option String) : Selection → Acc → Acc
  | .field a n args _ sel l, acc =>
    let node : FieldNode := ⟨a, n, args, sel, l⟩
    { acc with fields := addField acc.fields node.key ⟨pt, node, pt.bind (fun p => e.lk p n.value)⟩ }
  | .spread n _ _, acc => if n.value ∈ acc.frags then acc else { acc with frags := acc.frags ++ [n.value] }
  | .inline tc _ ss _, acc =>
    collectSet e (match tc with | none => pt | some t => namedOf e.s t) ss acc
def collectSet (e : Env) (pt : Option String) : SelectionSet → Acc → Acc
  | .mk sels _, acc => collectSels e pt sels acc
def collectSels (e : Env) (pt : Option String) : List Selection → Acc → Acc
  | [], acc => acc
  | x :: xs, acc => collectSels e pt xs (collectSel e pt x acc)
end

def collectInfo (e : Env) (pt : Option String) (ss : SelectionSet) : FieldsInfo :=
  let acc := collectSet e pt ss ⟨[], []⟩
  ⟨ss.loc, acc.fields, acc.frags⟩

/-! ## M: state, memo tables, counters -/

structure Conflict where
  key : String          -- `Reason.Name`
  left : List Loc       -- `FieldsLeft`
  right : List Loc      -- `FieldsRight`
deriving Repr, Inhabited

structure OState where
  cache : List (Loc × FieldsInfo)               -- `cacheMap`
  cmpBF : List ((String × String) × Bool)       -- `comparedSet` (pairSet), both orders entered
  cmpFF : List ((Loc × String) × Bool)          -- `comparedFieldsAndFragmentSet`
  nFC : Nat                                     -- VerifSiteFindConflict
  logFF : List (Loc × String × Bool)            -- keys of executed bodies, VerifSiteFieldsAndFragment
  logBF : List (String × String × Bool)         -- keys of executed bodies, VerifSiteBetweenFragments
  oof : Bool
deriving Inhabited

def OState.init : OState := ⟨[], [], [], 0, [], [], false⟩
def OState.cntFF (st : OState) : Nat := st.logFF.length
def OState.cntBF (st : OState) : Nat := st.logBF.length

/-- `pairSet.Has` / `fieldsAndFragmentSet.Has`: an entry stored with `false` answers both queries, one stored with
`true` only the query for `true` -/
def memoHas {κ : Type} [BEq κ] (m : List (κ × Bool)) (k : κ) (excl : Bool) : Bool :=
  match m.lookup k with
  | none => false
  | some stored => if excl then true else !stored

inductive Call where
  | fc (excl : Bool) (key : String) (a b : FieldOcc)     -- findConflict
  | ff (excl : Bool) (info : FieldsInfo) (frag : String) -- collectConflictsBetweenFieldsAndFragment
  | bf (excl : Bool) (f1 f2 : String)                    -- collectConflictsBetweenFragments

abbrev Rec := Call → OState → OState × List Conflict

/-- calls in sequence, threading the state; conflicts are appended in call order -/
def seqCalls (rec : Rec) : List Call → OState → OState × List Conflict
  | [], st => (st, [])
  | c :: cs, st =>
    ((seqCalls rec cs (rec c st).1).1, (rec c st).2 ++ (seqCalls rec cs (rec c st).1).2)

/-- `getFieldsAndFragmentNames` with `cacheMap` -/
def getInfo (e : Env) (pt : Option String) (ss : SelectionSet) (st : OState) : OState × FieldsInfo :=
  match st.cache.lookup ss.loc with
  | some i => (st, i)
  | none => ({ st with cache := (ss.loc, collectInfo e pt ss) :: st.cache }, collectInfo e pt ss)

/-- `getReferencedFieldsAndFragmentNames` -/
def getRefInfo (e : Env) (f : Frag) (st : OState) : OState × FieldsInfo :=
  getInfo e (namedOf e.s f.typeCond) f.sel st

/-- `collectConflictsBetween`: the `findConflict` calls it makes -/
def betweenCalls (excl : Bool) (i1 i2 : FieldsInfo) : List Call :=
  i1.fields.flatMap (fun kf =>
    match i2.fields.lookup kf.1 with
    | none => []
    | some fs2 => kf.2.flatMap (fun a => fs2.map (fun b => Call.fc excl kf.1 a b)))

/-- `for i; for k > i` -/
def pairsLt {α : Type} : List α → List (α × α)
  | [] => []
  | x :: xs => xs.map (fun y => (x, y)) ++ pairsLt xs

/-- `collectConflictsWithin` -/
def withinCalls (i : FieldsInfo) : List Call :=
  i.fields.flatMap (fun kf => (pairsLt kf.2).map (fun ab => Call.fc false kf.1 ab.1 ab.2))

/-- steps B and C of `findConflictsWithinSelectionSet` -/
def topFragCalls (info : FieldsInfo) : List String → List Call
  | [] => []
  | f :: rest => Call.ff false info f :: (rest.map (fun g => Call.bf false f g) ++ topFragCalls info rest)

/-- `subfieldConflicts` -/
def subfieldConflicts (cs : List Conflict) (key : String) (a b : FieldOcc) : List Conflict :=
  if cs.isEmpty then []
  else [⟨key, a.node.loc :: cs.flatMap (·.left), b.node.loc :: cs.flatMap (·.right)⟩]

/-- `findConflictsBetweenSubSelectionSets` (steps H, I, I, J) -/
def ssBody (e : Env) (rec : Rec) (excl : Bool) (p1 : Option String) (s1 : SelectionSet)
    (p2 : Option String) (s2 : SelectionSet) (st : OState) : OState × List Conflict :=
  let r1 := getInfo e p1 s1 st
  let r2 := getInfo e p2 s2 r1.1
  let i1 := r1.2
  let i2 := r2.2
  seqCalls rec
    (betweenCalls excl i1 i2 ++ i2.frags.map (fun f => Call.ff excl i1 f) ++ i1.frags.map (fun f => Call.ff excl i2 f)
      ++ i1.frags.flatMap (fun f1 => i2.frags.map (fun f2 => Call.bf excl f1 f2)))
    r2.1

/-- `findConflict` -/
def fcBody (e : Env) (rec : Rec) (pexcl : Bool) (key : String) (a b : FieldOcc) (st : OState) :
    OState × List Conflict :=
  let st := { st with nFC := st.nFC + 1 }
  let excl := pexcl || exclusive e.s a.parent b.parent
  if !excl && a.node.name.value != b.node.name.value then (st, [⟨key, [a.node.loc], [b.node.loc]⟩])
  else if !excl && !sameArguments a.node.args b.node.args then (st, [⟨key, [a.node.loc], [b.node.loc]⟩])
  else if typesConflict e.s a b then (st, [⟨key, [a.node.loc], [b.node.loc]⟩])
  else
    match a.node.sel, b.node.sel with
    | some s1, some s2 =>
      let r := ssBody e rec excl a.subParent s1 b.subParent s2 st
      (r.1, subfieldConflicts r.2 key a b)
    | _, _ => (st, [])

/-- `collectConflictsBetweenFieldsAndFragment` (steps D, E) -/
def ffBody (e : Env) (rec : Rec) (excl : Bool) (info : FieldsInfo) (frag : String) (st : OState) :
    OState × List Conflict :=
  if memoHas st.cmpFF (info.id, frag) excl then (st, [])
  else
    let st := { st with cmpFF := ((info.id, frag), excl) :: st.cmpFF, logFF := (info.id, frag, excl) :: st.logFF }
    match lookupFrag e.tbl frag with
    | none => (st, [])
    | some f =>
      let r := getRefInfo e f st
      if info.id == r.2.id then (r.1, [])
      else seqCalls rec (betweenCalls excl info r.2 ++ r.2.frags.map (fun g => Call.ff excl info g)) r.1

/-- `collectConflictsBetweenFragments` (steps F, G, G) -/
def bfBody (e : Env) (rec : Rec) (excl : Bool) (n1 n2 : String) (st : OState) : OState × List Conflict :=
  match lookupFrag e.tbl n1, lookupFrag e.tbl n2 with
  | some f1, some f2 =>
    if n1 == n2 then (st, [])
    else if memoHas st.cmpBF (n1, n2) excl then (st, [])
    else
      let st := { st with cmpBF := ((n1, n2), excl) :: ((n2, n1), excl) :: st.cmpBF,
                          logBF := (n1, n2, excl) :: st.logBF }
      let r1 := getRefInfo e f1 st
      let r2 := getRefInfo e f2 r1.1
      seqCalls rec
        (betweenCalls excl r1.2 r2.2 ++ r2.2.frags.map (fun g => Call.bf excl n1 g)
          ++ r1.2.frags.map (fun g => Call.bf excl g n2))
        r2.1
  | _, _ => (st, [])

def body (e : Env) (rec : Rec) : Call → OState → OState × List Conflict
  | .fc excl key a b, st => fcBody e rec excl key a b st
  | .ff excl info frag, st => ffBody e rec excl info frag st
  | .bf excl n1 n2, st => bfBody e rec excl n1 n2 st

/-- the recursion, on explicit fuel = bound on the nesting of calls -/
def run (e : Env) : Nat → Rec
  | 0 => fun _ st => ({ st with oof := true }, [])
  | fuel + 1 => body e (run e fuel)

/-- `findConflictsWithinSelectionSet` (steps A, B, C) -/
def visitSet (e : Env) (fuel : Nat) (pt : Option String) (ss : SelectionSet) (st : OState) :
    OState × List Conflict :=
  let r := getInfo e pt ss st
  seqCalls (run e fuel) (withinCalls r.2 ++ topFragCalls r.2 r.2.frags) r.1

/-! ### sizes (fuel, and the bounds of `memo_body_at_most_once`) -/

mutual
/-- all selection sets at or below a node -/
def belowSel : Selection → List SelectionSet
  | .field _ _ _ _ sel _ => belowOpt sel
  | .spread .. => []
  | .inline _ _ ss _ => belowSet ss
def belowSet : SelectionSet → List SelectionSet
  | .mk sels l => .mk sels l :: belowSels sels
def belowOpt : Option SelectionSet → List SelectionSet
  | none => []
  | some ss => belowSet ss
def belowSels : List Selection → List SelectionSet
  | [] => []
  | x :: xs => belowSel x ++ belowSels xs
end

/-- selection sets of the executable definitions -/
def rootSets (d : Document) : List SelectionSet :=
  d.defs.filterMap (fun
    | .operation _ _ _ _ sel _ => some sel
    | .fragment _ _ _ sel _ => some sel
    | _ => none)

/-- every selection set of the document -/
def allSets (d : Document) : List SelectionSet := (rootSets d).flatMap belowSet

/-- distinct names spread anywhere in the document -/
def allSpreadNames (d : Document) : List String := unionNew [] ((rootSets d).flatMap spreadNames)

/-- `S`, `F`, and the fuel: (potential of the two memo tables + 1) × (nesting depth bound + 2) + 1 -/
def nSets (d : Document) : Nat := (allSets d).length
def nSpreadNames (d : Document) : Nat := (allSpreadNames d).length
def nFrags (d : Document) : Nat := (fragDefs d).length
def memoPotential (d : Document) : Nat := 2 * (nSets d * nSpreadNames d) + 2 * (nFrags d * nFrags d)
def fuelFor (d : Document) : Nat := (memoPotential d + 1) * (nSets d + 2) + 1

/-- selection sets of a parsed document start at distinct bytes (checked by the drivers on every input) -/
def locsDistinct (d : Document) : Bool := decide ((allSets d).map (·.loc)).Nodup

/-! ### the rule -/

def ruleOverlap : String := "OverlappingFieldsCanBeMerged"

def Conflict.toErr (c : Conflict) : VErr := ⟨ruleOverlap, c.left ++ c.right⟩

/-- the SelectionSet visitor over the whole document (document order, `ParentType()` of TypeInfo) -/
def overlapRun (e : Env) (fuel : Nat) (sets : List (TCtx × SelectionSet)) : OState × List Conflict :=
  sets.foldl (fun acc cs =>
    let r := visitSet e fuel cs.1.parent cs.2 acc.1
    (r.1, acc.2 ++ r.2)) (OState.init, [])

def overlapM (s : Schema) (d : Document) : OState × List Conflict :=
  overlapRun (envM s d) (fuelFor d) (typedSelSets s d)

def overlappingFieldsCanBeMerged (s : Schema) (d : Document) : List VErr :=
  (overlapM s d).2.map Conflict.toErr

/-! ## S -/

mutual
/-- structural equality of values, locations ignored -/
def valueEq : Value → Value → Bool
  | .var a _, .var b _ => a == b
  | .int a _, .int b _ => a == b
  | .float a _, .float b _ => a == b
  | .str a _, .str b _ => a == b
  | .bool a _, .bool b _ => a == b
  | .enum a _, .enum b _ => a == b
  | .list xs _, .list ys _ => valuesEq xs ys
  | .obj xs _, .obj ys _ => objFieldsEq xs ys
  | _, _ => false
def valuesEq : List Value → List Value → Bool
  | [], [] => true
  | x :: xs, y :: ys => valueEq x y && valuesEq xs ys
  | _, _ => false
def objFieldEq : ObjField → ObjField → Bool
  | .mk n v _, .mk m w _ => n.value == m.value && valueEq v w
def objFieldsEq : List ObjField → List ObjField → Bool
  | [], [] => true
  | x :: xs, y :: ys => objFieldEq x y && objFieldsEq xs ys
  | _, _ => false
end

/-- every argument of the first list has an equal one (same name, structurally equal value) in the second -/
def argsIncl (xs ys : List Argument) : Bool :=
  xs.all (fun x => ys.any (fun y => y.name.value == x.name.value && valueEq x.value y.value))

/-- identical SETS of arguments (spec: "fieldA and fieldB must have identical sets of arguments"); reflexive and
symmetric. With duplicate argument names (rejected by UniqueArgumentNames) the code's first-match comparison
`sameArguments` can differ from this. -/
def sameArgsS (xs ys : List Argument) : Bool := argsIncl xs ys && argsIncl ys xs

/-- the argument names of the field are pairwise different -/
def FieldNode.argsUnique (f : FieldNode) : Bool := decide (f.args.map (·.name.value)).Nodup

/-- SameResponseShape on the return types, in the order of the spec: non-null, then list, then leaves -/
def sameShapeTypes (s : Schema) : GType → GType → Bool
  | .nonNull a, .nonNull b => sameShapeTypes s a b
  | .nonNull _, _ => false
  | _, .nonNull _ => false
  | .list a, .list b => sameShapeTypes s a b
  | .list _, _ => false
  | _, .list _ => false
  | .named a, .named b => if s.leafT a || s.leafT b then a == b else true

def shapeConflict (s : Schema) (a b : FieldOcc) : Bool :=
  match a.fdef, b.fdef with
  | some x, some y => !sameShapeTypes s x.type y.type
  | _, _ => false

mutual
/-- fields of a selection set through inline fragments, with their parent types -/
def directSel (e : Env) (pt : Option String) : Selection → List FieldOcc
  | .field a n args _ sel l => [⟨pt, ⟨a, n, args, sel, l⟩, pt.bind (fun p => e.lk p n.value)⟩]
  | .spread .. => []
  | .inline tc _ ss _ => directSet e (match tc with | none => pt | some t => namedOf e.s t) ss
def directSet (e : Env) (pt : Option String) : SelectionSet → List FieldOcc
  | .mk sels _ => directSels e pt sels
def directSels (e : Env) (pt : Option String) : List Selection → List FieldOcc
  | [] => []
  | x :: xs => directSel e pt x ++ directSels e pt xs
end

mutual
/-- names spread in a selection set, through inline fragments only (not inside sub-selections of fields) -/
def shallowSel : Selection → List String
  | .field .. => []
  | .spread n _ _ => [n.value]
  | .inline _ _ ss _ => shallowSet ss
def shallowSet : SelectionSet → List String
  | .mk sels _ => shallowSels sels
def shallowSels : List Selection → List String
  | [] => []
  | x :: xs => shallowSel x ++ shallowSels xs
end

mutual
/-- the shallow view of a selection: sub-selections of fields removed, inline fragments kept; its spreads
(`spreadsSet`) are exactly the spreads at the selection set's own level -/
def shSel : Selection → Selection
  | .field a n args ds _ l => .field a n args ds none l
  | .spread n ds l => .spread n ds l
  | .inline tc ds ss l => .inline tc ds (shSet ss) l
def shSet : SelectionSet → SelectionSet
  | .mk sels l => .mk (shSels sels) l
def shSels : List Selection → List Selection
  | [] => []
  | x :: xs => shSel x :: shSels xs
end

def shFrag (f : Frag) : Frag := { f with sel := shSet f.sel }

/-- the fragment table of the SHALLOW spread graph: `a → b` iff fragment `a` spreads `b` at the top level of its body
(through inline fragments) -/
def shTbl (tbl : List Frag) : List Frag := tbl.map shFrag

/-- fragments reachable from a selection set through named spreads at its own level: reachability in the shallow
spread graph, computed by the `RecursivelyReferencedFragments` worklist (`recursivelyReferenced_eq_reachable`
characterises it declaratively: `mem_shallowFrags`) -/
def shallowFrags (tbl : List Frag) (ss : SelectionSet) : List Frag :=
  (recursivelyReferenced (shTbl tbl) (shSet ss)).filterMap (fun f' => lookupFrag tbl f'.name.value)

/-- the fully flattened field set of a selection set -/
def flat (e : Env) (pt : Option String) (ss : SelectionSet) : List FieldOcc :=
  directSet e pt ss ++
  (shallowFrags e.tbl ss).flatMap (fun f => directSet e (namedOf e.s f.typeCond) f.sel)

def flatOpt (e : Env) (pt : Option String) : Option SelectionSet → List FieldOcc
  | none => []
  | some ss => flat e pt ss

/-- exclusivity passed down: inherited, or the two parents are different object types -/
def exclOf (e : Env) (excl : Bool) (a b : FieldOcc) : Bool := excl || exclusive e.s a.parent b.parent

/-- the two fields themselves disagree (name / arguments unless exclusive, response shape always) -/
def baseConflict (e : Env) (excl : Bool) (a b : FieldOcc) : Bool :=
  (!exclOf e excl a b && (a.node.name.value != b.node.name.value || !sameArgsS a.node.args b.node.args))
  || shapeConflict e.s a b

/-- the two fields cannot be merged -/
inductive PairConflict (e : Env) : Bool → FieldOcc → FieldOcc → Prop
  | base {excl a b} : baseConflict e excl a b = true → PairConflict e excl a b
  | sub {excl a b} (s1 s2 : SelectionSet) (a' b' : FieldOcc) :
      a.node.sel = some s1 → b.node.sel = some s2 →
      a' ∈ flat e a.subParent s1 → b' ∈ flat e b.subParent s2 → a'.node.key = b'.node.key →
      PairConflict e (exclOf e excl a b) a' b' → PairConflict e excl a b

/-- SameResponseShape (spec): no conflict even when everything above is mutually exclusive -/
def SameResponseShape (e : Env) (a b : FieldOcc) : Prop := ¬ PairConflict e true a b

/-- ¬ FieldsInSetCanMerge: two fields with one response key in the flattened set cannot be merged. (A field paired
with itself conflicts only through its own sub-selection, i.e. when the selection set of that field violates the rule
as well; document-wide this makes no difference.) -/
def SetConflict (e : Env) (pt : Option String) (ss : SelectionSet) : Prop :=
  ∃ a b, a ∈ flat e pt ss ∧ b ∈ flat e pt ss ∧ a.node.key = b.node.key ∧ PairConflict e false a b

def FieldsInSetCanMerge (e : Env) (pt : Option String) (ss : SelectionSet) : Prop := ¬ SetConflict e pt ss

/-! ### coherence of the parent types (hypothesis of `overlap_sound`)

The Go rule obtains the parent type of a selection set from three places: the visitor (`TypeInfo.ParentType()`),
`findConflict` (`GetNamed` of the field definition's return type) and a fragment's type condition; `cacheMap` keeps
whatever the FIRST caller computed. `cohB` checks that the three agree (they can differ for sub-selections of
`__schema` / `__type`, of leaf-typed fields and for fragments on non-composite types — all invalid or introspection
documents), taking the visitor's parent type `piOf` as the reference. It also checks that no field has two
arguments of one name (UniqueArgumentNames): only then is the code's first-match `sameArguments` the spec's
comparison of argument SETS. -/

/-- `TypeInfo.ParentType()` of the selection set with this location -/
def piOf (s : Schema) (d : Document) (ss : SelectionSet) : Option String :=
  ((typedSelSets s d).find? (fun cs => cs.2.loc == ss.loc)).bind (fun cs => cs.1.parent)

def cohB (s : Schema) (d : Document) (e : Env) : Bool :=
  locsDistinct d &&
  (allSets d).all (fun ss => (directSet e (piOf s d ss) ss).all (fun a =>
    a.node.argsUnique &&
    (match a.node.sel with
     | some s' => decide (piOf s d s' = a.subParent)
     | none => true))) &&
  e.tbl.all (fun f => decide (piOf s d f.sel = namedOf e.s f.typeCond)) &&
  (typedSelSets s d).all (fun cs => decide (piOf s d cs.2 = cs.1.parent))

/-! ### hypotheses of the completeness theorem `overlap_complete_acyclic` (all decidable, evaluated by the drivers)

* `cohB` (above);
* `Graph`-level: unique fragment names and no fragment cycle (`acyclicB` = the cycle rule reports nothing; by `cycles_iff`
  that is `¬ Cyclic`);
* `argsFaithfulB`: whenever the code's `sameArguments` (equal PRINTED values) holds for two fields of the document,
  the arguments are structurally equal — true for parser-produced values because printing is injective on them
  (C08 round trip);
* `apartB`: the locations that stand for pointer identity separate fragment bodies from every other selection set
  (a strictly nested selection set or an operation's root never has the location of a fragment body; two fragment
  bodies with one location belong to fragments of one name). -/

/-- the cycle rule reports nothing -/
def acyclicB (d : Document) : Bool := (cycleRun (fragDefs d)).errs.isEmpty

/-- every field of the document, with the parent type `piOf` assigns to its selection set -/
def docFields (s : Schema) (d : Document) (e : Env) : List FieldOcc :=
  (allSets d).flatMap (fun Y => directSet e (piOf s d Y) Y)

def argsFaithfulB (s : Schema) (d : Document) (e : Env) : Bool :=
  (docFields s d e).all (fun a => (docFields s d e).all (fun b =>
    !sameArguments a.node.args b.node.args || sameArgsS a.node.args b.node.args))

/-- selection sets strictly below a root -/
def properSetsL (d : Document) : List SelectionSet := (rootSets d).flatMap (fun r => belowSels r.sels)

def apartB (d : Document) (tbl : List Frag) : Bool :=
  (properSetsL d).all (fun X => tbl.all (fun f => X.loc != f.sel.loc)) &&
  (opSels d).all (fun X => tbl.all (fun f => X.loc != f.sel.loc)) &&
  tbl.all (fun f => tbl.all (fun g => f.sel.loc != g.sel.loc || f.name.value == g.name.value))

def compB (s : Schema) (d : Document) (e : Env) : Bool :=
  cohB s d e && uniqueFragNames d && acyclicB d && argsFaithfulB s d e && apartB d e.tbl

/-! ### deciding `PairConflict`: search of the finite state graph with a visited set -/

abbrev PState := Bool × FieldOcc × FieldOcc
abbrev PKey := Bool × (Option String × Loc) × (Option String × Loc)

def PState.pkey (p : PState) : PKey := (p.1, (p.2.1.parent, p.2.1.node.loc), (p.2.2.parent, p.2.2.node.loc))

/-- sub-pairs of a state: same response key, in the flattened sub-selections -/
def subPairs (e : Env) (p : PState) : List PState :=
  match p.2.1.node.sel, p.2.2.node.sel with
  | some s1, some s2 =>
    let ex := exclOf e p.1 p.2.1 p.2.2
    (flat e p.2.1.subParent s1).flatMap (fun a' =>
      ((flat e p.2.2.subParent s2).filter (fun b' => a'.node.key == b'.node.key)).map (fun b' => (ex, a', b')))
  | _, _ => []

/-- depth-first search for a state with a base conflict; `none` = fuel exhausted -/
def pairSearch (e : Env) : Nat → List PKey → List PState → Option Bool
  | _, _, [] => some false
  | 0, _, _ :: _ => none
  | fuel + 1, seen, p :: todo =>
    if p.pkey ∈ seen then pairSearch e fuel seen todo
    else if baseConflict e p.1 p.2.1 p.2.2 then some true
    else pairSearch e fuel (p.pkey :: seen) (subPairs e p ++ todo)

def pairConflictB (e : Env) (fuel : Nat) (excl : Bool) (a b : FieldOcc) : Option Bool :=
  pairSearch e fuel [] [(excl, a, b)]

/-- `for i; for k ≥ i` (the relation is symmetric, so unordered pairs — a field with itself included — suffice) -/
def pairsLe {α : Type} : List α → List (α × α)
  | [] => []
  | x :: xs => (x, x) :: (xs.map (fun y => (x, y)) ++ pairsLe xs)

/-- conflicting pairs of one selection set; `none` = fuel exhausted -/
def setConflictsS (e : Env) (fuel : Nat) (pt : Option String) (ss : SelectionSet) : Option (List (FieldOcc × FieldOcc)) :=
  ((pairsLe (flat e pt ss)).filter (fun ab => ab.1.node.key == ab.2.node.key)).foldl (fun acc ab =>
    match acc, pairConflictB e fuel false ab.1 ab.2 with
    | some l, some true => some (l ++ [ab])
    | some l, some false => some l
    | _, _ => none) (some [])

/-- number of field occurrences of the document, for the search fuel -/
def nFieldsUpper (e : Env) (d : Document) : Nat :=
  ((allSets d).map (fun ss => (directSet e none ss).length)).foldl (· + ·) 0

/-- every state is expanded at most once and pushes at most `n²` successors: `2(n²+1)²` pops suffice, where
`n` bounds the number of (parent, field) occurrences: fields × (types + 1) -/
def searchFuel (e : Env) (d : Document) : Nat :=
  let n := nFieldsUpper e d * (e.s.types.length + Validate.introspectionTypes.length + 2)
  2 * (n * n + 1) * (n * n + 1) + 1

/-- the spec rule over the whole document for an arbitrary environment; `none` = search fuel exhausted -/
def overlapSFe (e : Env) (d : Document) : Option (List VErr) :=
  let fuel := searchFuel e d
  (typedSelSets e.s d).foldl (fun acc cs =>
    match acc, setConflictsS e fuel cs.1.parent cs.2 with
    | some errs, some l => some (errs ++ l.map (fun ab => ⟨ruleOverlap, [ab.1.node.loc, ab.2.node.loc]⟩))
    | _, _ => none) (some [])

def overlapSF (s : Schema) (d : Document) : Option (List VErr) := overlapSFe (envS s d) d

/-- S rule; a fuel exhaustion of the search (never observed; reported by the drivers) yields a marker error -/
def overlapS (s : Schema) (d : Document) : List VErr :=
  match overlapSF s d with
  | some errs => errs
  | none => [⟨"OverlappingFieldsCanBeMerged:S-search-out-of-fuel", []⟩]

/-- no field of the document has two arguments of one name; when false, S (`sameArgsS`, sets of arguments) and the
code's first-match `sameArguments` may legitimately differ — compare real vs M only -/
def uniqueArgNames (d : Document) : Bool :=
  (allSets d).all (fun ss => (directSet ⟨default, fun _ _ => none, []⟩ none ss).all (fun (a : FieldOcc) => a.node.argsUnique))

end GqlModel.Validate.Overlap

namespace GqlModel.Validate
open Overlap

def overlapRules : List (String × (Schema → Document → List VErr)) := [(ruleOverlap, overlappingFieldsCanBeMerged)]
def overlapRulesS : List (String × (Schema → Document → List VErr)) := [(ruleOverlap, overlapS)]

end GqlModel.Validate
