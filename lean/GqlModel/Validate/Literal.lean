import GqlModel.Validate.Common
import GqlModel.Coerce
/-! # Literal validity (`isValidLiteralValue`, rules.go:1722-1810) as the validation rules use it

The validation rules reach literal validity through the single function `validLiteral` (end of this file). For a
type all of whose names the schema resolves — always the case for argument, input-field and directive-argument types,
which are pointers held by the schema — it IS worker c05's model `Coerce.isValidLiteralValue` (GqlModel/Coerce.lean,
tied to the real function by C05's own correspondence and to the specification's literal coercion by
`Coerce.validLiteral_iff_coercible`), evaluated on the schema extended with the introspection types (`Schema.plus`).
Only for a type written in the DOCUMENT whose named core is unknown (a variable definition `$v: [Nope!] = …`; Go:
`typeFromAST` gives wrappers around nil) the local structural version `validLitLocal` below is used; it is the
earlier stand-alone model of the whole function and is kept unchanged.

Deviations of the Go function from a "pure" reading that are reproduced here:
* a non-null type around an UNKNOWN named type (`NewNonNull(nil)` carries an error) rejects every value, variables too;
* any other position whose type is nil / not an input type accepts every value;
* of several input-object fields with one name the LAST one is validated (`fieldASTMap` is assigned in order), every
  one is checked for being defined;
* a required (non-null) input field / argument is required even when it has a default (pre-`null` edition).
`Float` accepts every Int / Float literal: `strconv.ParseFloat` only fails on overflow (|x| ≥ 1.8e308), which the
generators never write. `Int` is `strconv.Atoi` + the int32 range check. -/
namespace GqlModel.Validate

/-- `Scalar.ParseLiteral` is non-nil -/
def scalarAccepts (k : ScalarKind) (v : Value) : Bool :=
  match k, v with
  | .int, .int raw _ =>
    match raw.toInt? with
    | some i => decide (-2147483648 ≤ i) && decide (i ≤ 2147483647)
    | none => false
  | .float, .int _ _ => true
  | .float, .float _ _ => true
  | .string, .str _ _ => true
  | .boolean, .bool _ _ => true
  | .id, .int _ _ => true
  | .id, .str _ _ => true
  | .custom _ _ parseLiteral, v =>
    -- gq.literalToWire: Int / String / Boolean literals have a wire value, everything else never matches a table row
    let key : Option JVal := match v with
      | .int raw _ => raw.toInt?.map JVal.int
      | .str sv _ => some (.str sv)
      | .bool b _ => some (.bool b)
      | _ => none
    match key with
    | some k =>
      match parseLiteral.find? (fun p => p.1 == k) with
      | some (_, out) => !out.isNull
      | none => false
    | none => false
  | _, _ => false

/-- what a NAMED type of the type map demands of a literal that is neither a variable nor (for lists) a list -/
inductive Target where
  | anything                       -- nil type, unknown name, or not an input type: no case of the Go `switch` applies
  | nothing                        -- `NonNull` whose inner type is nil
  | scalar (k : ScalarKind)
  | enum (values : List String)
  | object (fields : List InputFieldS) (name : String)
  | items (t : GType)              -- only from `listTarget`
deriving Inhabited

def namedTarget (s : Schema) (nm : String) : Target :=
  match s.resolve nm with
  | some (.scalar _ k _) => .scalar k
  | some (.enum _ vs _) => .enum (vs.map (·.name))
  | some (.inputObject n fs _) => .object fs n
  | _ => .anything

/-- strips `List` / `NonNull` wrappers for a non-list literal ("a non-list value is a list of one") -/
def leafTarget (s : Schema) : GType → Target
  | .named nm => namedTarget s nm
  | .nonNull (.named nm) => if (s.resolve nm).isSome then namedTarget s nm else .nothing
  | .nonNull t => leafTarget s t
  | .list t => leafTarget s t

/-- for a list literal: strips `NonNull` until a `List` (→ its item type) or a named type -/
def listTarget (s : Schema) : GType → Target
  | .named nm => namedTarget s nm
  | .nonNull (.named nm) => if (s.resolve nm).isSome then namedTarget s nm else .nothing
  | .nonNull t => listTarget s t
  | .list t => .items t

mutual
/-- `isValidLiteralValue(type, value)` for a present value -/
def validLitLocal (s : Schema) (t : Option GType) : Value → Bool
  | .var _ _ =>
    -- not non-null: accepted at once; non-null: its inner type (never non-null again) accepts it
    match t with
    | some (.nonNull (.named nm)) => (s.resolve nm).isSome
    | _ => true
  | .list vs _ =>
    match t with
    | none => true
    | some t =>
      match listTarget s t with
      | .items it => validLitsLocal s (some it) vs
      | .anything => true
      | .nothing => false
      | _ => false      -- scalars' ParseLiteral, enums and input objects reject a list literal
  | .obj fs _ =>
    match t with
    | none => true
    | some t =>
      match leafTarget s t with
      | .object defs _ =>
        validFieldsLocal s defs fs
          && defs.all (fun d => !d.type.isNonNull || fs.any (fun f => f.name.value == d.name))
      | .anything => true
      | _ => false      -- scalars' ParseLiteral and enums reject an object literal
  | v =>
    match t with
    | none => true
    | some t =>
      match leafTarget s t with
      | .anything => true
      | .scalar k => scalarAccepts k v
      | .enum names => (match v with | .enum x _ => names.contains x | _ => false)
      | _ => false
def validLitsLocal (s : Schema) (t : Option GType) : List Value → Bool
  | [] => true
  | v :: vs => validLitLocal s t v && validLitsLocal s t vs
/-- every provided field is defined; the last field of each name is valid for its type -/
def validFieldsLocal (s : Schema) (defs : List InputFieldS) : List ObjField → Bool
  | [] => true
  | .mk nm v _ :: rest =>
    (match defs.find? (fun d => d.name == nm.value) with
      | some d => rest.any (fun f => f.name.value == nm.value) || validLitLocal s (some d.type) v
      | none => false)
    && validFieldsLocal s defs rest
end

/-- a type written in the DOCUMENT (variable definition) resolves through the type map (`typeFromAST`): a name that is
not in it is nil, here the never-defined name `""` -/
def astType (s : Schema) : GType → GType
  | .named nm => if s.known nm then .named nm else .named ""
  | .list t => .list (astType s t)
  | .nonNull t => .nonNull (astType s t)

/-- the stand-alone structural model, with a possibly absent value (`nil`): absent is fine unless non-null -/
def validLiteralLocal (s : Schema) (t : Option GType) : Option Value → Bool
  | some v => validLitLocal s t v
  | none => match t with | some (.nonNull _) => false | _ => true

/-- the schema with its introspection types (`__Schema`, `__Type`, …): `plus.find?` = `Schema.resolve` -/
def _root_.GqlModel.Schema.plus (s : Schema) : Schema := { s with types := s.types ++ introspectionTypes }

/-- the named core of the type is a type the schema holds -/
def leafResolves (s : Schema) (t : GType) : Bool := (s.resolve t.namedName).isSome

/-- `isValidLiteralValue(type, valueAST)` (`type` nil: `none`; `valueAST` nil: `none`) -/
def validLiteral (s : Schema) (t : Option GType) (lit : Option Value) : Bool :=
  match t with
  | none => true
  | some t =>
    if leafResolves s t then Coerce.isValidLiteralValue s.plus t lit
    else validLiteralLocal s (some t) lit

end GqlModel.Validate
