import GqlModel.Validate.Common
import GqlModel.Validate.Literal
/-! # Validation: the "local" rules (C02, worker c02a)

Scope: EXECUTABLE definitions (operations, fragments). Type-system definitions inside a validated document are
ignored by every model here (the property quantifies over executable documents).

`items s d` is the projection of the validator's traversal (visitor.Visit + VisitWithTypeInfo + VisitInParallel, C14)
onto the node kinds the local rules handle, in document (= enter) order, each node with the `TypeInfo` state its
visitor function sees.  Every rule is then a plain list function over `items`:

* `…_S`  the rule as the spec edition the library implements states it (declarative: a filter over the typed items);
* `…_M`  the rule as coded, where that differs from S (a recorded deviation) or where the code is a stateful
         visitor (a `foldl` over the items with the rule's private state: `knownArgNames`, `knownNameStack`, …).

A `VErr` lists the locations of the nodes handed to `reportError`, in that order. The order of the errors of one rule
is not part of the observable (the harness compares them as multisets). -/
namespace GqlModel.Validate

/-! ## Items -/

/-- where a directive is applied = last ancestor of the Directive node (`getDirectiveLocationForASTPath`) -/
inductive DirSite where
  | query | mutation | subscription | field | fragmentSpread | inlineFragment | fragmentDefinition
deriving DecidableEq, Repr, Inhabited

def DirSite.location : DirSite → String
  | .query => "QUERY" | .mutation => "MUTATION" | .subscription => "SUBSCRIPTION" | .field => "FIELD"
  | .fragmentSpread => "FRAGMENT_SPREAD" | .inlineFragment => "INLINE_FRAGMENT"
  | .fragmentDefinition => "FRAGMENT_DEFINITION"

def DirSite.ofOp : OpType → DirSite
  | .query => .query | .mutation => .mutation | .subscription => .subscription

inductive Item where
  | op (op : OpType) (name : Option Name) (loc : Loc)
  | varDef (v : VarDef)
  | frag (c : TCtx) (name : Name) (tc : TypeRef) (loc : Loc)
  /-- `c` = TypeInfo after `Enter(field)`: `c.parent` the enclosing parent type, `c.fieldDef`, `c.ty` the field's type -/
  | field (c : TCtx) (name : Name) (args : List Argument) (sel : Option SelectionSet) (loc : Loc)
  | spread (c : TCtx) (name : Name) (loc : Loc)
  /-- `c` = TypeInfo after `Enter(inlineFragment)`: `c.ty` is `Type()`, `c.parent` the enclosing parent type -/
  | inline (c : TCtx) (tc : Option TypeRef) (loc : Loc)
  /-- `c.fieldDef` = `TypeInfo.FieldDef()` while the directive is visited -/
  | directive (site : DirSite) (c : TCtx) (dir : Directive)
deriving Inhabited

def dirItems (site : DirSite) (c : TCtx) (ds : List Directive) : List Item := ds.map (Item.directive site c)

mutual
def itemsSel (s : Schema) (c : TCtx) : Selection → List Item
  | .field _ nm args dirs sel lc =>
    let c' := c.enterField s nm.value
    Item.field c' nm args sel lc :: (dirItems .field c' dirs ++ itemsOpt s c' sel)
  | .spread nm dirs lc => Item.spread c nm lc :: dirItems .fragmentSpread c dirs
  | .inline tc dirs ss lc =>
    let c' := c.enterInline s tc
    Item.inline c' tc lc :: (dirItems .inlineFragment c' dirs ++ itemsSet s c' ss)
def itemsSet (s : Schema) (c : TCtx) : SelectionSet → List Item
  | .mk sels _ => itemsSels s (c.enterSelSet s) sels
def itemsOpt (s : Schema) (c : TCtx) : Option SelectionSet → List Item
  | none => []
  | some ss => itemsSet s c ss
def itemsSels (s : Schema) (c : TCtx) : List Selection → List Item
  | [] => []
  | x :: xs => itemsSel s c x ++ itemsSels s c xs
end

def itemsDef (s : Schema) : Definition → List Item
  | .operation op nm vars dirs sel lc =>
    let c := TCtx.enterOp s op
    Item.op op nm lc :: (vars.map Item.varDef ++ dirItems (DirSite.ofOp op) c dirs ++ itemsSet s c sel)
  | .fragment nm tc dirs sel lc =>
    let c := TCtx.enterFragment s tc
    Item.frag c nm tc lc :: (dirItems .fragmentDefinition c dirs ++ itemsSet s c sel)
  | _ => []

def items (s : Schema) (d : Document) : List Item := d.defs.flatMap (itemsDef s)

/-! ## Small helpers -/

def TypeRef.leafLoc : TypeRef → Loc
  | .named _ lc => lc
  | .list t _ => leafLoc t
  | .nonNull t _ => leafLoc t

/-- `doTypesOverlap` (rules.go:1147-1187) on names of the type map -/
def doTypesOverlap (s : Schema) (t1 t2 : String) : Bool :=
  if t1 == t2 then true
  else if s.objectT t1 then
    if s.objectT t2 then false
    else if s.abstractT t2 then (s.possibleTypes t2).contains t1
    else false
  else if s.abstractT t1 then
    if s.objectT t2 then (s.possibleTypes t1).contains t2
    else if s.abstractT t2 then (s.possibleTypes t2).any (fun o => (s.possibleTypes t1).contains o)
    else false
  else false

/-- operations of a document -/
def isOperation : Definition → Bool
  | .operation .. => true
  | _ => false

def opCount (d : Document) : Nat := (d.defs.filter isOperation).length

/-! ## Type-directed rules (S; M only where the code deviates) -/

/-- argument values of one argument list against the definitions `defs` -/
def badArgValues (s : Schema) (rule : String) (lookup : String → Option ArgDef) (args : List Argument) : List VErr :=
  args.filterMap (fun a => match lookup a.name.value with
    | some d => if validLiteral s (some d.type) (some a.value) then none else some ⟨rule, [a.value.loc]⟩
    | none => none)

/-- ArgumentsOfCorrectType (rules.go:67-104 with TypeInfo.Enter(Argument)): every argument literal of a KNOWN argument
of a field with a known definition / of a directive the schema knows is valid for the argument's type -/
def argumentsOfCorrectType_S (s : Schema) (d : Document) : List VErr :=
  (items s d).flatMap (fun
    | .field c _ args _ _ => badArgValues s "ArgumentsOfCorrectType" (argDefFor none c.fieldDef) args
    | .directive _ _ dir => badArgValues s "ArgumentsOfCorrectType" (argDefFor (s.directive? dir.name.value) none) dir.args
    | _ => [])

/-- DefaultValuesOfCorrectType (rules.go:110-160): a non-null variable must not have a default; a default must be a
valid literal of the variable's type. -/
def defaultValuesOfCorrectType_S (s : Schema) (d : Document) : List VErr :=
  (items s d).flatMap (fun
    | .varDef v =>
      match v.default with
      | none => []
      | some dv =>
        let t := (typeFromRef s v.type).map (astType s)
        (match t with | some (.nonNull _) => [⟨"DefaultValuesOfCorrectType", [dv.loc]⟩] | _ => [])
        ++ (if validLiteral s t (some dv) then [] else [⟨"DefaultValuesOfCorrectType", [dv.loc]⟩])
    | _ => [])

/-- FieldsOnCorrectType (rules.go:201-248): a field under a composite parent type must be defined by it -/
def fieldsOnCorrectType_S (s : Schema) (d : Document) : List VErr :=
  (items s d).filterMap (fun
    | .field c _ _ _ lc => if c.parent.isSome && c.fieldDef.isNone then some ⟨"FieldsOnCorrectType", [lc]⟩ else none
    | _ => none)

/-- FragmentsOnCompositeTypes (rules.go:358-400): a known type condition must name a composite type -/
def fragmentsOnCompositeTypes_S (s : Schema) (d : Document) : List VErr :=
  (items s d).filterMap (fun
    | .inline _ (some tc) _ =>
      if s.known tc.namedName && !s.compositeT tc.namedName then some ⟨"FragmentsOnCompositeTypes", [tc.loc]⟩ else none
    | .frag _ _ tc _ =>
      if s.known tc.namedName && !s.compositeT tc.namedName then some ⟨"FragmentsOnCompositeTypes", [tc.loc]⟩ else none
    | _ => none)

def unknownArgs (rule : String) (defs : List ArgDef) (args : List Argument) : List VErr :=
  args.filterMap (fun a => if defs.any (fun d => d.name == a.name.value) then none else some ⟨rule, [a.loc]⟩)

/-- KnownArgumentNames (rules.go:436-520): arguments of a known field / known directive must be defined by it -/
def knownArgumentNames_S (s : Schema) (d : Document) : List VErr :=
  (items s d).flatMap (fun
    | .field c _ args _ _ =>
      match c.fieldDef with
      | some fd => unknownArgs "KnownArgumentNames" fd.args args
      | none => []
    | .directive _ _ dir =>
      match s.directive? dir.name.value with
      | some dd => unknownArgs "KnownArgumentNames" dd.args dir.args
      | none => []
    | _ => [])

/-- KnownDirectives (rules.go:530-590 + getDirectiveLocationForASTPath): known, and allowed at that location -/
def knownDirectives_S (s : Schema) (d : Document) : List VErr :=
  (items s d).filterMap (fun
    | .directive site _ dir =>
      match s.directive? dir.name.value with
      | none => some ⟨"KnownDirectives", [dir.loc]⟩
      | some dd => if dd.locations.contains site.location then none else some ⟨"KnownDirectives", [dir.loc]⟩
    | _ => none)

/-- KnownFragmentNames (rules.go:670-700) -/
def knownFragmentNames_S (s : Schema) (d : Document) : List VErr :=
  (items s d).filterMap (fun
    | .spread _ nm _ => if fragmentDefined d nm.value then none else some ⟨"KnownFragmentNames", [nm.loc]⟩
    | _ => none)

/-- the `Named` type nodes of the executable definitions: variable types, type conditions -/
def namedTypeNodes (s : Schema) (d : Document) : List (String × Loc) :=
  (items s d).filterMap (fun
    | .varDef v => v.type.map (fun t => (t.namedName, TypeRef.leafLoc t))
    | .frag _ _ tc _ => some (tc.namedName, TypeRef.leafLoc tc)
    | .inline _ (some tc) _ => some (tc.namedName, TypeRef.leafLoc tc)
    | _ => none)

/-- KnownTypeNames (rules.go:715-770) -/
def knownTypeNames_S (s : Schema) (d : Document) : List VErr :=
  (namedTypeNodes s d).filterMap (fun (nm, lc) => if s.known nm then none else some ⟨"KnownTypeNames", [lc]⟩)

def missingArgs (rule : String) (defs : List ArgDef) (args : List Argument) (lc : Loc) : List VErr :=
  defs.filterMap (fun d =>
    if d.type.isNonNull && !args.any (fun a => a.name.value == d.name) then some ⟨rule, [lc]⟩ else none)

/-- ProvidedNonNullArguments (rules.go:1255-1330): every non-null argument of a known field / directive is given
(pre-`null` edition: a default does not make a non-null argument optional) -/
def providedNonNullArguments_S (s : Schema) (d : Document) : List VErr :=
  (items s d).flatMap (fun
    | .field c _ args _ lc =>
      match c.fieldDef with
      | some fd => missingArgs "ProvidedNonNullArguments" fd.args args lc
      | none => []
    | .directive _ _ dir =>
      match s.directive? dir.name.value with
      | some dd => missingArgs "ProvidedNonNullArguments" dd.args dir.args dir.loc
      | none => []
    | _ => [])

/-- ScalarLeafs (rules.go:1345-1380): leaf-typed fields have no sub-selection, all others have one -/
def scalarLeafs_S (s : Schema) (d : Document) : List VErr :=
  (items s d).filterMap (fun
    | .field c _ _ sel lc =>
      match c.ty with
      | none => none
      | some t =>
        if s.leafT t.namedName then sel.map (fun ss => ⟨"ScalarLeafs", [ss.loc]⟩)
        else if sel.isNone then some ⟨"ScalarLeafs", [lc]⟩ else none
    | _ => none)

/-- VariablesAreInputTypes (rules.go:1600-1625, since b5db086): the variable's named type, when the schema knows it,
is an input type (an unknown name at any wrapping depth is KnownTypeNames' business) -/
def variablesAreInputTypes_S (s : Schema) (d : Document) : List VErr :=
  (items s d).filterMap (fun
    | .varDef v =>
      match v.type with
      | none => none
      | some t => if s.known t.namedName && !s.inputT t.namedName then some ⟨"VariablesAreInputTypes", [t.loc]⟩ else none
    | _ => none)

/-- type condition of the fragment a spread refers to (`getFragmentType`: `Fragment(name)`, last definition wins) -/
def fragmentType (s : Schema) (d : Document) (name : String) : Option String :=
  match fragment? d name with
  | some (_, tc, _, _, _) => if s.known tc.namedName then some tc.namedName else none
  | none => none

/-- PossibleFragmentSpreads as coded (rules.go:1195-1245, since d221b97 only for composite fragment types): the
visitor reads the fragment type off TypeInfo — for an inline fragment without type condition that is the named type
of the enclosing selection, which always overlaps with the parent type. -/
def possibleFragmentSpreads_M (s : Schema) (d : Document) : List VErr :=
  (items s d).filterMap (fun
    | .inline c _ lc =>
      match c.ty, c.parent with
      | some ft, some p =>
        if s.compositeT ft.namedName && !doTypesOverlap s ft.namedName p then some ⟨"PossibleFragmentSpreads", [lc]⟩ else none
      | _, _ => none
    | .spread c nm lc =>
      match fragmentType s d nm.value, c.parent with
      | some ft, some p =>
        if s.compositeT ft && !doTypesOverlap s ft p then some ⟨"PossibleFragmentSpreads", [lc]⟩ else none
      | _, _ => none
    | _ => none)

/-- spec: a fragment with a composite type condition spread where the parent type is composite must be able to
apply: the possible types intersect. (No type condition: the fragment's type is the parent type itself.) -/
def possibleFragmentSpreads_S (s : Schema) (d : Document) : List VErr :=
  (items s d).filterMap (fun
    | .inline c (some tc) lc =>
      match c.parent with
      | some p =>
        if s.compositeT tc.namedName && !doTypesOverlap s tc.namedName p then some ⟨"PossibleFragmentSpreads", [lc]⟩ else none
      | none => none
    | .spread c nm lc =>
      match fragmentType s d nm.value, c.parent with
      | some ft, some p =>
        if s.compositeT ft && !doTypesOverlap s ft p then some ⟨"PossibleFragmentSpreads", [lc]⟩ else none
      | _, _ => none
    | _ => none)

/-! ## Uniqueness rules: S -/

/-- the generic "second and later occurrences of a name" report: `[first occurrence, this occurrence]` -/
def dupErrsFrom (rule : String) (seen : List Name) : List Name → List VErr
  | [] => []
  | x :: xs =>
    match seen.find? (fun y => y.value == x.value) with
    | some f => ⟨rule, [f.loc, x.loc]⟩ :: dupErrsFrom rule seen xs
    | none => dupErrsFrom rule (seen ++ [x]) xs

def dupErrs (rule : String) (names : List Name) : List VErr := dupErrsFrom rule [] names

/-- every argument list of the document: of each field and of each directive -/
def argLists (s : Schema) (d : Document) : List (List Argument) :=
  (items s d).filterMap (fun
    | .field _ _ args _ _ => some args
    | .directive _ _ dir => some dir.args
    | _ => none)

def uniqueArgumentNames_S (s : Schema) (d : Document) : List VErr :=
  (argLists s d).flatMap (fun args => dupErrs "UniqueArgumentNames" (args.map (·.name)))

def fragmentNames (d : Document) : List Name :=
  d.defs.filterMap (fun | .fragment nm .. => some nm | _ => none)

def uniqueFragmentNames_S (_ : Schema) (d : Document) : List VErr := dupErrs "UniqueFragmentNames" (fragmentNames d)

/-- named operations -/
def operationNames (d : Document) : List Name :=
  d.defs.filterMap (fun | .operation _ (some nm) .. => some nm | _ => none)

/-- spec: no two NAMED operations share a name (anonymous operations are LoneAnonymousOperation's business) -/
def uniqueOperationNames_S (_ : Schema) (d : Document) : List VErr := dupErrs "UniqueOperationNames" (operationNames d)

/-- the variable lists of the operations -/
def varLists (d : Document) : List (List VarDef) :=
  d.defs.filterMap (fun | .operation _ _ vars .. => some vars | _ => none)

def uniqueVariableNames_S (_ : Schema) (d : Document) : List VErr :=
  (varLists d).flatMap (fun vars => dupErrs "UniqueVariableNames" (vars.map (·.var)))

def loneErr (count : Nat) : Definition → Option VErr
  | .operation _ none _ _ _ lc => if count > 1 then some ⟨"LoneAnonymousOperation", [lc]⟩ else none
  | _ => none

/-- spec: an anonymous operation must be the only operation of the document -/
def loneAnonymousOperation_S (_ : Schema) (d : Document) : List VErr := d.defs.filterMap (loneErr (opCount d))

/-- the top-level input values of the document in document order: argument values and variable defaults -/
def topValues (s : Schema) (d : Document) : List Value :=
  (items s d).flatMap (fun
    | .varDef v => v.default.toList
    | .field _ _ args _ _ => args.map (·.value)
    | .directive _ _ dir => dir.args.map (·.value)
    | _ => [])

mutual
/-- all object literals inside a value, at any depth -/
def objectsDeep : Value → List (List ObjField)
  | .obj fs _ => fs :: objectsDeepFields fs
  | .list vs _ => objectsDeepList vs
  | _ => []
def objectsDeepList : List Value → List (List ObjField)
  | [] => []
  | v :: vs => objectsDeep v ++ objectsDeepList vs
def objectsDeepFields : List ObjField → List (List ObjField)
  | [] => []
  | .mk _ v _ :: fs => objectsDeep v ++ objectsDeepFields fs
end

/-- spec: the fields of EVERY input object literal are uniquely named -/
def uniqueInputFieldNames_S (s : Schema) (d : Document) : List VErr :=
  ((topValues s d).flatMap objectsDeep).flatMap (fun fs => dupErrs "UniqueInputFieldNames" (fs.map (·.name)))

/-! ## Uniqueness rules: M (folds over the projected traversal with the rule's private state) -/

/-- Go `map[string]*ast.Name` used as "first node seen under this name" -/
abbrev NameMap := List Name

def NameMap.get? (m : NameMap) (k : String) : Option Name := m.find? (fun y => y.value == k)

/-- one `if known { report } else { remember }` step -/
def uniqStep (rule : String) (st : NameMap × List VErr) (x : Name) : NameMap × List VErr :=
  match st.1.get? x.value with
  | some f => (st.1, st.2 ++ [⟨rule, [f.loc, x.loc]⟩])
  | none => (st.1 ++ [x], st.2)

/-- UniqueArgumentNames (rules.go:1388-1430): `knownArgNames` is reset on entering a Field and a Directive; the
arguments of a field are visited right after its enter (before its directives), those of a directive after its enter. -/
def uanStep (st : NameMap × List VErr) : Item → NameMap × List VErr
  | .field _ _ args _ _ => args.foldl (fun st a => uniqStep "UniqueArgumentNames" st a.name) (([] : NameMap), st.2)
  | .directive _ _ dir => dir.args.foldl (fun st a => uniqStep "UniqueArgumentNames" st a.name) (([] : NameMap), st.2)
  | _ => st

def uniqueArgumentNames_M (s : Schema) (d : Document) : List VErr :=
  ((items s d).foldl uanStep (([] : NameMap), [])).2

/-- UniqueFragmentNames (rules.go:1436-1470): one map for the whole document -/
def ufnStep (st : NameMap × List VErr) : Definition → NameMap × List VErr
  | .fragment nm .. => uniqStep "UniqueFragmentNames" st nm
  | _ => st

def uniqueFragmentNames_M (_ : Schema) (d : Document) : List VErr :=
  (d.defs.foldl ufnStep (([] : NameMap), [])).2

/-- UniqueOperationNames (rules.go:1535-1575): the map is keyed by `""` for anonymous operations, whose entry / error
node is the operation itself. -/
def uonStep (st : NameMap × List VErr) : Definition → NameMap × List VErr
  | .operation _ (some nm) .. => uniqStep "UniqueOperationNames" st nm
  | .operation _ none _ _ _ lc => uniqStep "UniqueOperationNames" st ⟨"", lc⟩
  | _ => st

def uniqueOperationNames_M (_ : Schema) (d : Document) : List VErr :=
  (d.defs.foldl uonStep (([] : NameMap), [])).2

/-- UniqueVariableNames (rules.go:1580-1620): `knownVariableNames` is reset on entering an operation -/
def uvnStep (st : NameMap × List VErr) : Definition → NameMap × List VErr
  | .operation _ _ vars .. => vars.foldl (fun st v => uniqStep "UniqueVariableNames" st v.var) (([] : NameMap), st.2)
  | _ => st

def uniqueVariableNames_M (_ : Schema) (d : Document) : List VErr :=
  (d.defs.foldl uvnStep (([] : NameMap), [])).2

/-- LoneAnonymousOperation (rules.go:775-815): `operationCount` is computed on entering the Document -/
def countStep (k : Nat) : Definition → Nat
  | .operation .. => k + 1
  | _ => k

def loneStep (operationCount : Nat) (errs : List VErr) : Definition → List VErr
  | .operation _ none _ _ _ lc => if operationCount > 1 then errs ++ [⟨"LoneAnonymousOperation", [lc]⟩] else errs
  | _ => errs

def loneAnonymousOperation_M (_ : Schema) (d : Document) : List VErr :=
  d.defs.foldl (loneStep (d.defs.foldl countStep 0)) []

/-- events the UniqueInputFieldNames visitor receives inside one value (rules.go:1480-1530; since 25b818a the
ObjectField function no longer returns SKIP, so the value of a field is visited before the next field) -/
inductive IEv where
  | enterObj | leaveObj | objField (name : Name)

mutual
def inputEvents : Value → List IEv
  | .obj fs _ => IEv.enterObj :: (inputEventsFields fs ++ [IEv.leaveObj])
  | .list vs _ => inputEventsList vs
  | _ => []
def inputEventsList : List Value → List IEv
  | [] => []
  | v :: vs => inputEvents v ++ inputEventsList vs
def inputEventsFields : List ObjField → List IEv
  | [] => []
  | .mk nm v _ :: fs => IEv.objField nm :: (inputEvents v ++ inputEventsFields fs)
end

structure UifState where
  knownNameStack : List NameMap
  knownNames : NameMap
  errs : List VErr

/-- UniqueInputFieldNames (rules.go:1480-1530): `knownNameStack` push on ObjectValue enter, pop on leave -/
def uifStep (st : UifState) : IEv → UifState
  | .enterObj => { st with knownNameStack := st.knownNameStack ++ [st.knownNames], knownNames := [] }
  | .leaveObj => { st with knownNames := st.knownNameStack.getLast?.getD [], knownNameStack := st.knownNameStack.dropLast }
  | .objField nm =>
    let r := uniqStep "UniqueInputFieldNames" (st.knownNames, st.errs) nm
    { st with knownNames := r.1, errs := r.2 }

def uniqueInputFieldNames_M (s : Schema) (d : Document) : List VErr :=
  (((topValues s d).flatMap inputEvents).foldl uifStep ⟨[], [], []⟩).errs

/-! ## Registry -/

abbrev RuleFn := Schema → Document → List VErr

/-- the rules as coded (M where one exists, else S: for those the code is the declarative definition) -/
def localRules : List (String × RuleFn) := [
  ("ArgumentsOfCorrectType", argumentsOfCorrectType_S),
  ("DefaultValuesOfCorrectType", defaultValuesOfCorrectType_S),
  ("FieldsOnCorrectType", fieldsOnCorrectType_S),
  ("FragmentsOnCompositeTypes", fragmentsOnCompositeTypes_S),
  ("KnownArgumentNames", knownArgumentNames_S),
  ("KnownDirectives", knownDirectives_S),
  ("KnownFragmentNames", knownFragmentNames_S),
  ("KnownTypeNames", knownTypeNames_S),
  ("LoneAnonymousOperation", loneAnonymousOperation_M),
  ("PossibleFragmentSpreads", possibleFragmentSpreads_M),
  ("ProvidedNonNullArguments", providedNonNullArguments_S),
  ("ScalarLeafs", scalarLeafs_S),
  ("UniqueArgumentNames", uniqueArgumentNames_M),
  ("UniqueFragmentNames", uniqueFragmentNames_M),
  ("UniqueInputFieldNames", uniqueInputFieldNames_M),
  ("UniqueOperationNames", uniqueOperationNames_M),
  ("UniqueVariableNames", uniqueVariableNames_M),
  ("VariablesAreInputTypes", variablesAreInputTypes_S)]

/-- the rules as the spec edition states them -/
def localRulesS : List (String × RuleFn) := [
  ("ArgumentsOfCorrectType", argumentsOfCorrectType_S),
  ("DefaultValuesOfCorrectType", defaultValuesOfCorrectType_S),
  ("FieldsOnCorrectType", fieldsOnCorrectType_S),
  ("FragmentsOnCompositeTypes", fragmentsOnCompositeTypes_S),
  ("KnownArgumentNames", knownArgumentNames_S),
  ("KnownDirectives", knownDirectives_S),
  ("KnownFragmentNames", knownFragmentNames_S),
  ("KnownTypeNames", knownTypeNames_S),
  ("LoneAnonymousOperation", loneAnonymousOperation_S),
  ("PossibleFragmentSpreads", possibleFragmentSpreads_S),
  ("ProvidedNonNullArguments", providedNonNullArguments_S),
  ("ScalarLeafs", scalarLeafs_S),
  ("UniqueArgumentNames", uniqueArgumentNames_S),
  ("UniqueFragmentNames", uniqueFragmentNames_S),
  ("UniqueInputFieldNames", uniqueInputFieldNames_S),
  ("UniqueOperationNames", uniqueOperationNames_S),
  ("UniqueVariableNames", uniqueVariableNames_S),
  ("VariablesAreInputTypes", variablesAreInputTypes_S)]

end GqlModel.Validate
