import GqlModel.Token
import GqlModel.Ast
/-! # M — executable model of /repo/language/parser/parser.go on token lists (property C03, parser half)

The Go parser holds one token of lookahead (`Parser.Token`) and the end offset of the previously consumed
token (`Parser.PrevEnd`); every node's location is `loc(parser, start) = {start, PrevEnd}`.  The model works on
the list of tokens the lexer produces (the harness obtains it by iterating the REAL lexer exactly as `advance`
does: `tok[i+1] = lex(tok[i].End)`), split into the tokens before `<EOF>` (`toks`) and the offset of the EOF
token (`eofPos`; the lexer always reports `Start = End` for it).  "Current token" = head of `toks`, or the EOF
token when `toks` is empty; advancing over EOF stays at EOF (`advance` re-lexes at `Token.End`), which is what
the code does in `skip(EOF)` and in the unguarded `advance` of `parseType`.

Function for function after parser.go at /repo HEAD (8478203):
`cur`/`advance`/`peek`/`skip`/`expect`/`expectKeyword`/`lookahead`/`loc`/`unexpected` (parser.go:1503-1566),
`reverse` with its `zinteger` flag (:1574-1599; "Unexpected empty" is reported at the closing token),
`parseName`, `parseDocument` … `parseDirectiveLocations`.  Recursion: `parseValueLiteral`, `parseType` and
`parseSelectionSet` recurse on a depth fuel, loops (`reverse`, `parseObject`, `parseDirectives`, `&`/`|` lists,
the document loop) on a loop fuel initialised to `|remaining tokens| + 1`; running out of fuel is the distinct
error `PErr.fuel`, and `Props/C03Parser.lean` proves it never happens (`parse_progress`).

Bug-faithful points (known finding D-03b, class `typeRefMalformed`): `parseType` has no `default` case, lets a
leading `]` stand for a list and closes `[ T` with ANY token (`fallthrough` + unguarded `advance`).  The model
does the same and raises the flag `bad` at exactly these three sites; a nil type is the sentinel `nilType`
(`TypeRef.named "" ⟨0,0⟩`, not producible from a NAME token), `VarDef.type = none` for a nil variable type.
Lexer errors: the productions work on a complete token list; the interleaving of the parser's own rejections with the
lexical error of a malformed lexeme AFTER the tokens (the parser lexes one token ahead) is the layer `parseLazy` at the
end of this file, which uses the count `left` of unconsumed tokens every syntax error records. -/
namespace GqlModel.Parser
open GqlModel

/-- outcome of a failed parse: the byte offset `gqlerrors.NewSyntaxError` is given, or fuel exhaustion -/
inductive PErr where
  /-- `bad`: the flag of the state in which the error was raised (a malformed type reference had been let through
  before the parse failed; used only to classify error-offset differences should D-03b ever be repaired);
  `left`: the number of tokens (before `<EOF>`) from the BLAMED token on — the blamed token has index `|toks| - left`;
  `0` means the error blames `<EOF>`, i.e. the parser had advanced or looked past the last real token (used by the
  lazy-lexing layer `parseLazy` and by C18's "first non-viable token" theorems, Props/C18Syntax.lean) -/
  | syntax (pos : Nat) (bad : Bool) (left : Nat)
  | fuel
deriving DecidableEq, Repr

structure PState where
  prevEnd : Nat
  toks : List Token
  eofPos : Nat
  /-- a malformed type reference was let through (`typeRefMalformed`) -/
  bad : Bool
deriving Repr

def eofToken (pos : Nat) : Token := ⟨.eof, pos, pos, ""⟩

/-- `parser.Token` -/
def PState.cur (σ : PState) : Token :=
  match σ.toks with
  | t :: _ => t
  | [] => eofToken σ.eofPos

/-- state after `advance(parser)` -/
def PState.adv (σ : PState) : PState :=
  match σ.toks with
  | t :: r => { σ with prevEnd := t.stop, toks := r }
  | [] => { σ with prevEnd := σ.eofPos }

abbrev Res (α : Type) := Except PErr (α × PState)

/-- parser actions: state in, result and state out -/
def P (α : Type) : Type := PState → Res α

@[inline] def P.pure {α} (a : α) : P α := fun σ => .ok (a, σ)
@[inline] def P.bind {α β} (m : P α) (f : α → P β) : P β := fun σ =>
  match m σ with
  | .error e => .error e
  | .ok (a, σ1) => f a σ1

instance : Monad P where
  pure := P.pure
  bind := P.bind

/-! ## Core utility functions (parser.go "Core parsing utility functions") -/

def cur : P Token := fun σ => .ok (σ.cur, σ)
def advance : P Unit := fun σ => .ok ((), σ.adv)
def fail {α} (pos : Nat) : P α := fun σ => .error (.syntax pos σ.bad σ.toks.length)
/-- an error that blames the token AFTER the current one (reached through `lookahead`) when `ahead`, the current one otherwise;
`left` always counts the tokens from the blamed one on -/
def failAt {α} (ahead : Bool) (pos : Nat) : P α := fun σ =>
  .error (.syntax pos σ.bad (if ahead then σ.toks.length - 1 else σ.toks.length))
def outOfFuel {α} : P α := fun _ => .error .fuel
def flagBad : P Unit := fun σ => .ok ((), { σ with bad := true })
/-- `loc(parser, start)` -/
def loc (start : Nat) : P Loc := fun σ => .ok (⟨start, σ.prevEnd⟩, σ)
/-- loop fuel: one more than the number of tokens left -/
def loopFuel : P Nat := fun σ => .ok (σ.toks.length + 1, σ)
/-- `lookahead(parser)`: the token after the current one -/
def lookahead : P Token := fun σ => .ok (σ.adv.cur, σ)

def peek (k : TokenKind) : P Bool := fun σ => .ok (decide (σ.cur.kind = k), σ)

def skip (k : TokenKind) : P Bool := fun σ =>
  if σ.cur.kind = k then .ok (true, σ.adv) else .ok (false, σ)

def expect (k : TokenKind) : P Token := fun σ =>
  if σ.cur.kind = k then .ok (σ.cur, σ.adv) else .error (.syntax σ.cur.start σ.bad σ.toks.length)

def expectKeyword (s : String) : P Token := fun σ =>
  if σ.cur.kind = .name ∧ σ.cur.value = s then .ok (σ.cur, σ.adv) else .error (.syntax σ.cur.start σ.bad σ.toks.length)

/-- `unexpected(parser, lexer.Token{})` -/
def unexpected {α} : P α := fun σ => .error (.syntax σ.cur.start σ.bad σ.toks.length)

/-- the loop of `reverse` (and of `parseObject`): items until `close` is skipped -/
def many {α} (close : TokenKind) (item : P α) : Nat → P (List α)
  | 0 => outOfFuel
  | k + 1 => do
    if (← skip close) then pure []
    else
      let x ← item
      let xs ← many close item k
      pure (x :: xs)

/-- `reverse(parser, open, item, close, zinteger)`; since 39e3264 the empty list is reported when the closing token
is seen (before it is consumed); the check after the loop is still in the code -/
def reverse {α} (opn : TokenKind) (item : P α) (close : TokenKind) (zinteger : Bool) : P (List α) := do
  let _ ← expect opn
  let closeTok ← cur
  if zinteger = true ∧ closeTok.kind = close then fail closeTok.start
  else
    let nodes ← many close item (← loopFuel)
    if zinteger && nodes.isEmpty then fail closeTok.start else pure nodes

/-! ## Names, values -/

def parseName : P Name := do
  let t ← expect .name
  pure ⟨t.value, ← loc t.start⟩

/-- `parseVariable`: the `Variable` node's location and its inner `Name` -/
def parseVariable : P (Name × Loc) := do
  let st ← cur
  let _ ← expect .dollar
  let n ← parseName
  pure (n, ← loc st.start)

def parseObjectFieldWith (value : P Value) : P ObjField := do
  let st ← cur
  let name ← parseName
  let _ ← expect .colon
  let v ← value
  pure (.mk name v (← loc st.start))

/-- `parseValueLiteral(parser, isConst)` with `parseList` / `parseObject` / `parseStringLiteral` inlined -/
def parseValueLiteral (isConst : Bool) : Nat → P Value
  | 0 => outOfFuel
  | n + 1 => do
    let tok ← cur
    match tok.kind with
    | .bracketL => do
      let vs ← reverse .bracketL (parseValueLiteral isConst n) .bracketR false
      pure (.list vs (← loc tok.start))
    | .braceL => do
      let _ ← expect .braceL
      let fs ← many .braceR (parseObjectFieldWith (parseValueLiteral isConst n)) (← loopFuel)
      pure (.obj fs (← loc tok.start))
    | .int => do advance; pure (.int tok.value (← loc tok.start))
    | .float => do advance; pure (.float tok.value (← loc tok.start))
    | .string => do advance; pure (.str tok.value (← loc tok.start))
    | .blockString => do advance; pure (.str tok.value (← loc tok.start))
    | .name =>
      if tok.value = "true" then do advance; pure (.bool true (← loc tok.start))
      else if tok.value = "false" then do advance; pure (.bool false (← loc tok.start))
      else if tok.value = "null" then unexpected
      else do advance; pure (.enum tok.value (← loc tok.start))
    | .dollar =>
      if isConst then unexpected
      else do
        let r ← parseVariable
        pure (.var r.1.value r.2)
    | _ => unexpected

/-- a value at a call site outside the value grammar (arguments, defaults) -/
def parseValue (isConst : Bool) : P Value := fun σ => parseValueLiteral isConst (σ.toks.length + 1) σ

/-! ## Arguments, directives -/

def parseArgument : P Argument := do
  let st ← cur
  let name ← parseName
  let _ ← expect .colon
  let v ← parseValue false
  pure ⟨name, v, ← loc st.start⟩

def parseArguments : P (List Argument) := do
  if (← peek .parenL) then reverse .parenL parseArgument .parenR true else pure []

def parseDirective : P Directive := do
  let st ← cur
  let _ ← expect .at
  let name ← parseName
  let args ← parseArguments
  pure ⟨name, args, ← loc st.start⟩

def parseDirectivesLoop : Nat → P (List Directive)
  | 0 => outOfFuel
  | k + 1 => do
    if (← peek .at) then
      let d ← parseDirective
      let ds ← parseDirectivesLoop k
      pure (d :: ds)
    else pure []

def parseDirectives : P (List Directive) := do parseDirectivesLoop (← loopFuel)

/-! ## Types (bug-faithful: D-03b) -/

/-- Go's nil `ast.Type` -/
def nilType : TypeRef := .named "" ⟨0, 0⟩

def parseNamed : P TypeRef := do
  let st ← cur
  let n ← parseName
  pure (.named n.value (← loc st.start))

/-- the `switch token.Kind` of `parseType`; `inner` is the recursive call. `none` is Go's nil `ast.Type`
(only reachable through the flagged paths) -/
def parseTypeBaseWith (inner : P (Option TypeRef)) (tok : Token) : P (Option TypeRef) :=
  match tok.kind with
  | .bracketL => do
    advance
    let t ← inner
    -- `fallthrough`: the closing token is consumed without being looked at
    if (← cur).kind = .bracketR then pure () else flagBad
    advance
    pure (some (TypeRef.list (t.getD nilType) (← loc tok.start)))
  | .bracketR => do
    flagBad
    advance
    pure (some (TypeRef.list nilType (← loc tok.start)))
  | .name => do
    let t ← parseNamed
    pure (some t)
  | _ => do
    -- no `default:` case: the type stays nil
    flagBad
    pure none

/-- `parseType` -/
def parseTypeFuel : Nat → P (Option TypeRef)
  | 0 => outOfFuel
  | n + 1 => do
    let tok ← cur
    let base ← parseTypeBaseWith (parseTypeFuel n) tok
    if (← skip .bang) then pure (some (TypeRef.nonNull (base.getD nilType) (← loc tok.start))) else pure base

def parseTypeOpt : P (Option TypeRef) := fun σ => parseTypeFuel (σ.toks.length + 1) σ

/-- a type reference where the AST has no room for nil: the sentinel stands in -/
def parseType : P TypeRef := do
  let t ← parseTypeOpt
  pure (t.getD nilType)

/-! ## Selections -/

def parseFragmentName : P Name := do
  if (← cur).value = "on" then unexpected else parseName

def parseFieldRest (selSet : P SelectionSet) (start : Nat) (alias : Option Name) (name : Name) : P Selection := do
  let args ← parseArguments
  let dirs ← parseDirectives
  if (← peek .braceL) then
    let s ← selSet
    pure (.field alias name args dirs (some s) (← loc start))
  else
    pure (.field alias name args dirs none (← loc start))

def parseFieldWith (selSet : P SelectionSet) : P Selection := do
  let st ← cur
  let first ← parseName
  if (← skip .colon) then
    let name ← parseName
    parseFieldRest selSet st.start (some first) name
  else
    parseFieldRest selSet st.start none first

def parseInlineRest (selSet : P SelectionSet) (start : Nat) (tc : Option TypeRef) : P Selection := do
  let dirs ← parseDirectives
  let s ← selSet
  pure (.inline tc dirs s (← loc start))

def parseFragmentWith (selSet : P SelectionSet) : P Selection := do
  let st ← cur
  let _ ← expect .spread
  let tok ← cur
  if tok.kind = .name ∧ tok.value ≠ "on" then
    let name ← parseFragmentName
    let dirs ← parseDirectives
    pure (.spread name dirs (← loc st.start))
  else if tok.kind = .name ∧ tok.value = "on" then
    advance
    let tc ← parseNamed
    parseInlineRest selSet st.start (some tc)
  else
    parseInlineRest selSet st.start none

def parseSelectionWith (selSet : P SelectionSet) : P Selection := do
  if (← peek .spread) then parseFragmentWith selSet else parseFieldWith selSet

def parseSelectionSetFuel : Nat → P SelectionSet
  | 0 => outOfFuel
  | n + 1 => do
    let st ← cur
    let sels ← reverse .braceL (parseSelectionWith (parseSelectionSetFuel n)) .braceR true
    pure (.mk sels (← loc st.start))

def parseSelectionSet : P SelectionSet := fun σ => parseSelectionSetFuel (σ.toks.length + 1) σ

/-! ## Operations, fragments -/

/-- `parseOperationType` (parser.go at ad2148d): the NAME token's value is checked BEFORE advancing, so a bad
operation type is reported at its own position -/
def parseOperationType : P OpType := do
  let t ← cur
  if t.kind = .name ∧ ¬ (t.value = "query" ∨ t.value = "mutation" ∨ t.value = "subscription") then fail t.start
  else
    let _ ← expect .name
    if t.value = "query" then pure .query
    else if t.value = "mutation" then pure .mutation
    else pure .subscription

def parseVariableDefinition : P VarDef := do
  let st ← cur
  let r ← parseVariable
  let _ ← expect .colon
  let tyOpt ← parseTypeOpt
  if (← skip .equals) then
    let d ← parseValue true
    pure { var := r.1, varLoc := r.2, type := tyOpt, default := some d, loc := ← loc st.start }
  else
    pure { var := r.1, varLoc := r.2, type := tyOpt, default := none, loc := ← loc st.start }

def parseVariableDefinitions : P (List VarDef) := do
  if (← peek .parenL) then reverse .parenL parseVariableDefinition .parenR true else pure []

/-- `if peek(parser, lexer.NAME) { name = parseName(parser) }` -/
def parseOptName : P (Option Name) := do
  if (← peek .name) then
    let n ← parseName
    pure (some n)
  else pure none

def parseOperationDefinition : P Definition := do
  let st ← cur
  if (← peek .braceL) then
    let sel ← parseSelectionSet
    pure (.operation .query none [] [] sel (← loc st.start))
  else
    let op ← parseOperationType
    let name ← parseOptName
    let vars ← parseVariableDefinitions
    let dirs ← parseDirectives
    let sel ← parseSelectionSet
    pure (.operation op name vars dirs sel (← loc st.start))

def parseFragmentDefinition : P Definition := do
  let st ← cur
  let _ ← expectKeyword "fragment"
  let name ← parseFragmentName
  let _ ← expectKeyword "on"
  let tc ← parseNamed
  let dirs ← parseDirectives
  let sel ← parseSelectionSet
  pure (.fragment name tc dirs sel (← loc st.start))

/-! ## Type system definitions -/

/-- `parseDescription` (`peekDescription` + `parseStringLiteral`) -/
def parseDescription : P (Option String) := do
  let t ← cur
  if t.kind = .string ∨ t.kind = .blockString then do advance; pure (some t.value) else pure none

def parseOperationTypeDefinition : P OpTypeDef := do
  let st ← cur
  let op ← parseOperationType
  let _ ← expect .colon
  let ty ← parseNamed
  pure ⟨op, ty, ← loc st.start⟩

def parseSchemaDefinition : P Definition := do
  let st ← cur
  let _ ← expectKeyword "schema"
  let dirs ← parseDirectives
  let ops ← reverse .braceL parseOperationTypeDefinition .braceR true
  pure (.schema dirs ops (← loc st.start))

def parseScalarTypeDefinition : P Definition := do
  let st ← cur
  let desc ← parseDescription
  let _ ← expectKeyword "scalar"
  let name ← parseName
  let dirs ← parseDirectives
  pure (.scalar desc name dirs (← loc st.start))

/-- the loop of `parseImplementsInterfaces` / `parseUnionMembers`: `Named (sep Named)*` -/
def parseNamedSep (sep : TokenKind) : Nat → P (List TypeRef)
  | 0 => outOfFuel
  | k + 1 => do
    let t ← parseNamed
    if (← skip sep) then
      let ts ← parseNamedSep sep k
      pure (t :: ts)
    else pure [t]

def parseImplementsInterfaces : P (List TypeRef) := do
  let t ← cur
  if t.kind = .name ∧ t.value = "implements" then
    advance
    let _ ← skip .amp
    parseNamedSep .amp (← loopFuel)
  else pure []

/-- `if skip(parser, lexer.EQUALS) { defaultValue = parseConstValue(parser) }` -/
def parseDefaultValue : P (Option Value) := do
  if (← skip .equals) then
    let v ← parseValue true
    pure (some v)
  else pure none

def parseInputValueDef : P InputValueDef := do
  let st ← cur
  let desc ← parseDescription
  let name ← parseName
  let _ ← expect .colon
  let ty ← parseType
  let dflt ← parseDefaultValue
  let dirs ← parseDirectives
  pure { description := desc, name := name, type := ty, default := dflt, dirs := dirs, loc := ← loc st.start }

def parseArgumentDefs : P (List InputValueDef) := do
  if (← peek .parenL) then reverse .parenL parseInputValueDef .parenR true else pure []

def parseFieldDefinition : P FieldDef := do
  let st ← cur
  let desc ← parseDescription
  let name ← parseName
  let args ← parseArgumentDefs
  let _ ← expect .colon
  let ty ← parseType
  let dirs ← parseDirectives
  pure { description := desc, name := name, args := args, type := ty, dirs := dirs, loc := ← loc st.start }

def parseObjectDef : P ObjectDef := do
  let st ← cur
  let desc ← parseDescription
  let _ ← expectKeyword "type"
  let name ← parseName
  let ifaces ← parseImplementsInterfaces
  let dirs ← parseDirectives
  let fields ← reverse .braceL parseFieldDefinition .braceR false
  pure { description := desc, name := name, interfaces := ifaces, dirs := dirs, fields := fields, loc := ← loc st.start }

def parseObjectTypeDefinition : P Definition := do
  let d ← parseObjectDef
  pure (.object d)

def parseInterfaceTypeDefinition : P Definition := do
  let st ← cur
  let desc ← parseDescription
  let _ ← expectKeyword "interface"
  let name ← parseName
  let dirs ← parseDirectives
  let fields ← reverse .braceL parseFieldDefinition .braceR false
  pure (.interface desc name dirs fields (← loc st.start))

def parseUnionTypeDefinition : P Definition := do
  let st ← cur
  let desc ← parseDescription
  let _ ← expectKeyword "union"
  let name ← parseName
  let dirs ← parseDirectives
  let _ ← expect .equals
  let types ← parseNamedSep .pipe (← loopFuel)
  pure (.union desc name dirs types (← loc st.start))

def parseEnumValueDefinition : P EnumValueDef := do
  let st ← cur
  let desc ← parseDescription
  let name ← parseName
  let dirs ← parseDirectives
  pure ⟨desc, name, dirs, ← loc st.start⟩

def parseEnumTypeDefinition : P Definition := do
  let st ← cur
  let desc ← parseDescription
  let _ ← expectKeyword "enum"
  let name ← parseName
  let dirs ← parseDirectives
  let values ← reverse .braceL parseEnumValueDefinition .braceR false
  pure (.enum desc name dirs values (← loc st.start))

def parseInputObjectTypeDefinition : P Definition := do
  let st ← cur
  let desc ← parseDescription
  let _ ← expectKeyword "input"
  let name ← parseName
  let dirs ← parseDirectives
  let fields ← reverse .braceL parseInputValueDef .braceR false
  pure (.inputObject desc name dirs fields (← loc st.start))

def parseTypeExtensionDefinition : P Definition := do
  let st ← cur
  let _ ← expectKeyword "extend"
  let d ← parseObjectDef
  pure (.extend d (← loc st.start))

/-- the loop of `parseDirectiveLocations`: `Name (| Name)*` -/
def parseDirectiveLocations : Nat → P (List Name)
  | 0 => outOfFuel
  | k + 1 => do
    let n ← parseName
    if (← skip .pipe) then
      let ns ← parseDirectiveLocations k
      pure (n :: ns)
    else pure [n]

def parseDirectiveDefinition : P Definition := do
  let st ← cur
  let desc ← parseDescription
  let _ ← expectKeyword "directive"
  let _ ← expect .at
  let name ← parseName
  let args ← parseArgumentDefs
  let _ ← expectKeyword "on"
  let locs ← parseDirectiveLocations (← loopFuel)
  pure (.directive desc name args locs (← loc st.start))

/-- the token `parseTypeSystemDefinition` dispatches on: the current one, or the one after a description -/
def keywordToken : P Token := do
  let tok ← cur
  if tok.kind = .string ∨ tok.kind = .blockString then
    let kw ← lookahead
    -- 75de65f: only definitions that take a description may follow one
    if kw.kind = .name ∧ ¬ (kw.value = "scalar" ∨ kw.value = "type" ∨ kw.value = "interface" ∨ kw.value = "union" ∨
        kw.value = "enum" ∨ kw.value = "input" ∨ kw.value = "directive") then failAt true kw.start
    else pure kw
  else pure tok

/-- `tokenDefinitionFn[keywordToken.Value]`; `ahead`: `kw` is the token after the current one (a description comes first) -/
def dispatchKeyword (ahead : Bool) (kw : Token) : P Definition :=
  if kw.kind ≠ .name then failAt ahead kw.start
  else if kw.value = "fragment" then parseFragmentDefinition
  else if kw.value = "query" ∨ kw.value = "mutation" ∨ kw.value = "subscription" then parseOperationDefinition
  else if kw.value = "schema" then parseSchemaDefinition
  else if kw.value = "scalar" then parseScalarTypeDefinition
  else if kw.value = "type" then parseObjectTypeDefinition
  else if kw.value = "interface" then parseInterfaceTypeDefinition
  else if kw.value = "union" then parseUnionTypeDefinition
  else if kw.value = "enum" then parseEnumTypeDefinition
  else if kw.value = "input" then parseInputObjectTypeDefinition
  else if kw.value = "extend" then parseTypeExtensionDefinition
  else if kw.value = "directive" then parseDirectiveDefinition
  else failAt ahead kw.start

/-- `parseTypeSystemDefinition`: keyword dispatch through `tokenDefinitionFn`, looking past a description -/
def parseTypeSystemDefinition : P Definition := do
  let tok ← cur
  let kw ← keywordToken
  dispatchKeyword (decide (tok.kind = .string ∨ tok.kind = .blockString)) kw

/-! ## Document -/

/-- one iteration of the loop of `parseDocument` after `skip(EOF)` failed -/
def parseDefinition : P Definition := do
  let tok ← cur
  match tok.kind with
  | .braceL => parseOperationDefinition
  | .name => parseTypeSystemDefinition
  | .string => parseTypeSystemDefinition
  | .blockString => parseTypeSystemDefinition
  | _ => unexpected

/-- `skip(parser, lexer.EOF)`: `toks` are the tokens BEFORE the EOF token, so the current token is EOF exactly
when none is left; advancing over EOF sets `PrevEnd` to the EOF offset -/
def skipEOF : P Bool := fun σ =>
  match σ.toks with
  | [] => .ok (true, σ.adv)
  | _ :: _ => .ok (false, σ)

def parseDefinitions : Nat → P (List Definition)
  | 0 => outOfFuel
  | k + 1 => do
    if (← skipEOF) then pure []
    else
      let d ← parseDefinition
      let ds ← parseDefinitions k
      pure (d :: ds)

def parseDocument : P Document := do
  let st ← cur
  let defs ← parseDefinitions (← loopFuel)
  if defs.isEmpty then unexpected else pure ⟨defs, ← loc st.start⟩

/-- initial parser state for the tokens before `<EOF>` and the EOF offset (`makeParser`: `PrevEnd = 0`) -/
def initState (toks : List Token) (eofPos : Nat) : PState := ⟨0, toks, eofPos, false⟩

/-- tokens strictly before the first EOF token, and that token -/
def splitEOF : List Token → Option (List Token × Token)
  | [] => none
  | t :: r => if t.kind = .eof then some ([], t) else (splitEOF r).map (fun (ts, e) => (t :: ts, e))

structure Parsed where
  doc : Document
  /-- the parse went through a malformed type reference (known finding `typeRefMalformed`) -/
  typeRefMalformed : Bool

/-- the parser on tokens-before-EOF plus the EOF offset -/
def parseToks (toks : List Token) (eofPos : Nat) : Except PErr Parsed :=
  match parseDocument (initState toks eofPos) with
  | .ok (d, σ) => .ok ⟨d, σ.bad⟩
  | .error e => .error e

/-- M: `parser.Parse` on the complete token list (ending in EOF) -/
def parseTokens (all : List Token) : Except PErr Parsed :=
  match splitEOF all with
  | some (toks, e) => parseToks toks e.start
  | none => .error (.syntax 0 false 0)  -- no EOF token: not a lexer output

/-- `parser.ParseValue` -/
def parseValueTokens (all : List Token) : Except PErr Value :=
  match splitEOF all with
  | some (toks, e) =>
    match parseValue false (initState toks e.start) with
    | .ok (v, _) => .ok v
    | .error e => .error e
  | none => .error (.syntax 0 false 0)  -- no EOF token: not a lexer output

/-! ## Lazy lexing: a malformed lexeme after the tokens

`parser.Parse` lexes one token ahead: `advance` asks the lexer for the NEXT token and returns its error at once.  So
when the text has a malformed lexeme after the tokens `toks` (all of which lex), the parser fails with the lexical
error as soon as it advances past the last of `toks` (or looks ahead past it, `lookahead` after a description) — but a
rejection it raises while the current token is still one of `toks`, BEFORE advancing, wins.  `parseLazy` is that
behaviour in terms of M: run M on `toks`; the parser's own error stands iff the token it blames is one of `toks`
(`left > 0`: `left` counts the tokens from the blamed one on, so `0` means the non-existent token after `toks`, reached by
advancing or looking ahead past the last one). -/

/-- an offset that is not the start of any token of `toks` -/
def freshEOF (toks : List Token) : Nat := toks.foldl (fun m t => max m (t.start + 1)) 0

inductive LazyOut where
  /-- the lexical error of the malformed lexeme is what `parser.Parse` returns -/
  | lexError
  /-- the parser's own syntax error at this offset is returned; the malformed lexeme is never looked at -/
  | syntax (pos : Nat)
  | fuel
deriving DecidableEq, Repr

/-- `parser.Parse` on a text whose tokens `toks` are followed by a malformed lexeme -/
def parseLazy (toks : List Token) : LazyOut :=
  match parseDocument (initState toks (freshEOF toks)) with
  | .ok _ => .lexError
  | .error (.syntax pos _ left) => if 0 < left then .syntax pos else .lexError
  | .error .fuel => .fuel

/-- the decidable known-finding predicate of D-03b, on the complete token list -/
def typeRefMalformed (all : List Token) : Bool :=
  match parseTokens all with
  | .ok p => p.typeRefMalformed
  | .error _ => false

def typeRefWellFormed (all : List Token) : Bool := !typeRefMalformed all

/-- M's verdict as data: `some flag` when accepted -/
def verdict (toks : List Token) (eofPos : Nat) : Option Bool :=
  match parseToks toks eofPos with
  | .ok p => some p.typeRefMalformed
  | .error _ => none

end GqlModel.Parser
