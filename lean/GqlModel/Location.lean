/-! # Source locations and response paths (property C18)

**M** — `getLocation`: the loop of `location.GetLocation` (/repo/language/location/location.go:14-35):

```go
line := 1; column := position + 1
matches := regexp.MustCompile("\r\n|[\n\r]").FindAllIndex(body, -1)
for _, match := range matches {
    matchIndex := match[0]
    if matchIndex < position { line++; l := len(s.Body[match[0]:match[1]]); column = position + 1 - (matchIndex + l); continue } else { break }
}
```

`terms` models `FindAllIndex` for that regexp (leftmost-first alternation: `\r\n` is tried before the
single characters; successive non-overlapping, never empty matches) and yields `(match[0], match[1])`.
`goLoop` is the `for` loop, with Go's `int` arithmetic replaced by `Nat` (truncated subtraction; the
only place where the Go value can differ is a position pointing between the two bytes of a CRLF, where
Go yields column 0 and so does the truncated subtraction — see `Props/C18.lean`, `column_zero_inside_crlf`).

**S** — `spec`: written without any reference to matching: a line terminator *starts* at byte index `i`
when `body[i]` is CR, or is LF not preceded by CR; it *ends* two bytes later for CR LF and one byte later
otherwise. `line = 1 + #{i < pos | a terminator starts at i}`, `column = pos + 1 − end of the last such
terminator (0 if there is none)`.

**ResponsePath** — `RPath` is `*graphql.ResponsePath` (/repo/definition.go:1349-1370): `nil` or `{Prev, Key}`;
`withKey` and `asArray` are `WithKey` and `AsArray`. `Tree` is a JSON-like response value, `Tree.get?` follows
a list of keys/indices. -/
namespace GqlModel.Location

/-! ## M: match list and loop -/

/-- `regexp.MustCompile("\r\n|[\n\r]").FindAllIndex(body, -1)` as (start, end) pairs; `i` is the index of the head. -/
def terms : List UInt8 → Nat → List (Nat × Nat)
  | [], _ => []
  | [c], i => if c = 13 ∨ c = 10 then [(i, i + 1)] else []
  | c :: d :: rest, i =>
    if c = 13 ∧ d = 10 then (i, i + 2) :: terms rest (i + 2)
    else if c = 13 ∨ c = 10 then (i, i + 1) :: terms (d :: rest) (i + 1)
    else terms (d :: rest) (i + 1)

/-- the `for _, match := range matches` loop; the accumulator is `(line, column)` -/
def goLoop (pos : Nat) : List (Nat × Nat) → Nat × Nat → Nat × Nat
  | [], acc => acc
  | (m0, m1) :: ms, (line, col) =>
    if m0 < pos then goLoop pos ms (line + 1, pos + 1 - (m0 + (m1 - m0))) else (line, col)

/-- `location.GetLocation(&source.Source{Body: body}, pos)` as `(Line, Column)` (a nil source is the empty body) -/
def getLocation (body : List UInt8) (pos : Nat) : Nat × Nat :=
  goLoop pos (terms body 0) (1, pos + 1)

/-! ## S: specification -/

/-- a line terminator starts at byte index `i`: CR, or LF that is not the second byte of CR LF -/
def startsTerm (b : List UInt8) (i : Nat) : Bool :=
  b[i]? == some 13 || (b[i]? == some 10 && !(decide (1 ≤ i) && b[i - 1]? == some 13))

/-- index just after the terminator that starts at `i` -/
def termEnd (b : List UInt8) (i : Nat) : Nat :=
  if b[i]? = some 13 ∧ b[i + 1]? = some 10 then i + 2 else i + 1

/-- indices `< pos` at which a line terminator starts, ascending -/
def termStartsBefore (b : List UInt8) (pos : Nat) : List Nat :=
  (List.range pos).filter (startsTerm b)

def specLine (b : List UInt8) (pos : Nat) : Nat := 1 + (termStartsBefore b pos).length

/-- byte index at which the line containing `pos` starts -/
def specLineStart (b : List UInt8) (pos : Nat) : Nat :=
  match (termStartsBefore b pos).getLast? with
  | none => 0
  | some i => termEnd b i

def spec (b : List UInt8) (pos : Nat) : Nat × Nat :=
  (specLine b pos, pos + 1 - specLineStart b pos)

/-- number of lines of the text (a trailing terminator opens a last, empty line) -/
def numLines (b : List UInt8) : Nat := specLine b b.length

/-- `pos` points between the CR and the LF of a CR LF pair (never a token start or a lexer error position) -/
def insideCRLF (b : List UInt8) (pos : Nat) : Prop :=
  1 ≤ pos ∧ b[pos - 1]? = some 13 ∧ b[pos]? = some 10

instance (b : List UInt8) (pos : Nat) : Decidable (insideCRLF b pos) := by
  unfold insideCRLF; infer_instance

/-! ## ResponsePath -/

inductive Key where
  | name (s : String)
  | idx (i : Nat)
  deriving DecidableEq, Repr

/-- `*ResponsePath`: nil or `{Prev, Key}` -/
inductive RPath where
  | nil
  | cons (prev : RPath) (key : Key)
  deriving Repr

/-- `(*ResponsePath).WithKey` -/
def RPath.withKey (p : RPath) (k : Key) : RPath := .cons p k

/-- `(*ResponsePath).AsArray`: `append(p.Prev.AsArray(), p.Key)` -/
def RPath.asArray : RPath → List Key
  | .nil => []
  | .cons p k => p.asArray ++ [k]

/-- keys met when walking the `Prev` chain from the field outwards -/
def RPath.chain : RPath → List Key
  | .nil => []
  | .cons p k => k :: p.chain

/-- a response value -/
inductive Tree where
  | null
  | leaf (s : String)
  | obj (fields : List (String × Tree))
  | arr (items : List Tree)
  deriving Repr

/-- first entry with the given key (response maps have unique keys) -/
def lookup (k : String) : List (String × Tree) → Option Tree
  | [] => none
  | (k', t) :: rest => if k' = k then some t else lookup k rest

def Tree.step : Tree → Key → Option Tree
  | .obj fs, .name s => lookup s fs
  | .arr ts, .idx i => ts[i]?
  | _, _ => none

/-- follow a path from the root of the data -/
def Tree.get? (t : Tree) : List Key → Option Tree
  | [] => some t
  | k :: ks => match t.step k with
    | some t' => t'.get? ks
    | none => none

/-- one level of response construction around a hole: `executePlannedSelection` puts the value of the field
under its response key next to the other entries; `completePlannedListValue` puts item `i` at index `i`. -/
inductive Frame where
  | field (before : List (String × Tree)) (key : String) (after : List (String × Tree))
  | item (before : List Tree) (after : List Tree)

/-- the key `WithKey` receives at this level (plan.go:756 `path.WithKey(fp.responseKey)`, plan.go:956 `path.WithKey(i)`) -/
def Frame.key : Frame → Key
  | .field _ k _ => .name k
  | .item before _ => .idx before.length

def Frame.fill : Frame → Tree → Tree
  | .field before k after, t => .obj (before ++ (k, t) :: after)
  | .item before after, t => .arr (before ++ t :: after)

/-- response keys are unique within one map -/
def Frame.wf : Frame → Prop
  | .field before k _ => lookup k before = none
  | .item _ _ => True

/-- the data around a position, frames listed from the root inwards -/
def plug : List Frame → Tree → Tree
  | [], t => t
  | f :: fs, t => f.fill (plug fs t)

/-- the path the executor hands to the field at that position -/
def pathOf (fs : List Frame) : RPath := fs.foldl (fun p f => p.withKey f.key) .nil

end GqlModel.Location
