/-! # C14 — AST traversal: reference walk (S) and the explicit-stack loop of `visitor.Visit` (M)

`Node`/`Slot` abstract an `ast.Node` by an id and its child slots in `QueryDocumentKeys` order
(`absent` = nil child or empty slice, `one` = node child, `many` = non-empty slice child).
The visitor threads an arbitrary state `σ` (validation rules and the printer are such stateful
callbacks); an event log is the instance `σ := List Ev`.  No edits are modelled: the property only
claims that a traversal requesting no edits leaves the tree untouched.

`visitNode/visitSlots/visitElems` is the specification: a plain recursive walk.
`step` is the model of the Go loop body of `visitor.Visit` (language/visitor/visitor.go:180-421):
`keys`/`index` become the remaining-keys value `Keys`, the linked `stack` becomes a list,
`parent == nil` inside a slice pseudo-frame is `parent = none`, `path`/`ancestors` are the Go slices. -/
namespace GqlModel.Visitor

inductive Key | name (s : String) | idx (i : Nat) deriving DecidableEq, Repr

mutual
inductive Node where
  | mk (id : Nat) (slots : List Slot)
inductive Slot where
  | absent (key : String)
  | one (key : String) (n : Node)
  | many (key : String) (n : Node) (ns : List Node)
end

inductive Act | cont | skip | brk deriving DecidableEq, Repr

structure Ctx where
  key : Option Key
  parent : Option Nat
  path : List Key
  anc : List (Option Nat)
deriving DecidableEq, Repr

structure Visitor (σ : Type) where
  enter : σ → Nat → Ctx → σ × Act
  leave : σ → Nat → Ctx → σ × Act

variable {σ : Type}

/-! ## Reference walk: returns the final visitor state and whether BREAK was requested -/
mutual
def visitNode (v : Visitor σ) : Node → Ctx → σ → σ × Bool
  | .mk id slots, c, st =>
    match v.enter st id c with
    | (st, .brk) => (st, true)
    | (st, .skip) => (st, false)
    | (st, .cont) =>
      match visitSlots v id c.path (c.anc ++ [c.parent]) slots st with
      | (st, true) => (st, true)
      | (st, false) =>
        match v.leave st id { c with path := c.path.dropLast } with
        | (st, .brk) => (st, true)
        | (st, _) => (st, false)
def visitSlots (v : Visitor σ) (pid : Nat) (path : List Key) (anc : List (Option Nat)) : List Slot → σ → σ × Bool
  | [], st => (st, false)
  | .absent _ :: rest, st => visitSlots v pid path anc rest st
  | .one k n :: rest, st =>
    match visitNode v n ⟨some (.name k), some pid, path ++ [.name k], anc⟩ st with
    | (st, true) => (st, true)
    | (st, false) => visitSlots v pid path anc rest st
  | .many k n ns :: rest, st =>
    match visitElems v (path ++ [.name k]) (anc ++ [some pid]) (n :: ns) 0 st with
    | (st, true) => (st, true)
    | (st, false) => visitSlots v pid path anc rest st
def visitElems (v : Visitor σ) (path : List Key) (anc : List (Option Nat)) : List Node → Nat → σ → σ × Bool
  | [], _, st => (st, false)
  | n :: ns, i, st =>
    match visitNode v n ⟨some (.idx i), none, path ++ [.idx i], anc⟩ st with
    | (st, true) => (st, true)
    | (st, false) => visitElems v path anc ns (i+1) st
end

def walk (v : Visitor σ) (root : Node) (st : σ) : σ × Bool := visitNode v root ⟨none, none, [], []⟩ st

/-! ## The loop as a machine -/
inductive Keys | root (n : Node) | slots (ss : List Slot) | elems (ns : List Node) (i : Nat)

structure St where
  keys : Keys
  stack : List Keys
  parent : Option Nat
  path : List Key
  anc : List (Option Nat)

inductive MS | run (s : St) | done | broken

def enterNode (v : Visitor σ) (s : St) (n : Node) (key : Option Key) (keysAfter : Keys) (st : σ) : MS × σ :=
  match n with
  | .mk id slots =>
    let path' := match key with | some k => s.path ++ [k] | none => s.path
    match v.enter st id ⟨key, s.parent, path', s.anc⟩ with
    | (st, .brk) => (.broken, st)
    | (st, .skip) => (.run { s with keys := keysAfter }, st)
    | (st, .cont) => (.run { keys := .slots slots, stack := keysAfter :: s.stack, parent := some id,
                             path := path', anc := s.anc ++ [s.parent] }, st)

def leaveFrame (v : Visitor σ) (s : St) (st : σ) : MS × σ :=
  let key := s.path.getLast?
  let path' := s.path.dropLast
  let parent' := s.anc.getLast?.join
  let anc' := s.anc.dropLast
  match s.stack with
  | [] => (.done, st)
  | ks :: rest =>
    let s' : St := { keys := ks, stack := rest, parent := parent', path := path', anc := anc' }
    match s.parent with
    | none => (.run s', st)
    | some id =>
      match v.leave st id ⟨key, parent', path', anc'⟩ with
      | (st, .brk) => (.broken, st)
      | (st, _) => (if rest.isEmpty then .done else .run s', st)

def step (v : Visitor σ) : MS → σ → MS × σ
  | .done, st => (.done, st)
  | .broken, st => (.broken, st)
  | .run s, st =>
    match s.keys with
    | .root n => enterNode v s n none (.slots []) st
    | .slots [] => leaveFrame v s st
    | .slots (.absent _ :: rest) => (.run { s with keys := .slots rest }, st)
    | .slots (.one k n :: rest) => enterNode v s n (some (.name k)) (.slots rest) st
    | .slots (.many k n ns :: rest) =>
        (.run { keys := .elems (n :: ns) 0, stack := .slots rest :: s.stack, parent := none,
                path := s.path ++ [.name k], anc := s.anc ++ [s.parent] }, st)
    | .elems [] _ => leaveFrame v s st
    | .elems (n :: ns) i => enterNode v s n (some (.idx i)) (.elems ns (i+1)) st

def runN (v : Visitor σ) : Nat → MS → σ → MS × σ
  | 0, m, st => (m, st)
  | n+1, m, st => let (m', st') := step v m st; runN v n m' st'

def init (root : Node) : MS := .run { keys := .root root, stack := [], parent := none, path := [], anc := [] }

end GqlModel.Visitor

/-! ## Event logs: the instance `σ := List Ev` used by the correspondence check and the corollaries -/
namespace GqlModel.Visitor

inductive Phase | enter | leave deriving DecidableEq, Repr

structure Ev where
  phase : Phase
  id : Nat
  ctx : Ctx
deriving DecidableEq, Repr

/-- a policy assigns an action to every (node, phase) pair -/
abbrev Policy := Nat → Phase → Act

/-- the logging visitor: records the callback (newest first) and answers with the policy's action -/
def logVisitor (pol : Policy) : Visitor (List Ev) where
  enter := fun st id c => (⟨.enter, id, c⟩ :: st, pol id .enter)
  leave := fun st id c => (⟨.leave, id, c⟩ :: st, pol id .leave)

/-- events of the reference walk, oldest first, and whether BREAK ended it -/
def refEvents (pol : Policy) (root : Node) : List Ev × Bool :=
  let r := walk (logVisitor pol) root []
  (r.1.reverse, r.2)

-- node count (absent slots count 1), the measure behind `fuelFor`
mutual
def Node.size : Node → Nat
  | .mk _ slots => 1 + Slot.sizeList slots
def Slot.sizeList : List Slot → Nat
  | [] => 0
  | .absent _ :: rest => 1 + Slot.sizeList rest
  | .one _ n :: rest => 1 + n.size + Slot.sizeList rest
  | .many _ n ns :: rest => 1 + n.size + Node.sizeList ns + Slot.sizeList rest
def Node.sizeList : List Node → Nat
  | [] => 0
  | n :: ns => n.size + Node.sizeList ns
end

def fuelFor (root : Node) : Nat := 4 * root.size + 4

/-- events of the machine run with `fuel` iterations -/
def machineEvents (pol : Policy) (root : Node) (fuel : Nat) : List Ev × MS :=
  let r := runN (logVisitor pol) fuel (init root) []
  (r.2.reverse, r.1)

-- preorder / postorder id lists (document order)
mutual
def Node.pre : Node → List Nat
  | .mk id slots => id :: Slot.preList slots
def Slot.preList : List Slot → List Nat
  | [] => []
  | .absent _ :: rest => Slot.preList rest
  | .one _ n :: rest => n.pre ++ Slot.preList rest
  | .many _ n ns :: rest => (n.pre ++ Node.preList ns) ++ Slot.preList rest
def Node.preList : List Node → List Nat
  | [] => []
  | n :: ns => n.pre ++ Node.preList ns
end

mutual
def Node.post : Node → List Nat
  | .mk id slots => Slot.postList slots ++ [id]
def Slot.postList : List Slot → List Nat
  | [] => []
  | .absent _ :: rest => Slot.postList rest
  | .one _ n :: rest => n.post ++ Slot.postList rest
  | .many _ n ns :: rest => (n.post ++ Node.postList ns) ++ Slot.postList rest
def Node.postList : List Node → List Nat
  | [] => []
  | n :: ns => n.post ++ Node.postList ns
end

end GqlModel.Visitor
