import GqlModel.Validate.Local
/-! # C19 — possible-type tables handed out during VALIDATION

`Schema.PossibleTypes(abstract)` returns the table of object types of an interface / union; whoever asks for it is
about to enumerate it. The verif site `VerifSitePossibleTypesEnumerated` adds the LENGTH of every table handed out.

PLANNING never asks: `planFragmentMatches` (plan.go) decides a type condition by `Schema.IsPossibleType`, a lookup in the
`possibleTypeMap` built with the schema — the cost model `GqlModel.Cost` accordingly consults only `Ctx.applies` once per
fragment, and `plan_cost_indep_of_possible_types` says its counters do not depend on the implementers at all.

VALIDATION does ask, legitimately:
* PossibleFragmentSpreads → `doTypesOverlap(fragType, parentType)` (rules.go:1147-1187): object/abstract and
  abstract/object pairs enumerate one table, abstract/abstract pairs two, equal or object/object pairs none;
* FieldsOnCorrectType → `getSuggestedTypeNames` (rules.go:260-) for an UNDEFINED field under an abstract parent type: one table.
`ptValidation` is the exact prediction for one `ValidateDocument`, on worker c02a's typed item stream
(`GqlModel.Validate.items`, the TypeInfo context of every visited node). -/
namespace GqlModel.Validate

/-- entries of the tables `doTypesOverlap(t1, t2)` asks for, in the order of the code -/
def overlapTables (s : Schema) (t1 t2 : String) : Nat :=
  if t1 == t2 then 0
  else if s.objectT t1 then
    if s.objectT t2 then 0
    else if s.abstractT t2 then (s.possibleTypes t2).length
    else 0
  else if s.abstractT t1 then
    if s.objectT t2 then (s.possibleTypes t1).length
    else if s.abstractT t2 then (s.possibleTypes t1).length + (s.possibleTypes t2).length
    else (s.possibleTypes t1).length
  else 0

/-- tables one visited node makes validation ask for -/
def itemTables (s : Schema) (d : Document) : Item → Nat
  | .inline c _ _ =>
    match c.ty, c.parent with
    | some ft, some p => if s.compositeT ft.namedName then overlapTables s ft.namedName p else 0
    | _, _ => 0
  | .spread c nm _ =>
    match fragmentType s d nm.value, c.parent with
    | some ft, some p => if s.compositeT ft then overlapTables s ft p else 0
    | _, _ => 0
  | .field c _ _ _ _ =>
    match c.parent, c.fieldDef with
    | some p, none => if s.abstractT p then (s.possibleTypes p).length else 0
    | _, _ => 0
  | _ => 0

/-- `VerifSitePossibleTypesEnumerated` after one `ValidateDocument` -/
def ptValidation (s : Schema) (d : Document) : Nat := ((items s d).map (itemTables s d)).sum

/-- the largest possible-type table of the schema -/
def maxPossible (s : Schema) : Nat := (s.types.map (fun td => (s.possibleTypes td.name).length)).foldl max 0

def Item.isSelection : Item → Bool
  | .inline .. => true
  | .spread .. => true
  | .field .. => true
  | _ => false

/-- visited fields, spreads and inline fragments -/
def nSelectionItems (s : Schema) (d : Document) : Nat := ((items s d).filter Item.isSelection).length

end GqlModel.Validate
