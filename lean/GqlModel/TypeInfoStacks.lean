import GqlModel.Validate.TypeInfo
/-! # C14 "type tracking": the TypeInfo STACK MACHINE as coded (M), and the traversal that drives it

S is `GqlModel.Validate.tiRecords` (Validate/TypeInfo.lean): the type context of every node computed TOP-DOWN, without
stacks. This file is M: `graphql.TypeInfo` (/repo/type_info.go:16-241) with its four stacks and three registers,
`Enter` / `Leave` case by case, driven the way `visitor.Visit(doc, visitor.VisitWithTypeInfo(ti, v))` drives it
(/repo/language/visitor/visitor.go:711-748): `Enter(node)` before the wrapped visitor's enter function, `Leave(node)`
after its leave function, and — since fix de010d7 (D-14a) — `Leave(node)` also when the wrapped visitor answers SKIP
(the traversal then calls neither the children nor the leave function).

Representation (shared with S, so that "M = S" is an equality of values):
* a Go type is an `Option GType` (`none` = nil; a wrapper around an unknown name has the never-defined core `""`),
  a composite parent type is its name, a field / directive / argument definition is the schema record;
* a Go slice used as a stack is a `List` whose HEAD is the top (`append` = cons, `s[:len-1]` = tail; `Leave` pops
  only `if len > 0`, which is `List.tail`); the getters `Type()/ParentType()/InputType()/FieldDef()` return nil on an
  empty stack = `top [] = none`.

Not modelled: `ActionUpdate` (edits: Leave(node); Enter(result)), BREAK (the traversal just stops; C14's
`machine_eq_reference` covers where), a custom `FieldDefFn`. Nodes of kind Name / Named / List / NonNull (children
"Name", "Alias", "Type", "TypeCondition") ARE in the walked tree (view `.other`: neither `Enter` nor `Leave` has a case for
them, so they are shown their parent's context); S (`tiRecords`) does not list them, see `nameOrTypeKind`. -/
namespace GqlModel.TypeInfoStacks
open GqlModel.Validate

/-- what `Enter` / `Leave` inspect of a node: its kind and the few fields the switch reads -/
inductive NodeView where
  | selectionSet
  | field (name : String)                         -- `node.Name.Value` ("" for a nil name)
  | directive (name : String)
  | operation (op : OpType)                       -- `node.Operation`
  | inlineFragment (typeCond : Option TypeRef)    -- `node.TypeCondition` (nil = none)
  | fragmentDefinition (typeCond : Option TypeRef)
  | variableDefinition (type : Option TypeRef)    -- `node.Type`
  | argument (name : String)
  | listValue
  | objectField (name : String)
  | other   -- Document, Variable, Int/Float/String/Boolean/EnumValue, ObjectValue, FragmentSpread, type-system
            -- definitions: no case in either switch (this Go port has no EnumValue case, unlike graphql-js)

def NodeView.isDirective : NodeView → Bool | .directive _ => true | _ => false
def NodeView.isArgument : NodeView → Bool | .argument _ => true | _ => false

/-- `graphql.TypeInfo` (type_info.go:16-26) without the immutable `schema` / `getFieldDef` -/
structure TI where
  typeStack : List (Option GType)
  parentTypeStack : List (Option String)
  inputTypeStack : List (Option GType)
  fieldDefStack : List (Option FieldDefS)
  directive : Option DirectiveDefS
  inDirective : Bool
  argument : Option ArgDef

/-- `NewTypeInfo` -/
def TI.empty : TI :=
  { typeStack := [], parentTypeStack := [], inputTypeStack := [], fieldDefStack := [],
    directive := none, inDirective := false, argument := none }

def top {α : Type} : List (Option α) → Option α
  | [] => none
  | x :: _ => x

/-- the getters (type_info.go:48-81) -/
def TI.type (ti : TI) : Option GType := top ti.typeStack
def TI.parentType (ti : TI) : Option String := top ti.parentTypeStack
def TI.inputType (ti : TI) : Option GType := top ti.inputTypeStack
def TI.fieldDef (ti : TI) : Option FieldDefS := top ti.fieldDefStack

/-- the loop `for _, arg := range args { if arg.Name() == nameVal { argDef = arg } }` (type_info.go:158-169):
no `break`, so the LAST argument of that name wins -/
def lastArg (args : List ArgDef) (name : String) : Option ArgDef :=
  args.foldl (fun acc a => if a.name == name then some a else acc) none

/-- `TypeInfo.Enter` (type_info.go:83-198) -/
def tiEnter (s : Schema) (ti : TI) : NodeView → TI
  | .selectionSet =>
    -- namedType := GetNamed(ti.Type()); compositeType = namedType if IsCompositeType(namedType), else nil
    let compositeType : Option String :=
      match ti.type with
      | some t => if s.compositeT t.namedName then some t.namedName else none
      | none => none
    { ti with parentTypeStack := compositeType :: ti.parentTypeStack }
  | .field name =>
    let fieldDef : Option FieldDefS :=
      match ti.parentType with
      | some parentType => s.fieldDef? parentType name      -- ti.getFieldDef(schema, parentType, node)
      | none => none
    { ti with fieldDefStack := fieldDef :: ti.fieldDefStack
              typeStack := (match fieldDef with | some fd => some fd.type | none => none) :: ti.typeStack }
  | .directive name => { ti with directive := s.directive? name, inDirective := true }
  | .operation op => { ti with typeStack := (s.rootType op).map GType.named :: ti.typeStack }
  | .inlineFragment (some tc) => { ti with typeStack := TCtx.condType s tc :: ti.typeStack }
  | .inlineFragment none =>
    -- since 5219f0e: the NAMED type of the enclosing Type(), not its list / non-null wrapper
    let named : Option GType := match ti.type with | some t => some (.named t.namedName) | none => none
    { ti with typeStack := named :: ti.typeStack }
  | .fragmentDefinition (some tc) => { ti with typeStack := TCtx.condType s tc :: ti.typeStack }
  | .fragmentDefinition none => { ti with typeStack := ti.type :: ti.typeStack }
  | .variableDefinition t => { ti with inputTypeStack := (typeFromRef s t).map (astType s) :: ti.inputTypeStack }
  | .argument name =>
    let argDef : Option ArgDef :=
      match ti.directive with
      | some d => lastArg d.args name
      | none =>
        -- since d5ff7af: arguments of an unknown directive are not arguments of the enclosing field
        if !ti.inDirective then
          match ti.fieldDef with
          | some fd => lastArg fd.args name
          | none => none
        else none
    { ti with argument := argDef, inputTypeStack := argDef.map (·.type) :: ti.inputTypeStack }
  | .listValue =>
    -- listType := GetNullable(ti.InputType()); `*List` ⇒ push OfType, anything else ⇒ push nil
    match ti.inputType.map GType.nullable with
    | some (.list t) => { ti with inputTypeStack := some t :: ti.inputTypeStack }
    | _ => { ti with inputTypeStack := none :: ti.inputTypeStack }
  | .objectField name =>
    -- objectType := GetNamed(ti.InputType()); `*InputObject` ⇒ type of Fields()[name], else nil
    let fieldType : Option GType :=
      match ti.inputType with
      | some t => ((s.inputFieldsOf t.namedName).find? (fun f => f.name == name)).map (·.type)
      | none => none
    { ti with inputTypeStack := fieldType :: ti.inputTypeStack }
  | .other => ti

/-- `TypeInfo.Leave` (type_info.go:199-241) -/
def tiLeave (ti : TI) : NodeView → TI
  | .selectionSet => { ti with parentTypeStack := ti.parentTypeStack.tail }
  | .field _ => { ti with fieldDefStack := ti.fieldDefStack.tail, typeStack := ti.typeStack.tail }
  | .directive _ => { ti with directive := none, inDirective := false }
  | .operation _ | .inlineFragment _ | .fragmentDefinition _ => { ti with typeStack := ti.typeStack.tail }
  | .variableDefinition _ => { ti with inputTypeStack := ti.inputTypeStack.tail }
  | .argument _ => { ti with argument := none, inputTypeStack := ti.inputTypeStack.tail }
  | .listValue | .objectField _ => { ti with inputTypeStack := ti.inputTypeStack.tail }
  | .other => ti

/-- what the six getters (and the `inDirective` flag) show, in the record type of S -/
def regs (ti : TI) : TIState :=
  { c := { ty := ti.type, parent := ti.parentType, fieldDef := ti.fieldDef },
    input := ti.inputType, directive := ti.directive, inDirective := ti.inDirective,
    argument := ti.argument.map (·.name) }

/-! ## Variants of the code (recorded defects / seeded mutants), for the negative witnesses in Props/C14TypeInfo -/

/-- seeded mutant A (seeded/C02-2): `GetNullable` dropped before the `*List` assertion -/
def tiEnterNoNullable (s : Schema) (ti : TI) : NodeView → TI
  | .listValue =>
    match ti.inputType with
    | some (.list t) => { ti with inputTypeStack := some t :: ti.inputTypeStack }
    | _ => { ti with inputTypeStack := none :: ti.inputTypeStack }
  | nv => tiEnter s ti nv

/-- seeded mutant B (seeded/C14-1): no nil placeholder for a list literal at a non-list position -/
def tiEnterNoNilPush (s : Schema) (ti : TI) : NodeView → TI
  | .listValue =>
    match ti.inputType.map GType.nullable with
    | some (.list t) => { ti with inputTypeStack := some t :: ti.inputTypeStack }
    | _ => ti
  | nv => tiEnter s ti nv

/-! ## The tree the traversal walks

`TNode kind loc view children`: children in the order of `visitor.QueryDocumentKeys` (`walkChildKeys` below states
the order used, `Props/C14TypeInfo.walk_child_order_is_queryDocumentKeys` checks it against the regenerated table). -/

inductive TNode where
  | mk (kind : String) (loc : Loc) (view : NodeView) (children : List TNode)

/-- the child keys, in order, that `docTree` follows, for every node kind it produces -/
def walkChildKeys : List (String × List String) := [
  ("Name", []),
  ("Document", ["Definitions"]),
  ("OperationDefinition", ["Name", "VariableDefinitions", "Directives", "SelectionSet"]),
  ("VariableDefinition", ["Variable", "Type", "DefaultValue"]),
  ("Variable", ["Name"]),
  ("SelectionSet", ["Selections"]),
  ("Field", ["Alias", "Name", "Arguments", "Directives", "SelectionSet"]),
  ("Argument", ["Name", "Value"]),
  ("FragmentSpread", ["Name", "Directives"]),
  ("InlineFragment", ["TypeCondition", "Directives", "SelectionSet"]),
  ("FragmentDefinition", ["Name", "TypeCondition", "Directives", "SelectionSet"]),
  ("IntValue", []), ("FloatValue", []), ("StringValue", []), ("BooleanValue", []), ("EnumValue", []),
  ("ListValue", ["Values"]),
  ("ObjectValue", ["Fields"]),
  ("ObjectField", ["Name", "Value"]),
  ("Directive", ["Name", "Arguments"]),
  ("Named", ["Name"]), ("List", ["Type"]), ("NonNull", ["Type"])]

/-- a `Name` node -/
def nameTree (n : Name) : TNode := .mk "Name" n.loc .other []

def optNameTrees : Option Name → List TNode
  | none => []
  | some n => [nameTree n]

/-- a type reference: `Named{Name}` (the AST keeps one location for both), `List{Type}`, `NonNull{Type}` -/
def typeTree : TypeRef → TNode
  | .named _ lc => .mk "Named" lc .other [.mk "Name" lc .other []]
  | .list t lc => .mk "List" lc .other [typeTree t]
  | .nonNull t lc => .mk "NonNull" lc .other [typeTree t]

def optTypeTrees : Option TypeRef → List TNode
  | none => []
  | some t => [typeTree t]

/-- a `Variable{Name}` node: the inner name starts one byte after the `$` -/
def variableTree (lc : Loc) : TNode := .mk "Variable" lc .other [.mk "Name" ⟨lc.start + 1, lc.stop⟩ .other []]

mutual
def valueTree : Value → TNode
  | .list vs lc => .mk "ListValue" lc .listValue (valuesTrees vs)
  | .obj fs lc => .mk "ObjectValue" lc .other (objFieldsTrees fs)
  | .var _ lc => variableTree lc
  | v => .mk (valueKind v) v.loc .other []
def valuesTrees : List Value → List TNode
  | [] => []
  | v :: vs => valueTree v :: valuesTrees vs
def objFieldsTrees : List ObjField → List TNode
  | [] => []
  | .mk nm v lc :: fs => .mk "ObjectField" lc (.objectField nm.value) [nameTree nm, valueTree v] :: objFieldsTrees fs
end

def argTree (a : Argument) : TNode := .mk "Argument" a.loc (.argument a.name.value) [nameTree a.name, valueTree a.value]

def dirTree (d : Directive) : TNode := .mk "Directive" d.loc (.directive d.name.value) (nameTree d.name :: d.args.map argTree)

def varDefTree (v : VarDef) : TNode :=
  .mk "VariableDefinition" v.loc (.variableDefinition v.type)
    (.mk "Variable" v.varLoc .other [nameTree v.var] :: (optTypeTrees v.type ++
      (match v.default with | some dv => [valueTree dv] | none => [])))

mutual
def selTree : Selection → TNode
  | .field al nm args dirs sel lc =>
    .mk "Field" lc (.field nm.value)
      (optNameTrees al ++ nameTree nm :: (args.map argTree ++ dirs.map dirTree ++ optSetTrees sel))
  | .spread nm dirs lc => .mk "FragmentSpread" lc .other (nameTree nm :: dirs.map dirTree)
  | .inline tc dirs ss lc =>
    .mk "InlineFragment" lc (.inlineFragment tc) (optTypeTrees tc ++ (dirs.map dirTree ++ [setTree ss]))
def setTree : SelectionSet → TNode
  | .mk sels lc => .mk "SelectionSet" lc .selectionSet (selsTrees sels)
def optSetTrees : Option SelectionSet → List TNode
  | none => []
  | some ss => [setTree ss]
def selsTrees : List Selection → List TNode
  | [] => []
  | x :: xs => selTree x :: selsTrees xs
end

def isExecDef : Definition → Bool
  | .operation .. | .fragment .. => true
  | _ => false

/-- executable definitions in full; a type-system definition is a childless node (its children are not modelled:
theorems about documents assume `isExecDoc`) -/
def defTree : Definition → TNode
  | .operation op nm vars dirs sel lc =>
    .mk "OperationDefinition" lc (.operation op)
      (optNameTrees nm ++ (vars.map varDefTree ++ dirs.map dirTree ++ [setTree sel]))
  | .fragment nm tc dirs sel lc =>
    .mk "FragmentDefinition" lc (.fragmentDefinition (some tc))
      (nameTree nm :: typeTree tc :: (dirs.map dirTree ++ [setTree sel]))
  | df => .mk "TypeSystemDefinition" df.loc .other []

/-- the kinds S (`tiRecords`) does not list: Name and type-reference nodes (TypeInfo has no case for them; they are
shown their parent's context) -/
def nameOrTypeKind (k : String) : Bool := k == "Name" || k == "Named" || k == "List" || k == "NonNull"

/-- drop the records of Name / Named / List / NonNull nodes -/
def obs (l : List TIRec) : List TIRec := l.filter (fun r => !nameOrTypeKind r.kind)

def docTree (d : Document) : TNode := .mk "Document" d.loc .other (d.defs.map defTree)

def isExecDoc (d : Document) : Bool := d.defs.all isExecDef

/-! ## The traversal with `VisitWithTypeInfo` -/

/-- the wrapped visitor: any state, any enter/leave functions; it is shown the node (kind, location) and what the
TypeInfo getters return at that moment. `enter` answers `true` for `ActionSkip`. (A nil visit function —
`GetVisitFn(...) == nil` — is the function that changes nothing and answers `false`.) -/
structure Inner (σ : Type) where
  enter : σ → TIRec → σ × Bool
  leave : σ → TIRec → σ

/-- the TypeInfo implementation behind the `TypeInfoI` interface, and whether the wrapper leaves a skipped node -/
structure Tracker where
  enter : TI → NodeView → TI
  leave : TI → NodeView → TI
  leaveOnSkip : Bool
  /-- seeded variant C14-4: the Leave wrapper calls `TypeInfo.Leave` only inside `if fn != nil` -/
  leaveNeedsHandler : Bool := false

/-- the code as it is now -/
def M (s : Schema) : Tracker := { enter := tiEnter s, leave := tiLeave, leaveOnSkip := true }

variable {σ : Type}

mutual
/-- `Enter` of the wrapper (visitor.go:713-734), the children, `Leave` of the wrapper (visitor.go:735-746) -/
def visit (T : Tracker) (v : Inner σ) : TNode → TI → σ → TI × σ
  | .mk kind loc nv cs, ti, st =>
    let ti1 := T.enter ti nv
    match v.enter st ⟨kind, loc, regs ti1⟩ with
    | (st1, true) => (if T.leaveOnSkip then T.leave ti1 nv else ti1, st1)
    | (st1, false) =>
      match visitList T v cs ti1 st1 with
      | (ti2, st2) => (T.leave ti2 nv, v.leave st2 ⟨kind, loc, regs ti2⟩)
def visitList (T : Tracker) (v : Inner σ) : List TNode → TI → σ → TI × σ
  | [], ti, st => (ti, st)
  | n :: ns, ti, st =>
    match visit T v n ti st with
    | (ti1, st1) => visitList T v ns ti1 st1
end

/-! ### The wrapped visitor as `*VisitorOptions`: callbacks may be ABSENT (`GetVisitFn(...) == nil`)

`VisitWithTypeInfo` asks `GetVisitFn(visitorOpts, kind, isLeaving)` (visitor.go:750-791) for the wrapped function and
calls `TypeInfo.Enter` / `TypeInfo.Leave` whether or not there is one. `Opts` is `VisitorOptions` (visitor.go:165-178),
`getEnterFn` / `getLeaveFn` are `GetVisitFn` with its precedence KindFuncMap[kind]{Kind > Enter | Leave} > generic
Enter / Leave > EnterKindMap / LeaveKindMap (an entry in KindFuncMap shadows the generic and the map forms even when the
function asked for is nil). -/

abbrev EnterFn (σ : Type) := σ → TIRec → σ × Bool
abbrev LeaveFn (σ : Type) := σ → TIRec → σ

/-- `NamedVisitFuncs` -/
structure NamedFns (σ : Type) where
  kind : Option (EnterFn σ)
  leave : Option (LeaveFn σ)
  enter : Option (EnterFn σ)

/-- `VisitorOptions` (Go maps as functions into `Option`) -/
structure Opts (σ : Type) where
  kindFuncMap : String → Option (NamedFns σ)
  enter : Option (EnterFn σ)
  leave : Option (LeaveFn σ)
  enterKindMap : String → Option (EnterFn σ)
  leaveKindMap : String → Option (LeaveFn σ)

/-- `GetVisitFn(opts, kind, false)` -/
def getEnterFn (o : Opts σ) (kind : String) : Option (EnterFn σ) :=
  match o.kindFuncMap kind with
  | some kv => (match kv.kind with | some f => some f | none => kv.enter)
  | none => (match o.enter with | some f => some f | none => o.enterKindMap kind)

/-- `GetVisitFn(opts, kind, true)` -/
def getLeaveFn (o : Opts σ) (kind : String) : Option (LeaveFn σ) :=
  match o.kindFuncMap kind with
  | some kv => kv.leave
  | none => (match o.leave with | some f => some f | none => o.leaveKindMap kind)

/-- the total visitor an option set stands for: an absent function changes nothing and does not skip -/
def Opts.total (o : Opts σ) : Inner σ where
  enter := fun st r => match getEnterFn o r.kind with | some f => f st r | none => (st, false)
  leave := fun st r => match getLeaveFn o r.kind with | some f => f st r | none => st

mutual
/-- `VisitWithTypeInfo(ti, opts)` as coded: `Enter(node)`; wrapped enter function if there is one (SKIP ⇒ `Leave`);
children; wrapped leave function if there is one; `Leave(node)` in either case -/
def visitO (T : Tracker) (o : Opts σ) : TNode → TI → σ → TI × σ
  | .mk kind loc nv cs, ti, st =>
    let ti1 := T.enter ti nv
    match (match getEnterFn o kind with | some fn => fn st ⟨kind, loc, regs ti1⟩ | none => (st, false)) with
    | (st1, true) => (if T.leaveOnSkip then T.leave ti1 nv else ti1, st1)
    | (st1, false) =>
      match visitListO T o cs ti1 st1 with
      | (ti2, st2) =>
        match getLeaveFn o kind with
        | some fn => (T.leave ti2 nv, fn st2 ⟨kind, loc, regs ti2⟩)
        | none => (if T.leaveNeedsHandler then ti2 else T.leave ti2 nv, st2)
def visitListO (T : Tracker) (o : Opts σ) : List TNode → TI → σ → TI × σ
  | [], ti, st => (ti, st)
  | n :: ns, ti, st =>
    match visitO T o n ti st with
    | (ti1, st1) => visitListO T o ns ti1 st1
end

/-- `visitor.Visit(doc, visitor.VisitWithTypeInfo(NewTypeInfo(schema), opts))` -/
def walkMO (s : Schema) (o : Opts σ) (d : Document) (st : σ) : TI × σ := visitO (M s) o (docTree d) TI.empty st

/-- `visitor.Visit(doc, visitor.VisitWithTypeInfo(NewTypeInfo(schema), v))`: final TypeInfo and visitor state -/
def walkM (s : Schema) (v : Inner σ) (d : Document) (st : σ) : TI × σ := visit (M s) v (docTree d) TI.empty st

/-! ## The top-down reference with a visitor (S for stateful, skipping visitors) -/

/-- the context of a child as a function of its parent's context (no stacks) -/
def ctxStep (s : Schema) (st : TIState) : NodeView → TIState
  | .selectionSet => { st with c := st.c.enterSelSet s }
  | .field name => { st with c := st.c.enterField s name }
  | .directive name => { st with directive := s.directive? name, inDirective := true }
  | .operation op => { st with c := { st.c with ty := (s.rootType op).map GType.named } }
  | .inlineFragment tc => { st with c := st.c.enterInline s tc }
  | .fragmentDefinition (some tc) => { st with c := { st.c with ty := TCtx.condType s tc } }
  | .fragmentDefinition none => st
  | .variableDefinition t => { st with input := (typeFromRef s t).map (astType s) }
  | .argument name =>
    let argDef := argDefFor st.directive (if st.inDirective then none else st.c.fieldDef) name
    { st with input := argDef.map (·.type), argument := argDef.map (·.name) }
  | .listValue => { st with input := listItemType st.input }
  | .objectField name => { st with input := inputFieldType s st.input name }
  | .other => st

mutual
/-- the visitor is shown, at enter AND at leave of a node, the context `ctxStep` derives from the parent's context;
children get the node's context, siblings the parent's; a skipped node's subtree and leave are not visited -/
def refVisit (s : Schema) (v : Inner σ) : TNode → TIState → σ → σ
  | .mk kind loc nv cs, c, st =>
    match v.enter st ⟨kind, loc, ctxStep s c nv⟩ with
    | (st1, true) => st1
    | (st1, false) => v.leave (refList s v cs (ctxStep s c nv) st1) ⟨kind, loc, ctxStep s c nv⟩
def refList (s : Schema) (v : Inner σ) : List TNode → TIState → σ → σ
  | [], _, st => st
  | n :: ns, c, st => refList s v ns c (refVisit s v n c st)
end

def TIState.empty : TIState := TIState.ofCtx TCtx.empty

def refWalk (s : Schema) (v : Inner σ) (d : Document) (st : σ) : σ := refVisit s v (docTree d) TIState.empty st

/-! ## Records: the logging visitor, and the pure top-down record list -/

/-- records every node it enters (oldest first) and skips the nodes `pol` selects -/
def logger (pol : TIRec → Bool) : Inner (List TIRec) where
  enter := fun st r => (st ++ [r], pol r)
  leave := fun st _ => st

def noSkip : TIRec → Bool := fun _ => false

/-- an option set whose every present function logs (slot name, record); enter-type functions skip per `pol`.
`generic = (Enter?, Leave?)`, `kf kind = some (Kind?, Enter?, Leave?)` for a KindFuncMap entry, `em` / `lm` the kinds in
EnterKindMap / LeaveKindMap. Slot names: K KE KL (KindFuncMap), E L (generic), EM LM (kind maps). -/
def loggerOpts (pol : TIRec → Bool) (generic : Bool × Bool) (kf : String → Option (Bool × Bool × Bool))
    (em lm : String → Bool) : Opts (List (String × TIRec)) :=
  let logE (slot : String) : EnterFn (List (String × TIRec)) := fun st r => (st ++ [(slot, r)], pol r)
  let logL (slot : String) : LeaveFn (List (String × TIRec)) := fun st r => st ++ [(slot, r)]
  { kindFuncMap := fun k => (kf k).map (fun b =>
      { kind := if b.1 then some (logE "K") else none,
        enter := if b.2.1 then some (logE "KE") else none,
        leave := if b.2.2 then some (logL "KL") else none }),
    enter := if generic.1 then some (logE "E") else none,
    leave := if generic.2 then some (logL "L") else none,
    enterKindMap := fun k => if em k then some (logE "EM") else none,
    leaveKindMap := fun k => if lm k then some (logL "LM") else none }

/-- the callbacks that fire, in order, with what the getters show, for a tracker and an option set -/
def mEventsWith (T : Tracker) (o : Opts (List (String × TIRec))) (d : Document) : List (String × TIRec) :=
  (visitO T o (docTree d) TI.empty []).2

def mEvents (s : Schema) (o : Opts (List (String × TIRec))) (d : Document) : List (String × TIRec) := mEventsWith (M s) o d

/-- `VisitorOptions{Enter: f}`: the enter-only generic visitor -/
def enterOnly (f : EnterFn σ) : Opts σ :=
  { kindFuncMap := fun _ => none, enter := some f, leave := none, enterKindMap := fun _ => none, leaveKindMap := fun _ => none }

/-- what a wrapped visitor skipping per `pol` is shown by the real machine, node by node -/
def mRecords (s : Schema) (pol : TIRec → Bool) (d : Document) : List TIRec := (walkM s (logger pol) d []).2

/-- the same with another tracker (variants above) -/
def mRecordsWith (T : Tracker) (pol : TIRec → Bool) (d : Document) : List TIRec :=
  (visit T (logger pol) (docTree d) TI.empty []).2

mutual
/-- top-down records of the nodes a visitor skipping per `pol` still enters -/
def ctxRecs (s : Schema) (pol : TIRec → Bool) : TNode → TIState → List TIRec
  | .mk kind loc nv cs, c =>
    ⟨kind, loc, ctxStep s c nv⟩ ::
      (if pol ⟨kind, loc, ctxStep s c nv⟩ then [] else ctxRecsList s pol cs (ctxStep s c nv))
def ctxRecsList (s : Schema) (pol : TIRec → Bool) : List TNode → TIState → List TIRec
  | [], _ => []
  | n :: ns, c => ctxRecs s pol n c ++ ctxRecsList s pol ns c
end

/-- S under skips: the top-down context of every node a visitor skipping per `pol` enters -/
def ctxRecords (s : Schema) (pol : TIRec → Bool) (d : Document) : List TIRec := ctxRecs s pol (docTree d) TIState.empty

/-! ## Well-formedness of the tree w.r.t. the two non-stack registers

`Leave(Directive)` CLEARS `directive` / `inDirective` and `Leave(Argument)` CLEARS `argument` instead of restoring
them, which is right because a Directive never sits inside a Directive and an Argument never inside an Argument.
`wf inDir inArg` says so for a tree; every `docTree d` is well-formed (GqlProofs/TypeInfoStacks). -/
mutual
def TNode.wf (inDir inArg : Bool) : TNode → Bool
  | .mk _ _ nv cs =>
    !(inDir && nv.isDirective) && !(inArg && nv.isArgument) &&
      TNode.wfList (inDir || nv.isDirective) (inArg || nv.isArgument) cs
def TNode.wfList (inDir inArg : Bool) : List TNode → Bool
  | [] => true
  | n :: ns => n.wf inDir inArg && TNode.wfList inDir inArg ns
end

/-! ## Premise on the schema: argument names are unique within a field / directive definition

(The Go loops keep the LAST argument of a name, S's `argDefFor` the first; schemas built through the library's config
maps cannot have two.) -/

def argNamesNodup (args : List ArgDef) : Prop := (args.map (·.name)).Nodup

instance (args : List ArgDef) : Decidable (argNamesNodup args) := by unfold argNamesNodup; exact inferInstance

/-- every definition `getFieldDef` / `schema.Directive` can return has pairwise distinct argument names -/
def ArgsUnique (s : Schema) : Prop :=
  (∀ p f fd, s.fieldDef? p f = some fd → argNamesNodup fd.args) ∧
  (∀ n d, s.directive? n = some d → argNamesNodup d.args)

def fieldsOfDef : TypeDef → List FieldDefS
  | .object _ _ fs _ _ => fs
  | .interface _ fs _ _ => fs
  | _ => []

/-- decidable sufficient check (evaluated by the driver on every case) -/
def argsUniqueB (s : Schema) : Bool :=
  (s.types ++ introspectionTypes).all (fun td => (fieldsOfDef td).all (fun fd => decide (argNamesNodup fd.args))) &&
  [schemaMetaField, typeMetaField, typeNameMetaField].all (fun fd => decide (argNamesNodup fd.args)) &&
  s.allDirectives.all (fun d => decide (argNamesNodup d.args))

/-- one observed row, as the driver prints it and the harness compares it:
`[kind, start, end, Type(), ParentType(), InputType(), FieldDef().Name, Directive().Name, Argument().Name]` -/
structure Row where
  kind : String
  start : Nat
  stop : Nat
  type : String
  parent : String
  input : String
  fieldDef : String
  directive : String
  argument : String
deriving DecidableEq, Repr

def row (r : TIRec) : Row :=
  let o (x : Option String) : String := match x with | some v => v | none => "nil"
  ⟨r.kind, r.loc.start, r.loc.stop, renderOptType r.st.c.ty, o r.st.c.parent, renderOptType r.st.input,
   o (r.st.c.fieldDef.map (·.name)), o (r.st.directive.map (·.name)), o r.st.argument⟩

end GqlModel.TypeInfoStacks
