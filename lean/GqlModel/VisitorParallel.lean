import GqlModel.Visitor
/-! # C14 — `visitor.VisitInParallel` (language/visitor/visitor.go:653-704)

`VisitInParallel(v₁ … vₖ)` is itself a visitor: on every enter / leave it calls the sub-visitors that are
not currently *skipping*, records SKIP (`skipping[i] = node`) and BREAK (`skipping[i] = BREAK`) per
sub-visitor, removes a SKIP mark when that node is left, and always answers "no change" itself.
Edits (ActionUpdate) are outside the model, as everywhere in C14. -/
namespace GqlModel.Visitor

/-- `skipping[i]`: absent, a node, or the BREAK sentinel -/
inductive Mark where
  | active
  | skippingAt (id : Nat)
  | broken
deriving DecidableEq, Repr

variable {σ : Type}

/-- what the parallel visitor does with ONE sub-visitor on enter -/
def subEnter (v : Visitor σ) (s : σ × Mark) (id : Nat) (c : Ctx) : σ × Mark :=
  match s.2 with
  | .active =>
    match v.enter s.1 id c with
    | (st, .skip) => (st, .skippingAt id)
    | (st, .brk) => (st, .broken)
    | (st, .cont) => (st, .active)
  | m => (s.1, m)

/-- … and on leave -/
def subLeave (v : Visitor σ) (s : σ × Mark) (id : Nat) (c : Ctx) : σ × Mark :=
  match s.2 with
  | .active =>
    match v.leave s.1 id c with
    | (st, .brk) => (st, .broken)
    | (st, _) => (st, .active)
  | .skippingAt j => if j = id then (s.1, .active) else s
  | .broken => s

/-- one sub-visitor wrapped the way `VisitInParallel` runs it: never skips, never breaks the traversal -/
def wrap (v : Visitor σ) : Visitor (σ × Mark) where
  enter := fun s id c => (subEnter v s id c, .cont)
  leave := fun s id c => (subLeave v s id c, .cont)

/-- `VisitInParallel vs`: all sub-visitors, each with its own mark, in order -/
def parallel (vs : List (Visitor σ)) : Visitor (List (σ × Mark)) where
  enter := fun ss id c => (List.zipWith (fun v s => subEnter v s id c) vs ss, .cont)
  leave := fun ss id c => (List.zipWith (fun v s => subLeave v s id c) vs ss, .cont)

/-! ## The full event sequence of a traversal that nobody cuts short -/
mutual
def Node.events : Node → Ctx → List Ev
  | .mk id slots, c =>
    ⟨.enter, id, c⟩ :: (Slot.eventsList id c.path (c.anc ++ [c.parent]) slots ++
      [⟨.leave, id, { c with path := c.path.dropLast }⟩])
def Slot.eventsList (pid : Nat) (path : List Key) (anc : List (Option Nat)) : List Slot → List Ev
  | [] => []
  | .absent _ :: rest => Slot.eventsList pid path anc rest
  | .one k n :: rest =>
    n.events ⟨some (.name k), some pid, path ++ [.name k], anc⟩ ++ Slot.eventsList pid path anc rest
  | .many k n ns :: rest =>
    Node.eventsElems (path ++ [.name k]) (anc ++ [some pid]) (n :: ns) 0 ++ Slot.eventsList pid path anc rest
def Node.eventsElems (path : List Key) (anc : List (Option Nat)) : List Node → Nat → List Ev
  | [], _ => []
  | n :: ns, i => n.events ⟨some (.idx i), none, path ++ [.idx i], anc⟩ ++ Node.eventsElems path anc ns (i + 1)
end

/-- a visitor's reaction to one event, ignoring the action -/
def applyEv (v : Visitor σ) (st : σ) (e : Ev) : σ :=
  match e.phase with
  | .enter => (v.enter st e.id e.ctx).1
  | .leave => (v.leave st e.id e.ctx).1

/-- a visitor that never skips or breaks -/
def AlwaysCont (v : Visitor σ) : Prop :=
  (∀ st id c, (v.enter st id c).2 = .cont) ∧ (∀ st id c, (v.leave st id c).2 = .cont)

end GqlModel.Visitor
