import GqlModel.LexerSpec
/-! The `StringValue` production of the spec as derivation relations with semantic values (spec §2.9.4 "Semantics"):

    StringCharacter :: SourceCharacter but not `"` or `\` or LineTerminator     -- value: the character itself
                     | `\u` EscapedUnicode                                       -- value: that code point (UTF-8)
                     | `\` EscapedCharacter                                      -- value: per the table  " \ / b f n r t

byte-wise: a SourceCharacter above U+007F is a run of bytes ≥ 0x80, each of which is copied. -/
namespace GqlModel.Lexer.Spec

/-- one StringCharacter: its lexeme and its value -/
inductive StrChar : Bytes → Bytes → Prop
  | plain (c : UInt8) (h1 : c ≠ 34) (h2 : c ≠ 92) (h3 : c ≠ 10) (h4 : c ≠ 13) (h5 : 32 ≤ c.toNat ∨ c = 9) : StrChar [c] [c]
  | esc (e b : UInt8) (h : escapedCharacter e = some b) : StrChar [92, e] [b]
  | uni (h1 h2 h3 h4 : UInt8) (u : Bytes) (h : escapedUnicode h1 h2 h3 h4 = some u) : StrChar [92, 117, h1, h2, h3, h4] u

/-- StringCharacter* : lexeme and value -/
inductive StrChars : Bytes → Bytes → Prop
  | nil : StrChars [] []
  | cons {l v ls vs : Bytes} : StrChar l v → StrChars ls vs → StrChars (l ++ ls) (v ++ vs)

/-! IntValue / FloatValue (spec §2.9.1, §2.9.2) as predicates on complete lexemes:

    IntegerPart    :: NegativeSign? 0 | NegativeSign? NonZeroDigit Digit*
    FractionalPart :: . Digit+
    ExponentPart   :: ExponentIndicator Sign? Digit+
    FloatValue     :: IntegerPart FractionalPart | IntegerPart ExponentPart | IntegerPart FractionalPart ExponentPart -/

def AllDigits (l : Bytes) : Prop := ∀ x ∈ l, isDigitByte x

def IsIntegerPart (l : Bytes) : Prop :=
  ∃ sign body, l = sign ++ body ∧ (sign = [] ∨ sign = [45]) ∧
    (body = [48] ∨ ∃ d ds, body = d :: ds ∧ isDigitByte d ∧ d ≠ 48 ∧ AllDigits ds)

def IsFractionalPart (l : Bytes) : Prop := ∃ ds, l = 46 :: ds ∧ ds ≠ [] ∧ AllDigits ds

def IsExponentPart (l : Bytes) : Prop :=
  ∃ e sign ds, l = e :: (sign ++ ds) ∧ (e = 69 ∨ e = 101) ∧ (sign = [] ∨ sign = [43] ∨ sign = [45]) ∧ ds ≠ [] ∧ AllDigits ds

def IsIntValue (l : Bytes) : Prop := IsIntegerPart l

def IsFloatValue (l : Bytes) : Prop :=
  ∃ i f x, l = i ++ f ++ x ∧ IsIntegerPart i ∧
    ((IsFractionalPart f ∧ x = []) ∨ (f = [] ∧ IsExponentPart x) ∨ (IsFractionalPart f ∧ IsExponentPart x))

end GqlModel.Lexer.Spec
