import GqlModel.Lexer
/-! `quoteString` of /repo/language/printer/printer.go:128-158 (the GraphQL quoting function the printer uses for
string values since 4c54feb): byte-wise, only escapes the lexer understands, bytes ≥ 0x80 copied unchanged.
It lives next to the lexer model because the string core of the print/parse round trip (C08) is the theorem
`unquote_quote` about `readString ∘ quoteString`. -/
namespace GqlModel.Lexer

/-- `%X` of one nibble -/
def hexDigit (n : Nat) : UInt8 := if n < 10 then (48 + n).toUInt8 else (55 + n).toUInt8

/-- the `switch c` of quoteString -/
def quoteByte (b : UInt8) : Bytes :=
  if b = 34 then [92, 34]            -- \"
  else if b = 92 then [92, 92]       -- \\
  else if b = 8 then [92, 98]        -- \b
  else if b = 12 then [92, 102]      -- \f
  else if b = 10 then [92, 110]      -- \n
  else if b = 13 then [92, 114]      -- \r
  else if b = 9 then [92, 116]       -- \t
  else if b.toNat < 32 ∨ b = 127 then [92, 117, 48, 48, hexDigit (b.toNat / 16), hexDigit (b.toNat % 16)]   -- \u%04X
  else [b]

def quoteBody : Bytes → Bytes
  | [] => []
  | b :: bs => quoteByte b ++ quoteBody bs

def quoteString (s : Bytes) : Bytes := 34 :: quoteBody s ++ [34]

end GqlModel.Lexer
