/-! # C12 — determinism under adversarial map iteration order

Go does not define the iteration order of `range m` over a map; the runtime randomises it. The model of
that is an *adversary*: wherever the library ranges over a map, the list of entries it sees is
`ord entries` for an arbitrary function `ord` with `ord l ~ l` (a permutation of the entries; the entries
of a map have pairwise distinct keys).

This file holds (a) small executable models of every *pattern* in which package graphql ranges over a map
(30 sites today, `Generated.mapRangeSites`), parametrised by the adversary, and (b) the hand-written
classification `siteClass` of each site into one of those patterns, with decidable consistency checks
against the regenerated tables. The theorems are in `Props/C12.lean`. -/
namespace GqlModel.Determinism

/-- The adversary: an iteration order. -/
structure Adversary (α : Type) where
  ord : List α → List α
  perm : ∀ l, (ord l).Perm l

def Adversary.id {α : Type} : Adversary α := ⟨fun l => l, fun _ => .refl _⟩
def Adversary.reverse {α : Type} : Adversary α := ⟨List.reverse, fun l => List.reverse_perm l⟩

/-! ## Pattern 1 — collect, then sort with a total order  (`sortedAfter`)

```go
names := []string{}                       // definition.go defineFieldMap/defineEnumValues, values.go isValidInputValue,
for name := range m {                     // rules.go isValidLiteralValue, directives.go NewDirective, introspection.go …
    if skip(name) { continue }            // (optional guard, introspection `fields` of objects: deprecated fields)
    names = append(names, name)
}
sort.Strings(names)                       // or sort.Sort(sort.StringSlice), or sort.Slice(values, by name)
for _, name := range names { … m[name] … }
``` -/
def collectSorted {α : Type} (le : α → α → Bool) (keep : α → Bool) (adv : Adversary α) (entries : List α) : List α :=
  ((adv.ord entries).filter keep).mergeSort le

/-- what is then done with the sorted names, in that order (any function of the sorted list) -/
def useSorted {α β : Type} (le : α → α → Bool) (keep : α → Bool) (use : List α → β) (adv : Adversary α)
    (entries : List α) : β :=
  use (collectSorted le keep adv entries)

/-- `sort.Strings` -/
def strLe (a b : String) : Bool := decide (a ≤ b)

/-! `suggestionList` (rules.go): candidates collected in map order, filtered by a distance threshold, sorted by
(distance, name) — a total order since b82fff1 (D-12a). `byDistance` is the order before that repair. -/
def suggestLe (dist : String → Nat) (a b : String) : Bool :=
  dist a < dist b || (dist a == dist b && strLe a b)
def byDistance (dist : String → Nat) (a b : String) : Bool := dist a ≤ dist b
def suggestionList (dist : String → Nat) (thr : Nat) (adv : Adversary String) (names : List String) : List String :=
  collectSorted (suggestLe dist) (fun n => dist n ≤ thr) adv names

/-! ## Pattern 2 — commutative accumulation into another map / set  (`commutative`)

```go
for k, v := range m { out[k] = f(k, v) }                       // util.go appendFields, plan.go static args copy,
                                                                // values.go coerceValue / valueFromAST, schema.go buildPossibleTypeMap
for k, v := range m { if bad(k, v) { return err }; out[k] = f(k, v) }   // definition.go defineFieldMap, schema.go typeMapReducer
```
The result map is modelled extensionally (`κ → Option ν`): Go maps are compared by content. -/
abbrev AMap (κ ν : Type) := κ → Option ν

def AMap.empty {κ ν : Type} : AMap κ ν := fun _ => none
def AMap.set {κ ν : Type} [DecidableEq κ] (m : AMap κ ν) (k : κ) (v : ν) : AMap κ ν :=
  fun k' => if k' = k then some v else m k'

def accumulate {κ ν ν' : Type} [DecidableEq κ] (f : κ × ν → ν') (adv : Adversary (κ × ν)) (entries : List (κ × ν))
    (init : AMap κ ν') : AMap κ ν' :=
  (adv.ord entries).foldl (fun m e => m.set e.1 (f e)) init

/-- accumulation that stops at the first invalid entry (construction-time validation) -/
def accCheckedGo {κ ν ν' ε : Type} [DecidableEq κ] (bad : κ × ν → Option ε) (f : κ × ν → ν') :
    List (κ × ν) → AMap κ ν' → Except ε (AMap κ ν')
  | [], m => .ok m
  | e :: es, m => match bad e with
    | some err => .error err
    | none => accCheckedGo bad f es (m.set e.1 (f e))

def accumulateChecked {κ ν ν' ε : Type} [DecidableEq κ] (bad : κ × ν → Option ε) (f : κ × ν → ν')
    (adv : Adversary (κ × ν)) (entries : List (κ × ν)) (init : AMap κ ν') : Except ε (AMap κ ν') :=
  accCheckedGo bad f (adv.ord entries) init

/-- what a determinism check can see of such an outcome: the map on success, only *that* it failed otherwise -/
def outcome {ε α : Type} : Except ε α → Option α
  | .ok a => some a
  | .error _ => none

/-! ## Pattern 3 — order irrelevant  (`orderIrrelevant`)

```go
for k := range m { if bad(k) { return errorFor(k) } }          // schema.go assertObjectImplementsInterface, NewSchema 2nd loop
```
Only whether *some* entry fails is determined; which failing entry is reported depends on the order, but the
class of the outcome (construction rejected) does not, and no request is ever answered by a rejected schema. -/
def firstError {α ε : Type} (bad : α → Option ε) (adv : Adversary α) (entries : List α) : Option ε :=
  (adv.ord entries).findSome? bad

def existsCheck {α : Type} (p : α → Bool) (adv : Adversary α) (entries : List α) : Bool :=
  (adv.ord entries).any p

/-! ## Pattern 4 — the order leaks into ordered output  (`leaks`)

```go
for _, v := range m { out = append(out, f(v)) }                // emit in iteration order
for k, v := range m { if thunk(v) { m[k] = v() } }             // executor.go dethunk…: each forced thunk may append to eCtx.Errors
for name, finish := range fs { … errs = append(errs, …) }      // extensions.go finish handlers
for _, t := range typeMap { impls[iface] = append(impls[iface], t) }   // schema.go: order of implementations
responseNames[0]                                                // subscription.go: first key in iteration order
``` -/
def emitInOrder {α β : Type} (f : α → Option β) (adv : Adversary α) (entries : List α) : List β :=
  (adv.ord entries).filterMap f

/-- `defaultResolveTypeFn` over the leaked order of implementations / `responseNames[0]`: the first match wins -/
def firstMatch {α : Type} (p : α → Bool) (adv : Adversary α) (entries : List α) : Option α :=
  (adv.ord entries).find? p

/-! ## Classification of the sites -/

inductive Class where
  | sortedAfter
  | commutative
  | orderIrrelevant
  | leaks (reason : String)
  deriving DecidableEq, Repr

def Class.isLeak : Class → Bool
  | .leaks _ => true
  | _ => false

/-- (file, function, ranged expression, ordinal among the map ranges of that function) -/
abbrev SiteKey := String × String × String × Nat

/-- One row per `range` over a map in package graphql: key, the syntactic shape the extractor must find there
(`Generated.mapRangeShapes`), the class, written after reading the site in /repo. Same order as the regenerated
table. -/
def siteClass : List (SiteKey × String × Class) := [
  -- names collected, sort.Strings, then values built in name order (1a391ce)
  (("definition.go", "Enum.defineEnumValues", "valueMap", 0), "keys>sort.Strings", .sortedAfter),
  -- resultFieldMap[fieldName] = field; returns at the first field without a type (gt.err), invalid names skipped
  (("definition.go", "InputObject.defineFieldMap", "fieldMap", 0), "noappend+return", .commutative),
  -- argument names collected and sorted (1a391ce)
  (("definition.go", "defineFieldMap", "field.Args", 1), "keys>sort.Strings", .sortedAfter),
  -- resultFieldMap[fieldName] = fieldDef, first invalid field aborts; the only append is to fieldDef.Args, in sorted name order
  (("definition.go", "defineFieldMap", "fieldMap", 0), "append", .commutative),
  -- argument names collected and sorted (cc74aef, was D-12h)
  (("directives.go", "NewDirective", "config.Args", 0), "keys>sort.Strings", .sortedAfter),
  -- response keys of a result map collected and sorted; both dethunkers walk the map in that order (929bd57, was D-12e)
  (("executor.go", "sortedResultKeys", "m", 0), "keys>sort.Strings", .sortedAfter),
  -- astFromValue of an input object: field names collected and sorted (b8e02d5)
  (("introspection.go", "astFromValue", "fieldMap", 0), "keys>sort.Strings", .sortedAfter),
  -- __Schema.types: values collected, sort.Slice by Name() = map key (95d672d, was D-12c)
  (("introspection.go", "init", "schema.TypeMap()", 0), "vals>sort.Slice", .sortedAfter),
  -- __Type.fields of an object: non-deprecated names collected, sort.Sort(StringSlice)
  (("introspection.go", "init", "ttype.Fields()", 1), "keys>sort.Sort", .sortedAfter),
  -- __Type.fields of an interface: values collected, sort.Slice by Name (95d672d, was D-12c)
  (("introspection.go", "init", "ttype.Fields()", 2), "vals>sort.Slice", .sortedAfter),
  -- __Type.inputFields: values collected, sort.Slice by PrivateName (95d672d, was D-12c)
  (("introspection.go", "init", "ttype.Fields()", 3), "vals>sort.Slice", .sortedAfter),
  -- out[k] = copyArgValue(item): deep copy of a pre-coerced input-object argument value (9d8dc62)
  (("plan.go", "copyArgValue", "val", 0), "noappend", .commutative),
  -- args[k] = copy of v : copy of the plan's static argument map
  (("plan.go", "resolvePlannedField", "fp.args.static", 0), "noappend", .commutative),
  -- type names collected and handed to suggestionList (filter + sort by (distance, name))
  (("rules.go", "KnownTypeNamesRule", "context.Schema().TypeMap()", 0), "keys>suggestionList", .sortedAfter),
  (("rules.go", "getSuggestedFieldNames", "fields", 0), "keys>suggestionList", .sortedAfter),
  -- field names collected and sorted (fd33475, was D-12b)
  (("rules.go", "isValidLiteralValue", "fields", 0), "keys>sort.Strings", .sortedAfter),
  -- assertObjectImplementsInterface for every object: the first violation is returned
  -- (the loop that fills `implementations` ranges over sortedTypeNames since 541f50e, was D-12g)
  (("schema.go", "NewSchema", "schema.typeMap", 0), "noappend+return", .orderIrrelevant),
  (("schema.go", "Schema.AddImplementation", "gq.typeMap", 0), "noappend+return", .orderIrrelevant),
  -- possibleTypeMap[name] = set of names
  (("schema.go", "Schema.buildPossibleTypeMap", "gq.typeMap", 0), "noappend", .commutative),
  -- first interface field the object does not implement correctly
  (("schema.go", "assertObjectImplementsInterface", "ifaceFieldMap", 0), "noappend+return", .orderIrrelevant),
  -- type names collected and sorted (541f50e)
  (("schema.go", "sortedTypeNames", "typeMap", 0), "keys>sort.Strings", .sortedAfter),
  -- typeMap[name] = type for every type reachable from the fields; first error aborts
  (("schema.go", "typeMapReducer", "fieldMap", 0), "noappend+return", .commutative),
  (("schema.go", "typeMapReducer", "fieldMap", 1), "noappend+return", .commutative),
  (("schema.go", "typeMapReducer", "fieldMap", 2), "noappend+return", .commutative),
  -- response names collected; rejected unless exactly one, then responseNames[0] is that one (667d1a8, was D-12i)
  (("subscription.go", "ExecuteSubscription", "fields", 0), "keys>len", .orderIrrelevant),
  -- dest[key] = value
  (("util.go", "appendFields", "origin", 0), "noappend", .commutative),
  -- obj[name] = coerced value or default
  (("values.go", "coerceValue", "ttype.Fields()", 0), "noappend", .commutative),
  -- both name lists collected and sorted "to ensure stable order of field evaluation"
  (("values.go", "isValidInputValue", "fields", 0), "keys>sort.Strings", .sortedAfter),
  (("values.go", "isValidInputValue", "valueMap", 1), "keys>sort.Strings", .sortedAfter),
  -- obj[name] = value from the literal or default
  (("values.go", "valueFromAST", "ttype.Fields()", 0), "noappend", .commutative)
]

/-- The explicit list of known leaking sites, per finding class (the classes of notes/agents/C12.md §1). A site may be
classified `leaks r` only if it is listed here under `r`. Empty since 667d1a8: every leak found (D-12b … D-12i) was
repaired in /repo; the site then moved to `sortedAfter` / `orderIrrelevant` above. -/
def knownLeaks : List (String × List SiteKey) := []

/-- Sites whose class is not `leaks` although their body appends to a slice, with the reason. -/
def appendWaived : List SiteKey := [
  -- the appended slice is fieldDef.Args, filled by the inner loop over the *sorted* argument names
  ("definition.go", "defineFieldMap", "fieldMap", 0)
]

/-- shapes in which the collected slice is handed to a sort before any other use -/
def sortingSinks : List String := ["sort.Strings", "sort.Sort", "sort.Slice", "sort.Stable", "sort.SliceStable"]

def shapeSink (shape : String) : Option String :=
  if shape.startsWith "keys>" || shape.startsWith "vals>" then some (shape.drop 5).toString else none

/-- the shape is "collect, then sort": the sink is a `sort.` function, or a package function that itself sorts
(`sortCalls` lists a `sort.` call inside it) -/
def isSortedShape (sortCalls : List (String × String × String)) (shape : String) : Bool :=
  match shapeSink shape with
  | none => false
  | some sink => sortingSinks.contains sink || (sink != "unsorted" && sortCalls.any (fun c => c.2.1 == sink && sortingSinks.contains c.2.2))

def keyTriple (k : SiteKey) : String × String × String := (k.1, k.2.1, k.2.2.1)

/-- every regenerated site is classified, none is stale, none has moved (same list, same order) -/
def allClassified (sites : List (String × String × String)) : Bool :=
  sites == siteClass.map (fun r => keyTriple r.1)

/-- … and each has the syntactic shape recorded when it was classified (a removed `sort.Strings`, a new append … change it) -/
def shapesAsClassified (shapes : List (String × String × String × Nat × String)) : Bool :=
  shapes == siteClass.map (fun r => (r.1.1, r.1.2.1, r.1.2.2.1, r.1.2.2.2, r.2.1))

/-- class and shape agree: `sortedAfter` exactly for the collect-then-sort shapes; a non-leaking site does not append in
iteration order unless waived with a reason -/
def classesFitShapes (sortCalls : List (String × String × String)) : Bool :=
  siteClass.all fun r =>
    let shape := r.2.1
    let cls := r.2.2
    ((cls == .sortedAfter) == isSortedShape sortCalls shape) &&
    (cls.isLeak || shape != "append" || appendWaived.contains r.1) &&
    (cls.isLeak || shape != "keys>unsorted") && (cls.isLeak || shape != "vals>unsorted")

def leakListed (k : SiteKey) (reason : String) : Bool :=
  knownLeaks.any (fun e => e.1 == reason && e.2.contains k)

/-- every site classified `leaks r` is listed under `r`, and every listed site is classified `leaks` with that reason -/
def leaksAreListed : Bool :=
  (siteClass.all fun r => match r.2.2 with
    | .leaks reason => leakListed r.1 reason
    | _ => true) &&
  (knownLeaks.all fun e => e.2.all fun k => siteClass.any (fun r => r.1 == k && r.2.2 == .leaks e.1))

def countClass (p : Class → Bool) : Nat := (siteClass.filter (fun r => p r.2.2)).length

end GqlModel.Determinism
