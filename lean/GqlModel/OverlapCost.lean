import GqlModel.Validate.Overlap
/-! # C19 — syntactic sizes and the closed bound for the work of OverlappingFieldsCanBeMerged

`GqlModel.Validate.Overlap` (worker c02b) models the memoised rule with its three `verif` counters; this file only adds
the size measures in which `Props/C19.lean` bounds `nFC` (= calls of `findConflict`) — nothing is duplicated. -/
namespace GqlModel.Validate.Overlap
open GqlModel.Validate

mutual
/-- field nodes at or below a selection (through inline fragments and sub-selections, not through spreads) -/
def fieldsSel : Selection → Nat
  | .field _ _ _ _ sel _ => 1 + fieldsOpt sel
  | .spread .. => 0
  | .inline _ _ ss _ => fieldsSet ss
def fieldsSet : SelectionSet → Nat
  | .mk sels _ => fieldsSels sels
def fieldsOpt : Option SelectionSet → Nat
  | none => 0
  | some ss => fieldsSet ss
def fieldsSels : List Selection → Nat
  | [] => 0
  | x :: xs => fieldsSel x + fieldsSels xs
end

/-- number of field nodes written in the executable definitions of the document -/
def nFieldsDoc (d : Document) : Nat := ((rootSets d).map fieldsSet).sum

/-- the closed bound on `findConflict` calls: every factor is a syntactic size of the document
(`nFieldsDoc` fields, `nSets` selection sets, `nSpreadNames` distinct spread names, `nFrags` fragment definitions) -/
def overlapBound (d : Document) : Nat :=
  nFieldsDoc d * nFieldsDoc d * (nSets d + 2 * (nSets d * nSpreadNames d) + 2 * (nFrags d * nFrags d))

/-- one number for the syntactic size of a document -/
def docSize (d : Document) : Nat := nFieldsDoc d + nSets d + nSpreadNames d + nFrags d

end GqlModel.Validate.Overlap
