import GqlModel.Coerce
import GqlModel.Printer
import GqlModel.Exec
/-! # C06 — the literal normaliser (`/repo/plan_cache_normalize.go`, as of 52c6f2d) as an executable model

`normalizeDocument` (51-116), `cloneOperation`/`cloneSelectionSet`/`cloneField` (the model is pure: the clone IS the
result), `normalizeSelectionSet` (walks with the parent OBJECT type; inline fragments switch to their type condition
when it names an object type; spreads are skipped), `normalizeField` (`getFieldDef`, argument definitions by name,
recursion only below fields whose unwrapped type is an object), `tryExtract` (what is and what is NOT extracted),
`literalToInput`, one synthetic variable per (type, printed literal), `nextName` skipping the operation's own
variable names, synthetic variable definitions appended after the user's.

As of 80085fd (repairs of D-06h…j): `tryExtract` asks `isValidLiteralValue` before extracting; `literalToInput` keeps an
integer token that does not spell back unchanged (`-0`) as text; `taken` holds every variable name that occurs anywhere
in the document (definitions and uses, all operations and fragments).

Representation: Go keeps `synthArgs` (map), `newVarDefs` (slice) and `byLiteral` (map) in step; the model keeps ONE list
of `Entry` (name, expected type, literal) in extraction order from which the three are derived.

Not modelled: recursion below the introspection entry points `__schema` / `__type` (their types are not part of
`GqlModel.Schema`; `__type`'s own `name` argument IS extracted); `expected == nil`; nil AST children; float overflow in
`strconv.ParseFloat` (as in `GqlModel.Coerce`). -/
namespace GqlModel.Normalize
open GqlModel GqlModel.Coerce

/-! ## literalToInput (client-variable form of a variable-free literal) -/

def minInt64 : Int := -9223372036854775808
def maxInt64 : Int := 9223372036854775807
def inInt64 (i : Int) : Bool := decide (minInt64 ≤ i) && decide (i ≤ maxInt64)

mutual
/-- `literalToInput`: an Int token becomes a number only when it spells back to the same text (`-0` stays text,
54b00d5), a Float token when `ParseFloat` succeeds, else the raw text; enum values by NAME -/
def lti : Value → JVal
  | .var _ _ => .null
  | .int raw _ =>
    match intOfChars raw.toList with
    | some i => if inInt64 i && intChars i == raw.toList then .int i else .str raw   -- `Atoi` ok and `Itoa(n) == text`
    | none => .str raw
  | .float raw _ => (parseFloatLit raw.toList).getD (.str raw)
  | .str x _ => .str x
  | .bool b _ => .bool b
  | .enum x _ => .str x
  | .list vs _ => .list (ltiList vs)
  | .obj fs _ => .obj (mkObj (ltiFields fs))
def ltiList : List Value → List JVal
  | [] => []
  | v :: vs => lti v :: ltiList vs
def ltiFields : List ObjField → List (String × JVal)
  | [] => []
  | (.mk n v _) :: fs => (n.value, lti v) :: ltiFields fs
end

/-! ## State of the walk -/

structure Entry where
  name : String
  type : GType
  lit : Value

structure NState where
  counter : Nat
  taken : List String
  entries : List Entry        -- oldest first

/-- `fmt.Sprintf("__pcv%d", n)` -/
def synthName (n : Nat) : String := String.ofList ("__pcv".toList ++ Nat.toDigits 10 n)

/-- `nextName` (the `for { … if !c.taken[n] { return n } }` loop). A candidate that is taken is dropped from the
list that is searched next (later candidates differ from it), which makes `taken.length` iterations enough. -/
def nextNameAux : Nat → List String → Nat → String × Nat
  | 0, _, c => (synthName c, c + 1)
  | fuel + 1, tk, c =>
    if tk.contains (synthName c) then nextNameAux fuel (tk.erase (synthName c)) (c + 1) else (synthName c, c + 1)

def nextName (taken : List String) (c : Nat) : String × Nat := nextNameAux taken.length taken c

/-- `typeASTFromGoType` -/
def typeRefOf : GType → TypeRef
  | .named n => .named n Loc.none
  | .list t => .list (typeRefOf t) Loc.none
  | .nonNull t => .nonNull (typeRefOf t) Loc.none

/-- key of `byLiteral`: `fmt.Sprintf("%v\x00%v", expected, printer.Print(value))` -/
def litKey (t : GType) (v : Value) : String := t.render ++ String.singleton (Char.ofNat 0) ++ Printer.printValue v

def mkVarDef (e : Entry) : VarDef := ⟨⟨e.name, Loc.none⟩, Loc.none, some (typeRefOf e.type), none, Loc.none⟩

def NState.synth (st : NState) : List (String × JVal) := st.entries.map (fun e => (e.name, lti e.lit))

/-! ### duplicate field names inside an object literal (`hasDuplicateFieldNames`) -/

def hasDupName : List String → Bool
  | [] => false
  | n :: ns => ns.contains n || hasDupName ns

def fieldNames : List ObjField → List String
  | [] => []
  | (.mk n _ _) :: fs => n.value :: fieldNames fs

mutual
/-- some object literal inside the value names a field twice -/
def dupFields : Value → Bool
  | .list vs _ => dupFieldsL vs
  | .obj fs _ => hasDupName (fieldNames fs) || dupFieldsF fs
  | _ => false
def dupFieldsL : List Value → Bool
  | [] => false
  | v :: vs => dupFields v || dupFieldsL vs
def dupFieldsF : List ObjField → Bool
  | [] => false
  | (.mk _ v _) :: fs => dupFields v || dupFieldsF fs
end

/-- `tryExtract`: not extracted when the value is or contains a variable, when it is not a valid literal of the
expected type (`isValidLiteralValue`), or when `valueFromAST` yields nil; otherwise replaced by the synthetic variable standing for (type, printed literal). -/
def tryExtract (s : Schema) (st : NState) (value : Value) (expected : GType) : Value × NState :=
  if hasVars value then (value, st)
  else if dupFields value then (value, st)                                    -- D-06m: UniqueInputFieldNames must see it
  else if !isValidLiteralValue s expected (some value) then (value, st)      -- 4210b3d: only valid literals are extracted
  else if (valueFromAST s expected (some value) []).isNull then (value, st)
  else
    match st.entries.find? (fun e => litKey e.type e.lit == litKey expected value) with
    | some e => (.var e.name Loc.none, st)
    | none =>
      (.var (nextName st.taken st.counter).1 Loc.none,
       { st with counter := (nextName st.taken st.counter).2,
                 entries := st.entries ++ [⟨(nextName st.taken st.counter).1, expected, value⟩] })

/-- the argument loop of `normalizeField`: arguments without a definition are left alone -/
def normArgs (s : Schema) (defs : List ArgDef) : List Argument → NState → List Argument × NState
  | [], st => ([], st)
  | a :: as, st =>
    match defs.find? (fun d => d.name == a.name.value) with
    | none => (a :: (normArgs s defs as st).1, (normArgs s defs as st).2)
    | some d =>
      ({ a with value := (tryExtract s st a.value d.type).1 } :: (normArgs s defs as (tryExtract s st a.value d.type).2).1,
       (normArgs s defs as (tryExtract s st a.value d.type).2).2)

/-- `getFieldDef` as the normaliser sees it -/
def fieldDefN (s : Schema) (parent fieldName : String) : Option FieldDefS :=
  if fieldName == "__schema" && parent == s.query then
    some { name := "__schema", type := .nonNull (.named "__Schema"), args := [] }
  else if fieldName == "__type" && parent == s.query then
    some { name := "__type", type := .named "__Type", args := [{ name := "name", type := .nonNull (.named "String"), default := none }] }
  else Exec.fieldDef? s parent fieldName

/-- the parent type below an inline fragment: its type condition when that names an OBJECT type, else unchanged -/
def inlineParent (s : Schema) (parent : String) : Option TypeRef → String
  | some t => if s.isObject t.namedName then t.namedName else parent
  | none => parent

/-- response key of a field: alias, else name -/
def respKey (alias : Option Name) (name : Name) : String := (alias.map (·.value)).getD name.value

/-- the argument definitions `normalizeField` extracts against: none when the field's response key also occurs on a
field inside a fragment definition (`keep` = `fragKeys doc`): fragment definitions are not rewritten, and
OverlappingFieldsCanBeMerged compares the arguments of fields with one response key AS WRITTEN (D-06n) -/
def argDefsFor (keep : List String) (key : String) (fd : FieldDefS) : List ArgDef :=
  if keep.contains key then [] else fd.args

mutual
/-- `normalizeSelectionSet` / `normalizeField` on the clone -/
def normSel (s : Schema) (keep : List String) (parent : String) : Selection → NState → Selection × NState
  | .field alias name args dirs sel loc, st =>
    match fieldDefN s parent name.value with
    | none => (.field alias name args dirs sel loc, st)
    | some fd =>
      if s.isObject fd.type.namedName then
        (.field alias name (normArgs s (argDefsFor keep (respKey alias name) fd) args st).1 dirs
          (normOpt s keep fd.type.namedName sel (normArgs s (argDefsFor keep (respKey alias name) fd) args st).2).1 loc,
         (normOpt s keep fd.type.namedName sel (normArgs s (argDefsFor keep (respKey alias name) fd) args st).2).2)
      else (.field alias name (normArgs s (argDefsFor keep (respKey alias name) fd) args st).1 dirs sel loc,
        (normArgs s (argDefsFor keep (respKey alias name) fd) args st).2)
  | .inline tc dirs ss loc, st =>
    (.inline tc dirs (normSet s keep (inlineParent s parent tc) ss st).1 loc, (normSet s keep (inlineParent s parent tc) ss st).2)
  | .spread n d l, st => (.spread n d l, st)
/-- `if f.SelectionSet != nil { … }` -/
def normOpt (s : Schema) (keep : List String) (parent : String) : Option SelectionSet → NState → Option SelectionSet × NState
  | none, st => (none, st)
  | some ss, st => (some (normSet s keep parent ss st).1, (normSet s keep parent ss st).2)
def normSet (s : Schema) (keep : List String) (parent : String) : SelectionSet → NState → SelectionSet × NState
  | .mk sels loc, st => (.mk (normList s keep parent sels st).1 loc, (normList s keep parent sels st).2)
def normList (s : Schema) (keep : List String) (parent : String) : List Selection → NState → List Selection × NState
  | [], st => ([], st)
  | x :: xs, st =>
    ((normSel s keep parent x st).1 :: (normList s keep parent xs (normSel s keep parent x st).2).1,
     (normList s keep parent xs (normSel s keep parent x st).2).2)
end

def userVarNames (vars : List VarDef) : List String := vars.map (·.var.value)

/-! ### every `Variable` node of the document (the visitor pass that fills `taken`, 80085fd) -/

mutual
def valueVars : Value → List String
  | .var x _ => [x]
  | .list vs _ => valuesVars vs
  | .obj fs _ => fieldsVars fs
  | _ => []
def valuesVars : List Value → List String
  | [] => []
  | v :: vs => valueVars v ++ valuesVars vs
def fieldsVars : List ObjField → List String
  | [] => []
  | (.mk _ v _) :: fs => valueVars v ++ fieldsVars fs
end

def argsVars (as : List Argument) : List String := as.flatMap (fun a => valueVars a.value)
def dirsVars (ds : List Directive) : List String := ds.flatMap (fun d => argsVars d.args)

mutual
def selVars : Selection → List String
  | .field _ _ args dirs sel _ => argsVars args ++ dirsVars dirs ++ optSetVars sel
  | .inline _ dirs ss _ => dirsVars dirs ++ setVars ss
  | .spread _ dirs _ => dirsVars dirs
def optSetVars : Option SelectionSet → List String
  | none => []
  | some ss => setVars ss
def setVars : SelectionSet → List String
  | .mk sels _ => selsVars sels
def selsVars : List Selection → List String
  | [] => []
  | x :: xs => selVars x ++ selsVars xs
end

def defVars : Definition → List String
  | .operation _ _ vars dirs sel _ =>
    vars.flatMap (fun v => v.var.value :: (match v.default with | some d => valueVars d | none => [])) ++ dirsVars dirs ++ setVars sel
  | .fragment _ _ dirs sel _ => dirsVars dirs ++ setVars sel
  | _ => []

def docVarNames (doc : Document) : List String := doc.defs.flatMap defVars

/-- `taken`: the operation's own variable names and every variable name occurring in the document -/
def initState (vars : List VarDef) (docNames : List String) : NState := ⟨0, userVarNames vars ++ docNames, []⟩

/-! ### response keys of the fields inside fragment definitions (`collectResponseKeys`) -/

mutual
def selKeys : Selection → List String
  | .field alias name _ _ sel _ => respKey alias name :: optKeys sel
  | .inline _ _ ss _ => setKeys ss
  | .spread _ _ _ => []
def optKeys : Option SelectionSet → List String
  | none => []
  | some ss => setKeys ss
def setKeys : SelectionSet → List String
  | .mk sels _ => listKeys sels
def listKeys : List Selection → List String
  | [] => []
  | x :: xs => selKeys x ++ listKeys xs
end

def defFragKeys : Definition → List String
  | .fragment _ _ _ sel _ => setKeys sel
  | _ => []

def fragKeys (doc : Document) : List String := doc.defs.flatMap defFragKeys

/-- the operation part of `normalizeDocument`: clone, walk from the root type, append the synthetic definitions -/
def normalizeOperation (s : Schema) (keep : List String) (root : String) (docNames : List String) :
    Definition → Definition × List (String × JVal)
  | .operation op name vars dirs sel loc =>
    (.operation op name (vars ++ (normSet s keep root sel (initState vars docNames)).2.entries.map mkVarDef) dirs
       (normSet s keep root sel (initState vars docNames)).1 loc, (normSet s keep root sel (initState vars docNames)).2.synth)
  | d => (d, [])

inductive DocOut where
  | notApplicable                 -- no operation selected / several operations without a name: `cacheKey == ""`
  | rootError                     -- `getOperationRootType` failed
  | ok (doc : Document) (synth : List (String × JVal))

/-- index of the LAST operation that `operationName` selects, and the number of operations -/
def pickOp (opName : String) : List Definition → Nat → Option Nat × Nat → Option Nat × Nat
  | [], _, acc => acc
  | d :: ds, i, (cur, n) =>
    match d with
    | .operation _ name _ _ _ _ =>
      if opName == "" || name.map (·.value) == some opName then pickOp opName ds (i + 1) (some i, n + 1)
      else pickOp opName ds (i + 1) (cur, n + 1)
    | _ => pickOp opName ds (i + 1) (cur, n)

def replaceAt {α : Type} : List α → Nat → α → List α
  | [], _, _ => []
  | _ :: xs, 0, y => y :: xs
  | x :: xs, i + 1, y => x :: replaceAt xs i y

def opTypeOf : Definition → String
  | .operation op _ _ _ _ _ => op.toString
  | _ => ""

/-- `normalizeDocument` (51-116) -/
def normalizeDocument (s : Schema) (doc : Document) (opName : String) : DocOut :=
  match pickOp opName doc.defs 0 (none, 0) with
  | (none, _) => .notApplicable
  | (some i, n) =>
    if n > 1 && opName == "" then .notApplicable else
    match doc.defs[i]? with
    | none => .notApplicable
    | some opDef =>
      match s.rootFor (opTypeOf opDef) with
      | none => .rootError
      | some root =>
        let r := normalizeOperation s (fragKeys doc) root (docVarNames doc) opDef
        if r.2.isEmpty then .ok doc [] else .ok { doc with defs := replaceAt doc.defs i r.1 } r.2

/-- the cache identifier of a normalised document after the repair `notes/fixes/D-06k.diff`: `"doc:"` + the bytes of its
printed text (`printedKey` in plan_cache_normalize.go). The key as coded up to 0654bec is `PlanCache.Fp.fingerprint` (hex
of the FNV-1a-64 hash of a structural walk of the selected operation). The driver answers with both; the harness finds
out which one the code under test computes and compares bytes. -/
def printedKey (d : Document) : List UInt8 := [100, 111, 99, 58] ++ (Printer.print d).toUTF8.data.toList

end GqlModel.Normalize
