/-! Lookup in the regenerated table `Generated.chanMakes` (file, function, capacity expression of every
`make(chan …)`; "" = unbuffered). Used by C15 and C16 to pin the channel capacities the models assume. -/
namespace GqlModel.ChanTables

def digit? (ch : Char) : Option Nat :=
  if '0' ≤ ch ∧ ch ≤ '9' then some (ch.toNat - '0'.toNat) else none

/-- decimal literal → number; anything else (an identifier, an expression) → `none` -/
def decimal? (s : String) : Option Nat :=
  match s.toList with
  | [] => none
  | cs => cs.foldl (fun acc ch => match acc, digit? ch with
      | some n, some d => some (10 * n + d)
      | _, _ => none) (some 0)

/-- capacities of all channels made in `fn` of `file`; "" (no capacity argument) is 0 -/
def chanCaps (tbl : List (String × String × String)) (file fn : String) : List (Option Nat) :=
  (tbl.filter (fun t => t.1 == file && t.2.1 == fn)).map (fun t => if t.2.2 == "" then some 0 else decimal? t.2.2)

end GqlModel.ChanTables
