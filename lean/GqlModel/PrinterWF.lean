import GqlModel.PrinterTokens
import GqlModel.ValueReader
/-! # Well-formed documents and the plain token sequence of a document

`WFDocument d` collects what every parser-produced tree satisfies (it is the range of lexer + parser; the parser
worker's soundness theorem `parseToks_sound` plus the lexer's token invariants give it for everything the parser
accepts without the `bad` flag):

* every name is a GraphQL Name, number texts are well-formed (`Reader.WFValue`, `Reader.WFType`);
* enum *values* are not `true` / `false` / `null`, fragment names are not `on`;
* default values are constant (contain no variable);
* selection sets, `schema { … }`, union member lists and directive location lists are not empty;
* a variable definition has a type (`none` only arises through the flagged malformed-type path D-03b), and `!` is
  never applied twice.

`docT d` is the token sequence written directly after the grammar, without the printer's `join`/`wrap` emptiness
tests; `GqlProofs/PrinterTokNF.lean` proves `printTokens d = docT d` for well-formed `d`. -/
namespace GqlModel.Printer
open GqlModel GqlModel.Reader

abbrev KV := TokenKind × String

def pT (k : TokenKind) : List KV := [(k, "")]
def nT (s : String) : List KV := [(.name, s)]

/-! ## plain token sequences -/

def typeT : TypeRef → List KV
  | .named n _ => nT n
  | .list t _ => pT .bracketL ++ typeT t ++ pT .bracketR
  | .nonNull t _ => typeT t ++ pT .bang

def optTypeT : Option TypeRef → List KV
  | none => []
  | some t => typeT t

mutual
def valueT : Value → List KV
  | .var n _ => pT .dollar ++ nT n
  | .int raw _ => [(.int, raw)]
  | .float raw _ => [(.float, raw)]
  | .str s _ => [(.string, s)]
  | .bool b _ => nT (if b then "true" else "false")
  | .enum v _ => nT v
  | .list vs _ => pT .bracketL ++ valuesT vs ++ pT .bracketR
  | .obj fs _ => pT .braceL ++ fieldsT fs ++ pT .braceR
def valuesT : List Value → List KV
  | [] => []
  | v :: vs => valueT v ++ valuesT vs
def fieldT : ObjField → List KV
  | .mk n v _ => nT n.value ++ pT .colon ++ valueT v
def fieldsT : List ObjField → List KV
  | [] => []
  | f :: fs => fieldT f ++ fieldsT fs
end

def argT (a : Argument) : List KV := nT a.name.value ++ pT .colon ++ valueT a.value

def argListT : List Argument → List KV
  | [] => []
  | a :: as => argT a ++ argListT as

def argsT (as : List Argument) : List KV :=
  match as with
  | [] => []
  | _ :: _ => pT .parenL ++ argListT as ++ pT .parenR

def directiveT (d : Directive) : List KV := pT .at ++ nT d.name.value ++ argsT d.args

def directivesT : List Directive → List KV
  | [] => []
  | d :: ds => directiveT d ++ directivesT ds

def aliasT : Option Name → List KV
  | none => []
  | some a => nT a.value ++ pT .colon

def typeCondT : Option TypeRef → List KV
  | none => []
  | some t => nT "on" ++ typeT t

mutual
def selectionT : Selection → List KV
  | .field alias name args dirs sel _ => aliasT alias ++ nT name.value ++ argsT args ++ directivesT dirs ++ optSelSetT sel
  | .spread name dirs _ => pT .spread ++ nT name.value ++ directivesT dirs
  | .inline tc dirs sel _ => pT .spread ++ typeCondT tc ++ directivesT dirs ++ selSetT sel
def selSetT : SelectionSet → List KV
  | .mk sels _ => pT .braceL ++ selectionsT sels ++ pT .braceR
def optSelSetT : Option SelectionSet → List KV
  | none => []
  | some s => selSetT s
def selectionsT : List Selection → List KV
  | [] => []
  | s :: ss => selectionT s ++ selectionsT ss
end

def defaultT : Option Value → List KV
  | none => []
  | some v => pT .equals ++ valueT v

def varDefT (v : VarDef) : List KV :=
  pT .dollar ++ nT v.var.value ++ pT .colon ++ optTypeT v.type ++ defaultT v.default

def varDefListT : List VarDef → List KV
  | [] => []
  | v :: vs => varDefT v ++ varDefListT vs

def varDefsT (vs : List VarDef) : List KV :=
  match vs with
  | [] => []
  | _ :: _ => pT .parenL ++ varDefListT vs ++ pT .parenR

def descT : Option String → List KV
  | none => []
  | some s => [(if descBlockSafeC s.toList then .blockString else .string, s)]

def inputValueDefT (d : InputValueDef) : List KV :=
  descT d.description ++ nT d.name.value ++ pT .colon ++ typeT d.type ++ defaultT d.default ++ directivesT d.dirs

def inputValueDefListT : List InputValueDef → List KV
  | [] => []
  | d :: ds => inputValueDefT d ++ inputValueDefListT ds

def argDefsT (ds : List InputValueDef) : List KV :=
  match ds with
  | [] => []
  | _ :: _ => pT .parenL ++ inputValueDefListT ds ++ pT .parenR

def fieldDefT (d : FieldDef) : List KV :=
  descT d.description ++ nT d.name.value ++ argDefsT d.args ++ pT .colon ++ typeT d.type ++ directivesT d.dirs

def fieldDefListT : List FieldDef → List KV
  | [] => []
  | d :: ds => fieldDefT d ++ fieldDefListT ds

def enumValueDefT (d : EnumValueDef) : List KV := descT d.description ++ nT d.name.value ++ directivesT d.dirs

def enumValueDefListT : List EnumValueDef → List KV
  | [] => []
  | d :: ds => enumValueDefT d ++ enumValueDefListT ds

def opTypeDefT (d : OpTypeDef) : List KV := nT d.operation.toString ++ pT .colon ++ typeT d.type

def opTypeDefListT : List OpTypeDef → List KV
  | [] => []
  | d :: ds => opTypeDefT d ++ opTypeDefListT ds

/-- `x (sep x)*` -/
def sepByT (k : TokenKind) : List (List KV) → List KV
  | [] => []
  | [x] => x
  | x :: y :: rest => x ++ pT k ++ sepByT k (y :: rest)

def optNameT : Option Name → List KV
  | none => []
  | some n => nT n.value

def isShortForm (op : OpType) (name : Option Name) (vars : List VarDef) (dirs : List Directive) : Bool :=
  name.isNone && vars.isEmpty && dirs.isEmpty && op == .query

def operationT (op : OpType) (name : Option Name) (vars : List VarDef) (dirs : List Directive) (sel : SelectionSet) :
    List KV :=
  if isShortForm op name vars dirs then selSetT sel
  else nT op.toString ++ optNameT name ++ varDefsT vars ++ directivesT dirs ++ selSetT sel

def fragmentT (name : Name) (tc : TypeRef) (dirs : List Directive) (sel : SelectionSet) : List KV :=
  nT "fragment" ++ nT name.value ++ nT "on" ++ typeT tc ++ directivesT dirs ++ selSetT sel

def schemaT (dirs : List Directive) (ops : List OpTypeDef) : List KV :=
  nT "schema" ++ directivesT dirs ++ pT .braceL ++ opTypeDefListT ops ++ pT .braceR

def scalarT (desc : Option String) (name : Name) (dirs : List Directive) : List KV :=
  descT desc ++ nT "scalar" ++ nT name.value ++ directivesT dirs

def implementsT (ifs : List TypeRef) : List KV :=
  match ifs with
  | [] => []
  | _ :: _ => nT "implements" ++ sepByT .amp (ifs.map typeT)

def objectDefT (d : ObjectDef) : List KV :=
  descT d.description ++ nT "type" ++ nT d.name.value ++ implementsT d.interfaces ++ directivesT d.dirs ++
    pT .braceL ++ fieldDefListT d.fields ++ pT .braceR

def interfaceT (desc : Option String) (name : Name) (dirs : List Directive) (fields : List FieldDef) : List KV :=
  descT desc ++ nT "interface" ++ nT name.value ++ directivesT dirs ++ pT .braceL ++ fieldDefListT fields ++ pT .braceR

def unionT (desc : Option String) (name : Name) (dirs : List Directive) (types : List TypeRef) : List KV :=
  descT desc ++ nT "union" ++ nT name.value ++ directivesT dirs ++ pT .equals ++ sepByT .pipe (types.map typeT)

def enumT (desc : Option String) (name : Name) (dirs : List Directive) (values : List EnumValueDef) : List KV :=
  descT desc ++ nT "enum" ++ nT name.value ++ directivesT dirs ++ pT .braceL ++ enumValueDefListT values ++ pT .braceR

def inputObjectT (desc : Option String) (name : Name) (dirs : List Directive) (fields : List InputValueDef) : List KV :=
  descT desc ++ nT "input" ++ nT name.value ++ directivesT dirs ++ pT .braceL ++ inputValueDefListT fields ++ pT .braceR

def extendT (d : ObjectDef) : List KV := nT "extend" ++ objectDefT d

def directiveDefT (desc : Option String) (name : Name) (args : List InputValueDef) (locations : List Name) : List KV :=
  descT desc ++ nT "directive" ++ pT .at ++ nT name.value ++ argDefsT args ++ nT "on" ++
    sepByT .pipe (locations.map (fun n => nT n.value))

def definitionT : Definition → List KV
  | .operation op name vars dirs sel _ => operationT op name vars dirs sel
  | .fragment name tc dirs sel _ => fragmentT name tc dirs sel
  | .schema dirs ops _ => schemaT dirs ops
  | .scalar desc name dirs _ => scalarT desc name dirs
  | .object d => objectDefT d
  | .interface desc name dirs fields _ => interfaceT desc name dirs fields
  | .union desc name dirs types _ => unionT desc name dirs types
  | .enum desc name dirs values _ => enumT desc name dirs values
  | .inputObject desc name dirs fields _ => inputObjectT desc name dirs fields
  | .extend d _ => extendT d
  | .directive desc name args locations _ => directiveDefT desc name args locations

def definitionListT : List Definition → List KV
  | [] => []
  | d :: ds => definitionT d ++ definitionListT ds

def docT (d : Document) : List KV := definitionListT d.defs

/-! ## well-formedness -/

def isBaseTypeB : TypeRef → Bool
  | .nonNull _ _ => false
  | _ => true

def WFName (s : String) : Prop := isNameC s.toList = true

mutual
/-- no variable anywhere inside (`Value[Const]`) -/
def ConstValue : Value → Prop
  | .var _ _ => False
  | .list vs _ => ConstValues vs
  | .obj fs _ => ConstFields fs
  | _ => True
def ConstValues : List Value → Prop
  | [] => True
  | v :: vs => ConstValue v ∧ ConstValues vs
def ConstField : ObjField → Prop
  | .mk _ v _ => ConstValue v
def ConstFields : List ObjField → Prop
  | [] => True
  | f :: fs => ConstField f ∧ ConstFields fs
end

def WFArgument (a : Argument) : Prop := WFName a.name.value ∧ WFValue a.value

def WFArguments : List Argument → Prop
  | [] => True
  | a :: as => WFArgument a ∧ WFArguments as

def WFDirective (d : Directive) : Prop := WFName d.name.value ∧ WFArguments d.args

def WFDirectives : List Directive → Prop
  | [] => True
  | d :: ds => WFDirective d ∧ WFDirectives ds

/-- constant arguments (directives on type-system definitions are parsed with the general value grammar, so no
constness is required there; kept for default values only) -/
def WFDefault : Option Value → Prop
  | none => True
  | some v => WFValue v ∧ ConstValue v

def WFOptName : Option Name → Prop
  | none => True
  | some n => WFName n.value

/-- a type condition / interface / union member: a named type -/
def WFNamedType : TypeRef → Prop
  | .named n _ => WFName n
  | _ => False

def WFTypeCond : Option TypeRef → Prop
  | none => True
  | some t => WFNamedType t

mutual
def WFSelection : Selection → Prop
  | .field alias name args dirs sel _ =>
    WFOptName alias ∧ WFName name.value ∧ WFArguments args ∧ WFDirectives dirs ∧ WFOptSelSet sel
  | .spread name dirs _ => WFName name.value ∧ name.value ≠ "on" ∧ WFDirectives dirs
  | .inline tc dirs sel _ => WFTypeCond tc ∧ WFDirectives dirs ∧ WFSelSet sel
def WFSelSet : SelectionSet → Prop
  | .mk sels _ => sels ≠ [] ∧ WFSelections sels
def WFOptSelSet : Option SelectionSet → Prop
  | none => True
  | some s => WFSelSet s
def WFSelections : List Selection → Prop
  | [] => True
  | s :: ss => WFSelection s ∧ WFSelections ss
end

def WFVarDef (v : VarDef) : Prop :=
  WFName v.var.value ∧ (∃ t, v.type = some t ∧ WFType t) ∧ WFDefault v.default

def WFVarDefs : List VarDef → Prop
  | [] => True
  | v :: vs => WFVarDef v ∧ WFVarDefs vs

def WFInputValueDef (d : InputValueDef) : Prop :=
  WFName d.name.value ∧ WFType d.type ∧ WFDefault d.default ∧ WFDirectives d.dirs

def WFInputValueDefs : List InputValueDef → Prop
  | [] => True
  | d :: ds => WFInputValueDef d ∧ WFInputValueDefs ds

def WFFieldDef (d : FieldDef) : Prop :=
  WFName d.name.value ∧ WFInputValueDefs d.args ∧ WFType d.type ∧ WFDirectives d.dirs

def WFFieldDefs : List FieldDef → Prop
  | [] => True
  | d :: ds => WFFieldDef d ∧ WFFieldDefs ds

def WFEnumValueDef (d : EnumValueDef) : Prop := WFName d.name.value ∧ WFDirectives d.dirs

def WFEnumValueDefs : List EnumValueDef → Prop
  | [] => True
  | d :: ds => WFEnumValueDef d ∧ WFEnumValueDefs ds

def WFOpTypeDef (d : OpTypeDef) : Prop := WFNamedType d.type

def WFOpTypeDefs : List OpTypeDef → Prop
  | [] => True
  | d :: ds => WFOpTypeDef d ∧ WFOpTypeDefs ds

def WFNamedTypes : List TypeRef → Prop
  | [] => True
  | t :: ts => WFNamedType t ∧ WFNamedTypes ts

def WFNames : List Name → Prop
  | [] => True
  | n :: ns => WFName n.value ∧ WFNames ns

def WFObjectDef (d : ObjectDef) : Prop :=
  WFName d.name.value ∧ WFNamedTypes d.interfaces ∧ WFDirectives d.dirs ∧ WFFieldDefs d.fields

def WFDefinition : Definition → Prop
  | .operation _ name vars dirs sel _ => WFOptName name ∧ WFVarDefs vars ∧ WFDirectives dirs ∧ WFSelSet sel
  | .fragment name tc dirs sel _ =>
    WFName name.value ∧ name.value ≠ "on" ∧ WFNamedType tc ∧ WFDirectives dirs ∧ WFSelSet sel
  | .schema dirs ops _ => WFDirectives dirs ∧ ops ≠ [] ∧ WFOpTypeDefs ops
  | .scalar _ name dirs _ => WFName name.value ∧ WFDirectives dirs
  | .object d => WFObjectDef d
  | .interface _ name dirs fields _ => WFName name.value ∧ WFDirectives dirs ∧ WFFieldDefs fields
  | .union _ name dirs types _ => WFName name.value ∧ WFDirectives dirs ∧ types ≠ [] ∧ WFNamedTypes types
  | .enum _ name dirs values _ => WFName name.value ∧ WFDirectives dirs ∧ WFEnumValueDefs values
  | .inputObject _ name dirs fields _ => WFName name.value ∧ WFDirectives dirs ∧ WFInputValueDefs fields
  | .extend d _ => WFObjectDef d
  | .directive _ name args locations _ =>
    WFName name.value ∧ WFInputValueDefs args ∧ locations ≠ [] ∧ WFNames locations

def WFDefinitions : List Definition → Prop
  | [] => True
  | d :: ds => WFDefinition d ∧ WFDefinitions ds

def WFDocument (d : Document) : Prop := d.defs ≠ [] ∧ WFDefinitions d.defs

end GqlModel.Printer
