import GqlModel.SchemaBuild
/-! # Histories: type objects mutated after construction (C11)

The public API lets a program change a type object after it was built — `Object.AddFieldConfig`,
`Interface.AddFieldConfig`, `InputObject.AddFieldConfig` — before or after the object entered a schema's type map.
`Live` adds to the construction model (SchemaBuild.lean) exactly the state this needs:

* the current configuration (`cfg`; an error an API call parked on an object after its construction is the `parked`
  field of its `TypeCfg`, which `ctorErr` — the model's `Error()` — reports);
* `stale`: objects / interfaces whose `initialisedFields` flag `AddFieldConfig` cleared: their cached field map and
  parked error are those of an older configuration until something calls `Fields()`.

It is bug-faithful to /repo HEAD: `typeMapReducer` returns at once for a type that is already in the type map (it is
not walked again, whatever happened to it), the assertion loops of `NewSchema` / `AddImplementation` call `Fields()`
on every object that declares interfaces and on those interfaces (refreshing them: `err` is overwritten, also with nil)
without looking at `err`, `InputObject.AddFieldConfig` re-validates at once. On error `defineFieldMap` returns the
fields it had defined so far (`fieldsPartial`; Go map order = list order). Everything else is the construction model
itself, run on the current configuration. -/
namespace GqlModel.SchemaBuild

/-- `defineFieldMap`: the fields defined before the first error (all of them when there is none) -/
def defineFieldsPartial (cfg : Config) : List FieldCfg → List BField
  | [] => []
  | f :: rest =>
    match defineFieldsLoop cfg [f] with
    | .ok [b] => b :: defineFieldsPartial cfg rest
    | .ok _ => defineFieldsPartial cfg rest      -- a nil `*Field`: skipped
    | .error _ => []

def fieldsPartial (cfg : Config) (i : Nat) : List BField :=
  let t := cfg.get i
  defineFieldsPartial cfg (if formGiven t.form then t.fields else [])

def defineInputPartial (cfg : Config) : List ArgCfg → List BArg
  | [] => []
  | f :: rest =>
    match defineInputLoop cfg [f] with
    | .ok [b] => b :: defineInputPartial cfg rest
    | .ok _ => defineInputPartial cfg rest
    | .error _ => []

def inputFieldsPartial (cfg : Config) (i : Nat) : List BArg :=
  let t := cfg.get i
  defineInputPartial cfg (if formGiven t.form then t.inputFields else [])

/-- `builtType` with the partial field maps the library really hands out for a type whose definition failed -/
def builtTypeP (cfg : Config) (i : Nat) : BType :=
  let k := kindOf cfg i
  { builtType cfg i with
    fields := if k == .object || k == .interface then fieldsPartial cfg i else [],
    inputFields := if k == .inputObject then inputFieldsPartial cfg i else [] }

/-- the configuration without the errors parked after construction -/
def Config.unparked (cfg : Config) : Config := { cfg with types := cfg.types.map (fun t => { t with parked := none }) }

/-- the cached view of type `i`: a type whose last `Fields()` call succeeded saw no parked error on its field types
(it would have failed), so its view is the one of the configuration without parked errors; a type that carries a parked
error shows the partial field map under the current errors -/
def viewOf (cfg : Config) (i : Nat) : BType :=
  if (ctorErr cfg i).isSome then
    -- while `defineFieldMap` ran, the type's own `err` still was the old one (nil)
    builtTypeP (if i < nBuiltin then cfg else { cfg with types := cfg.types.set (i - nBuiltin) { cfg.get i with parked := none } }) i
  else builtTypeP cfg.unparked i

structure Live where
  cfg : Config
  tm : TM := []
  stale : List Nat := []
deriving Repr, Inhabited

def errOf {α : Type} : Except Err α → Option Err
  | .ok _ => none
  | .error e => some e

/-- replace entry `i - nBuiltin` of the user types -/
def Config.setType (cfg : Config) (i : Nat) (t : TypeCfg) : Config :=
  { cfg with types := cfg.types.set (i - nBuiltin) t }

/-- `fields[name] = config` on a Go map; `front` chooses where a new key goes in the list that stands for the map's
iteration order (the order is Go's to choose) -/
def upsertField (front : Bool) (fs : List FieldCfg) (f : FieldCfg) : List FieldCfg :=
  if fs.any (fun g => g.name == f.name) then fs.map (fun g => if g.name == f.name then f else g)
  else if front then f :: fs else fs ++ [f]

def upsertArg (front : Bool) (fs : List ArgCfg) (f : ArgCfg) : List ArgCfg :=
  if fs.any (fun g => g.name == f.name) then fs.map (fun g => if g.name == f.name then f else g)
  else if front then f :: fs else fs ++ [f]

/-- `Object.AddFieldConfig` / `Interface.AddFieldConfig`: ignored for an empty name, a nil config, a built-in, a
type whose constructor failed or whose `Fields` is not a plain map; else the field is put into the map and
`initialisedFields` is cleared. Nothing is validated. -/
def Live.addField (st : Live) (i : Nat) (f : FieldCfg) (front : Bool := false) : Live :=
  let t := st.cfg.get i
  if f.name == "" || !f.present || i < nBuiltin || !validName t.name || t.form != .direct ||
      !(t.kind == .object || t.kind == .interface) then st
  else { st with cfg := st.cfg.setType i { t with fields := upsertField front t.fields f },
                 stale := if st.stale.contains i then st.stale else i :: st.stale }

/-- `InputObject.AddFieldConfig`: ignored for an empty name or a nil config; "Cannot add field to a thunk" is parked
when `Fields` is not a plain map; else the field is put into the map and the field map is defined again at once
(its error — or nil — replaces the parked error). -/
def Live.addInputField (st : Live) (i : Nat) (f : ArgCfg) (front : Bool := false) : Live :=
  let t := st.cfg.get i
  if f.name == "" || !f.present || i < nBuiltin || t.kind != .inputObject then st
  else if !validName t.name || t.form != .direct then
    { st with cfg := st.cfg.setType i { t with parked := some .addFieldToThunk } }
  else
    let cfg1 := st.cfg.setType i { t with inputFields := upsertArg front t.inputFields f, parked := none }
    { st with cfg := cfg1.setType i { cfg1.get i with parked := errOf (inputFieldsOf cfg1 i) } }

/-- the objects that declare interfaces, and those interfaces: what the assertion loops call `Fields()` on -/
def assertedTypes (cfg : Config) (tm : TM) : List Nat :=
  (tm.objects cfg).flatMap (fun o => match orNil (interfacesOf cfg o) with
    | [] => []
    | is => o :: is)

/-- `Fields()` on a stale object / interface: the parked error becomes that of the current field map (or nil) -/
def refresh (cfg : Config) (i : Nat) : Config :=
  if i < nBuiltin then cfg else cfg.setType i { cfg.get i with parked := errOf (fieldsOf cfg i) }

/-- the assertion loops on the library's real view (partial field maps) -/
def assertAllP (cfg : Config) (tm : TM) : Option Err :=
  (tm.objects cfg).findSome? (fun o =>
    (orNil (interfacesOf cfg o)).findSome? (fun i =>
      conformsTo (kindOf cfg) (isPossibleScan cfg tm) (viewOf cfg o) (viewOf cfg i)))

/-- what follows the type-map construction in `NewSchema` / `AppendType` -/
def Live.finish (st : Live) (tm : TM) : Except Err Live :=
  let fresh := st.stale.filter (fun i => !tm.contains i || st.tm.contains i)   -- new entries were just forced
  let touched := (assertedTypes st.cfg tm).filter fresh.contains
  let cfg' := touched.foldl refresh st.cfg
  let st' : Live := { cfg := cfg', tm := tm, stale := fresh.filter (fun i => !touched.contains i) }
  match assertAllP cfg' tm with
  | some e => .error e
  | none => .ok st'

/-- every error the assertion loops of this step can report first (they range over Go maps) -/
def Live.finishErrs (st : Live) (tm : TM) : List Err :=
  let fresh := st.stale.filter (fun i => !tm.contains i || st.tm.contains i)
  let touched := (assertedTypes st.cfg tm).filter fresh.contains
  let cfg' := touched.foldl refresh st.cfg
  (tm.objects cfg').flatMap (fun o =>
    (orNil (interfacesOf cfg' o)).flatMap (fun i =>
      (viewOf cfg' i).fields.filterMap (fieldConforms (kindOf cfg') (isPossibleScan cfg' tm) (viewOf cfg' o).fields)))

/-- `graphql.NewSchema` on the current objects -/
def Live.newSchema (st : Live) (more : List TRef) : Except Err Live :=
  match newSchemaTM st.cfg more with
  | .error e => .error e
  | .ok tm => { st with tm := [] }.finish tm

/-- does `AppendType` walk the registered types again? `false` = /repo HEAD (it returns at once for a type that is
already in the type map); `true` = the repair proposed in notes/fixes/D-11h-trial.diff (the type map is rebuilt from
every registered type, in type-name order, then the appended type) -/
def appendRewalks : Bool := false

/-- `Schema.AppendType` up to the type map -/
def Live.appendTM (st : Live) (t : TRef) : Except Err (Option TM) :=
  if appendRewalks then
    let b := t.build
    if b == .nil then .ok none
    else match topErr st.cfg b with
      | some e => .error e
      | none =>
        let regs := (sortBy (fun a b => decide (nameOf st.cfg a < nameOf st.cfg b)) st.tm).map TRef.ref
        match reduceRoots st.cfg [] (regs ++ [b]) with
        | .error e => .error e
        | .ok tm => .ok (some tm)
  else SchemaBuild.appendTM st.cfg ⟨st.tm⟩ t

/-- `Schema.AppendType` -/
def Live.append (st : Live) (t : TRef) : Except Err Live :=
  match st.appendTM t with
  | .error e => .error e
  | .ok none => .ok st
  | .ok (some tm) => (if appendRewalks then { st with tm := [] } else st).finish tm

inductive HStep where
  | addField (i : Nat) (f : FieldCfg) (front : Bool := false)
  | addInputField (i : Nat) (f : ArgCfg) (front : Bool := false)
  | newSchema
  | append (t : TRef)
deriving Repr, Inhabited

/-- run a history; the index of the failing step comes with the error -/
def runHistory : Live → Nat → List HStep → Except (Nat × Err) Live
  | st, _, [] => .ok st
  | st, k, .addField i f fr :: rest => runHistory (st.addField i f fr) (k + 1) rest
  | st, k, .addInputField i f fr :: rest => runHistory (st.addInputField i f fr) (k + 1) rest
  | st, k, .newSchema :: rest =>
    match st.newSchema [] with
    | .error e => .error (k, e)
    | .ok st' => runHistory st' (k + 1) rest
  | st, k, .append t :: rest =>
    match st.append t with
    | .error e => .error (k, e)
    | .ok st' => runHistory st' (k + 1) rest

/-- the alternatives for the error of the failing step of a history (assertion loops only) -/
def historyAssertErrs : Live → List HStep → List Err
  | _, [] => []
  | st, .addField i f fr :: rest => historyAssertErrs (st.addField i f fr) rest
  | st, .addInputField i f fr :: rest => historyAssertErrs (st.addInputField i f fr) rest
  | st, .newSchema :: rest =>
    match st.newSchema [] with
    | .ok st' => historyAssertErrs st' rest
    | .error _ => (match newSchemaTM st.cfg [] with | .ok tm => { st with tm := [] }.finishErrs tm | .error _ => [])
  | st, .append t :: rest =>
    match st.append t with
    | .ok st' => historyAssertErrs st' rest
    | .error _ => (match st.appendTM t with
      | .ok (some tm) => (if appendRewalks then { st with tm := [] } else st).finishErrs tm
      | _ => [])

/-- the same final configuration supplied up front: every mutation first, then `NewSchema` with the appended types
in `Types` -/
def upfront (st : Live) (h : List HStep) : Except Err Live :=
  let st1 := h.foldl (fun s step => match step with
    | .addField i f fr => s.addField i f fr
    | .addInputField i f fr => s.addInputField i f fr
    | _ => s) st
  st1.newSchema (h.filterMap (fun step => match step with | .append t => some t | _ => none))

/-- a mutation hits a type object that is already in the type map (the class of histories on which HEAD's
`AppendType` does not re-validate) -/
def mutatesRegistered : Live → List HStep → Bool
  | _, [] => false
  | st, .addField i f fr :: rest => st.tm.contains i || mutatesRegistered (st.addField i f fr) rest
  | st, .addInputField i f fr :: rest => st.tm.contains i || mutatesRegistered (st.addInputField i f fr) rest
  | st, .newSchema :: rest => (match st.newSchema [] with | .ok st' => mutatesRegistered st' rest | .error _ => false)
  | st, .append t :: rest => (match st.append t with | .ok st' => mutatesRegistered st' rest | .error _ => false)

/-- the dump after a history: `Fields()` of everything has been called by then, so every stale type shows its
current field map and error -/
def Live.observed (st : Live) : Config :=
  -- the observer (harness dump) calls `Fields()` on the types of the type map in the order of their names, then on
  -- whatever else it reaches; a refreshed type sees the errors parked so far on its field types
  let inMap := sortBy (fun a b => decide (nameOf st.cfg a < nameOf st.cfg b)) (st.stale.filter st.tm.contains)
  (inMap ++ st.stale.filter (fun i => !st.tm.contains i)).foldl refresh st.cfg

def Live.dump (st : Live) : BuiltSchema :=
  let cfg := st.observed
  let d := SchemaBuild.dump cfg ⟨st.tm⟩
  { d with table := (List.range cfg.size).map (viewOf cfg) }

/-- parked errors of the types of the type map, as `Error()` shows them after the dump -/
def Live.parkedErrs (st : Live) : List (Nat × Err) :=
  let cfg := st.observed
  st.tm.filterMap (fun i => (ctorErr cfg i).map (fun e => (i, e)))

end GqlModel.SchemaBuild
