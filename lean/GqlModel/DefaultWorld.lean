import GqlModel.Exec
import GqlModel.DefaultResolve
/-! # Default-resolved objects as a resolver world of the execution algorithm

`GqlModel.Exec` (S of C01) takes the resolvers as a table `World`: object id ↦ (runtime type, field name ↦ outcome).
An object type whose fields have no `Resolve` is resolved by `DefaultResolveFn`; its row of the table is what the
model `defaultResolve` yields for the object's parent VALUE (`Source`) and each field name. `Interp` says which Go
values the abstract property ids stand for. -/
namespace GqlModel.DefaultResolve
open GqlModel.Exec

structure Interp where
  plain : Nat → GoVal        -- a plain property value
  called : Nat → GoVal       -- what calling a `func() interface{}` property returned
  resolved : Nat → GoVal     -- what `FieldResolver.Resolve` returned
  funcOther : Nat → GoVal    -- a func property handed back as it is (`.thunk …` or `.badFunc`)

/-- what the executor receives from the default resolver -/
def toOutcome (I : Interp) : Res → Outcome
  | .panic => .fail                            -- recovered into a field error
  | .resolved out => .value (I.resolved out)
  | .called id => .value (I.called id)
  | .value .nil => .value .nil
  | .value (.plain id) => .value (I.plain id)
  | .value (.func0 _) => .value .badFunc       -- an uncalled `func() interface{}` is no thunk
  | .value (.funcOther id) => .value (I.funcOther id)

def objOf (I : Interp) (names : List String) (typeName : String) (src : Source) : WObj :=
  { typeName := typeName, fields := names.map fun n => (n, toOutcome I (defaultResolve src n)) }

/-- the world in which the listed objects `(id, runtime type, parent value)` are default-resolved for the field
names `names`; everything else (root fields, type resolution tables) is taken from `base` -/
def defaultWorld (I : Interp) (names : List String) (objs : List (Nat × String × Source)) (base : World) : World :=
  { base with objects := objs.map fun o => (o.1, objOf I names o.2.1 o.2.2) }

end GqlModel.DefaultResolve
