import GqlModel.Exec
/-! # Legitimate resolver invocations (C20) — declarative specification

`Position c root rootG rt src path groups`: the object value `src` of RUNTIME object type `rt` sits at response path
`path` and its selection set is `groups` — the root (`.nil`, `[]`, the collected root selection), or an object reached
from a field of a parent position: the parent's resolver returned a value, and that value, completed for the field's
declared type, leads (`ObjAt`: through thunks, non-null wrappers, list elements — appending the index —, and the
runtime-type dispatch of abstract types) to the object; its selection set is the merged sub-selection of the field's
occurrences for the object's runtime type.

`Accurate c root rootG e`: the log entry `e` is the invocation of a selected field of such a position, with accurate
parameters. -/
namespace GqlModel.Exec
open GqlModel.Coerce

/-- deferred values and other funcs are never an object's source: they are forced (or rejected) first -/
def GoVal.isFunc : GoVal → Bool
  | .thunk _ => true
  | .badFunc => true
  | _ => false

/-- `ObjAt c t p v ot o p'`: completing the value `v` at path `p` for declared type `t` reaches the object value `o` of
runtime object type `ot` at path `p'` -/
inductive ObjAt (c : Ctx) : GType → Path → GoVal → String → GoVal → Path → Prop
  | thunk {t p v ot o p'} : ObjAt c t p v ot o p' → ObjAt c t p (.thunk (.ok v)) ot o p'
  | nonNull {t p v ot o p'} : ObjAt c t p v ot o p' → ObjAt c (.nonNull t) p v ot o p'
  | item {t p xs i x ot o p'} : xs[i]? = some x → ObjAt c t (p ++ [.idx i]) x ot o p' →
      ObjAt c (.list t) p (.list xs) ot o p'
  | object {n p v} : v.isFunc = false → v.nullish = false → c.schema.isObject n = true →
      (objectHasIsTypeOf c.schema n && !c.world.isTypeOfAns n v) = false → ObjAt c (.named n) p v n v p
  | abstract {n p v ot} : v.isFunc = false → v.nullish = false → c.schema.isAbstract n = true →
      runtimeTypeOf c n v = some ot →
      c.schema.isObject ot = true → c.schema.isPossibleType n ot = true → ObjAt c (.named n) p v ot v p

/-- the group `(k, nodes)` of `groups` selects the field `fd` (first occurrence `node`) of the object type `rt` -/
def Selected (c : Ctx) (rt : String) (groups : Groups) (k : String) (nodes : List FieldNode) (node : FieldNode)
    (fd : FieldDefS) : Prop :=
  (k, nodes) ∈ groups ∧ nodes.head? = some node ∧ fieldDef? c.schema rt node.name = some fd ∧ fd.name ≠ "__typename"

/-- positions at or below the position `(rt0, src0, path0, G0)` -/
inductive PosFrom (c : Ctx) (rt0 : String) (src0 : GoVal) (path0 : Path) (G0 : Groups) :
    String → GoVal → Path → Groups → Prop
  | base : PosFrom c rt0 src0 path0 G0 rt0 src0 path0 G0
  | child {rt src path groups k nodes node fd v ot o p'} :
      PosFrom c rt0 src0 path0 G0 rt src path groups → Selected c rt groups k nodes node fd →
      c.world.outcome src fd.name = .value v → ObjAt c fd.type (path ++ [.key k]) v ot o p' →
      PosFrom c rt0 src0 path0 G0 ot o p' (collectMerged c ot nodes)

/-- positions of a request: at or below the root (`.nil` source, empty path, the collected root selection) -/
abbrev Position (c : Ctx) (root : String) (rootG : Groups) : String → GoVal → Path → Groups → Prop :=
  PosFrom c root .nil [] rootG

/-- the parameters of the invocation `e` are those of a selected field of a legitimate position: parent type = the
RUNTIME object type of the position, source = the position's object value (the individual element under lists, the
root value at the top), path = the position's path ++ the response key (alias), arguments = the coerced arguments of
the field definition applied to the FIRST occurrence's argument ASTs under the request's coerced variables, occurrences
= number of merged field nodes -/
def Accurate (c : Ctx) (root : String) (rootG : Groups) (e : LogEntry) : Prop :=
  ∃ rt src path groups k nodes node fd,
    Position c root rootG rt src path groups ∧ Selected c rt groups k nodes node fd ∧
    e.path = path ++ [.key k] ∧ e.parentType = rt ∧ e.fieldName = fd.name ∧
    e.args = getArgumentValues c.schema fd.args node.args c.vars ∧ e.source = src ∧ e.occurrences = nodes.length

end GqlModel.Exec
