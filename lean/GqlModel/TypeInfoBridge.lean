import GqlModel.Visitor
import GqlModel.Tables
import GqlModel.TypeInfoStacks
/-! # C14 bridge: the typed-AST walk of the TypeInfo theorems and the abstract `Visitor.Node` machine

`Props/C14.machine_eq_reference` is about the loop of `visitor.Visit` over abstract trees `Visitor.Node` (ids + keyed
child slots); `Props/C14TypeInfo` is about a structural walk (`visitO`) over labelled trees `TNode` built from the typed
AST. This file connects them:

* `KNode` / `KSlot`: a labelled tree WITH the child keys (`absent` = nil child, `one`, `many` = slice);
* `docK keys d`: the typed document as a `KNode`, the slots of every node in the order `keys` (= the child-key table,
  instantiated with the regenerated `Generated.queryDocumentKeys` in Props) lists for the node's kind — each node only
  offers its children BY KEY (`slotsBy`), the order and the set of slots come from the table;
* `KNode.flat : KNode → TNode` forgets the keys (GqlProofs/TypeInfoBridge: `(docK keys d).flat = docTree d` when the
  table lists, for the kinds involved, what `walkChildKeys` says);
* `KNode.toNode k n : Visitor.Node`: ids in preorder from `n` (the numbering harness/cmd/c14 uses for the real AST),
  slots by key; `KNode.labels`: the labels in preorder, so `labOf labels id` is the label of node `id`;
* `withTypeInfo T lab o : Visitor.Visitor (TI × σ)`: `visitor.VisitWithTypeInfo(ti, opts)` as the `VisitorOptions{Enter,
  Leave}` it returns (visitor.go:711-748), for the abstract machine: the machine hands it a node id, `lab id` stands for
  `p.Node` (kind, location, the fields `TypeInfo.Enter/Leave` read). Its state is (TypeInfo, wrapped visitor's state). -/
namespace GqlModel.TypeInfoStacks
open GqlModel.Validate
variable {σ : Type}

mutual
inductive KNode where
  | mk (kind : String) (loc : Loc) (view : NodeView) (slots : List KSlot)
inductive KSlot where
  | absent (key : String)
  | one (key : String) (n : KNode)
  | many (key : String) (ns : List KNode)
end

def KSlot.key : KSlot → String
  | .absent k | .one k _ | .many k _ => k

/-- what the wrapped visitor and TypeInfo read of a node -/
structure Label where
  kind : String
  loc : Loc
  view : NodeView

instance : Inhabited Label := ⟨⟨"", Loc.none, .other⟩⟩

mutual
/-- forget the keys -/
def KNode.flat : KNode → TNode
  | .mk k l v ss => .mk k l v (KSlot.flatList ss)
def KSlot.flatList : List KSlot → List TNode
  | [] => []
  | .absent _ :: r => KSlot.flatList r
  | .one _ n :: r => n.flat :: KSlot.flatList r
  | .many _ ns :: r => KNode.flatNodes ns ++ KSlot.flatList r
def KNode.flatNodes : List KNode → List TNode
  | [] => []
  | n :: ns => n.flat :: KNode.flatNodes ns
end

mutual
/-- labels in preorder (document order) -/
def KNode.labels : KNode → List Label
  | .mk k l v ss => ⟨k, l, v⟩ :: KSlot.labelsList ss
def KSlot.labelsList : List KSlot → List Label
  | [] => []
  | .absent _ :: r => KSlot.labelsList r
  | .one _ n :: r => n.labels ++ KSlot.labelsList r
  | .many _ ns :: r => KNode.labelsNodes ns ++ KSlot.labelsList r
def KNode.labelsNodes : List KNode → List Label
  | [] => []
  | n :: ns => n.labels ++ KNode.labelsNodes ns
end

def KNode.size (n : KNode) : Nat := n.labels.length

mutual
/-- the abstract tree: the node gets id `k`, its descendants `k+1 …` in preorder; an empty slice is an absent slot -/
def KNode.toNode : KNode → Nat → Visitor.Node
  | .mk _ _ _ ss, k => .mk k (KSlot.toSlots ss (k + 1))
def KSlot.toSlots : List KSlot → Nat → List Visitor.Slot
  | [], _ => []
  | .absent key :: r, k => .absent key :: KSlot.toSlots r k
  | .one key n :: r, k => .one key (n.toNode k) :: KSlot.toSlots r (k + n.labels.length)
  | .many key [] :: r, k => .absent key :: KSlot.toSlots r k
  | .many key (n :: ns) :: r, k =>
    .many key (n.toNode k) (KNode.toNodes ns (k + n.labels.length)) ::
      KSlot.toSlots r (k + n.labels.length + (KNode.labelsNodes ns).length)
def KNode.toNodes : List KNode → Nat → List Visitor.Node
  | [], _ => []
  | n :: ns, k => n.toNode k :: KNode.toNodes ns (k + n.labels.length)
end

/-- the node behind an id (`p.Node`) -/
def labOf (labels : List Label) (id : Nat) : Label := labels[id]?.getD default

/-- `visitor.VisitWithTypeInfo(ttypeInfo, visitorOpts)` (visitor.go:711-748) for the abstract machine. Never answers
BREAK (a BREAK of the wrapped visitor is not modelled). -/
def withTypeInfo (T : Tracker) (lab : Nat → Label) (o : Opts σ) : Visitor.Visitor (TI × σ) where
  enter := fun p id _ =>
    let l := lab id
    let ti1 := T.enter p.1 l.view                          -- ttypeInfo.Enter(node)
    match getEnterFn o l.kind with                         -- fn := GetVisitFn(visitorOpts, node.GetKind(), false)
    | some fn =>
      match fn p.2 ⟨l.kind, l.loc, regs ti1⟩ with
      | (st1, true) => ((if T.leaveOnSkip then T.leave ti1 l.view else ti1, st1), .skip)   -- ActionSkip: Leave(node)
      | (st1, false) => ((ti1, st1), .cont)
    | none => ((ti1, p.2), .cont)
  leave := fun p id _ =>
    let l := lab id
    match getLeaveFn o l.kind with                         -- fn := GetVisitFn(visitorOpts, node.GetKind(), true)
    | some fn => ((T.leave p.1 l.view, fn p.2 ⟨l.kind, l.loc, regs p.1⟩), .cont)
    | none => ((if T.leaveNeedsHandler then p.1 else T.leave p.1 l.view, p.2), .cont)

/-! ## The typed document as a keyed tree, slots in the table's order -/

/-- the child offered under `key`, or an absent slot -/
def pick (cands : List KSlot) (key : String) : KSlot :=
  match cands.find? (fun c => c.key == key) with
  | some c => c
  | none => .absent key

/-- the slots of a node of kind `kind`: one per key the table lists for that kind, in the table's order; the node offers
its children by key (`cands`), a key nobody offers is an absent slot, a child offered under a key the table does not
list is not visited -/
def slotsBy (keys : List (String × List String)) (kind : String) (cands : List KSlot) : List KSlot :=
  match Tables.lookup keys kind with
  | some ks => ks.map (pick cands)
  | none => []

def optOne (key : String) : Option KNode → KSlot
  | some n => .one key n
  | none => .absent key

section
variable (keys : List (String × List String))

def nameK (n : Name) : KNode := .mk "Name" n.loc .other (slotsBy keys "Name" [])

def typeK : TypeRef → KNode
  | .named _ lc => .mk "Named" lc .other (slotsBy keys "Named" [.one "Name" (.mk "Name" lc .other (slotsBy keys "Name" []))])
  | .list t lc => .mk "List" lc .other (slotsBy keys "List" [.one "Type" (typeK t)])
  | .nonNull t lc => .mk "NonNull" lc .other (slotsBy keys "NonNull" [.one "Type" (typeK t)])

def variableK (lc : Loc) : KNode :=
  .mk "Variable" lc .other (slotsBy keys "Variable" [.one "Name" (.mk "Name" ⟨lc.start + 1, lc.stop⟩ .other (slotsBy keys "Name" []))])

mutual
def valueK : Value → KNode
  | .list vs lc => .mk "ListValue" lc .listValue (slotsBy keys "ListValue" [.many "Values" (valuesK vs)])
  | .obj fs lc => .mk "ObjectValue" lc .other (slotsBy keys "ObjectValue" [.many "Fields" (objFieldsK fs)])
  | .var _ lc => variableK keys lc
  | v => .mk (valueKind v) v.loc .other (slotsBy keys (valueKind v) [])
def valuesK : List Value → List KNode
  | [] => []
  | v :: vs => valueK v :: valuesK vs
def objFieldsK : List ObjField → List KNode
  | [] => []
  | .mk nm v lc :: fs =>
    .mk "ObjectField" lc (.objectField nm.value)
      (slotsBy keys "ObjectField" [.one "Name" (nameK keys nm), .one "Value" (valueK v)]) :: objFieldsK fs
end

def argK (a : Argument) : KNode :=
  .mk "Argument" a.loc (.argument a.name.value) (slotsBy keys "Argument" [.one "Name" (nameK keys a.name), .one "Value" (valueK keys a.value)])

def dirK (d : Directive) : KNode :=
  .mk "Directive" d.loc (.directive d.name.value)
    (slotsBy keys "Directive" [.one "Name" (nameK keys d.name), .many "Arguments" (d.args.map (argK keys))])

def varDefK (v : VarDef) : KNode :=
  .mk "VariableDefinition" v.loc (.variableDefinition v.type)
    (slotsBy keys "VariableDefinition"
      [.one "Variable" (.mk "Variable" v.varLoc .other (slotsBy keys "Variable" [.one "Name" (nameK keys v.var)])),
       optOne "Type" (v.type.map (typeK keys)),
       optOne "DefaultValue" (v.default.map (valueK keys))])

mutual
def selK : Selection → KNode
  | .field al nm args dirs sel lc =>
    .mk "Field" lc (.field nm.value)
      (slotsBy keys "Field" [optOne "Alias" (al.map (nameK keys)), .one "Name" (nameK keys nm),
        .many "Arguments" (args.map (argK keys)), .many "Directives" (dirs.map (dirK keys)), optSetK sel])
  | .spread nm dirs lc =>
    .mk "FragmentSpread" lc .other
      (slotsBy keys "FragmentSpread" [.one "Name" (nameK keys nm), .many "Directives" (dirs.map (dirK keys))])
  | .inline tc dirs ss lc =>
    .mk "InlineFragment" lc (.inlineFragment tc)
      (slotsBy keys "InlineFragment" [optOne "TypeCondition" (tc.map (typeK keys)), .many "Directives" (dirs.map (dirK keys)),
        .one "SelectionSet" (setK ss)])
def setK : SelectionSet → KNode
  | .mk sels lc => .mk "SelectionSet" lc .selectionSet (slotsBy keys "SelectionSet" [.many "Selections" (selsK sels)])
def optSetK : Option SelectionSet → KSlot
  | none => .absent "SelectionSet"
  | some ss => .one "SelectionSet" (setK ss)
def selsK : List Selection → List KNode
  | [] => []
  | x :: xs => selK x :: selsK xs
end

/-- type-system definitions are childless nodes, as in `defTree` -/
def defK : Definition → KNode
  | .operation op nm vars dirs sel lc =>
    .mk "OperationDefinition" lc (.operation op)
      (slotsBy keys "OperationDefinition" [optOne "Name" (nm.map (nameK keys)), .many "VariableDefinitions" (vars.map (varDefK keys)),
        .many "Directives" (dirs.map (dirK keys)), .one "SelectionSet" (setK keys sel)])
  | .fragment nm tc dirs sel lc =>
    .mk "FragmentDefinition" lc (.fragmentDefinition (some tc))
      (slotsBy keys "FragmentDefinition" [.one "Name" (nameK keys nm), .one "TypeCondition" (typeK keys tc),
        .many "Directives" (dirs.map (dirK keys)), .one "SelectionSet" (setK keys sel)])
  | df => .mk "TypeSystemDefinition" df.loc .other []

def docK (d : Document) : KNode :=
  .mk "Document" d.loc .other (slotsBy keys "Document" [.many "Definitions" (d.defs.map (defK keys))])

/-- the abstract tree of a document: what harness/cmd/c14 builds from the real AST by reflection along
`visitor.QueryDocumentKeys` (ids in preorder from 0) -/
def toNode (d : Document) : Visitor.Node := (docK keys d).toNode 0

/-- `p.Node` for the ids of `toNode keys d` -/
def docLab (d : Document) : Nat → Label := labOf (docK keys d).labels

end

/-- the table lists, for every kind `docTree` produces, the keys `walkChildKeys` says (a `decide` obligation over the
regenerated table in Props) -/
def KeysOK (keys : List (String × List String)) : Prop :=
  walkChildKeys.all (fun p => Tables.lookup keys p.1 == some p.2) = true

end GqlModel.TypeInfoStacks
