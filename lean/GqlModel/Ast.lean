/-! # Shared AST vocabulary (mirrors /repo/language/ast)

Every node carries its source location `(start, stop)` as the parser assigns it (`loc(parser, start)`:
`start` = first byte of the node's first token, `stop` = end of the last consumed token).  Models that do
not care about locations ignore them; `strip…` erases them for shape comparison (C08).

Flattenings w.r.t. the Go structs (all loss-free for parser-produced trees):
* `ast.Named{Name}` is `TypeRef.named name loc` (the inner `Name` has the same location);
* `ast.Variable{Name}` is `Value.var name loc` / `VarDef.var` + `varLoc` (the inner name starts one byte later);
* `StringValue` does not remember whether it was written as a block string (neither does Go's).
Nil children that the Go parser can produce are `Option`s: anonymous operation name, missing alias,
missing selection set, missing type condition, missing default value, and — because `parseType` lets
malformed type references through (known finding D-03b) — a missing variable type. -/
namespace GqlModel

structure Loc where
  start : Nat
  stop : Nat
deriving DecidableEq, Repr, Inhabited

def Loc.none : Loc := ⟨0, 0⟩

structure Name where
  value : String
  loc : Loc
deriving DecidableEq, Repr, Inhabited

inductive TypeRef where
  | named (name : String) (loc : Loc)
  | list (inner : TypeRef) (loc : Loc)
  | nonNull (inner : TypeRef) (loc : Loc)
deriving DecidableEq, Repr, Inhabited

mutual
inductive Value where
  | var (name : String) (loc : Loc)
  | int (raw : String) (loc : Loc)
  | float (raw : String) (loc : Loc)
  | str (value : String) (loc : Loc)
  | bool (value : Bool) (loc : Loc)
  | enum (value : String) (loc : Loc)
  | list (values : List Value) (loc : Loc)
  | obj (fields : List ObjField) (loc : Loc)
inductive ObjField where
  | mk (name : Name) (value : Value) (loc : Loc)
end

instance : Inhabited Value := ⟨.bool false Loc.none⟩

def ObjField.name : ObjField → Name | .mk n _ _ => n
def ObjField.value : ObjField → Value | .mk _ v _ => v
def ObjField.loc : ObjField → Loc | .mk _ _ l => l

def Value.loc : Value → Loc
  | .var _ l | .int _ l | .float _ l | .str _ l | .bool _ l | .enum _ l | .list _ l | .obj _ l => l

structure Argument where
  name : Name
  value : Value
  loc : Loc
deriving Inhabited

structure Directive where
  name : Name
  args : List Argument
  loc : Loc
deriving Inhabited

mutual
inductive Selection where
  | field (alias : Option Name) (name : Name) (args : List Argument) (dirs : List Directive)
      (sel : Option SelectionSet) (loc : Loc)
  | spread (name : Name) (dirs : List Directive) (loc : Loc)
  | inline (typeCond : Option TypeRef) (dirs : List Directive) (sel : SelectionSet) (loc : Loc)
inductive SelectionSet where
  | mk (sels : List Selection) (loc : Loc)
end

instance : Inhabited SelectionSet := ⟨.mk [] Loc.none⟩
instance : Inhabited Selection := ⟨.spread default [] Loc.none⟩

def SelectionSet.sels : SelectionSet → List Selection | .mk s _ => s
def SelectionSet.loc : SelectionSet → Loc | .mk _ l => l
def Selection.loc : Selection → Loc
  | .field _ _ _ _ _ l | .spread _ _ l | .inline _ _ _ l => l

inductive OpType | query | mutation | subscription
deriving DecidableEq, Repr, Inhabited

def OpType.toString : OpType → String
  | .query => "query" | .mutation => "mutation" | .subscription => "subscription"

structure VarDef where
  var : Name            -- the variable's name (without `$`); `var.loc` is the location of the inner Name node
  varLoc : Loc          -- location of the `Variable` node (`$name`)
  type : Option TypeRef -- `none` only through the malformed-type-reference leak (D-03b)
  default : Option Value
  loc : Loc
deriving Inhabited

structure InputValueDef where
  description : Option String
  name : Name
  type : TypeRef
  default : Option Value
  dirs : List Directive
  loc : Loc
deriving Inhabited

structure FieldDef where
  description : Option String
  name : Name
  args : List InputValueDef
  type : TypeRef
  dirs : List Directive
  loc : Loc
deriving Inhabited

structure EnumValueDef where
  description : Option String
  name : Name
  dirs : List Directive
  loc : Loc
deriving Inhabited

structure OpTypeDef where
  operation : OpType
  type : TypeRef
  loc : Loc
deriving Inhabited

structure ObjectDef where
  description : Option String
  name : Name
  interfaces : List TypeRef
  dirs : List Directive
  fields : List FieldDef
  loc : Loc
deriving Inhabited

inductive Definition where
  | operation (op : OpType) (name : Option Name) (vars : List VarDef) (dirs : List Directive)
      (sel : SelectionSet) (loc : Loc)
  | fragment (name : Name) (typeCond : TypeRef) (dirs : List Directive) (sel : SelectionSet) (loc : Loc)
  | schema (dirs : List Directive) (ops : List OpTypeDef) (loc : Loc)
  | scalar (description : Option String) (name : Name) (dirs : List Directive) (loc : Loc)
  | object (d : ObjectDef)
  | interface (description : Option String) (name : Name) (dirs : List Directive) (fields : List FieldDef) (loc : Loc)
  | union (description : Option String) (name : Name) (dirs : List Directive) (types : List TypeRef) (loc : Loc)
  | enum (description : Option String) (name : Name) (dirs : List Directive) (values : List EnumValueDef) (loc : Loc)
  | inputObject (description : Option String) (name : Name) (dirs : List Directive) (fields : List InputValueDef) (loc : Loc)
  | extend (d : ObjectDef) (loc : Loc)
  | directive (description : Option String) (name : Name) (args : List InputValueDef) (locations : List Name) (loc : Loc)
deriving Inhabited

structure Document where
  defs : List Definition
  loc : Loc
deriving Inhabited

/-! ## Small accessors used across models -/

def TypeRef.loc : TypeRef → Loc
  | .named _ l | .list _ l | .nonNull _ l => l

/-- innermost named type of a type reference -/
def TypeRef.namedName : TypeRef → String
  | .named n _ => n
  | .list t _ => t.namedName
  | .nonNull t _ => t.namedName

/-- GraphQL syntax of a type reference (`[Int!]!`) -/
def TypeRef.render : TypeRef → String
  | .named n _ => n
  | .list t _ => "[" ++ t.render ++ "]"
  | .nonNull t _ => t.render ++ "!"

def Selection.responseKey : Selection → Option String
  | .field (some a) _ _ _ _ _ => some a.value
  | .field none n _ _ _ _ => some n.value
  | _ => none

def Definition.loc : Definition → Loc
  | .operation _ _ _ _ _ l | .fragment _ _ _ _ l | .schema _ _ l | .scalar _ _ _ l | .interface _ _ _ _ l
  | .union _ _ _ _ l | .enum _ _ _ _ l | .inputObject _ _ _ _ l | .extend _ l | .directive _ _ _ _ l => l
  | .object d => d.loc

def Document.operations (d : Document) : List Definition :=
  d.defs.filter (fun | .operation .. => true | _ => false)

def Document.fragments (d : Document) : List (String × Definition) :=
  d.defs.filterMap (fun | .fragment n t ds s l => some (n.value, .fragment n t ds s l) | _ => none)

end GqlModel
