import GqlModel.Lexer
import GqlModel.Parser
/-! # `parser.Parse` on bytes: C03's lexer model composed with C03's parser model

`parseBytes src` iterates the lexer model over the whole source (`Lexer.lexAll`, the `Lex` closure driven as
`parser.advance` drives it), converts the tokens to the shared `Token` (`LTok.toToken`: values as Lean strings) and runs
the parser model on the complete token list (`Parser.parseTokens`).  The real parser lexes lazily; for sources whose
lexing succeeds the two are the same function (C03's correspondence checks feed the parser model exactly this token list).
A lexical error anywhere in the source is reported as such (the real parser would report whichever of the lexical error
and a syntax error comes first — irrelevant for C08, which is about accepted text). -/
namespace GqlModel

inductive ParseErr where
  | lex (e : Lexer.LexErr)
  | parse (e : Parser.PErr)
deriving Repr

def parseBytes (src : Lexer.Bytes) : Except ParseErr Parser.Parsed :=
  match (Lexer.lexAll src).err with
  | some e => .error (.lex e)
  | none =>
    match Parser.parseTokens ((Lexer.lexAll src).tokens.map Lexer.LTok.toToken) with
    | .ok p => .ok p
    | .error e => .error (.parse e)

end GqlModel
