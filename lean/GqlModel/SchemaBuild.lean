/-! # Schema construction (C11)

`Config`    a language of *constructor calls*: every entry of `Config.types` is one call of
            `graphql.NewScalar/NewObject/NewInterface/NewUnion/NewEnum/NewInputObject` (one Go pointer), type
            references are expressions over `NewList/NewNonNull`, `nil`, typed nil pointers and those entries.
            It can express everything the Go API can be handed: duplicate names across kinds, invalid names, empty
            field / value / member sets, nil members, thunked or direct members, cycles (references are indices),
            non-null of non-null at any depth, input types in output positions and vice versa, a missing query root.
`newSchema` M: `graphql.NewSchema` function for function (schema.go / definition.go / directives.go), including which
            parked error surfaces first. `appendType` = `Schema.AppendType`. Outcomes: `Except Err St`; `Err.panic`
            models a nil dereference, `Err.fuel` an exhausted recursion budget (both proved unreachable in Props/C11).
`Consistent` S: decidable predicate on a `BuiltSchema` (a dump: table of type objects + type map + possible-type
            tables). The same predicate is evaluated on the model's result and on a dump of the real schema.

The model follows the tree with D-11a…f repaired (kind checks in `defineFieldMap`, parked errors surfacing in
`typeMapReducer`, nil guards). -/
namespace GqlModel.SchemaBuild

/-! ## Vocabulary -/

inductive Kind where
  | scalar | object | interface | union | enum | inputObject | list | nonNull
deriving DecidableEq, Repr, Inhabited

def Kind.isOutput : Kind → Bool
  | .scalar | .object | .interface | .union | .enum => true
  | _ => false
def Kind.isInput : Kind → Bool
  | .scalar | .enum | .inputObject => true
  | _ => false
def Kind.isNamed : Kind → Bool
  | .list | .nonNull => false
  | _ => true
def Kind.isAbstract : Kind → Bool
  | .interface | .union => true
  | _ => false

/-- A type expression. As a *configuration* it is a tree of constructor calls (`NewList`, `NewNonNull`) over `nil`,
a typed nil pointer of some kind, or the `id`-th named type object. As a *built* type (`TRef.build`) `list nil` and
`nonNull nil` are the wrappers whose constructor parked an error (their `OfType` stayed nil). -/
inductive TRef where
  | nil
  | nilPtr (k : Kind)
  | ref (id : Nat)
  | list (t : TRef)
  | nonNull (t : TRef)
deriving DecidableEq, Repr, Inhabited

/-- how a lazily evaluated member was supplied: the value itself, a thunk, nothing (`nil`), or a value of a type the
library does not know (`Interfaces: "x"`) -/
inductive Form where
  | direct | thunk | absent | unknown
deriving DecidableEq, Repr, Inhabited

inductive Err where
  | noQuery
  | badName                -- "Type must be named." / "Names must match …"
  | emptyFields            -- "… fields must be an object with field names as keys …"
  | fieldTypeNotOutput     -- "… field type must be Output Type but got …" (nil, or not an output type)
  | nilArg                 -- "… args must be an object with argument names as keys."
  | argTypeNotInput        -- "… argument type must be Input Type but got …"
  | inputFieldTypeNotInput -- "… field type must be Input Type but got …"
  | emptyEnum | nilEnumValue
  | enumValueReserved      -- "Name \"true\" can not be used as an Enum value."
  | emptyUnion | nilUnionMember | unionNoResolver | unknownUnionTypes
  | unionMemberTwice       -- "… can include … type only once."
  | nilInterface | unknownInterfaces
  | ifaceTwice             -- "… can only implement … once."
  | badList | badNonNull
  | scalarNoSerialize | scalarParsePair
  | duplicateName
  | ifaceMissingField | ifaceFieldType | ifaceMissingArg | ifaceArgType | ifaceExtraRequiredArg
  | directiveNoLocations | nilDirective
  | addFieldToThunk        -- "Cannot add field to a thunk" (InputObject.AddFieldConfig)
  | panic                  -- nil dereference in the Go code
  | fuel                   -- recursion budget of the model exhausted (never: `newSchema_total`)
deriving DecidableEq, Repr, Inhabited

/-- outcomes that are not ordinary errors: a nil dereference, or the model's recursion budget exhausted -/
def Err.isCrash : Err → Bool
  | .panic | .fuel => true
  | _ => false

structure ArgCfg where
  name : String
  present : Bool := true       -- false: the map holds a nil `*ArgumentConfig` / `*InputObjectFieldConfig`
  type : TRef := .nil
deriving Repr, Inhabited, DecidableEq

structure FieldCfg where
  name : String
  present : Bool := true       -- false: the map holds a nil `*Field`
  type : TRef := .nil
  args : List ArgCfg := []
deriving Repr, Inhabited, DecidableEq

/-- one constructor call (one Go pointer) -/
structure TypeCfg where
  kind : Kind
  name : String
  form : Form := .direct                -- object / interface / input object: how `Fields` was supplied
  fields : List FieldCfg := []          -- object / interface
  inputFields : List ArgCfg := []       -- input object
  refsForm : Form := .direct            -- object: `Interfaces`; union: `Types`
  refs : List (Option Nat) := []        -- object: interfaces; union: members (`none` = nil pointer)
  resolver : Bool := true               -- object: IsTypeOf given; interface / union: ResolveType given
  values : List (String × Bool) := []   -- enum: value name, value config is non-nil
  serialize : Bool := true              -- scalar
  parseValue : Bool := true
  parseLiteral : Bool := true
  parked : Option Err := none           -- an error an API call parked on the object AFTER its construction (AddFieldConfig)
deriving Repr, Inhabited, DecidableEq

structure DirCfg where
  name : String
  locations : Nat := 1                  -- number of locations
  args : List ArgCfg := []              -- `present = false`: the map holds a nil `*ArgumentConfig`
deriving Repr, Inhabited, DecidableEq

structure Config where
  types : List TypeCfg                  -- user type objects; global id = 13 + index (0…12 are the built-ins)
  query : Option Nat
  mutation : Option Nat := none
  subscription : Option Nat := none
  extra : List TRef := []               -- SchemaConfig.Types
  directives : List (Option DirCfg) := []
deriving Repr, Inhabited

/-! ## Names -/

def isNameStart (c : Char) : Bool := c == '_' || ('a' ≤ c && c ≤ 'z') || ('A' ≤ c && c ≤ 'Z')
def isNameCont (c : Char) : Bool := isNameStart c || ('0' ≤ c && c ≤ '9')
/-- `NameRegExp = ^[_a-zA-Z][_a-zA-Z0-9]*$` -/
def validName (s : String) : Bool :=
  match s.toList with
  | [] => false
  | c :: cs => isNameStart c && cs.all isNameCont

def insertBy {α : Type} (lt : α → α → Bool) (x : α) : List α → List α
  | [] => [x]
  | y :: ys => if lt x y then x :: y :: ys else y :: insertBy lt x ys
/-- `sort.Strings` on the keys (keys of a Go map are unique, so stability is irrelevant) -/
def sortBy {α : Type} (lt : α → α → Bool) : List α → List α
  | [] => []
  | x :: xs => insertBy lt x (sortBy lt xs)

/-! ## The built-in types (introspection.go, scalars.go): ids 0 … 12 -/

def idString : Nat := 0
def idInt : Nat := 1
def idFloat : Nat := 2
def idBoolean : Nat := 3
def idID : Nat := 4
def idSchema : Nat := 5
def idType : Nat := 6
def idTypeKind : Nat := 7
def idField : Nat := 8
def idInputValue : Nat := 9
def idEnumValue : Nat := 10
def idDirective : Nat := 11
def idDirectiveLocation : Nat := 12
def nBuiltin : Nat := 13

private def sc (n : String) : TypeCfg := { kind := .scalar, name := n }
private def fld (n : String) (t : TRef) (args : List ArgCfg := []) : FieldCfg := { name := n, type := t, args := args }
private def nn (t : TRef) : TRef := .nonNull t
private def nnList (i : Nat) : TRef := .nonNull (.list (.nonNull (.ref i)))
private def optList (i : Nat) : TRef := .list (.nonNull (.ref i))
private def en (n : String) (vs : List String) : TypeCfg := { kind := .enum, name := n, values := vs.map (fun v => (v, true)) }
private def ob (n : String) (fs : List FieldCfg) : TypeCfg := { kind := .object, name := n, fields := fs, refsForm := .absent, resolver := false }

def builtinTypes : List TypeCfg :=
  [ sc "String", sc "Int", sc "Float", sc "Boolean", sc "ID",
    ob "__Schema" [fld "types" (nnList idType), fld "queryType" (nn (.ref idType)), fld "mutationType" (.ref idType),
      fld "subscriptionType" (.ref idType), fld "directives" (nnList idDirective)],
    ob "__Type" [fld "kind" (nn (.ref idTypeKind)), fld "name" (.ref idString), fld "description" (.ref idString),
      fld "fields" (optList idField) [{ name := "includeDeprecated", type := .ref idBoolean }],
      fld "interfaces" (optList idType), fld "possibleTypes" (optList idType),
      fld "enumValues" (optList idEnumValue) [{ name := "includeDeprecated", type := .ref idBoolean }],
      fld "inputFields" (optList idInputValue), fld "ofType" (.ref idType)],
    en "__TypeKind" ["SCALAR", "OBJECT", "INTERFACE", "UNION", "ENUM", "INPUT_OBJECT", "LIST", "NON_NULL"],
    ob "__Field" [fld "name" (nn (.ref idString)), fld "description" (.ref idString), fld "args" (nnList idInputValue),
      fld "type" (nn (.ref idType)), fld "isDeprecated" (nn (.ref idBoolean)), fld "deprecationReason" (.ref idString)],
    ob "__InputValue" [fld "name" (nn (.ref idString)), fld "description" (.ref idString), fld "type" (nn (.ref idType)),
      fld "defaultValue" (.ref idString)],
    ob "__EnumValue" [fld "name" (nn (.ref idString)), fld "description" (.ref idString),
      fld "isDeprecated" (nn (.ref idBoolean)), fld "deprecationReason" (.ref idString)],
    ob "__Directive" [fld "name" (nn (.ref idString)), fld "description" (.ref idString),
      fld "locations" (nnList idDirectiveLocation), fld "args" (nnList idInputValue),
      fld "onOperation" (nn (.ref idBoolean)), fld "onFragment" (nn (.ref idBoolean)), fld "onField" (nn (.ref idBoolean))],
    en "__DirectiveLocation" ["QUERY", "MUTATION", "SUBSCRIPTION", "FIELD", "FRAGMENT_DEFINITION", "FRAGMENT_SPREAD",
      "INLINE_FRAGMENT", "SCHEMA", "SCALAR", "OBJECT", "FIELD_DEFINITION", "ARGUMENT_DEFINITION", "INTERFACE", "UNION",
      "ENUM", "ENUM_VALUE", "INPUT_OBJECT", "INPUT_FIELD_DEFINITION"] ]

/-- names of the types every schema must contain (reachable from `__Schema`) -/
def introspectionNames : List String :=
  ["__Schema", "__Type", "__TypeKind", "__Field", "__InputValue", "__EnumValue", "__Directive", "__DirectiveLocation",
   "String", "Boolean"]

/-- a type object that is not there (dangling id): behaves like a constructor call with an empty name -/
def dfltType : TypeCfg := { kind := .scalar, name := "" }

def Config.table (cfg : Config) : List TypeCfg := builtinTypes ++ cfg.types
def Config.get (cfg : Config) (i : Nat) : TypeCfg := (cfg.table[i]?).getD dfltType
def Config.size (cfg : Config) : Nat := cfg.table.length

/-- what Go's static typing guarantees about a configuration: every type object has one of the six named kinds,
`Interfaces` holds interfaces, `Types` of a union holds objects, the roots are objects -/
def Config.wellTyped (cfg : Config) : Bool :=
  let hasKind (k : Kind) (i : Nat) : Bool := (cfg.get i).kind == k
  cfg.types.all (fun t => t.kind.isNamed &&
    t.refs.all (fun r => match r with
      | none => true
      | some i => (t.kind != .object || hasKind .interface i) && (t.kind != .union || hasKind .object i))) &&
  (match cfg.query with | some q => hasKind .object q | none => true) &&
  (match cfg.mutation with | some q => hasKind .object q | none => true) &&
  (match cfg.subscription with | some q => hasKind .object q | none => true)

def distinctNames : List String → Bool
  | [] => true
  | x :: xs => !xs.contains x && distinctNames xs

/-- the configuration is a rendering of Go maps as lists: the keys of every map (fields of a type, arguments of a
field or directive, input fields, enum values) are pairwise distinct -/
def Config.mapsOk (cfg : Config) : Bool :=
  cfg.types.all (fun t =>
    distinctNames (t.fields.map (·.name)) && t.fields.all (fun f => distinctNames (f.args.map (·.name))) &&
    distinctNames (t.inputFields.map (·.name)) && distinctNames (t.values.map (·.1))) &&
  cfg.directives.all (fun d => match d with
    | some d => distinctNames (d.args.map (·.name))
    | none => true)

/-! ## Constructors (definition.go) -/

/-- `Name()` of a named type object: the constructors assign the name only after it was validated -/
def nameOf (cfg : Config) (i : Nat) : String :=
  let t := cfg.get i
  if validName t.name then t.name else ""

def kindOf (cfg : Config) (i : Nat) : Kind := (cfg.get i).kind

def enumErr (vs : List (String × Bool)) : Option Err :=
  match vs with
  | [] => some .emptyEnum
  | _ => (sortBy (fun a b => decide (a.1 < b.1)) vs).findSome? (fun v =>
      if !v.2 then some .nilEnumValue else if !validName v.1 then some .badName
      else if v.1 == "true" || v.1 == "false" || v.1 == "null" then some .enumValueReserved else none)

/-- the error a constructor parks on the object it returns (`err` field right after `NewXxx`) -/
def ctorErrT (t : TypeCfg) : Option Err :=
  if !validName t.name then some .badName else
  match t.kind with
  | .scalar =>
    if !t.serialize then some .scalarNoSerialize
    else if (t.parseValue || t.parseLiteral) && !(t.parseValue && t.parseLiteral) then some .scalarParsePair
    else none
  | .enum => enumErr t.values
  | _ => none

/-- an error parked on the object after construction (never a crash outcome) -/
def parkedOf (t : TypeCfg) : Option Err :=
  match t.parked with
  | some e => if e.isCrash then none else some e
  | none => none

/-- `t.Error()` of a named type object before `NewSchema` / `AppendType` look at it: the constructor's error, else an
error parked later -/
def ctorErr (cfg : Config) (i : Nat) : Option Err :=
  match ctorErrT (cfg.get i) with
  | some e => some e
  | none => parkedOf (cfg.get i)

/-- `NewList` / `NewNonNull` applied bottom-up: a wrapper whose constructor fails keeps `OfType == nil`. A typed nil
pointer counts as nil (`isNilType`). -/
def TRef.build : TRef → TRef
  | .nil => .nil
  | .nilPtr _ => .nil
  | .ref i => .ref i
  | .list t => .list t.build
  | .nonNull t =>
    match t.build with
    | .nil => .nonNull .nil
    | .nonNull _ => .nonNull .nil
    | b => .nonNull b

inductive Leaf where
  | nil | nilPtr (k : Kind) | named (i : Nat) | badList | badNonNull
deriving DecidableEq, Repr, Inhabited

/-- where `typeMapReducer` / `GetNamed` end up after unwrapping a built type -/
def TRef.strip : TRef → Leaf
  | .nil => .nil
  | .nilPtr k => .nilPtr k
  | .ref i => .named i
  | .list t => match t.strip with
    | .nil => .badList
    | l => l
  | .nonNull t => match t.strip with
    | .nil => .badNonNull
    | l => l

/-- `t.Error()` of a built type (outermost object only) -/
def topErr (cfg : Config) : TRef → Option Err
  | .nil => none
  | .nilPtr _ => some .panic
  | .ref i => ctorErr cfg i
  | .list .nil => some .badList
  | .list _ => none
  | .nonNull .nil => some .badNonNull
  | .nonNull _ => none

/-- `IsOutputType` / `IsInputType` (via `GetNamed`) -/
def leafKind (cfg : Config) (t : TRef) : Option Kind :=
  match t.strip with
  | .named i => some (kindOf cfg i)
  | _ => none
def isOutputType (cfg : Config) (t : TRef) : Bool := ((leafKind cfg t).map Kind.isOutput).getD false
def isInputType (cfg : Config) (t : TRef) : Bool := ((leafKind cfg t).map Kind.isInput).getD false

/-! ## Built (dumped) types -/

structure BArg where
  name : String
  type : TRef
deriving Repr, Inhabited, DecidableEq

structure BField where
  name : String
  type : TRef
  args : List BArg
deriving Repr, Inhabited, DecidableEq

structure BType where
  kind : Kind
  name : String
  fields : List BField := []       -- object / interface: `Fields()`
  inputFields : List BArg := []    -- input object: `Fields()`
  interfaces : List Nat := []      -- object: `Interfaces()`
  members : List Nat := []         -- union: `Types()`
  values : List String := []       -- enum: names of `Values()` (sorted)
  resolver : Bool := false         -- object: `IsTypeOf != nil`; interface / union: `ResolveType != nil`
deriving Repr, Inhabited, DecidableEq

/-- `defineFieldMap`, arguments of one field (already sorted by name) -/
def defineArgs (cfg : Config) : List ArgCfg → Except Err (List BArg)
  | [] => .ok []
  | a :: rest =>
    if !validName a.name then .error .badName
    else if !a.present then .error .nilArg
    else
      let t := a.type.build
      if t == .nil then .error .argTypeNotInput
      else if !isInputType cfg t then .error .argTypeNotInput
      else match defineArgs cfg rest with
        | .error e => .error e
        | .ok bs => .ok (⟨a.name, t⟩ :: bs)

/-- `defineFieldMap`, the loop over the configured fields (map order = list order) -/
def defineFieldsLoop (cfg : Config) : List FieldCfg → Except Err (List BField)
  | [] => .ok []
  | f :: rest =>
    if !f.present then defineFieldsLoop cfg rest
    else
      let t := f.type.build
      if t == .nil then .error .fieldTypeNotOutput
      else match topErr cfg t with
        | some e => .error e
        | none =>
          if !isOutputType cfg t then .error .fieldTypeNotOutput
          else if !validName f.name then .error .badName
          else match defineArgs cfg (sortBy (fun a b => decide (a.name < b.name)) f.args) with
            | .error e => .error e
            | .ok as =>
              match defineFieldsLoop cfg rest with
              | .error e => .error e
              | .ok bs => .ok (⟨f.name, t, as⟩ :: bs)

def formGiven : Form → Bool
  | .direct | .thunk => true
  | _ => false

/-- `Object.Fields()` / `Interface.Fields()`: result and the error it parks -/
def fieldsOf (cfg : Config) (i : Nat) : Except Err (List BField) :=
  let t := cfg.get i
  let fs := if formGiven t.form then t.fields else []
  if fs.isEmpty then .error .emptyFields else defineFieldsLoop cfg fs

/-- `InputObject.defineFieldMap`: fields with an invalid name are dropped silently -/
def defineInputLoop (cfg : Config) : List ArgCfg → Except Err (List BArg)
  | [] => .ok []
  | f :: rest =>
    if !f.present then defineInputLoop cfg rest
    else if !validName f.name then defineInputLoop cfg rest
    else
      let t := f.type.build
      if t == .nil then .error .inputFieldTypeNotInput
      else if !isInputType cfg t then .error .inputFieldTypeNotInput
      else match defineInputLoop cfg rest with
        | .error e => .error e
        | .ok bs => .ok (⟨f.name, t⟩ :: bs)

def inputFieldsOf (cfg : Config) (i : Nat) : Except Err (List BArg) :=
  let t := cfg.get i
  let fs := if formGiven t.form then t.inputFields else []
  if fs.isEmpty then .error .emptyFields else defineInputLoop cfg fs

/-- `defineInterfaces`: nil entries and interfaces named twice are rejected, in list order -/
def ifaceLoop (cfg : Config) : List String → List (Option Nat) → Except Err (List Nat)
  | _, [] => .ok []
  | _, none :: _ => .error .nilInterface
  | seen, some j :: rest =>
    if seen.contains (nameOf cfg j) then .error .ifaceTwice
    else match ifaceLoop cfg (nameOf cfg j :: seen) rest with
      | .error e => .error e
      | .ok l => .ok (j :: l)

/-- `Object.Interfaces()` -/
def interfacesOf (cfg : Config) (i : Nat) : Except Err (List Nat) :=
  let t := cfg.get i
  match t.refsForm with
  | .unknown => .error .unknownInterfaces
  | .absent => .ok []
  | _ => ifaceLoop cfg [] t.refs

/-- the object has an `IsTypeOf` function (the constructor drops it when the name is invalid) -/
def hasIsTypeOf (cfg : Config) (i : Nat) : Bool := validName (cfg.get i).name && (cfg.get i).resolver

def unionLoop (cfg : Config) (resolveType : Bool) : List String → List (Option Nat) → Except Err (List Nat)
  | _, [] => .ok []
  | _, none :: _ => .error .nilUnionMember
  | seen, some m :: rest =>
    if seen.contains (nameOf cfg m) then .error .unionMemberTwice
    else if !resolveType && !hasIsTypeOf cfg m then .error .unionNoResolver
    else match unionLoop cfg resolveType (nameOf cfg m :: seen) rest with
      | .error e => .error e
      | .ok l => .ok (m :: l)

/-- `Union.Types()` -/
def membersOf (cfg : Config) (i : Nat) : Except Err (List Nat) :=
  let t := cfg.get i
  match t.refsForm with
  | .unknown => .error .unknownUnionTypes
  | .absent => .error .emptyUnion
  | _ => if t.refs.isEmpty then .error .emptyUnion else unionLoop cfg t.resolver [] t.refs

def orNil {α : Type} : Except Err (List α) → List α
  | .ok l => l
  | .error _ => []

/-- the dump of type object `i` as the library would show it once its lazy parts were forced -/
def builtType (cfg : Config) (i : Nat) : BType :=
  let k := kindOf cfg i
  { kind := k, name := nameOf cfg i,
    fields := if k == .object || k == .interface then orNil (fieldsOf cfg i) else [],
    inputFields := if k == .inputObject then orNil (inputFieldsOf cfg i) else [],
    interfaces := if k == .object then orNil (interfacesOf cfg i) else [],
    members := if k == .union then orNil (membersOf cfg i) else [],
    values := if k == .enum && (ctorErr cfg i).isNone then
        (sortBy (fun a b => decide (a.1 < b.1)) (cfg.get i).values).map (·.1) else [],
    resolver := if k == .object then hasIsTypeOf cfg i
      else if k == .interface || k == .union then validName (cfg.get i).name && (cfg.get i).resolver else false }

/-! ## typeMapReducer (schema.go) -/

/-- the type map in insertion order: ids of type objects, keyed by `nameOf` -/
abbrev TM := List Nat

def TM.lookup (cfg : Config) (tm : TM) (n : String) : Option Nat := tm.find? (fun i => nameOf cfg i == n)

inductive Step where
  | fail (e : Err)
  | visit (t : TRef)
deriving Repr, Inhabited

def fieldSteps : List BField → List Step
  | [] => []
  | f :: rest => f.args.map (fun a => Step.visit a.type) ++ (Step.visit f.type :: fieldSteps rest)

def exceptSteps {α : Type} (r : Except Err α) (k : α → List Step) : List Step :=
  match r with
  | .error e => [.fail e]
  | .ok a => k a

/-- `for _, inner := range types { if inner.err != nil {return}; reduce(inner) }` -/
def memberSteps (cfg : Config) : List Nat → List Step
  | [] => []
  | m :: rest =>
    match ctorErr cfg m with
    | some e => [.fail e]
    | none => .visit (.ref m) :: memberSteps cfg rest

/-- what `typeMapReducer` does after it registered type object `i`: forcing of the lazy members (with the error
check that follows each), and the recursive calls, in program order -/
def stepsOf (cfg : Config) (i : Nat) : List Step :=
  match kindOf cfg i with
  | .union => exceptSteps (membersOf cfg i) (memberSteps cfg)
  | .object =>
    match interfacesOf cfg i with
    | .error e => [.fail e]
    | .ok is => memberSteps cfg is ++ exceptSteps (fieldsOf cfg i) fieldSteps
  | .interface => exceptSteps (fieldsOf cfg i) fieldSteps
  | .inputObject => exceptSteps (inputFieldsOf cfg i) (fun fs => fs.map (fun f => Step.visit f.type))
  | _ => []

def runSteps (rec : TM → TRef → Except Err TM) : TM → List Step → Except Err TM
  | tm, [] => .ok tm
  | _, .fail e :: _ => .error e
  | tm, .visit t :: rest =>
    match rec tm t with
    | .error e => .error e
    | .ok tm' => runSteps rec tm' rest

/-- `typeMapReducer(schema, typeMap, t)`; one unit of fuel per named type entered -/
def reduce (cfg : Config) : Nat → TM → TRef → Except Err TM
  | 0, _, _ => .error .fuel
  | fuel + 1, tm, t =>
    match t.strip with
    | .nil => .ok tm
    | .nilPtr _ => .error .panic            -- `objectType.Error()` on a nil pointer
    | .badList => .error .badList           -- the parked error of the type handed in surfaces first
    | .badNonNull => .error .badNonNull
    | .named i =>
      match ctorErr cfg i with
      | some e => .error e
      | none =>
        if nameOf cfg i == "" then .ok tm
        else match tm.lookup cfg (nameOf cfg i) with
          | some j => if j == i then .ok tm else .error .duplicateName
          | none => runSteps (reduce cfg fuel) (tm ++ [i]) (stepsOf cfg i)

/-! ## Interface conformance (schema.go: assertObjectImplementsInterface, isTypeSubTypeOf, isEqualType) -/

def TM.objects (cfg : Config) (tm : TM) : List Nat := tm.filter (fun i => kindOf cfg i == .object)

/-- the type map's objects in the order of `sortedTypeNames` -/
def TM.sortedObjects (cfg : Config) (tm : TM) : List Nat :=
  sortBy (fun a b => decide (nameOf cfg a < nameOf cfg b)) (tm.objects cfg)

/-- `schema.implementations[name]`: every object of the type map (in type-name order) once per declared interface
of that name -/
def implsOf (cfg : Config) (tm : TM) (name : String) : List Nat :=
  (tm.sortedObjects cfg).flatMap (fun o => ((orNil (interfacesOf cfg o)).filter (fun j => nameOf cfg j == name)).map (fun _ => o))

/-- `schema.PossibleTypes(abstract)` -/
def possibleTypesOf (cfg : Config) (tm : TM) (a : Nat) : List Nat :=
  match kindOf cfg a with
  | .union => orNil (membersOf cfg a)
  | .interface => implsOf cfg tm (nameOf cfg a)
  | _ => []

/-- `schema.IsPossibleType` while `possibleTypeMap` is nil (during construction): scan by name -/
def isPossibleScan (cfg : Config) (tm : TM) (a o : Nat) : Bool :=
  (possibleTypesOf cfg tm a).any (fun p => nameOf cfg p == nameOf cfg o)

/-- `isEqualType` (wrappers are fresh pointers; pointer equality is identity of the named object) -/
def isEqualType : TRef → TRef → Bool
  | .nonNull a, .nonNull b => isEqualType a b
  | .list a, .list b => isEqualType a b
  | .ref i, .ref j => i == j
  | .nil, .nil => true
  | .nilPtr k, .nilPtr l => k == l
  | _, _ => false

/-- `isTypeSubTypeOf`, with `poss abstract object` for `schema.IsPossibleType` and `kind` for the dynamic type -/
def isSubType (kind : Nat → Kind) (poss : Nat → Nat → Bool) : TRef → TRef → Bool
  | .nonNull a, .nonNull b => isSubType kind poss a b
  | .nonNull a, b => isSubType kind poss a b          -- b is not NonNull here
  | _, .nonNull _ => false
  | .list a, .list b => isSubType kind poss a b
  | .list _, _ => false
  | _, .list _ => false
  | .ref i, .ref j => i == j || ((kind j).isAbstract && kind i == .object && poss j i)
  | .nil, .nil => true
  | .nilPtr k, .nilPtr l => k == l
  | _, _ => false

def argConforms (oargs : List BArg) (ia : BArg) : Option Err :=
  match oargs.find? (fun a => a.name == ia.name) with
  | none => some .ifaceMissingArg
  | some oa => if isEqualType ia.type oa.type then none else some .ifaceArgType

def isNonNull : TRef → Bool
  | .nonNull _ => true
  | _ => false

def extraArgOk (iargs : List BArg) (oa : BArg) : Option Err :=
  match iargs.find? (fun a => a.name == oa.name) with
  | some _ => none
  | none => if isNonNull oa.type then some .ifaceExtraRequiredArg else none

def fieldConforms (kind : Nat → Kind) (poss : Nat → Nat → Bool) (ofields : List BField) (ifield : BField) : Option Err :=
  match ofields.find? (fun f => f.name == ifield.name) with
  | none => some .ifaceMissingField
  | some ofield =>
    if !isSubType kind poss ofield.type ifield.type then some .ifaceFieldType
    else match ifield.args.findSome? (argConforms ofield.args) with
      | some e => some e
      | none => ofield.args.findSome? (extraArgOk ifield.args)

/-- `assertObjectImplementsInterface` on dumped types -/
def conformsTo (kind : Nat → Kind) (poss : Nat → Nat → Bool) (o i : BType) : Option Err :=
  i.fields.findSome? (fieldConforms kind poss o.fields)

/-- the loop "Enforce correct interface implementations" over the type map -/
def assertAll (cfg : Config) (tm : TM) : Option Err :=
  (tm.objects cfg).findSome? (fun o =>
    (orNil (interfacesOf cfg o)).findSome? (fun i =>
      conformsTo (kindOf cfg) (isPossibleScan cfg tm) (builtType cfg o) (builtType cfg i)))

/-- every error the assertion loops can report first, over all iteration orders of the type map and of the interface
field maps (Go ranges over maps there) -/
def allAssertErrs (cfg : Config) (tm : TM) : List Err :=
  (tm.objects cfg).flatMap (fun o =>
    (orNil (interfacesOf cfg o)).flatMap (fun i =>
      (builtType cfg i).fields.filterMap
        (fieldConforms (kindOf cfg) (isPossibleScan cfg tm) (builtType cfg o).fields)))

/-! ## NewSchema / AppendType -/

/-- `NewDirective`, the loop over the arguments (sorted by name) -/
def dirArgsErr (cfg : Config) : List ArgCfg → Option Err
  | [] => none
  | a :: rest =>
    if !validName a.name then some .badName
    else if !a.present then some .nilArg
    else if a.type.build == .nil then some .argTypeNotInput
    else if !isInputType cfg a.type.build then some .argTypeNotInput
    else dirArgsErr cfg rest

/-- `NewDirective`: the error it parks -/
def dirCtorErr (cfg : Config) (d : DirCfg) : Option Err :=
  if !validName d.name then some .badName
  else if d.locations == 0 then some .directiveNoLocations
  else dirArgsErr cfg (sortBy (fun a b => decide (a.name < b.name)) d.args)

/-- "Ensure directive definitions are error-free" -/
def dirErr (cfg : Config) : Option DirCfg → Option Err
  | none => some .nilDirective
  | some d => dirCtorErr cfg d

/-- `schema.Directives()` as built: the specified directives @include, @skip, @deprecated when none are configured,
else the configured ones with their arguments in sorted name order -/
def dirDefs (cfg : Config) : List (String × List BArg) :=
  if cfg.directives.isEmpty then
    [("include", [⟨"if", .nonNull (.ref idBoolean)⟩]), ("skip", [⟨"if", .nonNull (.ref idBoolean)⟩]),
     ("deprecated", [⟨"reason", .ref idString⟩])]
  else cfg.directives.filterMap (fun d => match d with
    | none => none
    | some d => some (d.name, (sortBy (fun a b => decide (a.name < b.name)) d.args).map (fun a => ⟨a.name, a.type.build⟩)))

/-- argument types of `schema.Directives()` in the order `NewSchema` walks them -/
def dirArgTypes (cfg : Config) : List TRef := (dirDefs cfg).flatMap (fun d => d.2.map (·.type))

/-- the loop over `initialTypes` -/
def reduceRoots (cfg : Config) : TM → List TRef → Except Err TM
  | tm, [] => .ok tm
  | tm, t :: rest =>
    if t == .nil then reduceRoots cfg tm rest
    else
      match topErr cfg t with
      | some e => .error e
      | none =>
        match reduce cfg (cfg.size + 1) tm t with
        | .error e => .error e
        | .ok tm' => reduceRoots cfg tm' rest

def optRoot : Option Nat → List TRef
  | none => []
  | some i => [.ref i]

/-- the state of a `graphql.Schema` that the later steps depend on: the type map (everything else is derived) -/
structure St where
  tm : TM
deriving Repr, Inhabited

/-- `initialTypes`, then the argument types of the directives; `more` = further entries of `SchemaConfig.Types`
(after `cfg.extra`). The directive loop calls `typeMapReducer` directly; for the input types `NewDirective` admits
that coincides with the `Error()`-then-reduce treatment of `initialTypes`. -/
def rootRefs (cfg : Config) (more : List TRef) : List TRef :=
  optRoot cfg.query ++ optRoot cfg.mutation ++ optRoot cfg.subscription ++ [.ref idSchema] ++
    (cfg.extra ++ more).map TRef.build ++ dirArgTypes cfg

/-- `graphql.NewSchema` up to and including the construction of the type map -/
def newSchemaTM (cfg : Config) (more : List TRef) : Except Err TM :=
  match cfg.query with
  | none => .error .noQuery
  | some q =>
    match ctorErr cfg q with
    | some e => .error e
    | none =>
      match cfg.mutation.bind (ctorErr cfg) with
      | some e => .error e
      | none =>
        match cfg.directives.findSome? (dirErr cfg) with
        | some e => .error e
        | none => reduceRoots cfg [] (rootRefs cfg more)

/-- the rest of `NewSchema` / `AppendType`: implementations table (derived), interface assertions, possible-type
table (derived) -/
def finishTM (cfg : Config) (tm : TM) : Except Err St :=
  match assertAll cfg tm with
  | some e => .error e
  | none => .ok ⟨tm⟩

/-- `graphql.NewSchema` with `Types: cfg.extra ++ more` (`more` lets the theorems speak about supplying further types
up front without rebuilding the configuration) -/
def newSchema (cfg : Config) (more : List TRef := []) : Except Err St :=
  match newSchemaTM cfg more with
  | .error e => .error e
  | .ok tm => finishTM cfg tm

/-- `Schema.AppendType` up to the extended type map; `none` = nothing to do (nil type) -/
def appendTM (cfg : Config) (s : St) (t0 : TRef) : Except Err (Option TM) :=
  let t := t0.build
  if t == .nil then .ok none
  else match topErr cfg t with
    | some e => .error e
    | none =>
      match reduce cfg (cfg.size + 1) s.tm t with
      | .error e => .error e
      | .ok tm => .ok (some tm)

/-- `Schema.AppendType` -/
def appendType (cfg : Config) (s : St) (t0 : TRef) : Except Err St :=
  match appendTM cfg s t0 with
  | .error e => .error e
  | .ok none => .ok s
  | .ok (some tm) => finishTM cfg tm

def appendAll (cfg : Config) : St → List TRef → Except Err St
  | s, [] => .ok s
  | s, t :: rest =>
    match appendType cfg s t with
    | .error e => .error e
    | .ok s' => appendAll cfg s' rest

/-! ## The dump -/

structure BuiltSchema where
  table : List BType                        -- type objects by id
  typeMap : List (String × Nat)             -- `Schema.TypeMap()`: key ↦ id
  query : Option Nat
  mutation : Option Nat
  subscription : Option Nat
  possibleTypes : List (Nat × List Nat)     -- `PossibleTypes(a)` for every abstract type of the type map
  isPossible : List (Nat × Nat)             -- pairs (abstract a, object o) of the type map with `IsPossibleType(a, o)`
  directives : List (String × List BArg) := []   -- `Directives()`: name and arguments
deriving Repr, Inhabited

def TM.abstracts (cfg : Config) (tm : TM) : List Nat := tm.filter (fun i => (kindOf cfg i).isAbstract)

/-- `possibleTypeMap[a.Name()]` as filled by `buildPossibleTypeMap` -/
def possibleMap (cfg : Config) (tm : TM) : List (String × List String) :=
  (tm.abstracts cfg).map (fun a => (nameOf cfg a, (possibleTypesOf cfg tm a).map (nameOf cfg)))

/-- `schema.IsPossibleType` on the finished schema -/
def isPossibleFinal (cfg : Config) (tm : TM) (a o : Nat) : Bool :=
  match (possibleMap cfg tm).find? (fun p => p.1 == nameOf cfg a) with
  | some p => p.2.contains (nameOf cfg o)
  | none => isPossibleScan cfg tm a o

def dump (cfg : Config) (s : St) : BuiltSchema :=
  { table := (List.range cfg.size).map (builtType cfg),
    typeMap := s.tm.map (fun i => (nameOf cfg i, i)),
    query := cfg.query, mutation := cfg.mutation, subscription := cfg.subscription,
    possibleTypes := (s.tm.abstracts cfg).map (fun a => (a, possibleTypesOf cfg s.tm a)),
    isPossible := (s.tm.abstracts cfg).flatMap (fun a =>
      ((s.tm.objects cfg).filter (isPossibleFinal cfg s.tm a)).map (fun o => (a, o))),
    directives := dirDefs cfg }

/-! ## S: consistency of a dumped schema -/

namespace BuiltSchema

def get (s : BuiltSchema) (i : Nat) : BType := (s.table[i]?).getD { kind := .scalar, name := "" }

/-- argument types of the directives -/
def directiveArgs (s : BuiltSchema) : List TRef := s.directives.flatMap (fun d => d.2.map (·.type))

def lookup (s : BuiltSchema) (n : String) : Option Nat := (s.typeMap.find? (fun p => p.1 == n)).map (·.2)

/-- the type object `i` is the one registered under its own name -/
def inMap (s : BuiltSchema) (i : Nat) : Bool := s.lookup (s.get i).name == some i

def ids (s : BuiltSchema) : List Nat := s.typeMap.map (·.2)

def objectIds (s : BuiltSchema) : List Nat := s.ids.filter (fun i => (s.get i).kind == .object)
def abstractIds (s : BuiltSchema) : List Nat := s.ids.filter (fun i => (s.get i).kind.isAbstract)

def keysDistinct : List (String × Nat) → Bool
  | [] => true
  | p :: rest => !(rest.any (fun q => q.1 == p.1)) && keysDistinct rest

/-- unique legal names: every key is a legal name, is the name of the (named) type it maps to, and occurs once -/
def namesOk (s : BuiltSchema) : Bool :=
  s.typeMap.all (fun p => validName p.1 && (s.get p.2).name == p.1 && (s.get p.2).kind.isNamed) &&
  keysDistinct s.typeMap

/-- a reference resolves: it ends in a named type object that is registered in the type map -/
def refOk (s : BuiltSchema) (t : TRef) : Bool :=
  match t.strip with
  | .named i => s.inMap i
  | _ => false

def typeRefs (t : BType) : List TRef :=
  t.fields.flatMap (fun f => f.type :: f.args.map (·.type)) ++ t.inputFields.map (·.type)

/-- the type map is closed under reference: field, argument (of fields and of directives), input-field, interface,
union-member and root types -/
def closed (s : BuiltSchema) : Bool :=
  s.ids.all (fun i =>
    let t := s.get i
    (typeRefs t).all s.refOk && t.interfaces.all s.inMap && t.members.all s.inMap) &&
  (match s.query with | some q => s.inMap q | none => false) &&
  (match s.mutation with | some q => s.inMap q | none => true) &&
  (match s.subscription with | some q => s.inMap q | none => true) &&
  s.directiveArgs.all s.refOk

def hasBuiltins (s : BuiltSchema) : Bool :=
  introspectionNames.all (fun n => (s.lookup n).isSome)

def leafKindB (s : BuiltSchema) (t : TRef) : Option Kind :=
  match t.strip with
  | .named i => some (s.get i).kind
  | _ => none
def outputRef (s : BuiltSchema) (t : TRef) : Bool := ((s.leafKindB t).map Kind.isOutput).getD false
def inputRef (s : BuiltSchema) (t : TRef) : Bool := ((s.leafKindB t).map Kind.isInput).getD false

/-- fields have output types, arguments (of fields and of directives) and input fields input types; interfaces are
interfaces, union members are objects -/
def positionsOk (s : BuiltSchema) : Bool :=
  s.ids.all (fun i =>
    let t := s.get i
    t.fields.all (fun f => s.outputRef f.type && f.args.all (fun a => s.inputRef a.type)) &&
    t.inputFields.all (fun f => s.inputRef f.type) &&
    t.interfaces.all (fun j => (s.get j).kind == .interface) &&
    t.members.all (fun j => (s.get j).kind == .object)) &&
  s.directiveArgs.all s.inputRef

/-- declared subtyping: an object is a possible type of the interfaces it declares and of the unions listing it -/
def declaredPossible (s : BuiltSchema) (a o : Nat) : Bool :=
  match (s.get a).kind with
  | .interface => (s.get o).interfaces.contains a
  | .union => (s.get a).members.contains o
  | _ => false

/-- every object implements each interface it declares: all fields present, covariant result types, identical
argument types, no extra required arguments -/
def conformanceOk (s : BuiltSchema) : Bool :=
  s.objectIds.all (fun o => (s.get o).interfaces.all (fun i =>
    (conformsTo (fun j => (s.get j).kind) s.declaredPossible (s.get o) (s.get i)).isNone))

def possibleOf (s : BuiltSchema) (a : Nat) : List Nat :=
  ((s.possibleTypes.find? (fun p => p.1 == a)).map (·.2)).getD []

/-- possible-type membership (`PossibleTypes`, `IsPossibleType`) agrees with the declarations for every abstract type
and every object type of the type map -/
def possibleOk (s : BuiltSchema) : Bool :=
  s.abstractIds.all (fun a =>
    s.objectIds.all (fun o =>
      ((s.possibleOf a).contains o == s.declaredPossible a o) &&
      (s.isPossible.contains (a, o) == s.declaredPossible a o)) &&
    (s.possibleOf a).all (fun o => s.declaredPossible a o))

def Consistent (s : BuiltSchema) : Bool :=
  s.namesOk && s.closed && s.hasBuiltins && s.positionsOk && s.conformanceOk && s.possibleOk

end BuiltSchema

/-! ## Classes of configurations (decidable; used for the input histogram and for non-vacuity witnesses) -/

def TRef.hasNilPtr : TRef → Bool
  | .nilPtr _ => true
  | .list t => t.hasNilPtr
  | .nonNull t => t.hasNilPtr
  | _ => false

end GqlModel.SchemaBuild
