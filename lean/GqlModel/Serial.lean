import GqlModel.Exec
/-! # Serial execution of top-level fields (C13) — specification vocabulary

The invocation log split by first response-path segment (`blocksOf`), and `SerialBlocks`: the log is the concatenation
of one contiguous segment per top-level response key, in key order. -/
namespace GqlModel.Exec

/-- first response-path segment of a log entry is the top-level key `k` -/
def underTop (k : String) (e : LogEntry) : Bool := e.path.head? == some (PathSeg.key k)

/-- the block of the top-level field `k`: everything logged under `k` (its resolver, the resolvers of its
sub-selection, work it deferred), in log order -/
def blockOf (log : List LogEntry) (k : String) : List LogEntry := log.filter (underTop k)

/-- one block per top-level response key, in the order of the keys -/
def blocksOf (keys : List String) (log : List LogEntry) : List (List LogEntry) := keys.map (blockOf log)

/-- `log` is the concatenation of one contiguous (possibly empty) segment per key, in key order, the segment of `k`
lying entirely under `k` -/
def SerialBlocks : List String → List LogEntry → Prop
  | [], log => log = []
  | k :: ks, log => ∃ b rest, log = b ++ rest ∧ (∀ e, e ∈ b → underTop k e = true) ∧ SerialBlocks ks rest

end GqlModel.Exec
