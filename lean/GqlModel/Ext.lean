/-! # Extension hooks of graphql-go/graphql — model M and specification S for property C17

Core Lean only. `Ext.run` mirrors, function for function, what `graphql.Do` does with the registered
`Extension`s (`/repo/graphql.go`, `/repo/executor.go: Execute`, `/repo/plan.go: ExecutePlan,
executePlannedSelection, resolvePlannedField`, `/repo/extensions.go: handleExtensions*,
addExtensionResults`) **as coded today**, i.e. after the repairs

* D-17a (e8ce125) recover blocks format any panic value with `%v`;
* (537e26f)       finish functions run in registration order (order of first registration of a name);
* D-17b (a934e54) after a failed `…DidStart` hook the finish handler of that phase is called (with an error
                  outcome) before `Do`/`ExecutePlan` return;
* D-17c (5dab2fb) when a resolver panics, the per-field finish handler is called on the recover path;
* D-17d (cfba981) the goroutine-level recover of `ExecutePlan` keeps `eCtx.Errors`.

One deviation from the property remains and is modelled faithfully: the finish functions of a phase are kept
in a map keyed by `ext.Name()`, so of two extensions sharing a name only the later registration's finish
function survives (outside the theorems' hypothesis of distinct names).

Everything an extension can observe is abstracted to the *event log*: one `Ev` per hook call (and one per
resolver call), in call order, with the outcome class of the hook's arguments and the behaviour the hook is
about to show. -/

namespace GqlModel.Ext

/-! ## Vocabulary -/

/-- what a hook panics with: an `error`, a `string`, any other value -/
inductive PanicKind | err | str | other
  deriving DecidableEq, Repr

/-- behaviour of one hook of one extension -/
inductive Beh | ok | panic (k : PanicKind)
  deriving DecidableEq, Repr

/-- the hooks of `graphql.Extension` (start hooks, the finish functions they return, result collection) and the
pseudo hook `resolver` marking the call of a field's resolve function in the log -/
inductive Hook
  | init | parseStart | parseEnd | valStart | valEnd | execStart | execEnd | resStart | resEnd
  | hasResult | getResult | resolver
  deriving DecidableEq, Repr

/-- outcome class of the arguments a finish function receives (`none` for hooks without an outcome argument) -/
inductive Out | none | ok | err
  deriving DecidableEq, Repr

/-- one entry of the global event log: which extension (by NAME), which hook, which field (resolve hooks and
resolver calls; 0 otherwise), the outcome class handed to the hook, and what the hook does next -/
structure Ev where
  ext : Nat
  hook : Hook
  fld : Nat
  out : Out
  fault : Beh
  deriving DecidableEq, Repr

/-- configuration of one instrumented extension -/
structure ExtBehaviour where
  name : Nat
  beh : Hook → Beh
  hasRes : Bool

/-- what a field's resolver does; `…NN` = the field's type is non-null (only root fields) -/
inductive FieldOutcome | ok | err | panic | errNN | panicNN
  deriving DecidableEq, Repr

def FieldOutcome.isPanic : FieldOutcome → Bool
  | .panic | .panicNN => true
  | _ => false
def FieldOutcome.failed : FieldOutcome → Bool
  | .ok => false
  | _ => true
/-- a failure that propagates to the root (`handleFieldError` re-panics for non-null return types) -/
def FieldOutcome.fatal : FieldOutcome → Bool
  | .errNN | .panicNN => true
  | _ => false

/-- request outcome classes; `exec fields` covers "field errors" and "success": the fields in execution order
(depth-first; children of a failed parent are not part of the list) -/
inductive RequestOutcomeClass
  | syntaxErr | validationErr | operationErr | variableErr
  | exec (fields : List FieldOutcome)
  deriving DecidableEq, Repr

/-- class of an entry of `Result.Errors`: produced by a recovered hook panic (`"<name>.<Hook>: <value>"`), or
by the request itself (syntax / validation / operation / variable / field error) -/
inductive ErrClass
  | hook (name : Nat) (h : Hook) (k : PanicKind)
  | request
  deriving DecidableEq, Repr

/-- the label the recover block uses: `addExtensionResults` says `GetResult` for `HasResult` too -/
def errLabel : Hook → Hook
  | .hasResult => .getResult
  | h => h

structure ResultSummary where
  errors : List ErrClass
  extKeys : List Nat      -- keys of Result.Extensions (names), registration order
  hasData : Bool          -- Result.Data ≠ nil
  deriving DecidableEq, Repr

abbrev Trace := List Ev

/-! ## M — the code as it is -/

def mkEv (b : ExtBehaviour) (h : Hook) (fld : Nat) (o : Out) : Ev := ⟨b.name, h, fld, o, b.beh h⟩

/-- what a start handler returns: the log, the recovered hook errors, and the finish-function map `fs`
(entries in registration order of the surviving registrant) -/
structure Started where
  evs : Trace
  errs : List ErrClass
  fs : List ExtBehaviour

/-- `fs[ext.Name()] = finishFn` (and `names = append(names, name)` if unseen) for `b` registered BEFORE the
entries of `fs`: a later entry `c` of the same name has overwritten `b`'s function, but the name keeps `b`'s
position in the call order -/
def registerBefore (b : ExtBehaviour) (fs : List ExtBehaviour) : List ExtBehaviour :=
  if fs.any (fun c => c.name == b.name)
  then fs.filter (fun c => c.name == b.name) ++ fs.filter (fun c => c.name != b.name)
  else b :: fs

/-- the loop shared by `handleExtensionsParseDidStart`, `…ValidationDidStart`, `…ExecutionDidStart`,
`…ResolveFieldDidStart` (extensions.go:78-103, 122-147, 166-191, 210-235; `names` keeps the order of first registration): every extension is called, a panic is
recovered into an error and leaves no entry in `fs`. -/
def didStart (h : Hook) (fld : Nat) : List ExtBehaviour → Started
  | [] => ⟨[], [], []⟩
  | b :: rest =>
    let r := didStart h fld rest
    match b.beh h with
    | .ok => ⟨mkEv b h fld .none :: r.evs, r.errs, registerBefore b r.fs⟩
    | .panic k => ⟨mkEv b h fld .none :: r.evs, .hook b.name h k :: r.errs, r.fs⟩

/-- the finish handler returned by a start handler (extensions.go:103-118, 147-162, 191-206, 235-250): every function in `fs` is
called with the outcome, panics are recovered into errors -/
def finish (h : Hook) (fld : Nat) (o : Out) : List ExtBehaviour → Trace × List ErrClass
  | [] => ([], [])
  | b :: rest =>
    let r := finish h fld o rest
    match b.beh h with
    | .ok => (mkEv b h fld o :: r.1, r.2)
    | .panic k => (mkEv b h fld o :: r.1, .hook b.name h k :: r.2)

/-- `handleExtensionsInits` (extensions.go:60-75) -/
def handleInits : List ExtBehaviour → Trace × List ErrClass
  | [] => ([], [])
  | b :: rest =>
    let r := handleInits rest
    match b.beh .init with
    | .ok => (mkEv b .init 0 .none :: r.1, r.2)
    | .panic k => (mkEv b .init 0 .none :: r.1, .hook b.name .init k :: r.2)

/-- `addExtensionResults` (extensions.go:253-271): log, errors appended to the result, keys of `Extensions` -/
def addExtensionResults : List ExtBehaviour → Trace × List ErrClass × List Nat
  | [] => ([], [], [])
  | b :: rest =>
    let r := addExtensionResults rest
    match b.beh .hasResult with
    | .panic k => (mkEv b .hasResult 0 .none :: r.1, .hook b.name .getResult k :: r.2.1, r.2.2)
    | .ok =>
      if b.hasRes then
        match b.beh .getResult with
        | .panic k => (mkEv b .hasResult 0 .none :: mkEv b .getResult 0 .none :: r.1, .hook b.name .getResult k :: r.2.1, r.2.2)
        | .ok => (mkEv b .hasResult 0 .none :: mkEv b .getResult 0 .none :: r.1, r.2.1,
                  if r.2.2.contains b.name then r.2.2 else b.name :: r.2.2)
      else (mkEv b .hasResult 0 .none :: r.1, r.2.1, r.2.2)

def resolverEv (k : Nat) (fo : FieldOutcome) : Ev :=
  ⟨0, .resolver, k, if fo.failed then .err else .ok, if fo.isPanic then .panic .other else .ok⟩

/-- one call of `resolvePlannedField` (plan.go:783-876) for a field whose resolver does `fo`:
start handler (errors go to `eCtx.Errors`, execution goes on), resolver, then the finish handler — after the
resolver returned, or on the recover path when it panicked (D-17c repaired) — then `handleFieldError` for a
resolver error or panic. Returns the log and what was appended to `eCtx.Errors` (for a fatal field: what the
goroutine-level recover appends last). -/
def resolvePlannedField (xs : List ExtBehaviour) (k : Nat) (fo : FieldOutcome) : Trace × List ErrClass :=
  -- plan.go:846 skips the handler when no extension is registered; `didStart` of the empty list is the same
  let s := didStart .resStart k xs
  let f := finish .resEnd k (if fo.failed then .err else .ok) s.fs
  (s.evs ++ [resolverEv k fo] ++ f.1, s.errs ++ f.2 ++ (if fo.failed then [.request] else []))

/-- `executePlannedSelection` over the fields in execution order. Third component: a non-null root field failed,
the panic left the selection loop (the remaining fields are not executed). -/
def executeFields (xs : List ExtBehaviour) : Nat → List FieldOutcome → Trace × List ErrClass × Bool
  | _, [] => ([], [], false)
  | k, fo :: rest =>
    let f := resolvePlannedField xs k fo
    if fo.fatal then (f.1, f.2, true)
    else
      let r := executeFields xs (k + 1) rest
      (f.1 ++ r.1, f.2 ++ r.2.1, r.2.2)

/-- the goroutine body of `ExecutePlan` (plan.go:671-729): variable coercion, field execution, and the top-level
recover, which keeps `eCtx.Errors` and appends the propagated error (D-17d repaired).
Returns the log, `out.Errors`, and whether `out.Data` is set. -/
def execBody (xs : List ExtBehaviour) (req : RequestOutcomeClass) : Trace × List ErrClass × Bool :=
  match req with
  | .variableErr => ([], [.request], false)
  | .exec fields =>
    let r := executeFields xs 0 fields
    (r.1, r.2.1, !r.2.2)
  | _ => ([], [], true)

/-- what `ExecutePlan`'s `select` hands back, as a triple: the executor goroutine's log so far, `Result.Errors`,
whether `Result.Data` is set. For a live context this is `execBody`; for a context that is done it is
`ctxBody` below. -/
abbrev Body := Trace × List ErrClass × Bool

/-- the outcome class of the `*Result` handed to the execution-finish functions -/
def bodyOutB (body : Body) : Out := if body.2.1.isEmpty then .ok else .err

def bodyOut (xs : List ExtBehaviour) (req : RequestOutcomeClass) : Out := bodyOutB (execBody xs req)

/-- `ExecutePlan` (plan.go:677-766): execution start; on a hook error the started extensions' finish functions
get the error result and `ExecutePlan` returns (no result collection); otherwise the executor goroutine is
started, the `select` yields `body`, and the deferred execution-finish + `addExtensionResults` run — whatever the
state of the request context. -/
def executePlanB (xs : List ExtBehaviour) (body : Body) : Trace × ResultSummary :=
  let es := didStart .execStart 0 xs
  if !es.errs.isEmpty then
    let ef := finish .execEnd 0 .err es.fs
    (es.evs ++ ef.1, ⟨es.errs ++ ef.2, [], false⟩)
  else
    let ef := finish .execEnd 0 (bodyOutB body) es.fs
    let rs := addExtensionResults xs
    (es.evs ++ body.1 ++ ef.1 ++ rs.1, ⟨body.2.1 ++ ef.2 ++ rs.2.1, rs.2.2, body.2.2⟩)

def executePlan (xs : List ExtBehaviour) (req : RequestOutcomeClass) : Trace × ResultSummary :=
  executePlanB xs (execBody xs req)

/-- `Execute` (executor.go:33-39): `PlanQuery` fails before any execution hook runs -/
def executeB (xs : List ExtBehaviour) (req : RequestOutcomeClass) (body : Body) : Trace × ResultSummary :=
  match req with
  | .operationErr => ([], ⟨[.request], [], false⟩)
  | _ => executePlanB xs body

def execute (xs : List ExtBehaviour) (req : RequestOutcomeClass) : Trace × ResultSummary :=
  executeB xs req (execBody xs req)

/-- prefix the log of an earlier step -/
def pre (t : Trace) (r : Trace × ResultSummary) : Trace × ResultSummary := (t ++ r.1, r.2)

def early (errs : List ErrClass) : Trace × ResultSummary := ([], ⟨errs, [], false⟩)

/-- `graphql.Do` (graphql.go:36-120); `body` = what the `select` of `ExecutePlan` yields, if it gets that far -/
def runB (xs : List ExtBehaviour) (req : RequestOutcomeClass) (body : Body) : Trace × ResultSummary :=
  let i := handleInits xs
  pre i.1 <|
  if !i.2.isEmpty then early i.2 else                       -- graphql.go:43-48
  let ps := didStart .parseStart 0 xs
  pre ps.evs <|
  if !ps.errs.isEmpty then                                  -- graphql.go:50-57: finish what was started
    let pf := finish .parseEnd 0 .err ps.fs
    pre pf.1 (early (ps.errs ++ pf.2))
  else
  match req with
  | .syntaxErr =>
    let pf := finish .parseEnd 0 .err ps.fs                 -- graphql.go:61-70
    pre pf.1 (early (pf.2 ++ [.request]))
  | _ =>
  let pf := finish .parseEnd 0 .ok ps.fs
  pre pf.1 <|
  if !pf.2.isEmpty then early pf.2 else                     -- graphql.go:73-78
  let vs := didStart .valStart 0 xs
  pre vs.evs <|
  if !vs.errs.isEmpty then                                  -- graphql.go:81-88: finish what was started
    let vf := finish .valEnd 0 .err vs.fs
    pre vf.1 (early (vs.errs ++ vf.2))
  else
  match req with
  | .validationErr =>
    let vf := finish .valEnd 0 .err vs.fs                   -- graphql.go:93-102
    pre vf.1 (early (vf.2 ++ [.request]))
  | _ =>
  let vf := finish .valEnd 0 .ok vs.fs
  pre vf.1 <|
  if !vf.2.isEmpty then early vf.2 else                     -- graphql.go:105-110
  executeB xs req body

/-- a request whose context stays live -/
def run (xs : List ExtBehaviour) (req : RequestOutcomeClass) : Trace × ResultSummary :=
  runB xs req (execBody xs req)

/-! ### Requests whose context is done (cancelled / past its deadline) before `ExecutePlan`'s `select` yields

`Do` itself never looks at the context: init, parse, validation and execution-start hooks run as usual. In
`ExecutePlan` the `select` then returns the context error instead of the executor's result; the deferred
execution-finish functions get that error result and the extension results are collected. The executor goroutine
is NOT stopped: it goes on calling resolvers and resolve hooks after `Do` has returned (its result, including the
errors of resolve hooks that panic there, is discarded). The log therefore has two parts: what is logged when `Do`
returns (`runCtx`), and what the abandoned executor logs afterwards (`ctxLate`). -/

/-- where the executor goroutine stands when the context is found done: it has not logged anything yet (context
done before the call), or it is inside the resolver of the executed field number `j` -/
inductive CtxAt | before | inResolver (j : Nat)
  deriving DecidableEq, Repr

/-- split the executor's log after the call of the resolver of field `j` -/
def splitAfterResolver (j : Nat) : Trace → Trace × Trace
  | [] => ([], [])
  | e :: t =>
    if e.hook == .resolver && e.fld == j then ([e], t)
    else ((e :: (splitAfterResolver j t).1), (splitAfterResolver j t).2)

def ctxSplit (xs : List ExtBehaviour) (fields : List FieldOutcome) : CtxAt → Trace × Trace
  | .before => ([], (executeFields xs 0 fields).1)
  | .inResolver j => splitAfterResolver j (executeFields xs 0 fields).1

/-- what the `select` yields when the context is done: the context error, no data -/
def ctxBody (xs : List ExtBehaviour) (fields : List FieldOutcome) (at_ : CtxAt) : Body :=
  ((ctxSplit xs fields at_).1, [.request], false)

/-- `graphql.Do` on executed fields `fields` with a context that is done at `at_`: log when `Do` returns, result -/
def runCtx (xs : List ExtBehaviour) (fields : List FieldOutcome) (at_ : CtxAt) : Trace × ResultSummary :=
  runB xs (.exec fields) (ctxBody xs fields at_)

/-- `ExecutePlan` called directly with such a context -/
def executePlanCtx (xs : List ExtBehaviour) (fields : List FieldOutcome) (at_ : CtxAt) : Trace × ResultSummary :=
  executePlanB xs (ctxBody xs fields at_)

/-! ## S — what the property demands of a log

All predicates are `Bool`-valued functions of the log (plus the request class where the expected outcome of a
phase is needed, and the registered names), so the driver evaluates the very same definitions on the REAL log. -/

/-- the part of the log extension `a` can see: its own hook calls and the resolver calls -/
def proj (a : Nat) (t : Trace) : Trace := t.filter (fun e => e.hook == .resolver || e.ext == a)

/-! ### PhaseOrder: init, parse, validation, execution, one resolve notification per executed field
(immediately before the resolver runs), result collection — in this order, nothing skipped, nothing twice. -/

inductive POState
  | fresh                     -- nothing seen
  | saw (h : Hook) (k : Nat)  -- last start-ish hook
  | bad
  deriving DecidableEq, Repr

def poStep (s : POState) (e : Ev) : POState :=
  match e.hook with
  | .init => if s = .fresh then .saw .init 0 else .bad
  | .parseStart => if s = .saw .init 0 then .saw .parseStart 0 else .bad
  | .valStart => if s = .saw .parseStart 0 then .saw .valStart 0 else .bad
  | .execStart => if s = .saw .valStart 0 then .saw .execStart 0 else .bad
  | .resStart =>
    match s with
    | .saw .execStart _ => .saw .resStart e.fld
    | .saw .resolver _ => .saw .resStart e.fld
    | _ => .bad
  | .resolver =>
    -- every resolver call is announced to this extension, for the same field, just before
    if s = .saw .resStart e.fld then .saw .resolver e.fld else .bad
  | .hasResult =>
    match s with
    | .saw .execStart _ => .saw .hasResult 0
    | .saw .resolver _ => .saw .hasResult 0
    | _ => .bad
  | .getResult => if s = .saw .hasResult 0 then .saw .getResult 0 else .bad
  | .parseEnd | .valEnd | .execEnd | .resEnd => s

def phaseOrderFor (a : Nat) (t : Trace) : Bool :=
  (proj a t).foldl poStep .fresh != .bad && (proj a t).foldl poStep .fresh != .fresh

/-! ### Balanced: every phase that was started (start hook returned) is finished exactly once, with the outcome
of that phase. Phases of one extension are tracked as a set of open phases. -/

inductive Phase | parse | val | exec | res (k : Nat)
  deriving DecidableEq, Repr

/-- some extension's start hook `h` panicked: the phase is aborted, its outcome is an error -/
def startFault (h : Hook) (e : Ev) : Bool := e.hook == h && e.fault != .ok

/-- the events that make the execution result an error result: a failed resolver, a panicking resolve hook, a
panicking execution-start hook -/
def execErrEv (e : Ev) : Bool :=
  (e.hook == .resolver && e.out == .err) || ((e.hook == .resStart || e.hook == .resEnd) && e.fault != .ok)
  || startFault .execStart e

/-- the outcome the phases of request `req` have: parse / validation fail on a syntax / validation error or when
the phase is aborted because a start hook panicked; a resolve phase has the field's own outcome (a resolver
panic counts as an error outcome); the execution phase is an error iff the result handed over has errors (the
request's own, a recovered resolve-hook panic, or the abort) -/
def fieldOut (req : RequestOutcomeClass) (k : Nat) : Out :=
  match req with
  | .exec fields => match fields[k]? with
    | some fo => if fo.failed then .err else .ok
    | none => .none
  | _ => .none

def execOut (req : RequestOutcomeClass) (t : Trace) : Out :=
  if req = .variableErr || t.any execErrEv then .err else .ok

def expectedOut (req : RequestOutcomeClass) (t : Trace) : Phase → Out
  | .parse => if req = .syntaxErr || t.any (startFault .parseStart) then .err else .ok
  | .val => if req = .validationErr || t.any (startFault .valStart) then .err else .ok
  | .exec => execOut req t
  | .res k => fieldOut req k

/-- `none` = the log is not balanced up to here; `some open` = the phases currently open -/
def balStart (s : Option (List Phase)) (p : Phase) (e : Ev) : Option (List Phase) :=
  match s with
  | none => none
  | some o => if e.fault = .ok then (if o.contains p then none else some (p :: o)) else some o

def balEnd (exp : Phase → Out) (s : Option (List Phase)) (p : Phase) (e : Ev) : Option (List Phase) :=
  match s with
  | none => none
  | some o => if o.contains p && e.out == exp p then some (o.erase p) else none

def balStep (exp : Phase → Out) (s : Option (List Phase)) (e : Ev) : Option (List Phase) :=
  match e.hook with
  | .parseStart => balStart s .parse e
  | .valStart => balStart s .val e
  | .execStart => balStart s .exec e
  | .resStart => balStart s (.res e.fld) e
  | .parseEnd => balEnd exp s .parse e
  | .valEnd => balEnd exp s .val e
  | .execEnd => balEnd exp s .exec e
  | .resEnd => balEnd exp s (.res e.fld) e
  | .init | .hasResult | .getResult | .resolver => s

def balancedFor (req : RequestOutcomeClass) (a : Nat) (t : Trace) : Bool :=
  (proj a t).foldl (balStep (expectedOut req t)) (some []) == some []

/-! ### Nested: the phases of one extension are properly nested — parse, validation and execution do not overlap
each other nor init / result collection; a resolve phase lies inside the execution phase and resolve phases
do not overlap; a finish function closes the innermost open phase. -/

inductive NState | idle | parse | val | exec | res (k : Nat) | bad
  deriving DecidableEq, Repr

def nestStep (s : NState) (e : Ev) : NState :=
  match e.hook with
  | .init | .hasResult | .getResult => if s = .idle then .idle else .bad
  | .parseStart => if s = .idle then (if e.fault = .ok then .parse else .idle) else .bad
  | .valStart => if s = .idle then (if e.fault = .ok then .val else .idle) else .bad
  | .execStart => if s = .idle then (if e.fault = .ok then .exec else .idle) else .bad
  | .resStart => if s = .exec then (if e.fault = .ok then .res e.fld else .exec) else .bad
  | .parseEnd => if s = .parse then .idle else .bad
  | .valEnd => if s = .val then .idle else .bad
  | .execEnd => if s = .exec then .idle else .bad
  | .resEnd => if s = .res e.fld then .exec else .bad
  | .resolver => s

def nestedFor (a : Nat) (t : Trace) : Bool := (proj a t).foldl nestStep .idle != .bad

/-! ### PanicsReported -/

/-- the errors the recovered hook panics of a log must have produced -/
def faultClasses (t : Trace) : List ErrClass :=
  t.filterMap (fun e => match e.hook, e.fault with
    | .resolver, _ => none
    | _, .ok => none
    | h, .panic k => some (.hook e.ext (errLabel h) k))

/-- every panicking hook call of the log has its own error in the result (with multiplicity) -/
def reported (t : Trace) (r : ResultSummary) : Bool :=
  (faultClasses t).all (fun c => (faultClasses t).count c ≤ r.errors.count c)

/-- some hook of an extension other than `a` panicked -/
def otherFault (a : Nat) (t : Trace) : Bool :=
  t.any (fun e => e.hook != .resolver && e.ext != a && e.fault != .ok)

def names (xs : List ExtBehaviour) : List Nat := xs.map (·.name)

def PhaseOrder (ns : List Nat) (t : Trace) : Prop := ∀ a ∈ ns, phaseOrderFor a t = true
def Balanced (req : RequestOutcomeClass) (ns : List Nat) (t : Trace) : Prop := ∀ a ∈ ns, balancedFor req a t = true
def Nested (ns : List Nat) (t : Trace) : Prop := ∀ a ∈ ns, nestedFor a t = true
/-- every panicking hook yields an error in the result, and the started phases of the OTHER extensions are
still finished. (That no panic escapes `Do` is not expressible on a log: the harness treats any escaping panic as a
violation; the model has no crash path since D-17a was repaired.) -/
def PanicsReported (req : RequestOutcomeClass) (ns : List Nat) (t : Trace) (r : ResultSummary) : Prop :=
  reported t r = true ∧ ∀ a ∈ ns, otherFault a t = true → balancedFor req a t = true

instance (ns t) : Decidable (PhaseOrder ns t) := by unfold PhaseOrder; infer_instance
instance (req ns t) : Decidable (Balanced req ns t) := by unfold Balanced; infer_instance
instance (ns t) : Decidable (Nested ns t) := by unfold Nested; infer_instance
instance (req ns t r) : Decidable (PanicsReported req ns t r) := by unfold PanicsReported; infer_instance

/-! ### Requests whose context is done

The caller's goroutine and the abandoned executor goroutine log concurrently, so the property is stated for the
two parts of the log separately: the top-level phases (everything but resolve hooks and resolver calls) as logged
when `Do` returns, and the resolve phases in the complete log (after the executor has drained). -/

def isResolveHook : Hook → Bool
  | .resStart | .resEnd | .resolver => true
  | _ => false

def topLevel (t : Trace) : Trace := t.filter (fun e => !isResolveHook e.hook)
def resolveOnly (t : Trace) : Trace := t.filter (fun e => isResolveHook e.hook)

/-- for the caller's goroutine a request whose context is done looks like a request that fails at execution with
one request-level error and no data (as a variable-coercion error does): execution is started, finished with
an error outcome, results are collected -/
def ctxReq : RequestOutcomeClass := .variableErr

/-- the resolve phases extension `a` sees in the executor's log: each announced immediately before its resolver
call, finished exactly once with the field's outcome, not overlapping -/
def resolvePhasesFor (req : RequestOutcomeClass) (a : Nat) (t : Trace) : Bool :=
  (proj a (resolveOnly t)).foldl (balStep (expectedOut req t)) (some [.exec]) == some [.exec]
  && (proj a (resolveOnly t)).foldl nestStep .exec == .exec
  && (proj a (resolveOnly t)).foldl poStep (.saw .execStart 0) != .bad

/-- ordered, balanced, nested for a request whose context is done: `now` = log when `Do` returns, `late` = what
the executor logs afterwards -/
def CtxBalancedOrderedNested (fields : List FieldOutcome) (ns : List Nat) (now late : Trace) : Prop :=
  PhaseOrder ns (topLevel now) ∧ Balanced ctxReq ns (topLevel now) ∧ Nested ns (topLevel now)
  ∧ ∀ a ∈ ns, resolvePhasesFor (.exec fields) a (now ++ late) = true

/-- panics of the hooks called on the caller's goroutine are reported and isolated (the errors of resolve hooks
that panic in the abandoned executor are lost with its result: observation O-17f in the notes) -/
def CtxPanicsReported (ns : List Nat) (now : Trace) (r : ResultSummary) : Prop :=
  PanicsReported ctxReq ns (topLevel now) r

instance (fields ns now late) : Decidable (CtxBalancedOrderedNested fields ns now late) := by
  unfold CtxBalancedOrderedNested; infer_instance


/-! ## How far a run gets (used by the proofs), and the one remaining deviation -/

def anyFault (xs : List ExtBehaviour) (h : Hook) : Bool := xs.any (fun b => b.beh h != .ok)

/-- does `Do` get as far as calling the start hooks of this phase? -/
def reachesParse (xs : List ExtBehaviour) : Bool := !anyFault xs .init
def reachesVal (xs : List ExtBehaviour) (req : RequestOutcomeClass) : Bool :=
  reachesParse xs && !anyFault xs .parseStart && req != .syntaxErr && !anyFault xs .parseEnd
def reachesExec (xs : List ExtBehaviour) (req : RequestOutcomeClass) : Bool :=
  reachesVal xs req && !anyFault xs .valStart && req != .validationErr && !anyFault xs .valEnd
  && req != .operationErr
def reachesBody (xs : List ExtBehaviour) (req : RequestOutcomeClass) : Bool :=
  reachesExec xs req && !anyFault xs .execStart

/-- what the abandoned executor goroutine logs after `Do` has returned (extensions with distinct names) -/
def ctxLate (xs : List ExtBehaviour) (fields : List FieldOutcome) (at_ : CtxAt) : Trace :=
  if reachesBody xs (.exec fields) then (ctxSplit xs fields at_).2 else []

/-- the same for `ExecutePlan` called directly -/
def ctxLatePlan (xs : List ExtBehaviour) (fields : List FieldOutcome) (at_ : CtxAt) : Trace :=
  if anyFault xs .execStart then [] else (ctxSplit xs fields at_).2

/-- two registered extensions share a name (the finish-function map keeps one entry per name) -/
def sharedName : List Nat → Bool
  | [] => false
  | a :: rest => rest.contains a || sharedName rest

end GqlModel.Ext
