import GqlProofs.ParserSound
import GqlProofs.ParserComplete
import GqlProofs.ParserProgress
import GqlProofs.ParserLoc
import GqlProofs.ParserDescLoc
import GqlProofs.ParserTop
import GqlProofs.RecogniseSound
/-! # C03 (parser half) — the parser accepts exactly the GraphQL grammar and builds the AST it defines

Property theorems only.  `M` = `GqlModel.Parser` (parser.go function for function, on the token list the lexer
produces, bug-faithful at `parseType`), `S` = `GqlModel.Grammar` (one derivation-relation constructor per
production; every node located at first-token start … last-token end).  All statements are for every token
list — every length, every nesting depth, executable AND type-system definitions.

Token lists: `all = toks ++ [eof]`; `parseTokens all` splits at the first EOF token and runs
`parseToks toks eof.start`.  `Parsed.typeRefMalformed` is the known-finding flag (D-03b): the parse went through one
of the three places where `parseType` accepts what `Type` does not derive. -/
namespace GqlModel.Parser
open GqlModel GqlModel.Grammar

/-! ## Values (port of the spike): recursive descent ⇔ grammar, sound and complete -/

/-- `parseValueLiteral` with any sufficient fuel returns exactly the derivable values (with their locations),
moves the state to the end of the derivation and changes nothing else. -/
theorem parseValue_iff (c : Bool) (σ : PState) (v : Value) (σ' : PState) :
    (∃ n, parseValueLiteral c n σ = .ok (v, σ')) ↔ (DValue c σ.pos v σ'.pos ∧ σ' = σ.at σ'.pos) := by
  constructor
  · rintro ⟨n, h⟩; exact parseValueLiteral_snd c n σ v σ' h
  · rintro ⟨h, hσ⟩
    refine ⟨σ.toks.length, ?_⟩
    rw [hσ]
    exact DValue.cmp h σ _ rfl (Nat.le_refl _)

/-- the same for the entry point used by arguments and default values (`fuel = |tokens left| + 1`), and
for `parser.ParseValue` on a whole token list -/
theorem parseValue_top_iff (c : Bool) (toks : List Token) (eofPos : Nat) (v : Value) (rest : List Token) :
    (∃ e, parseValue c (initState toks eofPos) = .ok (v, ⟨e, rest, eofPos, false⟩)) ↔ DerivesValue c toks v rest := by
  constructor
  · rintro ⟨e, h⟩
    exact ⟨e, (parseValue_snd c _ _ _ h).1⟩
  · rintro ⟨e, h⟩
    exact ⟨e, parseValue_cmp c (initState toks eofPos) v ⟨e, rest⟩ h⟩

/-! ## Type references and the D-03b story -/

/-- whatever `parseType` returns WITHOUT raising the flag is a `Type` of the grammar -/
theorem parseType_sound (σ : PState) (t : TypeRef) (σ' : PState) (h : parseType σ = .ok (t, σ')) (hb : σ'.bad = false) :
    DType σ.pos t σ'.pos ∧ σ' = σ.at σ'.pos :=
  parseType_snd σ t σ' h hb

/-- every `Type` of the grammar is parsed, with its AST, without raising the flag -/
theorem parseType_complete (σ : PState) (t : TypeRef) (p' : Pos) (h : DType σ.pos t p') :
    parseType σ = .ok (t, σ.at p') :=
  parseType_cmp σ t p' h

/-- The full statement `parseType σ = .ok (t, σ') ↔ DType σ.pos t σ'.pos ∧ …` is FALSE on the pinned tree (D-03b);
proved under the decidable condition "the flag was not raised". -/
theorem parseType_iff_partial (σ : PState) (t : TypeRef) (σ' : PState) (hb : σ'.bad = false) :
    parseType σ = .ok (t, σ') ↔ (DType σ.pos t σ'.pos ∧ σ' = σ.at σ'.pos) := by
  constructor
  · intro h; exact parseType_snd σ t σ' h hb
  · rintro ⟨h, hσ⟩; rw [hσ]; exact parseType_cmp σ t _ h

/-! ## Documents -/

/-- **Soundness.**  Full statement (FALSE on the pinned tree, see `parser_sound_fails`):
`parseTokens all = .ok p → ∃ toks e …, DerivesDoc toks e.start p.doc`.
Proved for every parse that did not go through a malformed type reference: the accepted token list is a document
of the grammar and the AST, with every location, is the one the productions define. -/
theorem parser_sound_partial (all : List Token) (p : Parsed) (h : parseTokens all = .ok p)
    (hwf : typeRefWellFormed all = true) :
    ∃ toks e rest, all = toks ++ e :: rest ∧ e.kind = .eof ∧ (∀ t ∈ toks, t.kind ≠ .eof) ∧
      DerivesDoc toks e.start p.doc := by
  have hb : p.typeRefMalformed = false := by
    simp only [typeRefWellFormed, typeRefMalformed, h, Bool.not_eq_true'] at hwf
    exact hwf
  unfold parseTokens at h
  cases hs : splitEOF all with
  | none => simp [hs] at h
  | some q =>
    obtain ⟨toks, e⟩ := q
    simp only [hs] at h
    obtain ⟨hk, hn, rest, hall⟩ := splitEOF_some hs
    refine ⟨toks, e, rest, hall, hk, hn, ?_⟩
    obtain ⟨d, b⟩ := p
    simp only at hb
    subst hb
    exact parseToks_sound h

/-- **Completeness** (holds in full): every document of the grammar is accepted, M builds exactly the derived AST
and does not raise the flag. -/
theorem parser_complete (toks : List Token) (e : Token) (d : Document) (hk : e.kind = .eof)
    (hn : ∀ t ∈ toks, t.kind ≠ .eof) (h : DerivesDoc toks e.start d) :
    parseTokens (toks ++ [e]) = .ok ⟨d, false⟩ := by
  unfold parseTokens
  rw [splitEOF_append hk hn]
  exact parseToks_complete h

/-- accept-and-build ⇔ derive, for parses that do not raise the flag -/
theorem parser_iff_partial (toks : List Token) (e : Token) (d : Document) (hk : e.kind = .eof)
    (hn : ∀ t ∈ toks, t.kind ≠ .eof) :
    parseTokens (toks ++ [e]) = .ok ⟨d, false⟩ ↔ DerivesDoc toks e.start d := by
  constructor
  · intro h
    unfold parseTokens at h
    rw [splitEOF_append hk hn] at h
    exact parseToks_sound h
  · exact parser_complete toks e d hk hn

/-- the AST M builds is unique: a token list derives at most one document -/
theorem derivesDoc_unique (toks : List Token) (eofPos : Nat) (d d' : Document)
    (h : DerivesDoc toks eofPos d) (h' : DerivesDoc toks eofPos d') : d = d' := by
  have a := parseToks_complete h
  have b := parseToks_complete h'
  rw [a] at b
  simpa using b

/-! ### D-03b: M accepts strictly more than the grammar at type references (negation witnesses) -/

/-- the three inputs of D-03b are accepted by M (as by the real parser) with the flag raised … -/
theorem d03b_accepted : verdict d03b_closing 20 = some true ∧ verdict d03b_leading 16 = some true ∧
    verdict d03b_missing 15 = some true := by decide

/-- … and none of them is a document of the grammar: the unrestricted soundness statement is false -/
theorem parser_sound_fails :
    (¬ ∃ d, DerivesDoc d03b_closing 20 d) ∧ (¬ ∃ d, DerivesDoc d03b_leading 16 d) ∧ (¬ ∃ d, DerivesDoc d03b_missing 15 d) :=
  ⟨not_derivable_of_flag d03b_accepted.1, not_derivable_of_flag d03b_accepted.2.1, not_derivable_of_flag d03b_accepted.2.2⟩

/-- the executable recogniser (the second rendering of the productions) rejects them too -/
theorem d03b_recogniser_rejects : recogniseToks d03b_closing = some false ∧ recogniseToks d03b_leading = some false ∧
    recogniseToks d03b_missing = some false := by decide

/-! ## The two renderings of S agree: the executable recogniser decides the derivation relations

`Grammar.recogniseToks` (the productions as EBNF data, run by the generic interpreter `Grammar.run`) is what the
correspondence harness compares the real parser with; `DerivesDoc` is what the theorems above are about.
Whenever the recogniser answers, its answer is the truth about `DerivesDoc` — and hence, by `parser_iff_partial`,
about M accepting with the flag down.  (It answers `none` only when its fuel `64·|toks| + 256` runs out; that
bound is not proved sufficient — the harness reports a `none` as CHECK-ERROR and has never seen one.) -/

/-- `some true` ⇒ derivable -/
theorem recognise_sound (toks : List Token) (eofPos : Nat) (h : recogniseToks toks = some true) :
    ∃ d, DerivesDoc toks eofPos d := by
  unfold recogniseToks at h
  cases hr : run (recogniseFuel toks) (.nt .document) toks with
  | fuel => simp [hr] at h
  | no => simp [hr] at h
  | rest r =>
    simp only [hr, Option.some.injEq, List.isEmpty_iff] at h
    subst h
    exact run_derivesDoc eofPos (run_sound _ _ _ (.rest []) hr)

/-- `some false` ⇒ not derivable -/
theorem recognise_reject_sound (toks : List Token) (eofPos : Nat) (h : recogniseToks toks = some false) :
    ¬ ∃ d, DerivesDoc toks eofPos d := by
  rintro ⟨d, hd⟩
  have hD := derivesDoc_run hd
  unfold recogniseToks at h
  cases hr : run (recogniseFuel toks) (.nt .document) toks with
  | fuel => simp [hr] at h
  | no => cases Run.det hD (run_sound _ _ _ .no hr)
  | rest r =>
    simp only [hr, Option.some.injEq, List.isEmpty_eq_false_iff] at h
    have := Run.det hD (run_sound _ _ _ (.rest r) hr)
    simp only [Out.rest.injEq] at this
    exact h this.symm

/-- **recognise_iff_derives**: an answer of the recogniser is `true` exactly for the documents of the grammar -/
theorem recognise_iff_derives (toks : List Token) (eofPos : Nat) (b : Bool) (h : recogniseToks toks = some b) :
    b = true ↔ ∃ d, DerivesDoc toks eofPos d := by
  cases b with
  | true => exact ⟨fun _ => recognise_sound toks eofPos h, fun _ => rfl⟩
  | false => exact ⟨fun hb => Bool.noConfusion hb, fun hd => absurd hd (recognise_reject_sound toks eofPos h)⟩

/-- completeness modulo fuel: a document of the grammar is never rejected -/
theorem derives_recognise (toks : List Token) (eofPos : Nat) (d : Document) (h : DerivesDoc toks eofPos d) :
    recogniseToks toks = some true ∨ recogniseToks toks = none := by
  cases hr : recogniseToks toks with
  | none => exact .inr rfl
  | some b =>
    cases b with
    | true => exact .inl rfl
    | false => exact absurd ⟨d, h⟩ (recognise_reject_sound toks eofPos hr)

/-- with some amount of fuel the interpreter does accept every document of the grammar, and stays accepting -/
theorem derives_run (toks : List Token) (eofPos : Nat) (d : Document) (h : DerivesDoc toks eofPos d) :
    ∃ N, ∀ n, N ≤ n → run n (.nt .document) toks = .rest [] :=
  run_complete (derivesDoc_run h)

/-- the recogniser against M: an answer `true` ⇔ M accepts without going through a malformed type reference -/
theorem recognise_iff_parser (toks : List Token) (eofPos : Nat) (b : Bool) (h : recogniseToks toks = some b) :
    b = true ↔ ∃ d, parseToks toks eofPos = .ok ⟨d, false⟩ := by
  rw [recognise_iff_derives toks eofPos b h]
  exact ⟨fun ⟨d, hd⟩ => ⟨d, parseToks_complete hd⟩, fun ⟨d, hd⟩ => ⟨d, parseToks_sound hd⟩⟩

/-! ## Termination -/

/-- **Progress.** Every loop of M runs on `|tokens left| + 1` units of fuel and every recursion on the same amount;
this always suffices: M never reports fuel exhaustion, on any token list. -/
theorem parse_progress (all : List Token) : parseTokens all ≠ .error .fuel :=
  parseTokens_ne_fuel all

theorem parse_progress_toks (toks : List Token) (eofPos : Nat) : parseToks toks eofPos ≠ .error .fuel :=
  parseToks_ne_fuel toks eofPos

/-- the fuelled recursions never run dry when given more fuel than tokens left … -/
theorem parseValue_progress (c : Bool) (n : Nat) (σ : PState) (h : σ.toks.length < n) :
    parseValueLiteral c n σ ≠ .error .fuel :=
  (parseValueLiteral_nf c n σ.toks.length h).nf σ (Nat.le_refl _)

theorem parseType_progress (n : Nat) (σ : PState) (h : σ.toks.length < n) : parseTypeFuel n σ ≠ .error .fuel :=
  (parseTypeFuel_nf n σ.toks.length h).nf σ (Nat.le_refl _)

theorem parseSelectionSet_progress (n : Nat) (σ : PState) (h : σ.toks.length < n) :
    parseSelectionSetFuel n σ ≠ .error .fuel :=
  (parseSelectionSetFuel_nf n σ.toks.length h).nf σ (Nat.le_refl _)

/-! ## Locations: every node runs from the start of its first token to the end of its last token -/

theorem value_loc_delimits {c : Bool} {p : Pos} {v : Value} {p' : Pos} (h : DValue c p v p') : DelimitedBy p p' v.loc := by
  refine delimited_of (DValue.span h) (DValue.lt h) ?_
  cases h <;> try rfl
  case var h => cases h; rfl

theorem type_loc_delimits {p : Pos} {t : TypeRef} {p' : Pos} (h : DType p t p') : DelimitedBy p p' t.loc := by
  refine delimited_of (DType.span h) (DType.lt h) ?_
  cases h with
  | plain hb _ =>
    cases hb with
    | named hn => cases hn; rfl
    | list _ _ _ => rfl
  | nonNull _ _ => rfl

theorem argument_loc_delimits {p : Pos} {a : Argument} {p' : Pos} (h : DArgument p a p') : DelimitedBy p p' a.loc := by
  refine delimited_of (dargument_span h) (dargument_lt h) ?_
  cases h; rfl

theorem directive_loc_delimits {p : Pos} {d : Directive} {p' : Pos} (h : DDirective p d p') : DelimitedBy p p' d.loc := by
  refine delimited_of (ddirective_span h) (ddirective_lt h) ?_
  cases h; rfl

theorem selection_loc_delimits {p : Pos} {s : Selection} {p' : Pos} (h : DSelection p s p') : DelimitedBy p p' s.loc := by
  refine delimited_of (DSelection.span h) (DSelection.lt h) ?_
  cases h <;> rfl

theorem selectionSet_loc_delimits {p : Pos} {s : SelectionSet} {p' : Pos} (h : DSelectionSet p s p') :
    DelimitedBy p p' s.loc := by
  refine delimited_of (DSelectionSet.span h) (DSelectionSet.lt h) ?_
  cases h; rfl

theorem varDef_loc_delimits {p : Pos} {v : VarDef} {p' : Pos} (h : DVarDef p v p') : DelimitedBy p p' v.loc := by
  refine delimited_of (dvarDef_span h) (dvarDef_lt h) ?_
  cases h; rfl

theorem fieldDef_loc_delimits {p : Pos} {d : FieldDef} {p' : Pos} (h : DFieldDef p d p') : DelimitedBy p p' d.loc := by
  refine delimited_of (dfieldDef_span h) (dfieldDef_lt h) ?_
  cases h; rfl

theorem inputValueDef_loc_delimits {p : Pos} {d : InputValueDef} {p' : Pos} (h : DInputValueDef p d p') :
    DelimitedBy p p' d.loc := by
  refine delimited_of (dinputValueDef_span h) (dinputValueDef_lt h) ?_
  cases h; rfl

theorem definition_loc_delimits {p : Pos} {d : Definition} {p' : Pos} (h : DDefinition p d p') : DelimitedBy p p' d.loc := by
  refine delimited_of (ddefinition_span h) (ddefinition_lt h) ?_
  cases h <;> try rfl
  case object h => cases h; rfl

/-- `loc.start` is the start of the node's first token (stated for values, types, selections and definitions;
the other node kinds are the `…_loc_delimits` theorems above) -/
theorem loc_start_is_first_token {p : Pos} {d : Definition} {p' : Pos} (h : DDefinition p d p') :
    ∃ first rest, p.ts = first :: rest ∧ d.loc.start = first.start := by
  obtain ⟨consumed, first, last, h1, h2, _, h4, _⟩ := definition_loc_delimits h
  cases consumed with
  | nil => simp at h2
  | cons c r =>
    simp only [List.head?_cons, Option.some.injEq] at h2
    subst h2
    exact ⟨c, r ++ p'.ts, by rw [h1]; rfl, h4⟩

/-- `loc.stop` is the end of the last token the node consumed -/
theorem loc_stop_is_last_token {p : Pos} {d : Definition} {p' : Pos} (h : DDefinition p d p') :
    ∃ front last, p.ts = front ++ last :: p'.ts ∧ d.loc.stop = last.stop := by
  obtain ⟨consumed, first, last, h1, _, h3, _, h5⟩ := definition_loc_delimits h
  obtain ⟨front, rfl⟩ : ∃ front, consumed = front ++ [last] := by
    have hne : consumed ≠ [] := by intro he; subst he; simp at h3
    refine ⟨consumed.dropLast, ?_⟩
    have := List.dropLast_concat_getLast hne
    rw [List.getLast?_eq_some_getLast hne] at h3
    simp only [Option.some.injEq] at h3
    rw [← h3]; exact this.symm
  exact ⟨front, last, by rw [h1]; simp, h5⟩

/-- through soundness: the location M (hence, by the correspondence, the real parser) gives a value it parsed -/
theorem parsed_value_loc (c : Bool) (σ : PState) (v : Value) (σ' : PState) (h : parseValue c σ = .ok (v, σ')) :
    DelimitedBy σ.pos σ'.pos v.loc :=
  value_loc_delimits (parseValue_snd c σ v σ' h).1

/-- the document's location: first token start … EOF offset -/
theorem document_loc {toks : List Token} {eofPos : Nat} {d : Document} (h : DerivesDoc toks eofPos d) :
    ∃ first rest, toks = first :: rest ∧ d.loc = ⟨first.start, eofPos⟩ := by
  cases h with
  | mk hM hne =>
    cases hM with
    | nil => exact absurd rfl hne
    | cons hD _ =>
      have := ddefinition_ne hD
      cases toks with
      | nil => exact absurd rfl this
      | cons t r => exact ⟨t, r, rfl, rfl⟩

/-! ## The description child (`Description.Loc`)

The shared AST keeps a description's value; its location is determined by the node's: the description IS the token the
described node starts with (a STRING / BLOCK_STRING token with exactly that value), so `Description.Loc`, which
`parseStringLiteral` sets to that token's extent, is `[node.loc.start, that token's stop)` — computed by
`GqlModel.descLoc` and compared with the real AST's on every accepted case.  One theorem per describable production
(top-level definitions incl. the object definition inside `extend`, fields, arguments / input fields, enum values,
directive definitions). -/

theorem inputValueDef_description_loc {p : Pos} {d : InputValueDef} {p' : Pos} (h : DInputValueDef p d p') :
    DescriptionIsFirstToken p d.description d.loc := dinputValueDef_desc h

theorem fieldDef_description_loc {p : Pos} {d : FieldDef} {p' : Pos} (h : DFieldDef p d p') :
    DescriptionIsFirstToken p d.description d.loc := dfieldDef_desc h

theorem enumValueDef_description_loc {p : Pos} {d : EnumValueDef} {p' : Pos} (h : DEnumValueDef p d p') :
    DescriptionIsFirstToken p d.description d.loc := denumValueDef_desc h

/-- object definitions, at top level and inside `extend` -/
theorem objectDef_description_loc {p : Pos} {d : ObjectDef} {p' : Pos} (h : DObjectDef p d p') :
    DescriptionIsFirstToken p d.description d.loc := dobjectDef_desc h

/-- scalar, object, interface, union, enum, input object and directive definitions -/
theorem definition_description_loc {p : Pos} {d : Definition} {p' : Pos} (h : DDefinition p d p') :
    DescriptionIsFirstToken p d.ownDescription d.loc := ddefinition_desc h

/-- what the driver computes for a described node is the extent of that token (no earlier token of the list starts at
the same offset: start offsets of a lexer output increase) -/
theorem description_loc_is_token_extent {p : Pos} {desc : Option String} {l : Loc} (h : DescriptionIsFirstToken p desc l)
    (pre : List Token) (hd : ∀ u ∈ pre, u.start ≠ l.start) (s : String) (hs : desc = some s) :
    ∃ t r, p.ts = t :: r ∧ (t.kind = .string ∨ t.kind = .blockString) ∧ t.value = s ∧
      descLoc (pre ++ p.ts) desc l = [some ⟨t.start, t.stop⟩] := descLoc_eq h pre hd s hs

/-- `scalar Date "the doc" type T { "field doc" a: Int }` (the tokens of): M's AST, and the two description locations
`[12,21)` and `[31,42)` -/
example :
    (match parseTokens descSample with
     | .ok p => p.doc.defs.flatMap (·.descLocs descSample)
     | .error _ => []) = [some ⟨12, 21⟩, some ⟨31, 42⟩] := by decide

/-! ## Non-vacuity -/

/-- the hypotheses of `parser_sound_partial` / `parser_complete` are satisfiable: a two-definition document is
accepted without the flag, hence derivable, and both renderings of the grammar agree -/
example : verdict sampleDoc 112 = some false ∧ recogniseToks sampleDoc = some true := by decide

example : ∃ d, DerivesDoc sampleDoc 112 d := by
  have h : verdict sampleDoc 112 = some false := by decide
  unfold verdict at h
  cases hp : parseToks sampleDoc 112 with
  | error e => simp [hp] at h
  | ok p =>
    obtain ⟨d, b⟩ := p
    simp only [hp, Option.some.injEq] at h
    subst h
    exact ⟨d, parseToks_sound hp⟩

end GqlModel.Parser
