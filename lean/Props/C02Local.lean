import GqlProofs.Validate
import GqlProofs.ValidateInput
/-! # C02 (local rules): the stateful visitors compute the declarative predicates; the type-directed rules say what
their names promise.

`…_M` = the rule as coded in /repo/rules.go (a fold over the projected traversal with the rule's private state),
`…_S` = the rule as the spec edition states it; both in `GqlModel/Validate/Local.lean`. The tie of `…_M` to the real
code is the per-rule correspondence of harness/cmd/c02 (multiset of errors with the locations of their nodes).

Full statement of C02 for one local rule R:  `∀ s d, R_M s d = [] ↔ R holds of (s, d)`  and every reported node is an
offending node. It is proved below for the six stateful rules and for LoneAnonymousOperation; for
UniqueOperationNames the code deviates (two anonymous operations are reported as "operation named \"\"" ), so the
exact characterisation of the code is proved, the spec statement under the hypothesis that excludes the deviation,
and a witness that the deviation is real. For the type-directed rules the declarative predicate is the definition
(`R_S`); the `…_iff` theorems unfold it to the statement over the typed items of the document. -/
namespace GqlModel.Validate

/-! ## UniqueArgumentNames: `knownArgNames`, reset on Field and Directive enter -/

/-- the name nodes of the argument list an item owns -/
def argNamesOf : Item → Option (List Name)
  | .field _ _ args _ _ => some (args.map (·.name))
  | .directive _ _ dir => some (dir.args.map (·.name))
  | _ => none

theorem argLists_names (s : Schema) (d : Document) :
    (argLists s d).map (fun args => args.map (·.name)) = (items s d).filterMap argNamesOf := by
  unfold argLists
  rw [List.map_filterMap]
  congr 1
  funext it
  cases it <;> rfl

/-- the stateful visitor reports exactly the per-argument-list duplicate reports, in order -/
theorem uniqueArgumentNames_M_eq_S (s : Schema) (d : Document) :
    uniqueArgumentNames_M s d = uniqueArgumentNames_S s d := by
  unfold uniqueArgumentNames_M uniqueArgumentNames_S
  have hstep : uanStep = groupStep "UniqueArgumentNames" argNamesOf := by
    funext st it
    cases it <;> simp [uanStep, groupStep, argNamesOf, List.foldl_map]
  rw [hstep, foldl_groups]
  rw [← argLists_names]
  simp [List.flatMap_map]

/-- C02 for UniqueArgumentNames, full strength: nothing is reported iff the arguments of every field and of every
directive of the document are uniquely named -/
theorem uniqueArgumentNames_iff (s : Schema) (d : Document) :
    uniqueArgumentNames_M s d = [] ↔ ∀ args ∈ argLists s d, (args.map (·.name.value)).Nodup := by
  rw [uniqueArgumentNames_M_eq_S]
  unfold uniqueArgumentNames_S
  simp only [List.flatMap_eq_nil_iff, dupErrs_eq_nil, List.map_map]
  rfl

/-- location soundness: every error names an argument whose name an EARLIER argument of the same list has -/
theorem uniqueArgumentNames_sound (s : Schema) (d : Document) (e : VErr) (h : e ∈ uniqueArgumentNames_M s d) :
    ∃ args ∈ argLists s d, ∃ pre x post f, args.map (·.name) = pre ++ x :: post ∧ f ∈ pre ∧ f.value = x.value ∧
      e = ⟨"UniqueArgumentNames", [f.loc, x.loc]⟩ := by
  rw [uniqueArgumentNames_M_eq_S] at h
  unfold uniqueArgumentNames_S at h
  obtain ⟨args, ha, he⟩ := List.mem_flatMap.1 h
  exact ⟨args, ha, dupErrs_sound _ _ e he⟩

/-! ## UniqueVariableNames: `knownVariableNames`, reset on OperationDefinition enter -/

def varNamesOf : Definition → Option (List Name)
  | .operation _ _ vars _ _ _ => some (vars.map (·.var))
  | _ => none

theorem varLists_names (d : Document) :
    (varLists d).map (fun vars => vars.map (·.var)) = d.defs.filterMap varNamesOf := by
  unfold varLists
  rw [List.map_filterMap]
  congr 1
  funext df
  cases df <;> rfl

theorem uniqueVariableNames_M_eq_S (s : Schema) (d : Document) :
    uniqueVariableNames_M s d = uniqueVariableNames_S s d := by
  unfold uniqueVariableNames_M uniqueVariableNames_S
  have hstep : uvnStep = groupStep "UniqueVariableNames" varNamesOf := by
    funext st df
    cases df <;> simp [uvnStep, groupStep, varNamesOf, List.foldl_map]
  rw [hstep, foldl_groups]
  rw [← varLists_names]
  simp [List.flatMap_map]

/-- C02 for UniqueVariableNames: nothing is reported iff every operation's variables are uniquely named -/
theorem uniqueVariableNames_iff (s : Schema) (d : Document) :
    uniqueVariableNames_M s d = [] ↔ ∀ vars ∈ varLists d, (vars.map (·.var.value)).Nodup := by
  rw [uniqueVariableNames_M_eq_S]
  unfold uniqueVariableNames_S
  simp only [List.flatMap_eq_nil_iff, dupErrs_eq_nil, List.map_map]
  rfl

theorem uniqueVariableNames_sound (s : Schema) (d : Document) (e : VErr) (h : e ∈ uniqueVariableNames_M s d) :
    ∃ vars ∈ varLists d, ∃ pre x post f, vars.map (·.var) = pre ++ x :: post ∧ f ∈ pre ∧ f.value = x.value ∧
      e = ⟨"UniqueVariableNames", [f.loc, x.loc]⟩ := by
  rw [uniqueVariableNames_M_eq_S] at h
  unfold uniqueVariableNames_S at h
  obtain ⟨vars, ha, he⟩ := List.mem_flatMap.1 h
  exact ⟨vars, ha, dupErrs_sound _ _ e he⟩

/-! ## UniqueFragmentNames: one `knownFragmentNames` map for the document -/

def fragNameOf : Definition → Option Name
  | .fragment nm _ _ _ _ => some nm
  | _ => none

theorem uniqueFragmentNames_M_eq_S (s : Schema) (d : Document) :
    uniqueFragmentNames_M s d = uniqueFragmentNames_S s d := by
  unfold uniqueFragmentNames_M uniqueFragmentNames_S
  have hstep : ufnStep = selectStep "UniqueFragmentNames" fragNameOf := by
    funext st df
    cases df <;> rfl
  rw [hstep, foldl_select, foldl_uniqStep]
  have : d.defs.filterMap fragNameOf = fragmentNames d := by
    unfold fragmentNames
    apply filterMap_congr'
    intro df _
    cases df <;> rfl
  simp [this, dupErrs]

/-- C02 for UniqueFragmentNames: nothing is reported iff the fragment definitions are uniquely named -/
theorem uniqueFragmentNames_iff (s : Schema) (d : Document) :
    uniqueFragmentNames_M s d = [] ↔ ((fragmentNames d).map (·.value)).Nodup := by
  rw [uniqueFragmentNames_M_eq_S]
  exact dupErrs_eq_nil _ _

theorem uniqueFragmentNames_sound (s : Schema) (d : Document) (e : VErr) (h : e ∈ uniqueFragmentNames_M s d) :
    ∃ pre x post f, fragmentNames d = pre ++ x :: post ∧ f ∈ pre ∧ f.value = x.value ∧
      e = ⟨"UniqueFragmentNames", [f.loc, x.loc]⟩ := by
  rw [uniqueFragmentNames_M_eq_S] at h
  exact dupErrs_sound _ _ e h

/-! ## UniqueOperationNames: `knownOperationNames`, keyed by `""` for anonymous operations -/

/-- the key node the code files an operation under: its name node, or (anonymous) the operation itself under `""` -/
def opKeyOf : Definition → Option Name
  | .operation _ (some nm) _ _ _ _ => some nm
  | .operation _ none _ _ _ lc => some ⟨"", lc⟩
  | _ => none

def opKeys (d : Document) : List Name := d.defs.filterMap opKeyOf

theorem uniqueOperationNames_M_eq (s : Schema) (d : Document) :
    uniqueOperationNames_M s d = dupErrs "UniqueOperationNames" (opKeys d) := by
  unfold uniqueOperationNames_M
  have hstep : uonStep = selectStep "UniqueOperationNames" opKeyOf := by
    funext st df
    cases df with
    | operation op nm vars dirs sel lc => cases nm <;> rfl
    | _ => rfl
  rw [hstep, foldl_select, foldl_uniqStep]
  simp [dupErrs, opKeys]

/-- exact characterisation of the code: nothing is reported iff the keys — names, and `""` per anonymous operation —
are pairwise distinct -/
theorem uniqueOperationNames_M_iff (s : Schema) (d : Document) :
    uniqueOperationNames_M s d = [] ↔ ((opKeys d).map (·.value)).Nodup := by
  rw [uniqueOperationNames_M_eq]
  exact dupErrs_eq_nil _ _

/-- the rule as specified: named operations are uniquely named -/
theorem uniqueOperationNames_S_iff (s : Schema) (d : Document) :
    uniqueOperationNames_S s d = [] ↔ ((operationNames d).map (·.value)).Nodup := dupErrs_eq_nil _ _

/-- deviation class: more than one anonymous operation -/
def anonymousOps (d : Document) : List Loc :=
  d.defs.filterMap (fun | .operation _ none _ _ _ lc => some lc | _ => none)

/- Full statement (FALSE on the pinned tree, see `uniqueOperationNames_deviation`):
   `∀ s d, uniqueOperationNames_M s d = [] ↔ ((operationNames d).map (·.value)).Nodup` -/

/-- C02 for UniqueOperationNames outside the deviation class: for documents without anonymous operations the code
reports nothing iff the operations are uniquely named -/
theorem uniqueOperationNames_iff_partial (s : Schema) (d : Document) (h : anonymousOps d = []) :
    uniqueOperationNames_M s d = [] ↔ ((operationNames d).map (·.value)).Nodup := by
  rw [uniqueOperationNames_M_iff]
  have : opKeys d = operationNames d := by
    unfold opKeys operationNames
    unfold anonymousOps at h
    rw [List.filterMap_eq_nil_iff] at h
    apply filterMap_congr'
    intro df hdf
    have := h df hdf
    cases df with
    | operation op nm vars dirs sel lc =>
      cases nm with
      | none => simp at this
      | some nm => rfl
    | _ => rfl
  rw [this]

/-- the deviation is real: two anonymous operations satisfy the rule as specified, the code reports them -/
theorem uniqueOperationNames_deviation :
    ∃ d : Document, ∀ s, uniqueOperationNames_S s d = [] ∧ uniqueOperationNames_M s d ≠ [] :=
  ⟨⟨[.operation .query none [] [] (.mk [] ⟨0, 5⟩) ⟨0, 5⟩, .operation .query none [] [] (.mk [] ⟨6, 11⟩) ⟨6, 11⟩], ⟨0, 11⟩⟩,
   fun s => ⟨(uniqueOperationNames_S_iff s _).2 (by decide),
     fun h => absurd ((uniqueOperationNames_M_iff s _).1 h) (by decide)⟩⟩

theorem uniqueOperationNames_sound (s : Schema) (d : Document) (e : VErr) (h : e ∈ uniqueOperationNames_M s d) :
    ∃ pre x post f, opKeys d = pre ++ x :: post ∧ f ∈ pre ∧ f.value = x.value ∧
      e = ⟨"UniqueOperationNames", [f.loc, x.loc]⟩ := by
  rw [uniqueOperationNames_M_eq] at h
  exact dupErrs_sound _ _ e h

/-! ## LoneAnonymousOperation: `operationCount` computed on Document enter -/

theorem opCount_eq_fold (d : Document) : d.defs.foldl countStep 0 = opCount d := by
  unfold opCount
  suffices h : ∀ (l : List Definition) (k : Nat), l.foldl countStep k = k + (l.filter isOperation).length by
    simpa using h d.defs 0
  intro l
  induction l with
  | nil => simp
  | cons df rest ih =>
    intro k
    simp only [List.foldl_cons, List.filter_cons]
    rw [ih]
    cases df <;> simp [countStep, isOperation] <;> omega

theorem loneAnonymousOperation_M_eq_S (s : Schema) (d : Document) :
    loneAnonymousOperation_M s d = loneAnonymousOperation_S s d := by
  unfold loneAnonymousOperation_M loneAnonymousOperation_S
  rw [opCount_eq_fold]
  suffices h : ∀ (l : List Definition) (errs : List VErr),
      l.foldl (loneStep (opCount d)) errs = errs ++ l.filterMap (loneErr (opCount d)) by
    simpa using h d.defs []
  intro l
  induction l with
  | nil => simp
  | cons df rest ih =>
    intro errs
    simp only [List.foldl_cons, List.filterMap_cons]
    rw [ih]
    cases df with
    | operation op nm vars dirs sel lc =>
      cases nm with
      | none => by_cases hc : opCount d > 1 <;> simp [loneStep, loneErr, hc]
      | some nm => simp [loneStep, loneErr]
    | _ => simp [loneStep, loneErr]

/-- C02 for LoneAnonymousOperation: nothing is reported iff an anonymous operation, if present, is the only
operation of the document -/
theorem loneAnonymousOperation_iff (s : Schema) (d : Document) :
    loneAnonymousOperation_M s d = [] ↔ (anonymousOps d = [] ∨ opCount d ≤ 1) := by
  rw [loneAnonymousOperation_M_eq_S]
  unfold loneAnonymousOperation_S anonymousOps
  by_cases hc : opCount d > 1
  · have : ¬ opCount d ≤ 1 := by omega
    simp only [this, or_false, List.filterMap_eq_nil_iff]
    constructor
    · intro h df hdf
      have := h df hdf
      cases df with
      | operation op nm vars dirs sel lc => cases nm <;> simp_all [loneErr]
      | _ => rfl
    · intro h df hdf
      have := h df hdf
      cases df with
      | operation op nm vars dirs sel lc => cases nm <;> simp_all [loneErr]
      | _ => rfl
  · have h1 : opCount d ≤ 1 := by omega
    simp only [h1, or_true, iff_true]
    rw [List.filterMap_eq_nil_iff]
    intro df _
    cases df with
    | operation op nm vars dirs sel lc => cases nm <;> simp [loneErr, hc]
    | _ => rfl

/-- location soundness: every reported node is an anonymous operation of a document with several operations -/
theorem loneAnonymousOperation_sound (s : Schema) (d : Document) (e : VErr) (h : e ∈ loneAnonymousOperation_M s d) :
    ∃ lc ∈ anonymousOps d, opCount d > 1 ∧ e = ⟨"LoneAnonymousOperation", [lc]⟩ := by
  rw [loneAnonymousOperation_M_eq_S] at h
  unfold loneAnonymousOperation_S at h
  obtain ⟨df, hdf, he⟩ := List.mem_filterMap.1 h
  cases df with
  | operation op nm vars dirs sel lc =>
    cases nm with
    | none =>
      by_cases hc : opCount d > 1
      · simp only [loneErr, hc, if_true, Option.some.injEq] at he
        refine ⟨lc, ?_, hc, he.symm⟩
        unfold anonymousOps
        exact List.mem_filterMap.2 ⟨_, hdf, rfl⟩
      · simp [loneErr, hc] at he
    | some nm => simp [loneErr] at he
  | _ => simp [loneErr] at he

/-! ## UniqueInputFieldNames: `knownNameStack` -/

/-- C02 for UniqueInputFieldNames, full strength: the visitor with its stack of name maps reports nothing iff the
fields of every input-object literal of the document, at any nesting depth, are uniquely named -/
theorem uniqueInputFieldNames_iff (s : Schema) (d : Document) :
    uniqueInputFieldNames_M s d = [] ↔
      ∀ fs ∈ (topValues s d).flatMap objectsDeep, (fs.map (·.name.value)).Nodup :=
  uniqueInputFieldNames_M_nil_iff s d

/-- the stack discipline: the visitor's report is the recursive report `valueErrs` of each top-level value — entering
an object saves the enclosing object's names, leaving restores them, whatever is nested in between -/
theorem uniqueInputFieldNames_M_eq (s : Schema) (d : Document) :
    uniqueInputFieldNames_M s d = (topValues s d).flatMap valueErrs :=
  uniqueInputFieldNames_M_eq_rec s d

/-- location soundness: every error names a field of some object literal of the document whose name an earlier
field of the same literal has -/
theorem uniqueInputFieldNames_sound (s : Schema) (d : Document) (e : VErr) (h : e ∈ uniqueInputFieldNames_M s d) :
    ∃ fs ∈ (topValues s d).flatMap objectsDeep, ∃ pre x post f,
      fs.map (·.name) = pre ++ x :: post ∧ f ∈ pre ∧ f.value = x.value ∧ e = ⟨"UniqueInputFieldNames", [f.loc, x.loc]⟩ :=
  uniqueInputFieldNames_M_sound s d e h

/-- and the reports are the same errors as the spec's (as sets) -/
theorem uniqueInputFieldNames_mem_iff (s : Schema) (d : Document) (e : VErr) :
    e ∈ uniqueInputFieldNames_M s d ↔ e ∈ uniqueInputFieldNames_S s d :=
  uniqueInputFieldNames_M_mem_iff_S s d e

/-! ## Type-directed rules: what "no error" means over the typed items -/

/-- `DefaultTypeInfoFieldDef` unfolded: a field name is defined on a parent type iff it is a root meta field on the
query type, `__typename` on a composite type, or a declared field of the object / interface -/
theorem fieldDef?_isSome_iff (s : Schema) (parent field : String) :
    (s.fieldDef? parent field).isSome ↔
      ((field = "__schema" ∨ field = "__type") ∧ parent = s.query) ∨ (field = "__typename" ∧ s.compositeT parent = true)
      ∨ ∃ f ∈ s.fieldsOf parent, f.name = field := by
  unfold Schema.fieldDef?
  by_cases h1 : field = "__schema" ∧ parent = s.query
  · simp [h1.1, h1.2]
  by_cases h2 : field = "__type" ∧ parent = s.query
  · simp [h2.1, h2.2]
  by_cases h3 : field = "__typename" ∧ s.compositeT parent = true
  · have : ¬ (field = "__schema") := by rw [h3.1]; decide
    have : ¬ (field = "__type") := by rw [h3.1]; decide
    simp_all
  · have e1 : (field == "__schema" && parent == s.query) = false := by
      simp only [Bool.and_eq_false_iff, beq_eq_false_iff_ne, ne_eq]
      by_cases hf : field = "__schema"
      · right; intro hp; exact h1 ⟨hf, hp⟩
      · left; exact hf
    have e2 : (field == "__type" && parent == s.query) = false := by
      simp only [Bool.and_eq_false_iff, beq_eq_false_iff_ne, ne_eq]
      by_cases hf : field = "__type"
      · right; intro hp; exact h2 ⟨hf, hp⟩
      · left; exact hf
    have e3 : (field == "__typename" && s.compositeT parent) = false := by
      simp only [Bool.and_eq_false_iff, beq_eq_false_iff_ne, ne_eq]
      by_cases hf : field = "__typename"
      · right
        cases hc : s.compositeT parent with
        | false => rfl
        | true => exact absurd ⟨hf, hc⟩ h3
      · left; exact hf
    simp only [e1, e2, e3, Bool.false_eq_true, if_false, List.find?_isSome, beq_iff_eq]
    constructor
    · intro h; exact Or.inr (Or.inr h)
    · rintro (⟨hf, hp⟩ | h | h)
      · rcases hf with hf | hf
        · exact absurd ⟨hf, hp⟩ h1
        · exact absurd ⟨hf, hp⟩ h2
      · exact absurd h h3
      · exact h

/-- FieldsOnCorrectType: no error iff every field selected under a composite parent type is a field of that type
(see `fieldDef?_isSome_iff`: a declared field, `__typename`, or a root meta field) -/
theorem fieldsOnCorrectType_iff (s : Schema) (d : Document) :
    fieldsOnCorrectType_S s d = [] ↔
      ∀ c nm args sel lc, Item.field c nm args sel lc ∈ items s d → c.parent.isSome → c.fieldDef.isSome := by
  unfold fieldsOnCorrectType_S
  rw [List.filterMap_eq_nil_iff]
  constructor
  · intro h c nm args sel lc hm hp
    have := h _ hm
    cases hfd : c.fieldDef with
    | some fd => rfl
    | none => simp [hp, hfd] at this
  · intro h it hit
    cases it with
    | field c nm args sel lc =>
      have := h c nm args sel lc hit
      by_cases hp : c.parent.isSome
      · have := this hp
        cases hfd : c.fieldDef with
        | some fd => simp [hfd]
        | none => simp [hfd] at this
      · simp [hp]
    | _ => rfl

/-- ScalarLeafs: no error iff every field whose type is known has a selection set exactly when its named type is
not a leaf type -/
theorem scalarLeafs_iff (s : Schema) (d : Document) :
    scalarLeafs_S s d = [] ↔
      ∀ c nm args sel lc t, Item.field c nm args sel lc ∈ items s d → c.ty = some t →
        (sel.isSome ↔ s.leafT t.namedName = false) := by
  unfold scalarLeafs_S
  rw [List.filterMap_eq_nil_iff]
  constructor
  · intro h c nm args sel lc t hm ht
    have := h _ hm
    simp only [ht] at this
    by_cases hl : s.leafT t.namedName = true
    · cases sel <;> simp_all
    · cases sel <;> simp_all
  · intro h it hit
    cases it with
    | field c nm args sel lc =>
      cases ht : c.ty with
      | none => simp [ht]
      | some t =>
        have := h c nm args sel lc t hit ht
        by_cases hl : s.leafT t.namedName = true
        · cases sel <;> simp_all
        · cases sel <;> simp_all
    | _ => rfl

theorem unknownArgs_eq_nil (rule : String) (defs : List ArgDef) (args : List Argument) :
    unknownArgs rule defs args = [] ↔ ∀ a ∈ args, ∃ dd ∈ defs, dd.name = a.name.value := by
  unfold unknownArgs
  rw [List.filterMap_eq_nil_iff]
  constructor
  · intro h a ha
    have := h a ha
    by_cases hd : defs.any (fun dd => dd.name == a.name.value) = true
    · simpa using hd
    · simp [hd] at this
  · intro h a ha
    obtain ⟨dd, hdd, hn⟩ := h a ha
    have : defs.any (fun dd => dd.name == a.name.value) = true := by
      simp only [List.any_eq_true, beq_iff_eq]; exact ⟨dd, hdd, hn⟩
    simp [this]

/-- KnownArgumentNames: no error iff every argument of a field with a known definition, and of a directive the
schema knows, is one of its defined arguments -/
theorem knownArgumentNames_iff (s : Schema) (d : Document) :
    knownArgumentNames_S s d = [] ↔
      (∀ c nm args sel lc fd, Item.field c nm args sel lc ∈ items s d → c.fieldDef = some fd →
          ∀ a ∈ args, ∃ dd ∈ fd.args, dd.name = a.name.value) ∧
      (∀ site c dir dd, Item.directive site c dir ∈ items s d → s.directive? dir.name.value = some dd →
          ∀ a ∈ dir.args, ∃ ad ∈ dd.args, ad.name = a.name.value) := by
  unfold knownArgumentNames_S
  rw [List.flatMap_eq_nil_iff]
  constructor
  · intro h
    refine ⟨?_, ?_⟩
    · intro c nm args sel lc fd hm hfd
      have := h _ hm
      simp only [hfd] at this
      exact (unknownArgs_eq_nil _ _ _).1 this
    · intro site c dir dd hm hdd
      have := h _ hm
      simp only [hdd] at this
      exact (unknownArgs_eq_nil _ _ _).1 this
  · rintro ⟨hf, hd⟩ it hit
    cases it with
    | field c nm args sel lc =>
      cases hfd : c.fieldDef with
      | none => simp [hfd]
      | some fd => simp only [hfd]; exact (unknownArgs_eq_nil _ _ _).2 (hf c nm args sel lc fd hit hfd)
    | directive site c dir =>
      cases hdd : s.directive? dir.name.value with
      | none => simp [hdd]
      | some dd => simp only [hdd]; exact (unknownArgs_eq_nil _ _ _).2 (hd site c dir dd hit hdd)
    | _ => rfl

theorem missingArgs_eq_nil (rule : String) (defs : List ArgDef) (args : List Argument) (lc : Loc) :
    missingArgs rule defs args lc = [] ↔
      ∀ dd ∈ defs, dd.type.isNonNull = true → ∃ a ∈ args, a.name.value = dd.name := by
  unfold missingArgs
  rw [List.filterMap_eq_nil_iff]
  constructor
  · intro h dd hdd hnn
    have := h dd hdd
    by_cases ha : args.any (fun a => a.name.value == dd.name) = true
    · simpa using ha
    · simp [hnn, ha] at this
  · intro h dd hdd
    by_cases hnn : dd.type.isNonNull = true
    · obtain ⟨a, ha, hn⟩ := h dd hdd hnn
      have : args.any (fun a => a.name.value == dd.name) = true := by
        simp only [List.any_eq_true, beq_iff_eq]; exact ⟨a, ha, hn⟩
      simp [this]
    · simp [hnn]

/-- ProvidedNonNullArguments: no error iff every non-null argument of every known field definition and known
directive is supplied -/
theorem providedNonNullArguments_iff (s : Schema) (d : Document) :
    providedNonNullArguments_S s d = [] ↔
      (∀ c nm args sel lc fd, Item.field c nm args sel lc ∈ items s d → c.fieldDef = some fd →
          ∀ dd ∈ fd.args, dd.type.isNonNull = true → ∃ a ∈ args, a.name.value = dd.name) ∧
      (∀ site c dir dd, Item.directive site c dir ∈ items s d → s.directive? dir.name.value = some dd →
          ∀ ad ∈ dd.args, ad.type.isNonNull = true → ∃ a ∈ dir.args, a.name.value = ad.name) := by
  unfold providedNonNullArguments_S
  rw [List.flatMap_eq_nil_iff]
  constructor
  · intro h
    refine ⟨?_, ?_⟩
    · intro c nm args sel lc fd hm hfd
      have := h _ hm
      simp only [hfd] at this
      exact (missingArgs_eq_nil _ _ _ _).1 this
    · intro site c dir dd hm hdd
      have := h _ hm
      simp only [hdd] at this
      exact (missingArgs_eq_nil _ _ _ _).1 this
  · rintro ⟨hf, hd⟩ it hit
    cases it with
    | field c nm args sel lc =>
      cases hfd : c.fieldDef with
      | none => simp [hfd]
      | some fd => simp only [hfd]; exact (missingArgs_eq_nil _ _ _ _).2 (hf c nm args sel lc fd hit hfd)
    | directive site c dir =>
      cases hdd : s.directive? dir.name.value with
      | none => simp [hdd]
      | some dd => simp only [hdd]; exact (missingArgs_eq_nil _ _ _ _).2 (hd site c dir dd hit hdd)
    | _ => rfl

/-- KnownDirectives: no error iff every directive is known to the schema and allowed at the place it stands -/
theorem knownDirectives_iff (s : Schema) (d : Document) :
    knownDirectives_S s d = [] ↔
      ∀ site c dir, Item.directive site c dir ∈ items s d →
        ∃ dd, s.directive? dir.name.value = some dd ∧ site.location ∈ dd.locations := by
  unfold knownDirectives_S
  rw [List.filterMap_eq_nil_iff]
  constructor
  · intro h site c dir hm
    have := h _ hm
    cases hdd : s.directive? dir.name.value with
    | none => simp [hdd] at this
    | some dd =>
      refine ⟨dd, rfl, ?_⟩
      simp only [hdd] at this
      by_cases hl : site.location ∈ dd.locations
      · exact hl
      · exfalso
        simp [hl] at this
  · intro h it hit
    cases it with
    | directive site c dir =>
      obtain ⟨dd, hdd, hl⟩ := h site c dir hit
      simp [hdd, hl]
    | _ => rfl

/-- KnownFragmentNames: no error iff every spread names a fragment defined in the document -/
theorem knownFragmentNames_iff (s : Schema) (d : Document) :
    knownFragmentNames_S s d = [] ↔
      ∀ c nm lc, Item.spread c nm lc ∈ items s d → fragmentDefined d nm.value = true := by
  unfold knownFragmentNames_S
  rw [List.filterMap_eq_nil_iff]
  constructor
  · intro h c nm lc hm
    have := h _ hm
    by_cases hf : fragmentDefined d nm.value = true
    · exact hf
    · simp [hf] at this
  · intro h it hit
    cases it with
    | spread c nm lc => simp [h c nm lc hit]
    | _ => rfl

/-- KnownTypeNames: no error iff every named type written in a variable definition or a type condition is in the
schema's type map -/
theorem knownTypeNames_iff (s : Schema) (d : Document) :
    knownTypeNames_S s d = [] ↔ ∀ p ∈ namedTypeNodes s d, s.known p.1 = true := by
  unfold knownTypeNames_S
  rw [List.filterMap_eq_nil_iff]
  constructor
  · intro h p hp
    have := h p hp
    by_cases hk : s.known p.1 = true
    · exact hk
    · simp [hk] at this
  · intro h p hp
    simp [h p hp]

/-! ## Non-vacuity: the hypotheses / right-hand sides are satisfiable and refutable on concrete documents -/

private def nm (v : String) (a b : Nat) : Name := ⟨v, ⟨a, b⟩⟩
private def argOf (v : String) (a : Nat) : Argument := ⟨nm v a (a + 1), .int "1" ⟨a + 3, a + 4⟩, ⟨a, a + 4⟩⟩
private def emptySchema : Schema := { types := [], query := "Q", mutation := none, subscription := none, directives := [] }
/-- `{ f(a: 1, a: 1) }` -/
private def docDupArgs : Document :=
  ⟨[.operation .query none [] [] (.mk [.field none (nm "f" 2 3) [argOf "a" 4, argOf "a" 10] [] none ⟨2, 15⟩] ⟨0, 17⟩) ⟨0, 17⟩], ⟨0, 17⟩⟩
/-- `{ f(a: 1, b: 1) }` -/
private def docOkArgs : Document :=
  ⟨[.operation .query none [] [] (.mk [.field none (nm "f" 2 3) [argOf "a" 4, argOf "b" 10] [] none ⟨2, 15⟩] ⟨0, 17⟩) ⟨0, 17⟩], ⟨0, 17⟩⟩

example : uniqueArgumentNames_M emptySchema docDupArgs = [⟨"UniqueArgumentNames", [⟨4, 5⟩, ⟨10, 11⟩]⟩] := by decide
example : uniqueArgumentNames_M emptySchema docOkArgs = [] := by decide
example : loneAnonymousOperation_M emptySchema docOkArgs = [] := by decide

end GqlModel.Validate
