import GqlProofs.CoerceSpec
import GqlProofs.CoerceFuel
import GqlProofs.CoerceAgree
import GqlProofs.CoerceArgs
import GqlProofs.CoerceRange
/-! # C05 — Variables and arguments are coerced per declared type before resolvers run

Property theorems only. `M` = the library's functions as modelled in `GqlModel/Coerce.lean`
(`isValidInputValue`, `coerceValue`, `isValidLiteralValue`, `valueFromAST`, `getVariableValues`,
`getArgumentValues`, `planArguments`); `S` = `Coerce.Spec` (the GraphQL input coercion rules, edition without
a `null` literal). All statements hold for every schema, every type (arbitrary list / non-null nesting, nested
and recursive input objects) and every value / literal; the recursion is on fuel that only counts descents into
input-object fields, and the fuel-free functions use `odepth + 1`, which `fuel_bound_*` prove sufficient.

Where S applies (DESIGN §4 C05): `strictlyTyped s v t` for variable values (excludes only the
implementation-defined leniency: booleans / numeric strings / fractions for Int and Float, non-strings for
String, non-booleans for Boolean, non-string-non-integers for ID, and named types that are not input types);
`varsProvided s t lit vars` for literals (variables in non-null positions have a value, named types are input
types). -/
namespace GqlModel.Coerce
open Spec

/-! ## The four recursive functions against the specification -/

/-- `isValidInputValue` accepts exactly the values the specification can coerce. -/
theorem validInput_iff_coercible (s : Schema) (t : GType) (v : JVal) (h : strictlyTyped s v t = true) :
    isValidInputValue s t v = true ↔ ∃ r, Spec.coerceVariable s t (some v) = .ok r :=
  (var_agree s t v h).ok_iff

/-- On accepted values `coerceValue` is the specification's coercion (list-of-one wrapping, nested input
objects with field defaults, enum internal values, custom scalar tables, 32-bit Int). -/
theorem coerceValue_eq_spec (s : Schema) (t : GType) (v : JVal) (h : strictlyTyped s v t = true)
    (hv : isValidInputValue s t v = true) : Spec.coerceVariable s t (some v) = .ok (coerceValue s t v) :=
  (var_agree s t v h).eq_ok hv

/-- Rejected values are exactly the spec's errors (null for non-null, non-numeric / out-of-range Int, unknown enum
value, non-object, unknown or missing field …): nothing is coerced. -/
theorem invalidInput_spec_error (s : Schema) (t : GType) (v : JVal) (h : strictlyTyped s v t = true)
    (hv : isValidInputValue s t v = false) : ∃ e, Spec.coerceVariable s t (some v) = .error e := by
  rcases var_agree s t v h with ⟨h1, _⟩ | ⟨_, e, h2⟩
  · rw [hv] at h1; cases h1
  · exact ⟨e, h2⟩

/-- `isValidLiteralValue` accepts exactly the literals the specification can coerce. -/
theorem validLiteral_iff_coercible (s : Schema) (t : GType) (lit : Option Value) (vars : Vars)
    (h : varsProvided s t lit vars = true) :
    isValidLiteralValue s t lit = true ↔ ∃ r, Spec.coerceLiteral s t lit vars = .ok r :=
  (lit_agree s t lit vars h).ok_iff

/-- On valid literals (with variables inside) `valueFromAST` is the specification's literal coercion. -/
theorem valueFromAST_eq_spec (s : Schema) (t : GType) (lit : Option Value) (vars : Vars)
    (h : varsProvided s t lit vars = true) (hv : isValidLiteralValue s t lit = true) :
    Spec.coerceLiteral s t lit vars = .ok (valueFromAST s t lit vars) :=
  (lit_agree s t lit vars h).eq_ok hv

/-- Supplying a conformant value as an inline literal or through a variable gives the same argument: the four
functions agree pointwise. (`inputFieldsNodup`: Go keeps input fields in a map; `customCoherent`: a custom
scalar's two user functions agree on values that have a literal form.) -/
theorem literal_variable_agree (s : Schema) (hwf : inputFieldsNodup s) (hc : customCoherent s)
    (t : GType) (v : JVal) (vars : Vars) (h : conformant s t v = true) :
    valueFromAST s t (embed s t v) vars = coerceValue s t v :=
  literal_variable_agree' s hwf hc t v vars h

/-- Conformant values are in the domain of the other theorems: strictly typed and accepted. Hence the literal
form of a conformant value evaluates to exactly what the specification coerces the value to. -/
theorem conformant_strict_and_valid (s : Schema) (t : GType) (v : JVal) (h : conformant s t v = true) :
    strictlyTyped s v t = true ∧ isValidInputValue s t v = true :=
  conformant_strict_valid s t v h

theorem literal_form_eq_spec (s : Schema) (hwf : inputFieldsNodup s) (hc : customCoherent s)
    (t : GType) (v : JVal) (vars : Vars) (h : conformant s t v = true) :
    Spec.coerceVariable s t (some v) = .ok (valueFromAST s t (embed s t v) vars) := by
  obtain ⟨h1, h2⟩ := conformant_strict_valid s t v h
  rw [literal_variable_agree s hwf hc t v vars h]
  exact coerceValue_eq_spec s t v h1 h2

/-! ## Variables -/

/-- `getVariableValues` yields a value map iff every declared variable has an input type and a valid value;
otherwise it fails and there is no map (so nothing can be executed with it). -/
theorem uncoercible_vars_error (s : Schema) (defs : List VarDef) (inputs : Vars) :
    (∃ m, getVariableValues s defs inputs = .ok m) ↔
      ∀ d ∈ defs, ∃ tr, d.type = some tr ∧ isInputType s (typeOfRef tr) = true ∧
        isValidInputValue s (typeOfRef tr) (lookupD inputs d.var.value) = true := by
  unfold getVariableValues
  rw [getVariableValuesGo_ok_iff]
  constructor
  · intro h d hd; exact (getVariableValue_ok_iff s d _).mp (h d hd)
  · intro h d hd; exact (getVariableValue_ok_iff s d _).mpr (h d hd)

/-- In terms of the specification: a strictly typed variable value that the spec cannot coerce to the declared
type makes `getVariableValues` fail. -/
theorem spec_uncoercible_var_fails (s : Schema) (defs : List VarDef) (inputs : Vars) (d : VarDef) (tr : TypeRef)
    (hd : d ∈ defs) (ht : d.type = some tr)
    (hs : strictlyTyped s (lookupD inputs d.var.value) (typeOfRef tr) = true)
    (he : ∃ e, Spec.coerceVariable s (typeOfRef tr) (some (lookupD inputs d.var.value)) = .error e) :
    ∃ e, getVariableValues s defs inputs = .error e := by
  cases hg : getVariableValues s defs inputs with
  | error e => exact ⟨e, rfl⟩
  | ok m =>
    obtain ⟨tr', ht', _, hv⟩ := (uncoercible_vars_error s defs inputs).mp ⟨m, hg⟩ d hd
    rw [ht] at ht'; cases ht'
    obtain ⟨r, hr⟩ := (validInput_iff_coercible s _ _ hs).mp hv
    obtain ⟨e, he⟩ := he
    rw [hr] at he; cases he

/-- One variable: value / variable default / error exactly as the specification's CoerceVariableValues. -/
theorem getVariableValue_eq_spec (s : Schema) (d : VarDef) (input : JVal)
    (hs : ∀ tr, d.type = some tr → strictlyTyped s input (typeOfRef tr) = true)
    (hd : ∀ tr dv, d.type = some tr → d.default = some dv →
      isValidLiteralValue s (typeOfRef tr) (some dv) = true ∧ varsProvided s (typeOfRef tr) (some dv) [] = true) :
    (∃ v, getVariableValue s d input = .ok v ∧ Spec.variableValue s d (some input) = .ok v) ∨
    ((∃ e, getVariableValue s d input = .error e) ∧ ∃ e, Spec.variableValue s d (some input) = .error e) :=
  variableValue_agree s d input hs hd

/-! ## Arguments -/

/-- The argument map handed to a resolver is the specification's (literal / variable / variable default /
argument default), for documents whose argument literals are valid (ArgumentsOfCorrectType,
ProvidedNonNullArguments). -/
theorem getArgumentValues_eq_spec (s : Schema) (defs : List ArgDef) (asts : List Argument) (vars : Vars)
    (hvalid : ∀ d ∈ defs, isValidLiteralValue s d.type (argLookup asts d.name) = true)
    (hprov : ∀ d ∈ defs, varsProvided s d.type (argLookup asts d.name) vars = true) :
    Spec.argumentValues s defs asts vars = .ok (getArgumentValues s defs asts vars) :=
  getArgumentValues_eq_spec' s defs asts vars hvalid hprov

/-- Arguments without variables do not depend on the variable map: plan-time pre-coercion is sound. -/
theorem static_args_eq_dynamic (s : Schema) (defs : List ArgDef) (asts : List Argument) (vars : Vars)
    (h : astHasVariables asts = false) :
    getArgumentValues s defs asts vars = getArgumentValues s defs asts [] :=
  getArgumentValues_static s defs asts vars [] h

/-- `planArguments` + the argument switch of `resolvePlannedField` = per-request `getArgumentValues`, always. -/
theorem planned_args_eq (s : Schema) (defs : List ArgDef) (asts : List Argument) (vars : Vars) :
    plannedArgs s (planArguments s defs asts) vars = getArgumentValues s defs asts vars :=
  plannedArgs_eq s defs asts vars

/-- The static/dynamic split scans the whole literal: `hasVars` is true iff a variable occurs anywhere inside
(any depth, any list index, any field position — first, middle or last), so an argument literal that mixes
literal and variable parts is never pre-coerced; together with `planned_args_eq` (which holds for all argument
ASTs, mixed ones included) plan-time pre-coercion can never lose a variable. -/
theorem hasVars_full_scan (l : Value) : hasVars l = true ↔ VarIn l := hasVars_iff_varIn l

theorem astHasVariables_full_scan (asts : List Argument) :
    astHasVariables asts = true ↔ ∃ a ∈ asts, VarIn a.value := astHasVariables_iff' asts

/-- a mixed argument literal is planned as dynamic -/
theorem mixed_literal_is_dynamic (s : Schema) (defs : List ArgDef) (asts : List Argument)
    (h : ∃ a ∈ asts, VarIn a.value) : planArguments s defs asts = .dynamic defs asts := by
  have hv := (astHasVariables_full_scan asts).mpr h
  obtain ⟨a, ha, _⟩ := h
  have hne : asts.isEmpty = false := by cases asts with
    | nil => cases ha
    | cons _ _ => rfl
  simp [planArguments, hv, hne]

/-! ## 32-bit Int -/

/-- Every Int the library coerces — from a variable value of any kind (bool, int, fraction, numeric string) or
from a literal — is within 32 bits. -/
theorem int_range (v : JVal) (l : Value) (i : Int) :
    (parseValue .int v = .int i → minInt32 ≤ i ∧ i ≤ maxInt32) ∧
    (parseLiteral .int l = .int i → minInt32 ≤ i ∧ i ≤ maxInt32) := by
  constructor
  · intro h
    have := coerceInt_range v i h
    simpa [inInt32] using this
  · intro h
    have := parseLiteral_int_range l i h
    simpa [inInt32] using this

/-- Structural version: in the value `coerceValue` produces for any type (lists, non-null, nested input objects),
every position of declared type Int holds null or a 32-bit integer, checked to any depth `m`. Values the library
copies uncoerced from input-field defaults are covered by the schema premise `defaultsInRange`. -/
theorem int_range_everywhere (s : Schema) (hwf : inputFieldsNodup s) (hd : defaultsInRange s)
    (t : GType) (v : JVal) (m : Nat) (hm : odepth v < m) :
    intsInRangeF s m t (coerceValue s t v) = true := by
  rw [← coerceValueF_stable s m t v hm]
  exact coerceValueF_intsInRange s hwf hd m t v

/-! ## Fuel: the bound is explicit and proved (any fuel above the object-nesting depth gives the same result) -/

theorem fuel_bound_coerceValue (s : Schema) (n : Nat) (t : GType) (v : JVal) (h : odepth v < n) :
    coerceValueF s n t v = coerceValue s t v := coerceValueF_stable s n t v h
theorem fuel_bound_isValidInputValue (s : Schema) (n : Nat) (t : GType) (v : JVal) (h : odepth v < n) :
    isValidInputValueF s n t v = isValidInputValue s t v := isValidInputValueF_stable s n t v h
theorem fuel_bound_isValidLiteralValue (s : Schema) (n : Nat) (t : GType) (l : Option Value) (h : optLitDepth l < n) :
    isValidLiteralValueF s n t l = isValidLiteralValue s t l := isValidLiteralValueF_stable s n t l h
theorem fuel_bound_valueFromAST (s : Schema) (vars : Vars) (n : Nat) (t : GType) (l : Option Value)
    (h : optLitDepth l < n) : valueFromASTF s vars n t l = valueFromAST s t l vars :=
  valueFromASTF_stable s vars n t l h
theorem fuel_bound_spec_variable (s : Schema) (n : Nat) (t : GType) (v : JVal) (h : odepth v < n) :
    coerceVariableF s n t v = Spec.coerceVariable s t (some v) := coerceVariableF_stable s n t v h
theorem fuel_bound_spec_literal (s : Schema) (vars : Vars) (n : Nat) (t : GType) (l : Option Value)
    (h : optLitDepth l < n) : coerceLiteralF s vars n t l = Spec.coerceLiteral s t l vars :=
  coerceLiteralF_stable s vars n t l h
theorem fuel_bound_strictlyTyped (s : Schema) (n : Nat) (t : GType) (v : JVal) (h : odepth v < n) :
    strictlyTypedF s n t v = strictlyTyped s v t := strictlyTypedF_stable s n t v h
theorem fuel_bound_varsProvided (s : Schema) (vars : Vars) (n : Nat) (t : GType) (l : Option Value)
    (h : optLitDepth l < n) : varsProvidedF s vars n t l = varsProvided s t l vars :=
  varsProvidedF_stable s vars n t l h

/-! ## Non-vacuity: the hypotheses are satisfiable and the functions do what the examples say -/

section Examples

def exFields : List InputFieldS :=
  [⟨"a", .named "Int", some (.int 5), ""⟩, ⟨"b", .nonNull (.named "Int"), none, ""⟩,
   ⟨"r", .named "In", none, ""⟩, ⟨"l", GType.list (.named "E"), none, ""⟩]
def exTypes : List TypeDef :=
  [.scalar "Int" .int "", .scalar "Float" .float "", .scalar "String" .string "", .scalar "Boolean" .boolean "",
   .scalar "ID" .id "", .enum "E" [⟨"RED", .int 0, "", ""⟩, ⟨"GREEN", .str "g", "", ""⟩] "",
   .scalar "Odd" (.custom [] [(.int 1, .int 1), (.str "3", .int 3)] [(.int 1, .int 1), (.str "3", .int 3)]) "",
   .inputObject "In" exFields ""]
def exSchema : Schema := { types := exTypes, query := "Q", mutation := none, subscription := none, directives := [] }
def L0 : Loc := Loc.none

/-- nested input object through a variable: list-of-one, enum internal value, field default, recursion -/
def exVal : JVal := .obj [("b", .int 1), ("r", .obj [("b", .int 2)]), ("l", .str "RED")]
def exOut : JVal := .obj [("a", .int 5), ("b", .int 1), ("l", .list [.int 0]),
  ("r", .obj [("a", .int 5), ("b", .int 2)])]

example : strictlyTyped exSchema exVal (.named "In") = true := by decide +kernel
example : isValidInputValue exSchema (.named "In") exVal = true := by decide +kernel
example : conformant exSchema (.named "In") exVal = true := by decide +kernel
example : (coerceValue exSchema (.named "In") exVal == exOut) = true := by decide +kernel
example : (valueFromAST exSchema (.named "In") (embed exSchema (.named "In") exVal) [] == exOut) = true := by
  decide +kernel
-- missing required field, unknown field, null in non-null, out-of-range Int, unknown enum value: rejected
example : isValidInputValue exSchema (.named "In") (.obj [("a", .int 1)]) = false := by decide +kernel
example : isValidInputValue exSchema (.named "In") (.obj [("b", .int 1), ("zz", .int 1)]) = false := by decide +kernel
example : isValidInputValue exSchema (.list (.nonNull (.named "Int"))) (.list [.int 1, .null]) = false := by
  decide +kernel
example : isValidInputValue exSchema (.named "Int") (.int 3000000000) = false := by decide +kernel
example : isValidInputValue exSchema (.named "E") (.str "BLUE") = false := by decide +kernel
example : strictlyTyped exSchema (.int 3000000000) (.named "Int") = true := by decide +kernel
-- the spellings ParseFloat reads as NaN / ±Inf are non-numeric values: rejected for Int and Float, in any position
example : strictlyTyped exSchema (.str "NaN") (.named "Int") = true ∧
    isValidInputValue exSchema (.named "Int") (.str "NaN") = false ∧
    isValidInputValue exSchema (.named "Int") (.str "-inf") = false ∧
    isValidInputValue exSchema (.named "Float") (.str "+Inf") = false ∧
    isValidInputValue exSchema (.named "Float") (.str "nan") = false ∧
    isValidInputValue exSchema (.list (.named "Int")) (.list [.int 1, .str "Infinity"]) = false ∧
    isValidInputValue exSchema (.named "In") (.obj [("b", .str "NAN")]) = false := by decide +kernel
-- leniency is outside S
example : strictlyTyped exSchema (.str "5") (.named "Int") = false ∧
    (coerceValue exSchema (.named "Int") (.str "5") == .int 5) = true := by decide +kernel
-- D-05a (repaired): the Int literal 3000000000 is rejected like the variable value
example : isValidLiteralValue exSchema (.named "Int") (some (.int "3000000000" L0)) = false := by decide +kernel
-- D-05b (repaired): a field given as an absent variable takes the field default
example : (valueFromAST exSchema (.named "In")
    (some (.obj [.mk ⟨"a", L0⟩ (.var "v" L0) L0, .mk ⟨"b", L0⟩ (.int "1" L0) L0] L0)) []
    == .obj [("a", .int 5), ("b", .int 1)]) = true := by decide +kernel
example : varsProvided exSchema (.named "In")
    (some (.obj [.mk ⟨"a", L0⟩ (.var "v" L0) L0, .mk ⟨"b", L0⟩ (.int "1" L0) L0] L0)) [] = true := by decide +kernel
-- variables: an uncoercible value gives no map
def exVarDef : VarDef := ⟨⟨"v", L0⟩, L0, some (.nonNull (.named "Int" L0) L0), none, L0⟩
example : (match getVariableValues exSchema [exVarDef] [("v", .str "abc")] with | .ok _ => false | .error _ => true) = true := by
  decide +kernel
example : (match getVariableValues exSchema [exVarDef] [] with | .ok _ => false | .error _ => true) = true := by
  decide +kernel
example : (match getVariableValues exSchema [exVarDef] [("v", .int 7)] with
    | .ok m => JVal.obj m == .obj [("v", .int 7)] | .error _ => false) = true := by decide +kernel
-- an out-of-range Int never gets into a coerced value, whatever its textual form
example : (coerceValue exSchema (.list (.named "Int")) (.list [.int 1, .str "3000000000", .dec 25 1]) ==
    .list [.int 1, .null, .int 2]) = true := by decide +kernel
example : intsInRange exSchema (.named "In") exOut = true := by decide +kernel
example : intsInRange exSchema (.named "In") (.obj [("b", .int 3000000000)]) = false := by decide +kernel
-- static arguments
def exArgDefs : List ArgDef := [⟨"a", GType.list (.named "Int"), none, ""⟩, ⟨"b", .named "Odd", some (.int 1), ""⟩]
def exArgs : List Argument := [⟨⟨"a", L0⟩, .int "7" L0, L0⟩]
example : astHasVariables exArgs = false := by decide +kernel
example : (JVal.obj (getArgumentValues exSchema exArgDefs exArgs [("x", .int 1)])
    == .obj [("a", .list [.int 7]), ("b", .int 1)]) = true := by decide +kernel

-- mixed literal/variable argument: `search(f: {name: "x", tag: $tag, limit: $lim})` — variable in the middle and
-- last field, in a list, nested; planned as dynamic and evaluated with the request's variables
def exMixed : Value := .obj [.mk ⟨"b", L0⟩ (.int "1" L0) L0, .mk ⟨"a", L0⟩ (.var "x" L0) L0,
  .mk ⟨"r", L0⟩ (.obj [.mk ⟨"b", L0⟩ (.int "2" L0) L0, .mk ⟨"l", L0⟩ (.list [.enum "RED" L0, .var "e" L0] L0) L0] L0) L0] L0
def exMixedDefs : List ArgDef := [⟨"f", .named "In", none, ""⟩]
def exMixedArgs : List Argument := [⟨⟨"f", L0⟩, exMixed, L0⟩]
example : hasVars exMixed = true := by decide +kernel
example : hasVars (.obj [.mk ⟨"b", L0⟩ (.int "1" L0) L0, .mk ⟨"a", L0⟩ (.var "x" L0) L0] L0) = true := by decide +kernel
example : hasVars (.list [.int "1" L0, .int "2" L0, .var "x" L0] L0) = true := by decide +kernel
example : (match planArguments exSchema exMixedDefs exMixedArgs with | .dynamic _ _ => true | _ => false) = true := by
  decide +kernel
example : (JVal.obj (plannedArgs exSchema (planArguments exSchema exMixedDefs exMixedArgs) [("x", .int 9), ("e", .str "g")])
    == .obj [("f", .obj [("a", .int 9), ("b", .int 1), ("r", .obj [("a", .int 5), ("b", .int 2), ("l", .list [.int 0, .str "g"])])])]) = true := by
  decide +kernel
example : (JVal.obj (plannedArgs exSchema (planArguments exSchema exMixedDefs exMixedArgs) [])
    == .obj [("f", .obj [("a", .int 5), ("b", .int 1), ("r", .obj [("a", .int 5), ("b", .int 2), ("l", .list [.int 0, .null])])])]) = true := by
  decide +kernel

end Examples

end GqlModel.Coerce
