import GqlProofs.OverlapExec5
import Props.C02Graph
import Props.C06
/-! # C02 ⇒ C06: a document accepted by the overlap rule executes uniformly

`normalized_transparent` (Props/C06.lean) has the premise `ExecUniform`: in the ORIGINAL execution, the field nodes the
executor merges under one response key (at every runtime object type it can reach) have one field name, hereditarily
down the merged sub-selections. The executor model runs unvalidated documents, so this is a premise there. Here it is
DERIVED from validation: for a document on which NoFragmentCycles, UniqueFragmentNames and OverlappingFieldsCanBeMerged
report nothing (plus the decidable side conditions `Overlap.sideB` of `accepted_document_has_no_conflict`) over a
covariant schema (`SchemaCov`, decidable `schemaCovB`: an implementer has the fields of its interface with the same
named type or a possible type of it; object-typed fields refer to declared types; nobody declares `__typename`).

Proof (GqlProofs/OverlapExec{,2,3,4,5}.lean): `Exec.collect` at runtime type `rt` only collects nodes representing
fields of `Overlap.flat` of the selection set whose static parent types ADMIT `rt` (`collect_inv`); two such parents
are never mutually exclusive, so FieldsInSetCanMerge forces one field name (`same_name`); the static type of the field
under any admitted parent agrees with the runtime field type (`subParent_adm`, schema covariance), so the invariant
descends into `collectMerged`, whose universe — the flattened sub-selections of the merged occurrences — is again
pairwise mergeable by the rule's sub-selection clause (`compat_sub`); induction on the depth (`hu_of_ginv`). -/
namespace GqlModel.OverlapExec
open GqlModel GqlModel.Validate GqlModel.Validate.Graph GqlModel.Validate.Overlap GqlModel.Normalize

/-- **accepted ⇒ ExecUniform** (full hereditary statement, in the form `normalized_transparent` consumes) -/
theorem execUniform_of_accepted (s : Schema) (doc : Document) (hcov : SchemaCov s) (hside : sideB s doc = true)
    (hcyc : noFragmentCycles s doc = []) (huniq : uniqueFragNames doc = true)
    (hov : overlappingFieldsCanBeMerged s doc = []) (opName : String) (inputs : Coerce.Vars) (w : Exec.World) :
    ExecUniform s doc opName inputs w :=
  execUniform_of_noConflict s doc hcov (of_decide_eq_true huniq)
    (accepted_document_has_no_conflict s doc hside hcyc huniq hov) opName inputs w

/-- one level, spelled out: the field nodes merged under one response key at the top of the selected operation have
one field name -/
theorem merged_nodes_same_name_of_accepted (s : Schema) (doc : Document) (hcov : SchemaCov s)
    (hside : sideB s doc = true) (hcyc : noFragmentCycles s doc = []) (huniq : uniqueFragNames doc = true)
    (hov : overlappingFieldsCanBeMerged s doc = []) (opName : String) (inputs : Coerce.Vars) (w : Exec.World)
    {op : OpType} {name : Option Name} {vars : List VarDef} {dirs : List Directive} {sel : SelectionSet} {loc : Loc}
    {root : String} {v : Coerce.Vars}
    (hsel : Exec.selectOperation doc opName = .ok (.operation op name vars dirs sel loc))
    (hroot : s.rootFor op.toString = some root) (hv : Coerce.getVariableValues s vars inputs = .ok v) :
    ∀ p, p ∈ (Exec.collect ⟨s, doc.fragments, v, w⟩ root sel ([], [])).1 → Uniform p.2 :=
  fun p hp => ((execUniform_of_accepted s doc hcov hside hcyc huniq hov opName inputs w
    op name vars dirs sel loc root v hsel hroot hv 1) p hp).1

/-- the "identical arguments" half of the rule, one level: the field nodes merged under one response key at the top
of the selected operation have identical argument sets (structural equality of values, locations ignored) -/
theorem merged_nodes_same_args_of_accepted (s : Schema) (doc : Document)
    (hside : sideB s doc = true) (hcyc : noFragmentCycles s doc = []) (huniq : uniqueFragNames doc = true)
    (hov : overlappingFieldsCanBeMerged s doc = []) (opName : String) (w : Exec.World)
    {op : OpType} {name : Option Name} {vars : List VarDef} {dirs : List Directive} {sel : SelectionSet} {loc : Loc}
    {root : String} (v : Coerce.Vars)
    (hsel : Exec.selectOperation doc opName = .ok (.operation op name vars dirs sel loc))
    (hroot : s.rootFor op.toString = some root) :
    ∀ p, p ∈ (Exec.collect ⟨s, doc.fragments, v, w⟩ root sel ([], [])).1 → ∀ n m, n ∈ p.2 → m ∈ p.2 →
      sameArgsS n.args m.args = true :=
  merged_same_args_of_noConflict s doc (of_decide_eq_true huniq)
    (accepted_document_has_no_conflict s doc hside hcyc huniq hov) opName w v hsel hroot

/-- **normalized_transparent without the `ExecUniform` premise**: for a document accepted by the three rules the
normalising plan-cache mode is semantically transparent -/
theorem normalized_transparent_of_accepted (s : Schema) (hcc : customLti s) (hsch : SchemaOK s) (hcov : SchemaCov s)
    (doc doc' : Document) (opName : String) (inputs synth : Coerce.Vars) (w : Exec.World) (fuel : Nat)
    (hnorm : normalizeDocument s doc opName = .ok doc' synth) (hlex : DocLex doc)
    (hside : sideB s doc = true) (hcyc : noFragmentCycles s doc = []) (huniq : uniqueFragNames doc = true)
    (hov : overlappingFieldsCanBeMerged s doc = []) :
    Exec.execute s doc' opName (synth ++ inputs) w fuel = Exec.execute s doc opName inputs w fuel :=
  normalized_transparent s hcc hsch doc doc' opName inputs synth w fuel hnorm hlex
    (execUniform_of_accepted s doc hcov hside hcyc huniq hov opName inputs w)

/-- the same with every schema-side premise in decidable form -/
theorem normalized_transparent_of_accepted_checked (s : Schema) (hs : schemaOKB s = true)
    (hc : noCustomScalarsB s = true) (hcv : schemaCovB s = true)
    (doc doc' : Document) (opName : String) (inputs synth : Coerce.Vars) (w : Exec.World) (fuel : Nat)
    (hnorm : normalizeDocument s doc opName = .ok doc' synth) (hlex : DocLex doc)
    (hside : sideB s doc = true) (hcyc : noFragmentCycles s doc = []) (huniq : uniqueFragNames doc = true)
    (hov : overlappingFieldsCanBeMerged s doc = []) :
    Exec.execute s doc' opName (synth ++ inputs) w fuel = Exec.execute s doc opName inputs w fuel :=
  normalized_transparent_of_accepted s (customLti_of_check s hc) (schemaOK_of_check s hs) (schemaCov_of_check s hcv)
    doc doc' opName inputs synth w fuel hnorm hlex hside hcyc huniq hov

/-! ## non-vacuity: interface with two implementers, a fragment on the interface, different names under one key below
mutually exclusive parents (which `KeysFunctional` rejects but the overlap rule accepts) -/

private def fdS (n : String) (t : GType) : FieldDefS := { name := n, type := t, args := [] }
/-- `type Q { i: I }  interface I { n: Int s: Int }  type A implements I {…}  type B implements I {…}` -/
def brSchema : Schema :=
  { types := [.scalar "Int" .int "", .scalar "String" .string "",
      .interface "I" [fdS "n" (.named "Int"), fdS "s" (.named "Int")] true "",
      .object "A" ["I"] [fdS "n" (.named "Int"), fdS "s" (.named "Int")] true "",
      .object "B" ["I"] [fdS "n" (.named "Int"), fdS "s" (.named "Int")] true "",
      .object "Q" [] [fdS "i" (.named "I")] false ""],
    query := "Q", mutation := none, subscription := none, directives := [] }

private def nmAt (v : String) (a : Nat) : Name := ⟨v, ⟨a, a + 1⟩⟩
/-- `{ i { ... on A { x: n } ...F } }  fragment F on B { x: s }` -/
def brDoc : Document :=
  ⟨[.operation .query none [] []
      (.mk [.field none (nmAt "i" 2) [] []
        (some (.mk [.inline (some (.named "A" ⟨13, 14⟩)) []
                      (.mk [.field (some (nmAt "x" 17)) (nmAt "n" 20) [] [] none ⟨17, 21⟩] ⟨15, 23⟩) ⟨6, 23⟩,
                    .spread (nmAt "F" 27) [] ⟨24, 28⟩] ⟨4, 30⟩)) ⟨2, 30⟩] ⟨0, 32⟩) ⟨0, 32⟩,
    .fragment (nmAt "F" 43) (.named "B" ⟨48, 49⟩) []
      (.mk [.field (some (nmAt "x" 52)) (nmAt "s" 55) [] [] none ⟨52, 56⟩] ⟨50, 58⟩) ⟨34, 58⟩], ⟨0, 58⟩⟩

example : schemaCovB brSchema = true := by decide +kernel
example : sideB brSchema brDoc = true ∧ noFragmentCycles brSchema brDoc = [] ∧ uniqueFragNames brDoc = true ∧
    overlappingFieldsCanBeMerged brSchema brDoc = [] := by decide +kernel
example (opName : String) (inputs : Coerce.Vars) (w : Exec.World) : ExecUniform brSchema brDoc opName inputs w :=
  execUniform_of_accepted brSchema brDoc (schemaCov_of_check _ (by decide +kernel)) (by decide +kernel)
    (by decide +kernel) (by decide +kernel) (by decide +kernel) opName inputs w

end GqlModel.OverlapExec
