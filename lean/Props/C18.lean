import GqlProofs.Location
/-! # C18 — Error locations and paths point at the offending source and response position

Property theorems only. `getLocation` (M) is the regexp-match loop of `location.GetLocation`; `spec` (S) is
"line = 1 + number of line terminators (CR LF counted once) that start before `pos`; column = `pos` + 1 − end of the
last such terminator". Bytes are `UInt8`; positions are byte offsets; `pos` may lie beyond the end of the body
(both sides then behave as at the end of the body, as the Go loop does).

What these theorems do NOT cover (carried by the correspondence streams of harness/cmd/c18, see notes/agents/C18.md):
that `terms` is what Go's `regexp` returns for `"\r\n|[\n\r]"` (exhaustive stream a), which position the lexer,
parser, validator and executor pass to `GetLocation` (streams b, c, d), and the full statement
"a syntax error falls within the first token at which the text stops being a prefix of a valid document" (stream b
checks it exactly for one mutation class and one-sidedly for the others). -/
namespace GqlModel.Location

/-! ## line and column -/

/-- C18/T1: for every body and every position the loop of `GetLocation` computes the specified line and column. -/
theorem getLocation_eq_spec (body : List UInt8) (pos : Nat) : getLocation body pos = spec body pos :=
  getLocation_eq_spec' body pos

/-- the specification read as a count: the line is one more than the number of indices below `pos` at which a line
terminator starts (so CR LF counts once, LF CR and CR CR twice) -/
theorem line_counts_terminators (body : List UInt8) (pos : Nat) :
    (getLocation body pos).1 = 1 + ((List.range pos).filter (startsTerm body)).length := by
  rw [getLocation_eq_spec]; rfl

/-- lines and columns are 1-based. The column hypothesis is necessary (`column_zero_inside_crlf`): the only positions
with column 0 are those pointing at the LF of a CR LF pair, which is never a token start nor a lexer error position. -/
theorem one_based (body : List UInt8) (pos : Nat) (h : ¬ insideCRLF body pos) :
    1 ≤ (getLocation body pos).1 ∧ 1 ≤ (getLocation body pos).2 := by
  rw [getLocation_eq_spec]
  have := (specLineStart_le body pos).2 h
  simp only [spec, specLine]
  omega

theorem line_one_based (body : List UInt8) (pos : Nat) : 1 ≤ (getLocation body pos).1 := by
  rw [getLocation_eq_spec]; simp only [spec, specLine]; omega

/-- the exceptional case of `one_based`: between the CR and the LF of a CR LF pair the column is 0 -/
theorem column_zero_inside_crlf (body : List UInt8) (pos : Nat) (h : insideCRLF body pos) :
    (getLocation body pos).2 = 0 := by
  rw [getLocation_eq_spec]
  obtain ⟨h1, h2, h3⟩ := h
  obtain ⟨q, rfl⟩ : ∃ q, pos = q + 1 := ⟨pos - 1, by omega⟩
  simp only [Nat.add_sub_cancel] at h2
  have hs : startsTerm body q = true := by simp [startsTerm, h2]
  have he : termEnd body q = q + 2 := by simp [termEnd, h2, h3]
  simp only [spec, specLineStart_succ, hs, if_true, he]
  omega

/-- the line never exceeds the number of lines of the text, wherever `pos` points (also beyond the end) -/
theorem line_le_lines (body : List UInt8) (pos : Nat) : (getLocation body pos).1 ≤ numLines body := by
  rw [getLocation_eq_spec]
  simp only [spec, numLines]
  rw [← specLine_min]
  exact specLine_mono body (Nat.min_le_right _ _)

/-- the column stays within its line: `column − 1` bytes before `pos` lies the start `s` of the line, `s` is the
beginning of the text or directly follows a CR or LF (and is not the LF of a CR LF), and no CR or LF lies in `[s, pos)`.
These three facts determine `s`, hence the column, uniquely. -/
theorem column_within_line (body : List UInt8) (pos : Nat) (h : ¬ insideCRLF body pos) :
    let col := (getLocation body pos).2
    let s := pos + 1 - col
    s ≤ pos ∧ s + (col - 1) = pos ∧
    (s = 0 ∨ (1 ≤ s ∧ (body[s - 1]? = some 13 ∨ body[s - 1]? = some 10))) ∧ ¬ insideCRLF body s ∧
    (∀ j, s ≤ j → j < pos → body[j]? ≠ some 13 ∧ body[j]? ≠ some 10) := by
  intro col s
  have hle := (specLineStart_le body pos).2 h
  have hs : s = specLineStart body pos := by
    simp only [s, col]
    rw [getLocation_eq_spec]
    simp only [spec]
    omega
  have hcol : col = pos + 1 - specLineStart body pos := by
    simp only [col]; rw [getLocation_eq_spec]; rfl
  have h3 := lineStart_after_terminator body pos
  rw [hs]
  exact ⟨hle, by omega, h3.1, h3.2, no_terminator_on_line body pos⟩

/-- the line is monotone in the position -/
theorem line_monotone (body : List UInt8) {p q : Nat} (h : p ≤ q) :
    (getLocation body p).1 ≤ (getLocation body q).1 := by
  rw [getLocation_eq_spec, getLocation_eq_spec]
  exact specLine_mono body h

/-- on one line the column advances exactly with the byte offset -/
theorem column_advances_on_line (body : List UInt8) {p q : Nat} (h : p ≤ q)
    (hl : (getLocation body p).1 = (getLocation body q).1) :
    (getLocation body q).2 = (getLocation body p).2 + (q - p) := by
  rw [getLocation_eq_spec, getLocation_eq_spec] at *
  obtain ⟨k, rfl⟩ := Nat.exists_eq_add_of_le h
  have hs := same_line_same_start body p k hl.symm
  have := (specLineStart_le body p).1
  simp only [spec, hs]
  omega

/-- (line, column) is strictly increasing in the position, lexicographically -/
theorem location_strictly_monotone (body : List UInt8) {p q : Nat} (h : p < q) :
    (getLocation body p).1 < (getLocation body q).1 ∨
    ((getLocation body p).1 = (getLocation body q).1 ∧ (getLocation body p).2 < (getLocation body q).2) := by
  have hm := line_monotone body (Nat.le_of_lt h)
  by_cases hl : (getLocation body p).1 = (getLocation body q).1
  · right
    refine ⟨hl, ?_⟩
    rw [column_advances_on_line body (Nat.le_of_lt h) hl]
    omega
  · left; omega

/-- different positions get different locations: a location identifies its byte offset -/
theorem location_injective (body : List UInt8) {p q : Nat} (h : getLocation body p = getLocation body q) : p = q := by
  rcases Nat.lt_trichotomy p q with hlt | heq | hgt
  · rcases location_strictly_monotone body hlt with h1 | ⟨_, h2⟩
    · rw [h] at h1; omega
    · rw [h] at h2; omega
  · exact heq
  · rcases location_strictly_monotone body hgt with h1 | ⟨_, h2⟩
    · rw [h] at h1; omega
    · rw [h] at h2; omega

/-! ## response paths -/

/-- `AsArray` lists the keys from the root to the field: the `Prev` chain reversed -/
theorem asArray_eq_reversed_chain (p : RPath) : p.asArray = p.chain.reverse :=
  asArray_eq_reverse_chain p

theorem asArray_withKey (p : RPath) (k : Key) : (p.withKey k).asArray = p.asArray ++ [k] := rfl

/-- a path built by successive `WithKey` calls from the nil path reads back as exactly those keys, in order
(list indices included) -/
theorem asArray_of_withKeys (ks : List Key) : (ks.foldl RPath.withKey .nil).asArray = ks := by
  simpa [RPath.asArray] using foldl_withKey_asArray ks .nil

/-- following `AsArray` of the path the executor hands to a field, from the root of the data the executor builds
around that field (any siblings, any list neighbours, unique response keys per map), reaches the field's own value -/
theorem path_addresses (fs : List Frame) (t : Tree) (h : ∀ f ∈ fs, f.wf) :
    (plug fs t).get? (pathOf fs).asArray = some t := by
  have hp : (pathOf fs).asArray = fs.map Frame.key := by
    simpa [pathOf, RPath.asArray] using pathOf_foldl fs .nil
  rw [hp]
  induction fs with
  | nil => rfl
  | cons f fs ih =>
    have hf := h f (by simp)
    simp only [plug_cons, List.map_cons]
    rw [get?_cons_of_step _ (step_fill f _ hf)]
    exact ih (fun g hg => h g (by simp [hg])) (by simpa [pathOf, RPath.asArray] using pathOf_foldl fs .nil)

/-- consequence used by stream (d): if the value placed at the field's position is null, the data at the error path is null -/
theorem null_at_path (fs : List Frame) (h : ∀ f ∈ fs, f.wf) :
    (plug fs .null).get? (pathOf fs).asArray = some .null := path_addresses fs .null h

/-! ## non-vacuity: LF, CR, CR LF mixes -/

/-- `"a\nb\r\nc\rd"`: a=0 LF=1 b=2 CR=3 LF=4 c=5 CR=6 d=7 -/
def sample : List UInt8 := [97, 10, 98, 13, 10, 99, 13, 100]

example : terms sample 0 = [(1, 2), (3, 5), (6, 7)] := by decide
example : getLocation sample 0 = (1, 1) := by decide
example : getLocation sample 1 = (1, 2) := by decide   -- the LF itself still belongs to line 1
example : getLocation sample 2 = (2, 1) := by decide
example : getLocation sample 3 = (2, 2) := by decide   -- the CR of CR LF
example : getLocation sample 4 = (3, 0) := by decide   -- inside CR LF: the exceptional case
example : insideCRLF sample 4 := by decide
example : getLocation sample 5 = (3, 1) := by decide
example : getLocation sample 7 = (4, 1) := by decide
example : getLocation sample 8 = (4, 2) := by decide   -- end of text
example : getLocation sample 50 = (4, 44) := by decide  -- beyond the end: as the Go loop
example : spec sample 5 = (3, 1) := by decide
example : numLines sample = 4 := by decide
/-- LF CR is two terminators, CR CR LF is CR followed by CR LF -/
example : getLocation [10, 13, 97] 2 = (3, 1) := by decide
example : getLocation [13, 13, 10, 97] 3 = (3, 1) := by decide
example : terms [13, 13, 10, 10] 0 = [(0, 1), (1, 3), (3, 4)] := by decide
example : ¬ insideCRLF sample 5 ∧ ¬ insideCRLF sample 0 := by decide

/-- `data.a[1].b` -/
example : (((RPath.nil.withKey (.name "a")).withKey (.idx 1)).withKey (.name "b")).asArray
    = [.name "a", .idx 1, .name "b"] := by decide
example :
    let fs := [Frame.field [("x", .leaf "1")] "a" [], .item [.null] [.leaf "z"], .field [] "b" [("c", .null)]]
    (∀ f ∈ fs, f.wf) ∧ (pathOf fs).asArray = [.name "a", .idx 1, .name "b"] := by
  refine ⟨?_, by decide⟩
  intro f hf
  simp only [List.mem_cons, List.not_mem_nil, or_false] at hf
  rcases hf with rfl | rfl | rfl <;> simp [Frame.wf, lookup]

end GqlModel.Location
