import GqlProofs.Cancel
import GqlModel.ChanTables
import Generated.Tables
/-! # C16 — Cancellation and deadlines yield either the full response or the context error

Property theorems only. The object is the transition system `GqlModel.Cancel.step` (model M of the
caller / background executor / buffered result channel / context of `ExecutePlan`, see the anchors there).
`run … acts = some s` says that the schedule `acts` is a possible run ending in `s`. All theorems quantify over
every schedule of any length, every list of resolvers (failing or not, watching the context or not) and every
moment of cancellation or deadline expiry (`ctxDone e` may occur anywhere in the schedule, also first).

The machine has no notion of operation kind: `ExecutePlan`'s `select` and its single send are the same code for
queries and mutations (a mutation only fixes the order of the top-level resolver steps, which the model runs in
sequence anyway), so `never_blocks` and `prompt_after_cancel` are statements about cancelled mutations as much as
about queries; the harness drives both (`query { f0 … }`, `mutation { m0 … }`). -/
namespace GqlModel.Cancel

/-- Tie to the code, re-checked against the regenerated table on every run: `ExecutePlan` makes exactly one
channel and it is buffered. (Un-buffering it breaks this obligation, and with it `never_blocks`.) -/
theorem executePlan_result_channel_buffered : 1 ≤ codeCap := by decide +kernel

/-- **The caller gets one of two things, never anything in between** — on every schedule, for every capacity.
If the call has returned, the result is either the context error, and then the context is indeed done with that
error, or the executor's *complete* result: one value for every resolver step, in order, each being that
resolver's own value or error, or — only for a resolver that watches the context, only if the context is done —
the context error reported by that resolver. No partial list, nothing missing.
Moreover, when the context was never cancelled and no deadline passed, the result is the normal one, exactly. -/
theorem outcome_dichotomy (rs : List Resolver) (cap : Nat) (acts : List Act) (s : St) (o : Outcome)
    (h : run rs cap init acts = some s) (hret : s.caller = .returned o) :
    ((∃ e, o = .ctxError e ∧ s.ctx = some e) ∨ (∃ vals, o = .normal vals ∧ complete rs s.ctx vals = true)) ∧
    ((∀ a ∈ acts, a.isCtxDone = false) → o = .normal (rs.map Resolver.plain)) := by
  have hinv := inv_run rs cap acts init s (inv_init rs) h
  have key : (∃ e, o = .ctxError e ∧ s.ctx = some e) ∨ (∃ vals, o = .normal vals ∧ complete rs s.ctx vals = true) := by
    obtain ⟨h1, h2⟩ := hinv
    cases o with
    | ctxError e => exact Or.inl ⟨e, rfl, h2 e hret⟩
    | normal vals =>
      right
      cases hexec : s.exec with
      | running acc =>
        rw [hexec] at h1
        exact absurd hret (h1.2.2.2 vals)
      | sent =>
        rw [hexec] at h1
        obtain ⟨vals', hcomp, hrest⟩ := h1
        rcases hrest with ⟨_, hn⟩ | ⟨_, hc⟩
        · exact absurd hret (hn vals)
        · rw [hret] at hc
          injection hc with hc; injection hc with hc
          subst hc
          exact ⟨vals, rfl, hcomp⟩
  refine ⟨key, fun hno => ?_⟩
  have hctx : s.ctx = none := ctx_none_run rs cap acts init s hno rfl h
  rcases key with ⟨e, _, he⟩ | ⟨vals, rfl, hcomp⟩
  · rw [hctx] at he; cases he
  · rw [hctx] at hcomp
    rw [complete_none rs vals hcomp]

/-- **The call never blocks forever** (protocol part), for the channel capacity the code has today.
In every reachable state:
(1) a caller still in its `select` can return as soon as the context is done;
(2) a caller still in its `select` can return as soon as the executor has sent;
(3) an executor that has run all its steps can always send and return — the send never blocks, whether or not
    the caller is still there (this is where `1 ≤ codeCap` is needed: no goroutine is left behind);
(4) an executor with steps left is not held up by the protocol: its next step is enabled. -/
theorem never_blocks (rs : List Resolver) (acts : List Act) (s : St)
    (h : run rs codeCap init acts = some s) :
    (∀ e, s.caller = .waiting → s.ctx = some e →
        ∃ t, step rs codeCap s .selectCtx = some t ∧ t.caller = .returned (.ctxError e)) ∧
    (s.caller = .waiting → s.exec = .sent →
        ∃ t vals, step rs codeCap s .selectResult = some t ∧ t.caller = .returned (.normal vals)) ∧
    (∀ acc, s.exec = .running acc → acc.length = rs.length →
        ∃ t, step rs codeCap s .finish = some t ∧ t.exec = .sent ∧ t.caller = s.caller) ∧
    (∀ acc, s.exec = .running acc → acc.length < rs.length →
        ∃ t, step rs codeCap s (.resolverStep acc.length false) = some t) := by
  have hinv := inv_run rs codeCap acts init s (inv_init rs) h
  obtain ⟨exec, chan, ctx, caller⟩ := s
  obtain ⟨h1, _⟩ := hinv
  simp only at h1
  refine ⟨?_, ?_, ?_, ?_⟩
  · intro e hw hc
    simp only at hw hc; subst hw; subst hc
    exact ⟨_, rfl, rfl⟩
  · intro hw he
    simp only at hw he; subst hw; subst he
    obtain ⟨vals, _, hrest⟩ := h1
    rcases hrest with ⟨hc, _⟩ | ⟨_, hc⟩
    · subst hc
      exact ⟨_, vals, rfl, rfl⟩
    · cases hc
  · intro acc he hl
    simp only at he; subst he
    obtain ⟨_, _, hc, _⟩ := h1
    subst hc
    have hcap := executePlan_result_channel_buffered
    refine ⟨{ exec := .sent, chan := [acc], ctx := ctx, caller := caller }, ?_, rfl, rfl⟩
    simp only [step, hl, ne_eq, not_true_eq_false, if_false, List.length_nil]
    rw [if_pos (by omega)]; rfl
  · intro acc he hl
    simp only at he; subst he
    have hr : rs[acc.length]? = some rs[acc.length] := List.getElem?_eq_getElem hl
    exact ⟨{ exec := .running (acc ++ [rs[acc.length].plain]), chan := chan, ctx := ctx, caller := caller },
      by simp [step, hr]⟩

/-- **Prompt return: no resolver step is needed between cancellation and return.** Take any run that ends with
the caller still waiting and the context live — for instance with the k-th resolver blocked, k arbitrary, or
before anything ran at all. Then "context done; caller returns" is a possible continuation *as is*: two steps,
none of them a resolver step; the caller holds exactly the context error and the executor is where it was. -/
theorem prompt_after_cancel (rs : List Resolver) (cap : Nat) (acts : List Act) (s : St) (e : CtxErr)
    (h : run rs cap init acts = some s) (hw : s.caller = .waiting) (hn : s.ctx = none) :
    ∃ t, run rs cap init (acts ++ [.ctxDone e, .selectCtx]) = some t ∧
      t.caller = .returned (.ctxError e) ∧ t.exec = s.exec ∧ t.chan = s.chan := by
  obtain ⟨exec, chan, ctx, caller⟩ := s
  simp only at hw hn; subst hw; subst hn
  rw [run_append rs cap acts _ init _ h]
  exact ⟨_, rfl, rfl, rfl, rfl⟩

/-- Why the buffer matters (what `executePlan_result_channel_buffered` protects): with an unbuffered channel
there is a run — cancel, caller returns, resolver finishes — after which the executor can never send:
no action is enabled that moves it, for ever. -/
theorem executor_stuck_if_unbuffered :
    ∃ s, run [⟨false, false⟩] 0 init [.ctxDone .canceled, .selectCtx, .resolverStep 0 false] = some s ∧
      s.exec = .running [.value] ∧
      ∀ a t, step [⟨false, false⟩] 0 s a = some t → t.exec = s.exec := by
  refine ⟨_, rfl, rfl, ?_⟩
  intro a t hs
  cases a with
  | resolverStep k saw =>
    simp only [step] at hs
    split at hs
    · simp at hs
    · rename_i hk
      have hk : k = 1 := by simpa using hk
      subst hk; simp at hs
  | finish => simp [step] at hs
  | ctxDone e => simp [step] at hs
  | selectCtx => simp [step] at hs
  | selectResult => simp [step] at hs

/-! ## Non-vacuity -/

def exRs : List Resolver := [⟨false, false⟩, ⟨true, false⟩, ⟨false, true⟩]

/-- execution finishes first: the complete normal response -/
example : (run exRs 2 init [.resolverStep 0 false, .resolverStep 1 false, .resolverStep 2 false, .finish, .selectResult]).map
    (·.caller) = some (.returned (.normal [.value, .failed, .value])) := by decide
/-- cancelled while resolver 1 is blocked: context error, at once -/
example : (run exRs 2 init [.resolverStep 0 false, .ctxDone .canceled, .selectCtx]).map (·.caller) =
    some (.returned (.ctxError .canceled)) := by decide
/-- deadline before anything ran -/
example : (run exRs 2 init [.ctxDone .deadlineExceeded, .selectCtx]).map (·.caller) =
    some (.returned (.ctxError .deadlineExceeded)) := by decide
/-- race: the watching resolver sees the cancellation, the executor still finishes and the caller may take
the complete response carrying that resolver's context error -/
example : (run exRs 2 init [.resolverStep 0 false, .resolverStep 1 false, .ctxDone .canceled, .resolverStep 2 true,
    .finish, .selectResult]).map (·.caller) = some (.returned (.normal [.value, .failed, .ctxSeen .canceled])) := by decide
/-- the result cannot be taken before the executor has sent, and the executor cannot send early -/
example : run exRs 2 init [.resolverStep 0 false, .selectResult] = none := by decide
example : run exRs 2 init [.resolverStep 0 false, .finish] = none := by decide
/-- after the caller left with the context error the executor still terminates (buffered send) -/
example : (run exRs 2 init [.ctxDone .canceled, .selectCtx, .resolverStep 0 false, .resolverStep 1 false,
    .resolverStep 2 false, .finish]).map (·.exec) = some .sent := by decide

end GqlModel.Cancel
