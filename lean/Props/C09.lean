import GqlModel.Pipeline
import GqlProofs.Cost
import GqlProofs.CostDepth
import Props.C03Lexer
import Props.C03Parser
import Props.C02Graph
import Props.C19
/-! # C09 — No input makes a public entry point panic, hang or return a malformed result

Property theorems only. Two models:

* `GqlModel.Pipeline` — the result classes of `Do` / `Execute` / `ExecutePlan` / `planAndValidate` (early returns of
  graphql.go, executor.go, plan.go, plan_cache.go);
* `GqlModel.Cost` — plan-time collection (`collectInto`, `planMergedSelectionsForType`, lazy sub-plans, descent-path
  guard), used here for TERMINATION on arbitrary fragment tables.

FULL STATEMENT (properties.jsonl C09): for arbitrary request bytes, operation names, variable maps, root values and
arbitrary parsed-but-unvalidated documents, every public entry point returns within time bounded by the input size
instead of panicking, recursing forever or blocking; the result is JSON-serialisable, carries no data when parsing or
validation failed, and at least one error whenever data is absent.

What is PROVED here (about the models): the two result-shape clauses for every combination of stage outcomes
(`no_data_on_parse_or_validation_failure`, `error_when_no_data`, `planResult_plan_xor_errors`); that the pipeline model
has no panic outcome once `PlanQuery` does not panic (`do_never_panics` — Lean functions are total, so this covers only the
MODEL's explicit panic outcome, i.e. the class of D-09c); termination of plan-time collection on arbitrary, also
cyclic, fragment tables with an explicit fuel bound (`plan_total_on_cyclic_fragments`), that the planning work of an
execution is bounded by the completions the data causes and the selection (`exec_bounded_by_world_and_selection`), and
that the DEPTH of execution is bounded by the selection alone, whatever the data (`exec_depth_bounded_by_selection`,
the formal content of repair D-09d).
Termination theorems proved for the other properties are IMPORTED and combined with the above into ONE request-level
statement, `GqlModel.Request.request_total` (end of this file): `Lexer.lexAll_terminates`, `Parser.parse_progress` (C03),
`fragmentSpreads_no_oof`, `rrf_spec`, `cycles_no_fuel_exhaustion`, `overlap_no_fuel_exhaustion` (C02), `Cost.plan_never_out_of_fuel`
(C19) — a regression in any of them breaks this module's obligation too. Not included (no fuel to exhaust): the
structurally recursive local rules (C02Local) and variable / literal coercion (Props/C05 `fuel_bound_*`).
What is only SAMPLED (harness/cmd/c09): Go-level nil dereferences, type assertions, reflection, blocking, JSON
serialisability, wall-clock bounds — on the real entry points. -/
namespace GqlModel.Pipeline

/-- T1. No data when parsing or validation failed (whatever the extensions and the execution stage would do),
and the result then carries at least one error. -/
theorem no_data_on_parse_or_validation_failure (o : Oracle) (h : o.parseOk = false ∨ o.validationErrs ≠ 0) :
    ∃ r, «do» o = .result r ∧ r.hasData = false ∧ 1 ≤ r.errs := by
  by_cases h1 : o.initErrs = 0
  · by_cases h2 : o.parseStartErrs = 0
    · cases hp : o.parseOk with
      | false =>
        have key : «do» o = .result ⟨false, o.parseFinishErrs + 1⟩ := by simp [«do», h1, h2, hp]
        exact ⟨_, key, rfl, by simp⟩
      | true =>
        have hv : o.validationErrs ≠ 0 := by
          rcases h with h | h
          · simp [hp] at h
          · exact h
        by_cases h3 : o.parseFinishErrs = 0
        · by_cases h4 : o.validationStartErrs = 0
          · have key : «do» o = .result ⟨false, o.validationFinishErrs + o.validationErrs⟩ := by
              simp [«do», h1, h2, hp, h3, h4, hv]
            exact ⟨_, key, rfl, by simp only; omega⟩
          · have key : «do» o = .result ⟨false, o.validationStartErrs⟩ := by simp [«do», h1, h2, hp, h3, h4]
            exact ⟨_, key, rfl, by simp only; omega⟩
        · have key : «do» o = .result ⟨false, o.parseFinishErrs⟩ := by simp [«do», h1, h2, hp, h3]
          exact ⟨_, key, rfl, by simp only; omega⟩
    · have key : «do» o = .result ⟨false, o.parseStartErrs⟩ := by simp [«do», h1, h2]
      exact ⟨_, key, rfl, by simp only; omega⟩
  · have key : «do» o = .result ⟨false, o.initErrs⟩ := by simp [«do», h1]
    exact ⟨_, key, rfl, by simp only; omega⟩

theorem execute_wellShaped (o : ExecOracle) (r : Result) (h : execute o = .result r) : r.wellShaped := by
  unfold execute at h
  unfold Result.wellShaped
  by_cases h0 : o.planPanics = true
  · simp [h0] at h
  · by_cases h1 : o.planError = true
    · simp [h0, h1] at h; subst h; simp
    · by_cases h2 : o.startErrs = 0
      · cases hr : o.run <;> simp [h0, h1, h2, hr] at h <;> subst h <;> simp <;> omega
      · simp [h0, h1, h2] at h; subst h; simp; omega

/-- T1. At least one error whenever data is absent — for every result `Do` can return. -/
theorem error_when_no_data (o : Oracle) (r : Result) (h : «do» o = .result r) : r.hasData = false → 1 ≤ r.errs := by
  unfold «do» at h
  by_cases h1 : o.initErrs = 0
  · by_cases h2 : o.parseStartErrs = 0
    · cases hp : o.parseOk with
      | false => simp [h1, h2, hp] at h; subst h; simp
      | true =>
        by_cases h3 : o.parseFinishErrs = 0
        · by_cases h4 : o.validationStartErrs = 0
          · by_cases h5 : o.validationErrs = 0
            · by_cases h6 : o.validationFinishErrs = 0
              · simp [h1, h2, hp, h3, h4, h5, h6] at h
                exact execute_wellShaped _ _ h
              · simp [h1, h2, hp, h3, h4, h5, h6] at h; subst h; simp; omega
            · simp [h1, h2, hp, h3, h4, h5] at h; subst h; simp; omega
          · simp [h1, h2, hp, h3, h4] at h; subst h; simp; omega
        · simp [h1, h2, hp, h3] at h; subst h; simp; omega
    · simp [h1, h2] at h; subst h; simp; omega
  · simp [h1] at h; subst h; simp; omega

/-- T1 (`no_panic_outcome` for the pipeline model). The only panic outcome of the model is a panic inside `PlanQuery`
(no recover is installed there — the class of D-09c, repaired); when `PlanQuery` does not panic, `Do` returns a result
for every combination of stage outcomes. Everything that panics inside `ExecutePlan`'s goroutine is the `recovered`
outcome, which is a result. -/
theorem do_never_panics (o : Oracle) (h : o.exec.planPanics = false) : ∃ r, «do» o = .result r := by
  unfold «do» execute
  by_cases h1 : o.initErrs = 0 <;> by_cases h2 : o.parseStartErrs = 0 <;> cases hp : o.parseOk <;>
    by_cases h3 : o.parseFinishErrs = 0 <;> by_cases h4 : o.validationStartErrs = 0 <;>
    by_cases h5 : o.validationErrs = 0 <;> by_cases h6 : o.validationFinishErrs = 0 <;>
    by_cases h7 : o.exec.planError = true <;> by_cases h8 : o.exec.startErrs = 0 <;>
    cases hr : o.exec.run <;> simp [h, h1, h2, h3, h4, h5, h6, h7, h8]

/-- T1. `PlanCache.Get` / `planAndValidate`: a plan exactly when there is no error, never a plan after a parse or
validation failure. -/
theorem planResult_plan_xor_errors (parseOk : Bool) (validationErrs : Nat) (planError : Bool) :
    ∃ r, planAndValidate parseOk validationErrs false planError = .result r ∧
      (r.hasPlan = true ↔ r.errs = 0) ∧
      ((parseOk = false ∨ validationErrs ≠ 0) → r.hasPlan = false) := by
  unfold planAndValidate
  cases parseOk <;> by_cases hv : validationErrs = 0 <;> cases planError <;> simp [hv]

end GqlModel.Pipeline

namespace GqlModel.Cost

/-- T1. Plan-time collection terminates on ARBITRARY fragment tables — cyclic spreads of any length directly or
through fields, duplicate names, unknown names — with the explicit fuel `number of fragment definitions + 1`:
for every context `c` (any table `c.frags`, any type-condition and field oracles), every selection set, every chain and
every starting state the fuel-bounded model `collectFuel c (c.frags.length + 1)` does not run out of fuel, neither in
`planSelectionSet` nor in a `planMergedSelectionsForType` over any list of merged sub-selections; the reason is the
visited set (each nested fragment entry marks a definition that was unvisited) — sub-selections of fields are not
collected at all at this point (lazy sub-plans). -/
theorem plan_total_on_cyclic_fragments (c : Ctx) :
    (∀ (chain : Chain) (ss : SelectionSet) (st : St), (collectFuel c (c.frags.length + 1) chain ss st).oof = st.oof) ∧
    (∀ (subs : List (SelectionSet × Chain)), (planMerged c subs {}).oof = false) := by
  refine ⟨fun chain ss st => ?_, fun subs => ?_⟩
  · exact collectTop_oof c chain ss st
  · rw [planMerged_oof]

/-- T1. The planning work caused by executing a request is bounded by the data and the selection: at most one
`planMergedSelectionsForType` call per completion the world contains, each costing at most one level of the merged
selection (its sets, their inline fragments, every fragment definition once). -/
theorem exec_bounded_by_world_and_selection (e : Env) (fields : List FieldPlan) (world : World) :
    let st := execW e fields [] world {}
    st.log.length ≤ world.size ∧ st.oof = false ∧
    ∀ en ∈ st.log, en.cost ≤ (en.subs.map (fun ss => 1 + inlSet ss.1)).sum + fragsSize e.frags := by
  intro st
  show (execW e fields [] world {}).log.length ≤ world.size ∧ (execW e fields [] world {}).oof = false ∧
    ∀ en ∈ (execW e fields [] world {}).log, en.cost ≤ (en.subs.map (fun ss => 1 + inlSet ss.1)).sum + fragsSize e.frags
  have hok := execW_ok e world fields [] {} ⟨List.nodup_nil, fun _ h => by simp at h, rfl⟩
  refine ⟨?_, hok.2.2, fun en hen => (hok.2.1 en hen).1⟩
  have hsub : (List.map (·.id) (execW e fields [] world {}).log) ⊆ completedW e fields [] world := by
    intro id hid
    obtain ⟨en, hen, rfl⟩ := List.mem_map.1 hid
    rcases execW_mem e world _ _ _ en hen with h | h
    · simp at h
    · exact h
  have h1 := List.Nodup.length_le_of_subset hok.1 hsub
  have h2 := completedW_length e world fields []
  simp only [List.length_map] at h1
  omega

/-- T1 (the formal content of repair D-09d). With the descent-path guard the DEPTH of execution is bounded by the
selection alone, whatever the data: for every environment (any schema, any fragment table — cyclic, duplicate names —,
any variables), every operation selection set and every world, each response path along which an object value is
completed (and hence each lazily planned sub-selection) has length at most
`1 + depth(selection set) + (deepest fragment body + 1) × (number of fragment definitions)`.
Before the repair a fragment cycle through a field made this depth depend on the data only (D-09d: unbounded on the
cyclic introspection graph). -/
theorem exec_depth_bounded_by_selection (e : Env) (root : String) (ss : SelectionSet) (world : World) :
    ∀ id ∈ completedW e (rootPlan e root ss).fields [] world,
      id.length ≤ 1 + depthSet ss + (maxBodyDepth e.frags + 1) * e.frags.length :=
  completed_depth_le e root ss world

/-- … in particular every sub-selection an execution plans lazily sits at such a bounded path. -/
theorem lazy_plans_at_bounded_depth (e : Env) (root : String) (ss : SelectionSet) (world : World) :
    ∀ en ∈ (execW e (rootPlan e root ss).fields [] world {}).log,
      en.id.length ≤ 1 + depthSet ss + (maxBodyDepth e.frags + 1) * e.frags.length :=
  log_depth_le e root ss world

/-! ## Non-vacuity -/

open GqlModel.Pipeline in
example : «do» ⟨0, 0, true, 0, 0, 0, 0, ⟨false, false, 0, .data 2, 0⟩⟩ = .result ⟨true, 2⟩ := by decide
open GqlModel.Pipeline in
example : «do» ⟨0, 0, true, 0, 0, 3, 0, ⟨false, false, 0, .data 0, 0⟩⟩ = .result ⟨false, 3⟩ := by decide
open GqlModel.Pipeline in
example : «do» ⟨0, 0, true, 0, 0, 0, 0, ⟨true, false, 0, .data 0, 0⟩⟩ = .panic := by decide
open GqlModel.Pipeline in
example : «do» ⟨0, 0, true, 0, 0, 0, 0, ⟨false, false, 0, .recovered 2, 1⟩⟩ = .result ⟨false, 4⟩ := by decide

/-- a cyclic table of two fragments spreading each other (directly and through a field) is collected within the fuel -/
example :
    let L := Loc.none
    let body (n : String) : SelectionSet :=
      .mk [.spread ⟨n, L⟩ [] L, .field none ⟨"a", L⟩ [] [] (some (.mk [.spread ⟨n, L⟩ [] L] L)) L] L
    let c : Ctx := { applies := fun _ => true, fieldDef := fun _ => none, skip := fun _ => false,
                     frags := [("F", "Q", body "G"), ("G", "Q", body "F")] }
    let st := collectFuel c 3 [] (body "F") {}
    st.oof = false ∧ st.collect = 3 ∧ st.entered = ["G", "F"] := by decide +kernel

end GqlModel.Cost

/-! ## ONE request-level totality statement over the models that exist

Corollaries of the theorems of the other properties — imported, not re-proved: a regression in any of them breaks
this obligation too. -/
namespace GqlModel.Request
open GqlModel GqlModel.Validate GqlModel.Validate.Graph GqlModel.Validate.Overlap

/-- T1 `request_total`. For every byte string, every token list, every schema and every AST (valid or not, cyclic
fragments included), every operation name, variable assignment and data world, and every combination of stage outcomes:
* the LEXER model terminates: iterating `Lex` over the bytes never exhausts its fuel `|bytes| + 1`
  (`Lexer.lexAll_terminates`, C03);
* the PARSER model terminates: `parseTokens` never ends in the fuel error (`Parser.parse_progress`, C03);
* VALIDATION returns: `FragmentSpreads`, `RecursivelyReferencedFragments` and the cycle DFS stay within their fuel on any
  spread graph (`fragmentSpreads_no_oof`, `rrf_spec`, `cycles_no_fuel_exhaustion`, C02), and so does the memoised overlap
  rule whenever selection sets have distinct locations, as in every parsed document (`overlap_no_fuel_exhaustion`, C02)
  — the remaining rules are structurally recursive functions of the document;
* PLANNING is total on cyclic fragments: neither `PlanQuery` nor any lazily planned sub-selection of any execution
  exhausts the fuel `#fragments + 1` (`Cost.plan_never_out_of_fuel`, C19);
* the PIPELINE's result is well-shaped: no data when parsing or validation failed, at least one error whenever data is
  absent, no panic outcome once `PlanQuery` does not panic (this file). -/
theorem request_total (bytes : Lexer.Bytes) (toks : List Token) (s : Schema) (d : Document) (opName : String)
    (vars : Cost.Vars) (world : Cost.World) (o : Pipeline.Oracle) :
    (∀ e, (Lexer.lexAll bytes).err = some e → e.kind ≠ .fuel) ∧
    Parser.parseTokens toks ≠ .error .fuel ∧
    ((∀ ss, (fragmentSpreadsF ss).2 = false) ∧
     (∀ sel, (recursivelyReferencedF (fragDefs d) sel).2 = false) ∧
     (cycleRun (fragDefs d)).oof = false ∧
     (locsDistinct d = true → (overlapM s d).1.oof = false)) ∧
    (Cost.execPlan s d opName vars world).oof = false ∧
    ((o.parseOk = false ∨ o.validationErrs ≠ 0 →
        ∃ r, Pipeline.«do» o = .result r ∧ r.hasData = false ∧ 1 ≤ r.errs) ∧
     (∀ r, Pipeline.«do» o = .result r → r.hasData = false → 1 ≤ r.errs) ∧
     (o.exec.planPanics = false → ∃ r, Pipeline.«do» o = .result r)) :=
  ⟨(Lexer.lexAll_terminates bytes).1,
   Parser.parse_progress toks,
   ⟨fragmentSpreads_no_oof, fun sel => (rrf_spec (fragDefs d) sel).1, cycles_no_fuel_exhaustion d,
    overlap_no_fuel_exhaustion s d⟩,
   Cost.plan_never_out_of_fuel s d opName vars world,
   ⟨Pipeline.no_data_on_parse_or_validation_failure o, Pipeline.error_when_no_data o, Pipeline.do_never_panics o⟩⟩

end GqlModel.Request
