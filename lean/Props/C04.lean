import GqlProofs.ExecBasic
import GqlProofs.ExecConforms
import GqlProofs.ExecChecker
import GqlProofs.ExecExample
/-! # C04 — Responses are well-formed for schema and query whatever resolvers return

Property theorems only. The theorems are about `GqlModel.Exec.execute` (the execution algorithm as this library
realises it; `GqlModel/Exec.lean`) and hold for EVERY schema, document, operation name, variable input, resolver
world (any assignment of value / nil / typed nil / NaN / wrong kind / error / thunk / failing thunk outcomes, any
`isTypeOf` / `resolveType` answers) and every fuel; the only premise on fuel is that the response is a `.result`
(not `.fuelOut`). `Conforms` (spec) and `conformsB` (checker run on the REAL executor's output by the driver) are in
`GqlModel/Conforms.lean`. -/
namespace GqlModel.Exec
open GqlModel.Coerce

/-- C04 core: whatever the resolvers return, the data of a response conforms to schema and query: only selected
response keys (of the collected root selection; below it of the merged sub-selection for the position's object
type / one possible type of an abstract position), every leaf a legal serialisation or null, list positions lists or
null, non-null positions never null. -/
theorem response_conforms (s : Schema) (doc : Document) (opName : String) (inputs : Vars) (w : World) (fuel : Nat)
    (data : List (String × JVal)) (errs : List (Path × Bool)) (log : List LogEntry) (kf : List Path)
    (h : execute s doc opName inputs w fuel = .result (some data) errs log kf) :
    ∃ c root sel, requestCtx s doc opName inputs w = some (c, root, sel) ∧
      FieldsConform c root (rootGroups c root sel) data := by
  obtain ⟨c, root, sel, r, st, hc, hr, -, -, -, hd⟩ := execute_result h
  refine ⟨c, root, sel, hc, ?_⟩
  rcases hd with ⟨fs, rfl, hfs⟩ | ⟨-, hnone⟩
  · cases hfs
    exact (confP c fuel).groups _ _ _ _ _ _ _ _ _ _ hr (fun g hg => hg) (by intro kv hkv; cases hkv)
  · cases hnone

/-- the same at every position: a value the algorithm completes for type `t` conforms to `t` -/
theorem completed_value_conforms (c : Ctx) (fuel : Nat) (dfr : Bool) (t : GType) (rt fname : String)
    (nodes : List FieldNode) (p : Path) (v : GoVal) (st st' : St) (j : JVal)
    (h : complete c fuel dfr t rt fname nodes p v st = (.ok j, st')) : Conforms c t nodes j :=
  (confP c fuel).complete _ _ _ _ _ _ _ _ _ _ h

/-- a non-null position is never null (by definition of `Conforms`; with `response_conforms`: at every depth) -/
theorem nonnull_never_null (c : Ctx) (t : GType) (nodes : List FieldNode) (v : JVal)
    (h : Conforms c (.nonNull t) nodes v) : v ≠ .null := by
  cases h with
  | nonNull hv _ => exact hv

/-- a list position holds a list or null -/
theorem list_position_list_or_null (c : Ctx) (t : GType) (nodes : List FieldNode) (v : JVal)
    (h : Conforms c (.list t) nodes v) : v = .null ∨ ∃ xs, v = .list xs ∧ ∀ x, x ∈ xs → Conforms c t nodes x := by
  cases h with
  | listNull => exact Or.inl rfl
  | list hx => exact Or.inr ⟨_, rfl, hx⟩

/-- a leaf position holds null or a legal serialisation -/
theorem leaf_position_legal (c : Ctx) (n : String) (nodes : List FieldNode) (v : JVal)
    (hl : c.schema.isLeaf n = true) (h : Conforms c (.named n) nodes v) : v = .null ∨ legalLeaf c.schema n v = true := by
  cases h with
  | null => exact Or.inl rfl
  | leaf _ h2 => exact Or.inr h2
  | object ho _ =>
    exfalso
    simp only [Schema.isLeaf, Schema.isScalar, Schema.isEnum, Schema.isObject] at hl ho
    split at ho <;> simp_all
  | abstract ha _ _ _ =>
    exfalso
    simp only [Schema.isLeaf, Schema.isScalar, Schema.isEnum, Schema.isAbstract, Schema.isInterface, Schema.isUnion] at hl ha
    cases hf : c.schema.find? n with
    | none => simp [hf] at hl
    | some td => cases td <;> simp [hf] at hl ha

/-- the checker the driver runs on the real executor's data is sound for the specification -/
theorem checker_sound (s : Schema) (doc : Document) (opName : String) (inputs : Vars) (data : List (String × JVal))
    (h : conformsData s doc opName inputs data = true) :
    ∃ c root sel, requestCtx s doc opName inputs default = some (c, root, sel) ∧
      FieldsConform c root (rootGroups c root sel) data :=
  conformsData_sound s doc opName inputs data h

/-! ## Non-vacuity: a concrete request (GqlProofs/ExecExample.lean) -/

open Ex in
/-- the hypothesis of `response_conforms` is satisfiable: the example yields data with a nulled list item
(string / out-of-range integer under `[Int]`) and a nulled object (`w`, its non-null `x` failed) -/
example : (obsData (execute schema doc "Q" varsF world 50)).map (fun d => (d.map (·.1), conformsData schema doc "Q" varsF d))
    = some (["a", "b", "o", "w", "n"], true) := by decide +kernel

open Ex in
example : obsErrs (execute schema doc "Q" varsF world 50) = ["w.x"] := by decide +kernel

open Ex in
/-- the checker is not trivially true: a null in the non-null position `a`, a string under Int, an unselected key -/
example : conformsData schema doc "Q" varsF [("a", .null)] = false
    ∧ conformsData schema doc "Q" varsF [("a", .str "7")] = false
    ∧ conformsData schema doc "Q" varsF [("a", .int 5000000000)] = false
    ∧ conformsData schema doc "Q" varsF [("zz", .int 1)] = false
    ∧ conformsData schema doc "Q" varsT [("w", .null)] = false
    ∧ conformsData schema doc "Q" varsF [("w", .obj [("x", .null)])] = false
    ∧ conformsData schema doc "Q" varsF [("n", .obj [("__typename", .str "Query")])] = false
    ∧ conformsData schema doc "Q" varsF [("b", .int 1)] = false
    ∧ conformsData schema doc "Q" varsF [("b", .list [.int 1, .null]), ("w", .obj [("x", .str "s")])] = true := by
  decide +kernel

end GqlModel.Exec
