import GqlProofs.ExecBasic
import GqlProofs.ExecConforms
import GqlProofs.ExecChecker
import GqlProofs.ExecCheckerComplete
import GqlProofs.ExecExample
import GqlProofs.ExecErr
import GqlProofs.ExecRoot
import GqlProofs.ExecLog
import GqlProofs.ExecState
import GqlProofs.ExecWorlds
import GqlProofs.ExecPair
import GqlProofs.ExecPairFinal
/-! # C04 — Responses are well-formed for schema and query whatever resolvers return

Property theorems only. The theorems are about `GqlModel.Exec.execute` (the execution algorithm as this library
realises it; `GqlModel/Exec.lean`) and hold for EVERY schema, document, operation name, variable input, resolver
world (any assignment of value / nil / typed nil / NaN / wrong kind / error / thunk / failing thunk outcomes, any
`isTypeOf` / `resolveType` answers) and every fuel; the only premise on fuel is that the response is a `.result`
(not `.fuelOut`). `Conforms` (spec) and `conformsB` (checker run on the REAL executor's output by the driver) are in
`GqlModel/Conforms.lean`. -/
namespace GqlModel.Exec
open GqlModel.Coerce

/-- C04 core: whatever the resolvers return, the data of a response conforms to schema and query: only selected
response keys (of the collected root selection; below it of the merged sub-selection for the position's object
type / one possible type of an abstract position), every leaf a legal serialisation or null, list positions lists or
null, non-null positions never null. -/
theorem response_conforms (s : Schema) (doc : Document) (opName : String) (inputs : Vars) (w : World) (fuel : Nat)
    (data : List (String × JVal)) (errs : List (Path × Bool)) (log : List LogEntry) (kf : List Path)
    (h : execute s doc opName inputs w fuel = .result (some data) errs log kf) :
    ∃ c root sel, requestCtx s doc opName inputs w = some (c, root, sel) ∧
      FieldsConform c root (rootGroups c root sel) data := by
  obtain ⟨c, root, sel, r, st, hc, hr, -, -, -, hd⟩ := execute_result h
  refine ⟨c, root, sel, hc, ?_⟩
  rcases hd with ⟨fs, rfl, hfs⟩ | ⟨-, hnone⟩
  · cases hfs
    exact (confP c fuel).groups _ _ _ _ _ _ _ _ _ _ hr (fun g hg => hg) (by intro kv hkv; cases hkv)
  · cases hnone

/-- the same at every position: a value the algorithm completes for type `t` conforms to `t` -/
theorem completed_value_conforms (c : Ctx) (fuel : Nat) (dfr : Bool) (t : GType) (rt fname : String)
    (nodes : List FieldNode) (p : Path) (v : GoVal) (st st' : St) (j : JVal)
    (h : complete c fuel dfr t rt fname nodes p v st = (.ok j, st')) : Conforms c t nodes j :=
  (confP c fuel).complete _ _ _ _ _ _ _ _ _ _ h

/-- a non-null position is never null (by definition of `Conforms`; with `response_conforms`: at every depth) -/
theorem nonnull_never_null (c : Ctx) (t : GType) (nodes : List FieldNode) (v : JVal)
    (h : Conforms c (.nonNull t) nodes v) : v ≠ .null := by
  cases h with
  | nonNull hv _ => exact hv

/-- a list position holds a list or null -/
theorem list_position_list_or_null (c : Ctx) (t : GType) (nodes : List FieldNode) (v : JVal)
    (h : Conforms c (.list t) nodes v) : v = .null ∨ ∃ xs, v = .list xs ∧ ∀ x, x ∈ xs → Conforms c t nodes x := by
  cases h with
  | listNull => exact Or.inl rfl
  | list hx => exact Or.inr ⟨_, rfl, hx⟩

/-- a leaf position holds null or a legal serialisation -/
theorem leaf_position_legal (c : Ctx) (n : String) (nodes : List FieldNode) (v : JVal)
    (hl : c.schema.isLeaf n = true) (h : Conforms c (.named n) nodes v) : v = .null ∨ legalLeaf c.schema n v = true := by
  cases h with
  | null => exact Or.inl rfl
  | leaf _ h2 => exact Or.inr h2
  | object ho _ =>
    exfalso
    simp only [Schema.isLeaf, Schema.isScalar, Schema.isEnum, Schema.isObject] at hl ho
    split at ho <;> simp_all
  | abstract ha _ _ _ =>
    exfalso
    simp only [Schema.isLeaf, Schema.isScalar, Schema.isEnum, Schema.isAbstract, Schema.isInterface, Schema.isUnion] at hl ha
    cases hf : c.schema.find? n with
    | none => simp [hf] at hl
    | some td => cases td <;> simp [hf] at hl ha

/-- the checker the driver runs on the real executor's data is sound for the specification -/
theorem checker_sound (s : Schema) (doc : Document) (opName : String) (inputs : Vars) (w : World)
    (data : List (String × JVal)) (h : conformsData s doc opName inputs w data = true) :
    ∃ c root sel, requestCtx s doc opName inputs w = some (c, root, sel) ∧
      FieldsConform c root (rootGroups c root sel) data :=
  conformsData_sound s doc opName inputs w data h

/-- …and complete with the fuel the driver uses: the checker's verdict on the real executor's data IS `FieldsConform`
(for the request's context) — a `false` verdict means the data does not conform. -/
theorem checker_iff (s : Schema) (doc : Document) (opName : String) (inputs : Vars) (w : World)
    (data : List (String × JVal)) (c : Ctx) (root : String) (sel : SelectionSet)
    (hc : requestCtx s doc opName inputs w = some (c, root, sel)) :
    conformsData s doc opName inputs w data = true ↔ FieldsConform c root (rootGroups c root sel) data := by
  constructor
  · intro h
    obtain ⟨c', root', sel', hc', hf⟩ := conformsData_sound s doc opName inputs w data h
    rw [hc] at hc'
    simp only [Option.some.injEq, Prod.mk.injEq] at hc'
    obtain ⟨rfl, rfl, rfl⟩ := hc'
    exact hf
  · exact conformsData_complete s doc opName inputs w data c root sel hc

/-- data holds exactly the selected response keys whose field the root type defines, in the order of the groups -/
theorem data_keys_are_selected_keys (s : Schema) (doc : Document) (opName : String) (inputs : Vars) (w : World) (fuel : Nat)
    (data : List (String × JVal)) (errs : List (Path × Bool)) (log : List LogEntry) (kf : List Path)
    (h : execute s doc opName inputs w fuel = .result (some data) errs log kf) :
    ∃ c root sel, requestCtx s doc opName inputs w = some (c, root, sel) ∧
      data.map (·.1) = ((rootGroups c root sel).filter (resolvable c root)).map (·.1) := by
  obtain ⟨c, root, sel, r, st, hc, hr, -, -, -, hd⟩ := execute_result h
  refine ⟨c, root, sel, hc, ?_⟩
  rcases hd with ⟨fs, rfl, hfs⟩ | ⟨-, hnone⟩
  · cases hfs
    simpa using execGroups_ok_keys c fuel _ _ _ _ _ _ _ _ _ hr
  · cases hnone

/-! ## Errors: kept, addressed to nulls -/

/-- Errors recorded earlier are kept (and so are log entries): every call of the four functions of the algorithm only
PREPENDS to the error list and to the invocation log of the state it was given. -/
theorem errors_only_grow (c : Ctx) (fuel : Nat) :
    (∀ dfr rt src path groups acc st r st', execGroups c fuel dfr rt src path groups acc st = (r, st') →
      st.errs <:+ st'.errs ∧ st.log <:+ st'.log) ∧
    (∀ dfr rt src p fd nodes st r st', execField c fuel dfr rt src p fd nodes st = (r, st') →
      st.errs <:+ st'.errs ∧ st.log <:+ st'.log) ∧
    (∀ dfr t rt fname nodes p v st r st', complete c fuel dfr t rt fname nodes p v st = (r, st') →
      st.errs <:+ st'.errs ∧ st.log <:+ st'.log) ∧
    (∀ dfr item rt fname nodes p xs i acc st r st',
      completeItems c fuel dfr item rt fname nodes p xs i acc st = (r, st') →
      st.errs <:+ st'.errs ∧ st.log <:+ st'.log) := by
  refine ⟨?_, ?_, ?_, ?_⟩
  · intro dfr rt src path groups acc st r st' h
    obtain ⟨n1, h1, -⟩ := (errP c fuel).groups _ _ _ _ _ _ _ _ _ h
    obtain ⟨n2, h2, -⟩ := (logP c fuel).groups _ _ _ _ _ _ _ _ _ h
    exact ⟨⟨n1, h1.symm⟩, ⟨n2, h2.symm⟩⟩
  · intro dfr rt src p fd nodes st r st' h
    obtain ⟨n1, h1, -⟩ := (errP c fuel).field _ _ _ _ _ _ _ _ _ h
    obtain ⟨n2, h2, -⟩ := (logP c fuel).field _ _ _ _ _ _ _ _ _ h
    exact ⟨⟨n1, h1.symm⟩, ⟨n2, h2.symm⟩⟩
  · intro dfr t rt fname nodes p v st r st' h
    obtain ⟨n1, h1, -⟩ := (errP c fuel).complete _ _ _ _ _ _ _ _ _ _ h
    obtain ⟨n2, h2, -⟩ := (logP c fuel).complete _ _ _ _ _ _ _ _ _ _ h
    exact ⟨⟨n1, h1.symm⟩, ⟨n2, h2.symm⟩⟩
  · intro dfr item rt fname nodes p xs i acc st r st' h
    obtain ⟨n1, h1, -⟩ := (errP c fuel).items _ _ _ _ _ _ _ _ _ _ _ _ h
    obtain ⟨n2, h2, -⟩ := (logP c fuel).items _ _ _ _ _ _ _ _ _ _ _ _ h
    exact ⟨⟨n1, h1.symm⟩, ⟨n2, h2.symm⟩⟩

/-- A field whose resolver fails (error return, value together with an error, panic) contributes `null` — never a
value — and exactly one error, carrying exactly the field's response path; the failure propagates (`fail`) iff the
field's type is non-null. -/
theorem failed_field_is_null_with_error_path (c : Ctx) (fuel : Nat) (dfr : Bool) (rt : String) (src : GoVal) (p : Path)
    (fd : FieldDefS) (nodes : List FieldNode) (st st' : St) (r : Res JVal)
    (hn : fd.name ≠ "__typename") (hfail : c.world.outcome src fd.name = .fail)
    (h : execField c (fuel + 1) dfr rt src p fd nodes st = (r, st')) :
    st'.errs = (p, dfr) :: st.errs ∧
      ((fd.type.isNonNull = true ∧ r = .fail) ∨ (fd.type.isNonNull = false ∧ r = .ok .null)) := by
  have hn' : (fd.name == "__typename") = false := by simpa using hn
  simp only [execField, hn', Bool.false_eq_true, if_false, hfail] at h
  split at h
  · rename_i hnn
    simp only [Prod.mk.injEq] at h
    exact ⟨by rw [← h.2]; rfl, Or.inl ⟨hnn, h.1.symm⟩⟩
  · rename_i hnn
    simp only [Prod.mk.injEq] at h
    exact ⟨by rw [← h.2]; rfl, Or.inr ⟨by simpa using hnn, h.1.symm⟩⟩

/-- A field whose value cannot be completed (wrong kind for a list / object / leaf position, null under non-null, failing
thunk, non-possible runtime type, `isTypeOf` says no, a failure propagated from below) contributes `null` or
propagates; in both cases at least one new error was recorded, and every new error lies at or below the field's path.
(`st0` is the state after the invocation has been logged.) -/
theorem failed_completion_is_null_with_error (c : Ctx) (fuel : Nat) (dfr : Bool) (rt : String) (src : GoVal) (p : Path)
    (fd : FieldDefS) (nodes : List FieldNode) (st st' : St) (r : Res JVal) (v : GoVal)
    (hn : fd.name ≠ "__typename") (hv : c.world.outcome src fd.name = .value v)
    (h : execField c (fuel + 1) dfr rt src p fd nodes st = (r, st')) :
    ∃ st0 r1 st1, st0.errs = st.errs ∧ complete c fuel dfr fd.type rt fd.name nodes p v st0 = (r1, st1) ∧
      (∀ j, r1 = .ok j → r = .ok j ∧ st' = st1) ∧
      (r1 = .fail →
        ((fd.type.isNonNull = true ∧ r = .fail) ∨ (fd.type.isNonNull = false ∧ r = .ok .null)) ∧
        ∃ new, new ≠ [] ∧ st'.errs = new ++ st.errs ∧ ∀ e, e ∈ new → p <+: e.1) := by
  have hn' : (fd.name == "__typename") = false := by simpa using hn
  simp only [execField, hn', Bool.false_eq_true, if_false, hv] at h
  generalize hst0 : ({ st with log := _ :: st.log } : St) = st0 at h
  have h0 : st0.errs = st.errs := by rw [← hst0]
  rcases hc : complete c fuel dfr fd.type rt fd.name nodes p v st0 with ⟨r1, st1⟩
  rw [hc] at h
  refine ⟨st0, r1, st1, h0, hc, ?_, ?_⟩
  · intro j hj
    subst hj
    simp only [Prod.mk.injEq] at h
    exact ⟨h.1.symm, h.2.symm⟩
  · intro hr
    subst hr
    obtain ⟨new, hl, hfail, -⟩ := (errP c fuel).complete _ _ _ _ _ _ _ _ _ _ hc
    obtain ⟨hne, hall⟩ := hfail rfl
    rw [h0] at hl
    simp only at h
    split at h
    · rename_i hnn
      simp only [Prod.mk.injEq] at h
      exact ⟨Or.inl ⟨hnn, h.1.symm⟩, new, hne, by rw [← h.2, hl], hall⟩
    · rename_i hnn
      simp only [Prod.mk.injEq] at h
      exact ⟨Or.inr ⟨by simpa using hnn, h.1.symm⟩, new, hne, by rw [← h.2, hl], hall⟩

/-- Response level: every error of a response with data addresses a `null`: some prefix of the error's path is a
position of `data` that holds `null` (the failed field itself, or the nearest nullable ancestor the null moved to). -/
theorem errors_address_nulls (s : Schema) (doc : Document) (opName : String) (inputs : Vars) (w : World) (fuel : Nat)
    (data : List (String × JVal)) (errs : List (Path × Bool)) (log : List LogEntry) (kf : List Path)
    (h : execute s doc opName inputs w fuel = .result (some data) errs log kf) :
    ∀ e, e ∈ errs → ∃ rel, rel <+: e.1 ∧ ValAt (.obj data) rel .null := by
  obtain ⟨c, root, sel, r, st, hc, hr, herrs, -, -, hd⟩ := execute_result h
  rcases hd with ⟨fs, rfl, hfs⟩ | ⟨-, hnone⟩
  · cases hfs
    obtain ⟨new, hl, -, hok⟩ := (errP c fuel).groups _ _ _ _ _ _ _ _ _ hr
    intro e he
    rw [herrs, List.mem_reverse, hl] at he
    simp only [St.empty, List.append_nil] at he
    obtain ⟨k, x, hkx, rel, hp, hv⟩ := (hok data rfl).2 e he
    exact ⟨.key k :: rel, by simpa using hp, .key hkx hv⟩
  · cases hnone

/-- `data` is absent iff the root selection set failed… -/
theorem data_none_iff_root_failure (s : Schema) (doc : Document) (opName : String) (inputs : Vars) (w : World) (fuel : Nat)
    (data : Option (List (String × JVal))) (errs : List (Path × Bool)) (log : List LogEntry) (kf : List Path)
    (h : execute s doc opName inputs w fuel = .result data errs log kf) :
    ∃ c root sel, requestCtx s doc opName inputs w = some (c, root, sel) ∧
      (data = none ↔
        (execGroups c fuel false root .nil [] (rootGroups c root sel) [] St.empty).1 = .fail) := by
  obtain ⟨c, root, sel, r, st, hc, hr, -, -, -, hd⟩ := execute_result h
  refine ⟨c, root, sel, hc, ?_⟩
  rw [hr]
  rcases hd with ⟨fs, rfl, rfl⟩ | ⟨rfl, rfl⟩ <;> simp

/-- …and that happens only when the null had nowhere else to go: a top-level field of NON-NULL type failed (its resolver
or its completion, possibly a failure propagated from a non-null chain below it), and the last error of the response
lies at or below that field. -/
theorem data_none_has_nonnull_root_cause (s : Schema) (doc : Document) (opName : String) (inputs : Vars) (w : World)
    (fuel : Nat) (errs : List (Path × Bool)) (log : List LogEntry) (kf : List Path)
    (h : execute s doc opName inputs w fuel = .result none errs log kf) :
    ∃ c root sel, requestCtx s doc opName inputs w = some (c, root, sel) ∧
      ∃ k nodes node fd q d, (k, nodes) ∈ rootGroups c root sel ∧ nodes.head? = some node ∧
        fieldDef? c.schema root node.name = some fd ∧ fd.type.isNonNull = true ∧
        errs.getLast? = some (q, d) ∧ [PathSeg.key k] <+: q := by
  obtain ⟨c, root, sel, r, st, hc, hr, herrs, -, -, hd⟩ := execute_result h
  refine ⟨c, root, sel, hc, ?_⟩
  rcases hd with ⟨fs, -, hfs⟩ | ⟨rfl, -⟩
  · cases hfs
  · obtain ⟨k, nodes, node, fd, q, d, h1, h2, h3, h4, h5, h6⟩ := execGroups_fail_cause c fuel _ _ _ _ _ _ _ _ hr
    refine ⟨k, nodes, node, fd, q, d, h1, h2, h3, h4, ?_, by simpa using h6⟩
    rw [herrs, List.getLast?_reverse]; exact h5

/-! ## Siblings -/

/-- The state (errors, log) is write-only: what the four functions return and what they append does not depend on the
state they are given — so nothing a field records (in particular no failure) can influence a later field. -/
theorem result_independent_of_recorded_state (c : Ctx) (fuel : Nat) :
    (∀ dfr rt src path groups acc, ∃ r d, ∀ st, execGroups c fuel dfr rt src path groups acc st = (r, St.app d st)) ∧
    (∀ dfr rt src p fd nodes, ∃ r d, ∀ st, execField c fuel dfr rt src p fd nodes st = (r, St.app d st)) ∧
    (∀ dfr t rt fname nodes p v, ∃ r d, ∀ st, complete c fuel dfr t rt fname nodes p v st = (r, St.app d st)) ∧
    (∀ dfr item rt fname nodes p xs i acc, ∃ r d, ∀ st,
      completeItems c fuel dfr item rt fname nodes p xs i acc st = (r, St.app d st)) :=
  ⟨(stP c fuel).groups, (stP c fuel).field, (stP c fuel).complete, (stP c fuel).items⟩

/-- No failure in one field alters the value of a sibling: in a selection set that yields an object, the value under
each response key is exactly what executing THAT field on its own yields (from any state, i.e. whatever the siblings
did, failed at or recorded). The only way a failure reaches a sibling is by propagation, which nulls the whole object
(the selection set then yields no object at all). -/
theorem sibling_unaffected_by_failures (c : Ctx) (fuel : Nat) (dfr : Bool) (rt : String) (src : GoVal) (path : Path)
    (groups : Groups) (acc : List (String × JVal)) (st st' : St) (fs : List (String × JVal))
    (h : execGroups c fuel dfr rt src path groups acc st = (.ok fs, st'))
    (k : String) (nodes : List FieldNode) (node : FieldNode) (fd : FieldDefS)
    (hm : (k, nodes) ∈ groups) (hnode : nodes.head? = some node) (hfd : fieldDef? c.schema rt node.name = some fd) :
    ∃ v, (k, v) ∈ fs ∧ ∀ st0, (execField c fuel dfr rt src (path ++ [.key k]) fd nodes st0).1 = .ok v :=
  execGroups_field_values c fuel dfr rt src path groups acc st fs st' h k nodes node fd hm hnode hfd

/-! ### two worlds

C04, "no failure in one field alters the value of a sibling outside the nulled subtree", two-world form: worlds `w₁ w₂` with
`AgreeExcept w₁ w₂ id₀ f₀` (same answers to every type question, same outcome of every resolver except `(id₀, f₀)`), the
first execution invoking `(id₀, f₀)` only at response position `p`. Proved below: the transfer theorem (a call that never
invokes the differing resolver is unchanged), the statement at ONE selection set (any depth), its response-level instance
for top-level keys, and the FULL-DEPTH response-level theorem `sibling_unaffected_two_worlds` (data trees, error lists and
invocation logs agree outside a position `q` on the way to `p` that is `p` or holds `null` in one response). -/

/-- A call of any of the four functions that (in the first world) never invokes the differing resolver returns the same
result and leaves the same state in the second world. -/
theorem untouched_call_same_in_both_worlds (c : Ctx) (w2 : World) (id0 : Nat) (f0 : String)
    (ha : AgreeExcept c.world w2 id0 f0) (fuel : Nat) :
    (∀ dfr rt src path groups acc st r st', execGroups c fuel dfr rt src path groups acc st = (r, st') →
      (∀ e, e ∈ st'.log → ¬ Touches id0 f0 e) →
      execGroups (c.withWorld w2) fuel dfr rt src path groups acc st = (r, st')) ∧
    (∀ dfr rt src p fd nodes st r st', execField c fuel dfr rt src p fd nodes st = (r, st') →
      (∀ e, e ∈ st'.log → ¬ Touches id0 f0 e) →
      execField (c.withWorld w2) fuel dfr rt src p fd nodes st = (r, st')) ∧
    (∀ dfr t rt fname nodes p v st r st', complete c fuel dfr t rt fname nodes p v st = (r, st') →
      (∀ e, e ∈ st'.log → ¬ Touches id0 f0 e) →
      complete (c.withWorld w2) fuel dfr t rt fname nodes p v st = (r, st')) :=
  ⟨(wP ha fuel).groups, (wP ha fuel).field, (wP ha fuel).complete⟩

/-- Two-world sibling independence at one selection set (any depth): if it yields an object in both worlds, then under
every response key whose field's own execution in the first world never invokes the differing resolver, both objects
hold the same value. -/
theorem sibling_unaffected_two_worlds_local (c : Ctx) (w2 : World) (id0 : Nat) (f0 : String)
    (ha : AgreeExcept c.world w2 id0 f0) (fuel : Nat) (dfr : Bool) (rt : String) (src : GoVal)
    (path : Path) (groups : Groups) (st1 st2 st1' st2' : St) (fs1 fs2 : List (String × JVal))
    (hn : groups.keys.Nodup)
    (h1 : execGroups c fuel dfr rt src path groups [] st1 = (.ok fs1, st1'))
    (h2 : execGroups (c.withWorld w2) fuel dfr rt src path groups [] st2 = (.ok fs2, st2'))
    (k : String) (nodes : List FieldNode) (node : FieldNode) (fd : FieldDefS)
    (hm : (k, nodes) ∈ groups) (hnode : nodes.head? = some node) (hfd : fieldDef? c.schema rt node.name = some fd)
    (hnt : ∀ e, e ∈ (execField c fuel dfr rt src (path ++ [.key k]) fd nodes St.empty).2.log → ¬ Touches id0 f0 e) :
    ∀ v, (k, v) ∈ fs1 ↔ (k, v) ∈ fs2 :=
  execGroups_two_worlds ha fuel dfr rt src path groups st1 st2 st1' st2' fs1 fs2 hn h1 h2 k nodes node fd hm hnode hfd hnt

/-- Response level (partial form of the two-world statement, top-level keys): two worlds that agree except on the
outcome of ONE resolver `(object id₀, field f₀)`, which the first execution invokes only at response position `p`; if
both responses have data, they hold the same value under every top-level response key that does not lead to `p`. -/
theorem sibling_unaffected_two_worlds_partial (s : Schema) (doc : Document) (opName : String) (inputs : Vars)
    (w1 w2 : World) (id0 : Nat) (f0 : String) (ha : AgreeExcept w1 w2 id0 f0) (fuel : Nat)
    (d1 d2 : List (String × JVal)) (e1 e2 : List (Path × Bool)) (log1 log2 : List LogEntry) (kf1 kf2 : List Path)
    (h1 : execute s doc opName inputs w1 fuel = .result (some d1) e1 log1 kf1)
    (h2 : execute s doc opName inputs w2 fuel = .result (some d2) e2 log2 kf2)
    (p : Path) (hp : ∀ e, e ∈ log1 → Touches id0 f0 e → e.path = p)
    (k : String) (hk : ¬ [PathSeg.key k] <+: p) :
    ∀ v, (k, v) ∈ d1 ↔ (k, v) ∈ d2 := by
  obtain ⟨c, root, sel, r1, st1, hc1, hr1, -, hlog1, -, hd1⟩ := execute_result h1
  obtain ⟨c2, root2, sel2, r2, st2, hc2, hr2, -, -, -, hd2⟩ := execute_result h2
  obtain ⟨hc2', hw⟩ := requestCtx_world hc1 w2
  rw [hc2'] at hc2
  simp only [Option.some.injEq, Prod.mk.injEq] at hc2
  obtain ⟨rfl, rfl, rfl⟩ := hc2
  subst hw
  rw [rootGroups_world] at hr2
  rcases hd1 with ⟨fs1, rfl, hfs1⟩ | ⟨-, hnone⟩
  · rcases hd2 with ⟨fs2, rfl, hfs2⟩ | ⟨-, hnone⟩
    · cases hfs1; cases hfs2
      have hnd : (rootGroups c root sel).keys.Nodup := collect_keys_nodup c root sel ([], []) List.nodup_nil
      have hkeys1 := execGroups_ok_keys c fuel _ _ _ _ _ _ _ _ _ hr1
      have hkeys2 := execGroups_ok_keys (c.withWorld w2) fuel _ _ _ _ _ _ _ _ _ hr2
      -- is `k` a resolvable group at all?
      by_cases hres : k ∈ ((rootGroups c root sel).filter (resolvable c root)).map (·.1)
      · obtain ⟨g, hg, rfl⟩ := List.mem_map.mp hres
        obtain ⟨hgm, hgr⟩ := List.mem_filter.mp hg
        obtain ⟨k, nodes⟩ := g
        simp only [resolvable] at hgr
        cases hnode : nodes.head? with
        | none => simp [hnode] at hgr
        | some node =>
          cases hfd : fieldDef? c.schema root node.name with
          | none => simp [hnode, hfd] at hgr
          | some fd =>
            refine execGroups_two_worlds ha fuel false root .nil [] _ _ _ _ _ _ _ hnd hr1 hr2 k nodes node fd hgm hnode hfd ?_
            intro e he ht
            obtain ⟨-, hsub⟩ := execGroups_field_log_subset c fuel _ _ _ _ _ _ _ _ _ hr1 k nodes node fd hgm hnode hfd
            have hmem : e ∈ log1 := by rw [hlog1, List.mem_reverse]; exact hsub e he
            have hpath := hp e hmem ht
            rcases hrun : execField c fuel false root .nil ([] ++ [.key k]) fd nodes St.empty with ⟨rr, st'⟩
            rw [hrun] at he
            obtain ⟨new, hl, hpre, -⟩ := (logP c fuel).field _ _ _ _ _ _ _ _ _ hrun
            have : e ∈ new := by simpa [hl, St.empty] using he
            apply hk
            rw [← hpath]
            simpa using hpre e this
      · intro v
        constructor
        · intro hv
          exfalso; apply hres
          have : k ∈ d1.map (·.1) := List.mem_map.mpr ⟨_, hv, rfl⟩
          simpa [hkeys1] using this
        · intro hv
          exfalso; apply hres
          have : k ∈ d2.map (·.1) := List.mem_map.mpr ⟨_, hv, rfl⟩
          rw [hkeys2] at this
          simpa [resolvable] using this
    · cases hnone
  · cases hnone

/-- FULL DEPTH, response level. Two worlds that agree on everything except the outcome of ONE resolver
`(object id₀, field f₀)`, which the first execution invokes only at response position `p`; both responses have data.
Then there is a position `q` on the way to `p` (`q <+: p`) — `p` itself, or a position that holds `null` in one of the
responses (the ancestor the null of a failure at/below `p` moved to) — such that

* the two data trees hold the same value at EVERY response path that is neither an extension nor a prefix of `q`
  (`getAt`, `none = none` where the path addresses nothing; prefixes of `q` are the enclosing containers of `q`, which
  necessarily differ as whole values),
* the error lists restricted to paths not at or below `q` coincide (same errors, same order),
* the resolver invocation logs restricted to paths not at or below `q` coincide: outside `q` the two executions ran in
  lockstep.

Proof: `GqlProofs/ExecPair.lean` (`PairP`/`pairP`, paired induction over the four functions on canonical runs). -/
theorem sibling_unaffected_two_worlds (s : Schema) (doc : Document) (opName : String) (inputs : Vars)
    (w1 w2 : World) (id0 : Nat) (f0 : String) (ha : AgreeExcept w1 w2 id0 f0) (fuel : Nat)
    (d1 d2 : List (String × JVal)) (e1 e2 : List (Path × Bool)) (log1 log2 : List LogEntry) (kf1 kf2 : List Path)
    (h1 : execute s doc opName inputs w1 fuel = .result (some d1) e1 log1 kf1)
    (h2 : execute s doc opName inputs w2 fuel = .result (some d2) e2 log2 kf2)
    (p : Path) (hp : ∀ e, e ∈ log1 → Touches id0 f0 e → e.path = p) :
    ∃ q, q <+: p ∧
      (q = p ∨ (JVal.obj d1).getAt q = some .null ∨ (JVal.obj d2).getAt q = some .null) ∧
      (∀ r, ¬ q <+: r → ¬ r <+: q → (JVal.obj d1).getAt r = (JVal.obj d2).getAt r) ∧
      errsOutside q e1 = errsOutside q e2 ∧ logOutside q log1 = logOutside q log2 := by
  obtain ⟨c, root, sel, r1, st1, hc1, hr1, herr1, hlog1, -, hd1⟩ := execute_result h1
  obtain ⟨c2, root2, sel2, r2, st2, hc2, hr2, herr2, hlog2, -, hd2⟩ := execute_result h2
  obtain ⟨hc2', hw⟩ := requestCtx_world hc1 w2
  rw [hc2'] at hc2
  simp only [Option.some.injEq, Prod.mk.injEq] at hc2
  obtain ⟨rfl, rfl, rfl⟩ := hc2
  subst hw
  rw [rootGroups_world] at hr2
  rcases hd1 with ⟨fs1, rfl, hfs1⟩ | ⟨-, hnone⟩
  · rcases hd2 with ⟨fs2, rfl, hfs2⟩ | ⟨-, hnone⟩
    · cases hfs1; cases hfs2
      have hnd : (rootGroups c root sel).keys.Nodup := collect_keys_nodup c root sel ([], []) List.nodup_nil
      have ht : TouchAt id0 f0 ([] ++ p) st1.log := by
        intro e he h
        exact hp e (by rw [hlog1, List.mem_reverse]; exact he) h
      obtain ⟨q, hq, hval, hnull, herrs, hlogs⟩ :=
        (pairP ha fuel).groups _ _ _ _ _ p _ _ _ _ hnd hr1 hr2 ht d1 d2 rfl rfl
      refine ⟨q, hq, hnull, fun r h3 h4 => hval r (fun hc => hc.elim h3 h4), ?_, ?_⟩
      · rw [herr1, herr2]
        simp only [errsOutside, List.filter_reverse]
        simp only [List.nil_append, errsOutside] at herrs
        rw [herrs]
      · rw [hlog1, hlog2]
        simp only [logOutside, List.filter_reverse]
        simp only [List.nil_append, logOutside] at hlogs
        rw [hlogs]
    · cases hnone
  · cases hnone

/-- The same with `q` pinned down: THE NULLED ANCESTOR. Along the way to `p` at most one position holds `null` in either
response, and `q` is that position — every prefix of `p` that holds `null` in either response equals `q`, so `q` is the
longest (and the only) such prefix; `q = p` when there is none (the differing field failed in neither world, or was not
nulled). When the field at `p` failed in one world, `q` is the position its null moved to (its nearest nullable
ancestor, or `p` itself when `p` is nullable). Outside `q` the data trees, the error lists and the invocation logs of the
two responses coincide. (`MixP`/`mixP` in `GqlProofs/ExecMix*.lean` — second paired induction — and
`GqlProofs/ExecPairFinal.lean`.) -/
theorem sibling_unaffected_outside_nulled_ancestor (s : Schema) (doc : Document) (opName : String) (inputs : Vars)
    (w1 w2 : World) (id0 : Nat) (f0 : String) (ha : AgreeExcept w1 w2 id0 f0) (fuel : Nat)
    (d1 d2 : List (String × JVal)) (e1 e2 : List (Path × Bool)) (log1 log2 : List LogEntry) (kf1 kf2 : List Path)
    (h1 : execute s doc opName inputs w1 fuel = .result (some d1) e1 log1 kf1)
    (h2 : execute s doc opName inputs w2 fuel = .result (some d2) e2 log2 kf2)
    (p : Path) (hp : ∀ e, e ∈ log1 → Touches id0 f0 e → e.path = p) :
    ∃ q, q <+: p ∧
      (∀ r, r <+: p → NullIn (.obj d1) (.obj d2) r → r = q) ∧
      (q = p ∨ NullIn (.obj d1) (.obj d2) q) ∧
      (∀ r, ¬ q <+: r → ¬ r <+: q → (JVal.obj d1).getAt r = (JVal.obj d2).getAt r) ∧
      errsOutside q e1 = errsOutside q e2 ∧ logOutside q log1 = logOutside q log2 := by
  obtain ⟨qm, hqm, hnull, hval, herr, hlog⟩ :=
    sibling_unaffected_two_worlds s doc opName inputs w1 w2 id0 f0 ha fuel d1 d2 e1 e2 log1 log2 kf1 kf2 h1 h2 p hp
  -- the second invariant at the root
  have hm : MaxOK p (.obj d1) (.obj d2) := by
    obtain ⟨c, root, sel, r1, st1, hc1, hr1, -, hlog1, -, hd1⟩ := execute_result h1
    obtain ⟨c2, root2, sel2, r2, st2, hc2, hr2, -, -, -, hd2⟩ := execute_result h2
    obtain ⟨hc2', hw⟩ := requestCtx_world hc1 w2
    rw [hc2'] at hc2
    simp only [Option.some.injEq, Prod.mk.injEq] at hc2
    obtain ⟨rfl, rfl, rfl⟩ := hc2
    subst hw
    rw [rootGroups_world] at hr2
    rcases hd1 with ⟨fs1, rfl, hfs1⟩ | ⟨-, hnone⟩
    · rcases hd2 with ⟨fs2, rfl, hfs2⟩ | ⟨-, hnone⟩
      · cases hfs1; cases hfs2
        have hnd : (rootGroups c root sel).keys.Nodup := collect_keys_nodup c root sel ([], []) List.nodup_nil
        have ht : TouchAt id0 f0 ([] ++ p) st1.log := by
          intro e he h
          exact hp e (by rw [hlog1, List.mem_reverse]; exact he) h
        exact ((mixP ha fuel).groups _ _ _ _ _ p _ _ _ _ hnd hr1 hr2 ht).okok _ _ rfl rfl
      · cases hnone
    · cases hnone
  exact canonical_of_good hm hqm hnull hval herr hlog

/-- …and without the premise that both responses have data (`dataTree`: an absent `data` is the tree `null`, nulled at
the root): whenever the two executions return responses at all, the nulled ancestor `q` exists, is unique, and the two
responses coincide outside it. When `data` is absent in one response, `q` is the root: the other response then holds no
`null` anywhere on the way to `p` (the failure that removed `data` in one world is the one at/below `p`). -/
theorem sibling_unaffected_outside_nulled_ancestor_total (s : Schema) (doc : Document) (opName : String) (inputs : Vars)
    (w1 w2 : World) (id0 : Nat) (f0 : String) (ha : AgreeExcept w1 w2 id0 f0) (fuel : Nat)
    (data1 data2 : Option (List (String × JVal))) (e1 e2 : List (Path × Bool)) (log1 log2 : List LogEntry)
    (kf1 kf2 : List Path)
    (h1 : execute s doc opName inputs w1 fuel = .result data1 e1 log1 kf1)
    (h2 : execute s doc opName inputs w2 fuel = .result data2 e2 log2 kf2)
    (p : Path) (hp : ∀ e, e ∈ log1 → Touches id0 f0 e → e.path = p) :
    ∃ q, q <+: p ∧
      (∀ r, r <+: p → NullIn (dataTree data1) (dataTree data2) r → r = q) ∧
      (q = p ∨ NullIn (dataTree data1) (dataTree data2) q) ∧
      (∀ r, ¬ q <+: r → ¬ r <+: q → (dataTree data1).getAt r = (dataTree data2).getAt r) ∧
      errsOutside q e1 = errsOutside q e2 ∧ logOutside q log1 = logOutside q log2 := by
  -- the second invariant at the root, for whatever the two root selection sets returned
  obtain ⟨c, root, sel, r1, st1, hc1, hr1, -, hlog1, -, hd1⟩ := execute_result h1
  obtain ⟨c2, root2, sel2, r2, st2, hc2, hr2, -, -, -, hd2⟩ := execute_result h2
  obtain ⟨hc2', hw⟩ := requestCtx_world hc1 w2
  rw [hc2'] at hc2
  simp only [Option.some.injEq, Prod.mk.injEq] at hc2
  obtain ⟨rfl, rfl, rfl⟩ := hc2
  subst hw
  rw [rootGroups_world] at hr2
  have hnd : (rootGroups c root sel).keys.Nodup := collect_keys_nodup c root sel ([], []) List.nodup_nil
  have ht : TouchAt id0 f0 ([] ++ p) st1.log := by
    intro e he h
    exact hp e (by rw [hlog1, List.mem_reverse]; exact he) h
  have hmix := (mixP ha fuel).groups _ _ _ _ _ p _ _ _ _ hnd hr1 hr2 ht
  -- the root is the nulled ancestor as soon as one `data` is absent
  have hroot : ∀ (D1 D2 : JVal), (D1 = .null ∨ D2 = .null) →
      (∀ r, r <+: p → NullIn D1 D2 r → r = []) →
      ∃ q, q <+: p ∧ (∀ r, r <+: p → NullIn D1 D2 r → r = q) ∧ (q = p ∨ NullIn D1 D2 q) ∧
        (∀ r, ¬ q <+: r → ¬ r <+: q → D1.getAt r = D2.getAt r) ∧
        errsOutside q e1 = errsOutside q e2 ∧ logOutside q log1 = logOutside q log2 := by
    intro D1 D2 hnull huniq
    refine ⟨[], List.nil_prefix, huniq, Or.inr ?_, fun r h _ => absurd List.nil_prefix h, ?_, ?_⟩
    · rcases hnull with h | h
      · exact Or.inl (by rw [h]; rfl)
      · exact Or.inr (by rw [h]; rfl)
    · simp [errsOutside, List.isPrefixOf, List.filter_eq_nil_iff.mpr]
    · simp [logOutside, List.isPrefixOf, List.filter_eq_nil_iff.mpr]
  have hnullAt : ∀ r : Path, JVal.getAt .null r = some .null → r = [] := by
    intro r h
    cases r with
    | nil => rfl
    | cons s t => rw [getAt_null_cons] at h; cases h
  rcases hd1 with ⟨fs1, rfl, rfl⟩ | ⟨rfl, rfl⟩
  · rcases hd2 with ⟨fs2, rfl, rfl⟩ | ⟨rfl, rfl⟩
    · exact sibling_unaffected_outside_nulled_ancestor s doc opName inputs _ w2 id0 f0 ha fuel fs1 fs2 e1 e2 log1 log2
        kf1 kf2 h1 h2 p hp
    · refine hroot _ _ (Or.inr rfl) ?_
      intro r hr hn
      rcases hn with hn | hn
      · exact absurd hn (hmix.okfail _ rfl rfl r hr)
      · exact hnullAt r hn
  · rcases hd2 with ⟨fs2, rfl, rfl⟩ | ⟨rfl, rfl⟩
    · refine hroot _ _ (Or.inl rfl) ?_
      intro r hr hn
      rcases hn with hn | hn
      · exact hnullAt r hn
      · exact absurd hn (hmix.failok _ rfl rfl r hr)
    · refine hroot _ _ (Or.inl rfl) ?_
      intro r hr hn
      rcases hn with hn | hn <;> exact hnullAt r hn

/-! ## Non-vacuity: a concrete request (GqlProofs/ExecExample.lean) -/

open Ex in
/-- the hypothesis of `response_conforms` is satisfiable: the example yields data with a nulled list item
(string / out-of-range integer under `[Int]`) and a nulled object (`w`, its non-null `x` failed) -/
example : (obsData (execute schema doc "Q" varsF world 50)).map (fun d => (d.map (·.1), conformsData schema doc "Q" varsF world d))
    = some (["a", "b", "o", "w", "n"], true) := by decide +kernel

open Ex in
example : obsErrs (execute schema doc "Q" varsF world 50) = ["w.x"] := by decide +kernel

open Ex in
/-- the checker is not trivially true: a null in the non-null position `a`, a string under Int, an unselected key -/
example : conformsData schema doc "Q" varsF world [("a", .null)] = false
    ∧ conformsData schema doc "Q" varsF world [("a", .str "7")] = false
    ∧ conformsData schema doc "Q" varsF world [("a", .int 5000000000)] = false
    ∧ conformsData schema doc "Q" varsF world [("zz", .int 1)] = false
    ∧ conformsData schema doc "Q" varsT world [("w", .null)] = false
    ∧ conformsData schema doc "Q" varsF world [("w", .obj [("x", .null)])] = false
    ∧ conformsData schema doc "Q" varsF world [("n", .obj [("__typename", .str "Query")])] = false
    ∧ conformsData schema doc "Q" varsF world [("b", .int 1)] = false
    ∧ conformsData schema doc "Q" varsF world [("b", .list [.int 1, .null]), ("w", .obj [("x", .str "s")])] = true := by
  decide +kernel

open Ex in
/-- `data_none_has_nonnull_root_cause` is not vacuous: the resolver of the non-null top-level field `a` fails ⇒ no data,
one error at `a`, and nothing after `a` was resolved -/
example : (let r := execute schema doc "Q" varsF { world with rootFields := [("a", .fail)] } 50
    ((obsData r).isNone, obsErrs r, obsLog r)) = (true, ["a"], ["a"]) := by decide +kernel

open Ex in
/-- `errors_address_nulls` on the example: the error at `w.x` addresses the null at `w` -/
example : ((obsData (execute schema doc "Q" varsF world 50)).map
    (fun d => (JVal.lookup d "w").map JVal.isNull)) = some (some true) := by decide +kernel

/-- the example world with the outcome of the ONE resolver `(object 1, field x)` changed from a failure to a value -/
def Ex.world2 : World :=
  { Ex.world with objects := [(1, { typeName := "O", fields := [("x", .value (.str "ok")), ("y", .value (.int 2))] })] }

/-- the hypothesis of the two-world theorems is satisfiable: the two example worlds agree except on `(1, x)` -/
example : AgreeExcept Ex.world Ex.world2 1 "x" := by
  refine ⟨fun t v => ?_, fun t v => ?_, fun src f h => ?_⟩
  · cases v <;> try rfl
    rename_i id
    simp only [World.isTypeOfAns, World.obj?, Ex.world, Ex.world2, List.find?_nil]
    by_cases hid : id = 1
    · subst hid; rfl
    · have : ((1 : Nat) == id) = false := by simpa using fun h => hid h.symm
      simp [List.find?, this]
  · cases v <;> try rfl
    rename_i id
    simp only [World.resolveTypeAns, World.obj?, Ex.world, Ex.world2, List.find?_nil]
    by_cases hid : id = 1
    · subst hid; rfl
    · have : ((1 : Nat) == id) = false := by simpa using fun h => hid h.symm
      simp [List.find?, this]
  · cases src <;> try rfl
    rename_i id
    simp only [World.outcome, World.obj?, Ex.world, Ex.world2]
    by_cases hid : id = 1
    · subst hid
      have hf : f ≠ "x" := fun hf => h ⟨rfl, hf⟩
      have : ("x" == f) = false := by simpa using fun h => hf h.symm
      simp [List.find?, this]
    · have : ((1 : Nat) == id) = false := by simpa using fun h => hid h.symm
      simp [List.find?, this]

open Ex in
/-- …the resolver is invoked only at `w.x` in the first world, the nearest nullable ancestor of `w.x` is `w`: the two
responses differ under `w` (null vs an object) and agree under every other top-level key -/
example : (let r1 := obsData (execute schema doc "Q" varsF world 50)
           let r2 := obsData (execute schema doc "Q" varsF world2 50)
           (r1.map (fun d => (d.filter (fun kv => kv.1 != "w")).map (fun kv => (kv.1, fmtV kv.2))) ==
              r2.map (fun d => (d.filter (fun kv => kv.1 != "w")).map (fun kv => (kv.1, fmtV kv.2))),
            r1.map (fun d => (JVal.lookup d "w").map fmtV), r2.map (fun d => (JVal.lookup d "w").map fmtV)))
    = (true, some (some "<nil>"), some (some "map[x:ok]")) := by decide +kernel

/-! ### non-vacuity of `sibling_unaffected_two_worlds`: `p = items[1].a` (depth 3, inside a list), nulled ancestor
`q = items[1]` strictly above `p` -/

/-- the two worlds agree except on `(object 2, field a)` -/
example : AgreeExcept Ex.worldTW1 Ex.worldTW2 2 "a" := by
  refine ⟨fun t v => ?_, fun t v => ?_, fun src f h => ?_⟩
  · cases v <;> try rfl
    rename_i id
    simp only [World.isTypeOfAns, World.obj?, Ex.worldTW1, Ex.worldTW2, List.find?_nil]
    by_cases h1 : id = 1
    · subst h1; rfl
    · by_cases h2 : id = 2
      · subst h2; rfl
      · have e1 : ((1 : Nat) == id) = false := by simpa using fun h => h1 h.symm
        have e2 : ((2 : Nat) == id) = false := by simpa using fun h => h2 h.symm
        simp [List.find?, e1, e2]
  · cases v <;> try rfl
    rename_i id
    simp only [World.resolveTypeAns, World.obj?, Ex.worldTW1, Ex.worldTW2, List.find?_nil]
    by_cases h1 : id = 1
    · subst h1; rfl
    · by_cases h2 : id = 2
      · subst h2; rfl
      · have e1 : ((1 : Nat) == id) = false := by simpa using fun h => h1 h.symm
        have e2 : ((2 : Nat) == id) = false := by simpa using fun h => h2 h.symm
        simp [List.find?, e1, e2]
  · cases src <;> try rfl
    rename_i id
    simp only [World.outcome, World.obj?, Ex.worldTW1, Ex.worldTW2]
    by_cases h1 : id = 1
    · subst h1; rfl
    · by_cases h2 : id = 2
      · subst h2
        have hf : f ≠ "a" := fun hf => h ⟨rfl, hf⟩
        have : ("a" == f) = false := by simpa using fun h => hf h.symm
        simp [List.find?, this]
      · have e1 : ((1 : Nat) == id) = false := by simpa using fun h => h1 h.symm
        have e2 : ((2 : Nat) == id) = false := by simpa using fun h => h2 h.symm
        simp [List.find?, e1, e2]

open Ex in
/-- both responses have data; the first execution invokes `(2, a)` exactly once, at `p = items[1].a`; the first response
holds `null` at `q = items[1]` (the non-null `a` failed, the null moved to the list item), the second an object -/
example : (obsData (execute schemaTW docTW "" [] worldTW1 50)).isSome = true
    ∧ (obsData (execute schemaTW docTW "" [] worldTW2 50)).isSome = true
    ∧ touchPaths 2 "a" (execute schemaTW docTW "" [] worldTW1 50) = [pathStr pTW]
    ∧ showAt (obsData (execute schemaTW docTW "" [] worldTW1 50)) qTW = some "<nil>"
    ∧ showAt (obsData (execute schemaTW docTW "" [] worldTW2 50)) qTW = some "map[a:7 b:3]"
    ∧ obsErrs (execute schemaTW docTW "" [] worldTW1 50) = ["items.1.a"]
    ∧ obsErrs (execute schemaTW docTW "" [] worldTW2 50) = [] := by
  decide +kernel

open Ex in
/-- …and, as the theorem says, outside `q` the two responses coincide: same values at `items[0]`, `items[0].b`, `z`
(and nothing at `items[2]` in both), same errors and same invocations outside `items[1]` -/
example : [[.key "items", .idx 0], [.key "items", .idx 0, .key "b"], [.key "z"], [.key "items", .idx 2]].map
             (fun r => (showAt (obsData (execute schemaTW docTW "" [] worldTW1 50)) r,
                        showAt (obsData (execute schemaTW docTW "" [] worldTW2 50)) r))
      = [(some "map[a:1 b:2]", some "map[a:1 b:2]"), (some "2", some "2"), (some "5", some "5"), (none, none)]
    ∧ errsOutsideS qTW (execute schemaTW docTW "" [] worldTW1 50) = []
    ∧ errsOutsideS qTW (execute schemaTW docTW "" [] worldTW2 50) = []
    ∧ logOutsideS qTW (execute schemaTW docTW "" [] worldTW1 50) = ["items", "items.0.a", "items.0.b", "z"]
    ∧ logOutsideS qTW (execute schemaTW docTW "" [] worldTW2 50) = ["items", "items.0.a", "items.0.b", "z"] := by
  decide +kernel

end GqlModel.Exec
