import GqlModel.Validate.Local
import GqlModel.Validate.Graph
import GqlModel.Validate.Overlap
import Generated.Tables
/-! # C02 — table obligation: the rule set the library runs is the rule set that is modelled

`Generated.specifiedRules` is regenerated from `graphql.SpecifiedRules` (rules.go) on every run. A rule
added to, removed from or renamed in that list breaks this obligation until the model follows. -/
namespace GqlModel.Validate

/-- names of all modelled rules, with the Go suffix `Rule` -/
def modelledRuleNames : List String :=
  ((localRules.map (·.1)) ++ (graphRules.map (·.1)) ++ (overlapRules.map (·.1))).map (· ++ "Rule")

/-- both lists name the same 24 rules (each exactly once) -/
def sameRuleSet (a b : List String) : Bool :=
  a.length == b.length && a.all (fun x => b.contains x) && b.all (fun x => a.contains x) && a.length == 24

theorem specified_rules_all_modelled : sameRuleSet modelledRuleNames Generated.specifiedRules = true := by
  decide +kernel

end GqlModel.Validate
