import GqlProofs.ValidateRules
import GqlProofs.ValidateOverlapSound
import GqlProofs.ValidateOverlapComplete
/-! # C02 (graph rules, overlap rule) and the C09 / C19 termination-and-cost facts of validation

Every theorem here is about the models of `GqlModel/Validate/Graph.lean` and `GqlModel/Validate/Overlap.lean`
(M = the algorithms as coded in /repo/validator.go, /repo/rules.go, /repo/rules_overlapping_fields_can_be_merged.go;
S = the declarative rules); the models are tied to /repo on every run by `harness/cmd/c02` and
`harness/cmd/c02overlap`. -/
namespace GqlModel.Validate.Graph
open GqlModel.Validate

/-! ## `ValidationContext` helpers -/

/-- `FragmentSpreads`: the explicit-stack loop terminates within its fuel and returns exactly the spreads that occur
anywhere below the selection set. -/
theorem fragmentSpreads_eq_spreads (ss : SelectionSet) :
    (fragmentSpreadsF ss).2 = false ∧ ∀ x, x ∈ fragmentSpreads ss ↔ x ∈ spreadsSet ss :=
  ⟨fragmentSpreads_no_oof ss, mem_fragmentSpreads ss⟩

/-- `RecursivelyReferencedFragments(operation)`: the worklist with `collectedNames` never exhausts its fuel
(`|fragment table| + 1`), on arbitrary — also cyclic — tables, and returns exactly the fragment definitions
`Fragment(name)` resolves to for the names reachable in the spread graph from a spread of the operation. -/
theorem recursivelyReferenced_eq_reachable (tbl : List Frag) (sel : SelectionSet) :
    (recursivelyReferencedF tbl sel).2 = false ∧
    ∀ f, f ∈ recursivelyReferenced tbl sel ↔
      (FragUsed tbl sel f.name.value ∧ lookupFrag tbl f.name.value = some f) :=
  rrf_spec tbl sel

/-! ## NoFragmentCycles -/

/-- C09: the cycle DFS terminates on every fragment table (cyclic, duplicate names, undefined spreads):
the fuel `|table| + 1` bounding the recursion depth is never exhausted. -/
theorem cycles_no_fuel_exhaustion (d : Document) : (cycleRun (fragDefs d)).oof = false :=
  cycleRun_no_oof (fragDefs d)

/-- T1: with unique fragment names (UniqueFragmentNames is a rule of its own) the DFS with `visitedFrags`,
`spreadPath` and `spreadPathIndexByName` reports at least one error iff the spread graph has a cycle. -/
theorem cycles_iff (s : Schema) (d : Document) (h : uniqueFragNames d = true) :
    noFragmentCycles s d ≠ [] ↔ Cyclic (fragDefs d) :=
  cycleRun_spec (fragDefs d) (of_decide_eq_true h)

/- Full statement without the hypothesis is FALSE for the code as it is: `visitedFrags` is keyed by name while
`Fragment()` resolves a name to its last definition, so a first definition can mark the name visited and the
cycle through the second one is never explored (probed on the real rule: accepted).
   theorem cycles_iff_full (s d) : noFragmentCycles s d ≠ [] ↔ Cyclic (fragDefs d)
Negation witness: -/
private def nm (v : String) : Name := ⟨v, Loc.none⟩
private def sp (v : String) : Selection := .spread (nm v) [] Loc.none
private def fld (v : String) : Selection := .field none (nm v) [] [] none Loc.none
private def frag (n : String) (sels : List Selection) : Definition :=
  .fragment (nm n) (.named "Q" Loc.none) [] (.mk sels Loc.none) Loc.none

/-- `fragment A on Q { n }  fragment B on Q { ...A }  fragment A on Q { ...B }` -/
def dupCycleDoc : Document := ⟨[frag "A" [fld "n"], frag "B" [sp "A"], frag "A" [sp "B"]], Loc.none⟩

theorem cycles_iff_needs_unique_names (s : Schema) :
    uniqueFragNames dupCycleDoc = false ∧ Cyclic (fragDefs dupCycleDoc) ∧ noFragmentCycles s dupCycleDoc = [] := by
  have e1 : SpreadEdge (fragDefs dupCycleDoc) "A" "B" := by unfold SpreadEdge; decide
  have e2 : SpreadEdge (fragDefs dupCycleDoc) "B" "A" := by unfold SpreadEdge; decide
  have h3 : (cycleRun (fragDefs dupCycleDoc)).errs = [] := by decide
  exact ⟨by decide, ⟨"A", "B", e1, .step e2 (.refl _)⟩, h3⟩

/-- non-vacuity: a cyclic and an acyclic document with unique names -/
def cycleDoc : Document := ⟨[frag "A" [sp "B"], frag "B" [fld "n", sp "A"]], Loc.none⟩
def chainDoc : Document := ⟨[frag "A" [sp "B"], frag "B" [fld "n"]], Loc.none⟩
example : uniqueFragNames cycleDoc = true ∧ noFragmentCycles default cycleDoc ≠ [] := by decide
example : uniqueFragNames chainDoc = true ∧ noFragmentCycles default chainDoc = [] := by decide

/-! ## NoUnusedFragments -/

/-- T1: the rule reports exactly the fragment definitions whose name no operation reaches in the spread graph,
each at the definition (`≥ 1 error ⇔ violated` and location soundness in one statement). No uniqueness hypothesis:
the rule and the graph are both by NAME. -/
theorem noUnusedFragments_iff (s : Schema) (d : Document) (e : VErr) :
    e ∈ noUnusedFragments s d ↔
      ∃ f, f ∈ fragDefs d ∧ e = ⟨ruleUnusedFrag, [f.loc]⟩ ∧
        ∀ sel, sel ∈ opSels d → ¬ FragUsed (fragDefs d) sel f.name.value := by
  simp only [noUnusedFragments, List.mem_filterMap]
  constructor
  · rintro ⟨f, hf, he⟩
    split at he
    · cases he
    · rename_i hnot
      refine ⟨f, hf, (Option.some.inj he).symm, fun sel hsel hu => hnot ?_⟩
      exact (mem_usedFragNames _ _ _).2 ⟨sel, hsel, hu, List.mem_map.2 ⟨f, hf, rfl⟩⟩
  · rintro ⟨f, hf, rfl, hno⟩
    refine ⟨f, hf, ?_⟩
    have : f.name.value ∉ usedFragNames (fragDefs d) (opSels d) := by
      intro h
      rcases (mem_usedFragNames _ _ _).1 h with ⟨sel, hsel, hu, _⟩
      exact hno sel hsel hu
    simp [this]

/-! ## NoUndefinedVariables, NoUnusedVariables, VariablesInAllowedPosition -/

/-- T1: an error for exactly every usage, in the operation or a fragment it reaches, of a variable the operation
does not define — located at the usage and the operation. -/
theorem noUndefinedVariables_iff (s : Schema) (d : Document) (e : VErr) :
    e ∈ noUndefinedVariables s d ↔
      ∃ o u, o ∈ opDefs d ∧ UsageIn s (fragDefs d) o u ∧ ¬ VarDefined o u.name ∧
        e = ⟨ruleUndefVar, [u.loc, o.loc]⟩ := by
  simp only [noUndefinedVariables, List.mem_flatMap, List.mem_filterMap]
  constructor
  · rintro ⟨o, ho, u, hu, he⟩
    split at he
    · cases he
    · rename_i hnot
      exact ⟨o, u, ho, (mem_recursiveUsages _ _ _ _).1 hu, hnot, (Option.some.inj he).symm⟩
  · rintro ⟨o, u, ho, hu, hnot, rfl⟩
    refine ⟨o, ho, u, (mem_recursiveUsages _ _ _ _).2 hu, ?_⟩
    have : u.name ∉ definedVars o := hnot
    simp [this]

/-- T1: an error for exactly every variable definition whose variable is not used in the operation's reachable
selection — located at the definition. (The code never records the EMPTY name as used, rules.go:1096; the parser
cannot produce it.) -/
theorem noUnusedVariables_iff (s : Schema) (d : Document) (e : VErr) :
    e ∈ noUnusedVariables s d ↔
      ∃ o v, o ∈ opDefs d ∧ v ∈ o.vars ∧ e = ⟨ruleUnusedVar, [v.loc]⟩ ∧
        ¬ (v.var.value ≠ "" ∧ VarUsedIn s (fragDefs d) o v.var.value) := by
  have key : ∀ (o : Op) (n : String), n ∈ usedVars (recursiveUsages s (fragDefs d) o) ↔
      (n ≠ "" ∧ VarUsedIn s (fragDefs d) o n) := by
    intro o n
    rw [mem_usedVars]
    constructor
    · rintro ⟨h, u, hu, rfl⟩; exact ⟨h, u, (mem_recursiveUsages _ _ _ _).1 hu, rfl⟩
    · rintro ⟨h, u, hu, rfl⟩; exact ⟨h, u, (mem_recursiveUsages _ _ _ _).2 hu, rfl⟩
  simp only [noUnusedVariables, List.mem_flatMap, List.mem_filterMap]
  constructor
  · rintro ⟨o, ho, v, hv, he⟩
    split at he
    · cases he
    · rename_i hnot
      exact ⟨o, v, ho, hv, (Option.some.inj he).symm, fun h => hnot ((key o _).2 h)⟩
  · rintro ⟨o, v, ho, hv, rfl, hnot⟩
    refine ⟨o, ho, v, hv, ?_⟩
    have : v.var.value ∉ usedVars (recursiveUsages s (fragDefs d) o) := fun h => hnot ((key o _).1 h)
    simp [this]

/-- corollary for parser-produced documents (variable names are non-empty) -/
theorem noUnusedVariables_iff_nonempty (s : Schema) (d : Document)
    (hne : ∀ o v, o ∈ opDefs d → v ∈ o.vars → v.var.value ≠ "") :
    noUnusedVariables s d ≠ [] ↔
      ∃ o v, o ∈ opDefs d ∧ v ∈ o.vars ∧ ¬ VarUsedIn s (fragDefs d) o v.var.value := by
  constructor
  · intro h
    rcases List.exists_mem_of_ne_nil _ h with ⟨e, he⟩
    rcases (noUnusedVariables_iff s d e).1 he with ⟨o, v, ho, hv, _, hnot⟩
    exact ⟨o, v, ho, hv, fun hu => hnot ⟨hne o v ho hv, hu⟩⟩
  · rintro ⟨o, v, ho, hv, hnot⟩
    exact List.ne_nil_of_mem ((noUnusedVariables_iff s d _).2 ⟨o, v, ho, hv, rfl, fun h => hnot h.2⟩)

/-- T1: an error for exactly every usage (in the operation's reachable selection) of a variable the operation
defines whose effective type is not a subtype of the type the position expects — located at the definition and the
usage. `varDefFor` is the last definition of that name, `Usage.type` the `TypeInfo.InputType()` of the position. -/
theorem variablesInAllowedPosition_iff (s : Schema) (d : Document) (e : VErr) :
    e ∈ variablesInAllowedPosition s d ↔
      ∃ o u v, o ∈ opDefs d ∧ UsageIn s (fragDefs d) o u ∧ varDefFor o.vars u.name = some v ∧
        varPosBad s v u = true ∧ e = ⟨ruleVarPos, [v.loc, u.loc]⟩ := by
  simp only [variablesInAllowedPosition, List.mem_flatMap, List.mem_filterMap]
  constructor
  · rintro ⟨o, ho, u, hu, he⟩
    split at he
    · rename_i v hv
      split at he
      · rename_i hbad
        exact ⟨o, u, v, ho, (mem_recursiveUsages _ _ _ _).1 hu, hv, hbad, (Option.some.inj he).symm⟩
      · cases he
    · cases he
  · rintro ⟨o, u, v, ho, hu, hv, hbad, rfl⟩
    exact ⟨o, ho, u, (mem_recursiveUsages _ _ _ _).2 hu, by simp [hv, hbad]⟩

end GqlModel.Validate.Graph

namespace GqlModel.Validate.Overlap
open GqlModel.Validate GqlModel.Validate.Graph

/-! ## OverlappingFieldsCanBeMerged: memoisation (C19 cost model, C09 termination) -/

/-- T1 `memo_body_at_most_once`, general form (any environment whose fragment table comes from the document, any
fuel, any list of the document's selection sets as the visitor's input).
The body of `collectConflictsBetweenFieldsAndFragment` executes at most once per key (fieldsInfo, fragment, excl)
— `logFF` logs the key at the `verifCount(VerifSiteFieldsAndFragment)` site — and the body of
`collectConflictsBetweenFragments` at most once per key (frag₁, frag₂, excl) (`logBF`,
`VerifSiteBetweenFragments`). Hence the number of body executions is at most `2·S·F` resp. `2·F²`
(S selection sets, F distinct spread names resp. fragment definitions; the factor 2 is the flag). -/
theorem memo_body_at_most_once_gen (d : Document) (e : Env) (hT : ∀ f, f ∈ e.tbl → f.sel ∈ allSets d) (fuel : Nat)
    (sets : List (TCtx × SelectionSet)) (hsets : ∀ cs, cs ∈ sets → cs.2 ∈ allSets d) :
    (overlapRun e fuel sets).1.logFF.Nodup ∧ (overlapRun e fuel sets).1.logBF.Nodup ∧
    (overlapRun e fuel sets).1.cntFF ≤ 2 * (nSets d * nSpreadNames d) ∧
    (overlapRun e fuel sets).1.cntBF ≤ 2 * (e.tbl.length * e.tbl.length) := by
  have h := overlapRun_inv (d := d) (e := e) hT fuel sets hsets
  exact ⟨h.ffNodup, h.bfNodup, h.counts.1, h.counts.2⟩

/-- T1 `memo_body_at_most_once` for the rule as run on a document (`overlapM` = M; its counters `cntFF`, `cntBF` are
what the `verif` hooks count in /repo). -/
theorem memo_body_at_most_once (s : Schema) (d : Document) :
    (overlapM s d).1.logFF.Nodup ∧ (overlapM s d).1.logBF.Nodup ∧
    (overlapM s d).1.cntFF ≤ 2 * (nSets d * nSpreadNames d) ∧
    (overlapM s d).1.cntBF ≤ 2 * (nFrags d * nFrags d) :=
  memo_body_at_most_once_gen d (envM s d) (fragDefs_sel_sub d) (fuelFor d) (typedSelSets s d) (typedSelSets_sub s d)

/-- C09 / C19 termination: on a document whose selection sets have pairwise distinct locations (every parsed
document; the location stands for the pointer identity the Go memo tables are keyed by) the recursion of the
overlap rule never exhausts `fuelFor d = (2·S·F + 2·F² + 1)·(S + 2) + 1` — also on cyclic fragments, where the memo
tables are the only thing that stops it. Proof: potential = number of memo keys not yet logged. -/
theorem overlap_no_fuel_exhaustion (s : Schema) (d : Document) (hloc : locsDistinct d = true) :
    (overlapM s d).1.oof = false := by
  refine overlapRun_fuel (d := d) (e := envM s d) hloc (fragDefs_sel_sub d) (fuelFor d) ?_ (typedSelSets s d)
    (typedSelSets_sub s d)
  have h1 := length_univFF d
  have h2 := length_univBF (fragDefs d)
  show ((univFF d).length + (univBF (fragDefs d)).length + 1) * (nSets d + 2) < fuelFor d + 1
  rw [h1, h2]
  unfold fuelFor memoPotential nFrags
  omega

/-! ## OverlappingFieldsCanBeMerged: soundness (every reported conflict is a conflict of S) -/

/-- T1 `overlap_sound`, general form: for any environment (field-definition lookup) and any coherent parent typing
`π` — the parent type the visitor passes for a selection set, the one `findConflict` derives for a sub-selection and
the one a fragment's type condition names coincide (`Coh`) — every conflict the memoised algorithm reports while
visiting a selection set blames two fields of that set's fully flattened field set (through inline fragments and
any chain of named spreads), with one response key, that cannot be merged (`PairConflict`). Any fuel: running out
of fuel only loses reports. -/
theorem overlap_sound_gen (d : Document) (e : Env) (π : SelectionSet → Option String) (hc : Coh d e π) (fuel : Nat)
    (sets : List (TCtx × SelectionSet)) (hsets : ∀ cs, cs ∈ sets → cs.2 ∈ allSets d ∧ π cs.2 = cs.1.parent) :
    ∀ x, x ∈ (overlapRun e fuel sets).2 →
      ∃ cs, cs ∈ sets ∧ ∃ a b, a ∈ flat e cs.1.parent cs.2 ∧ b ∈ flat e cs.1.parent cs.2 ∧
        a.node.key = b.node.key ∧ Blames x a b ∧ PairConflict e false a b :=
  overlapRun_sound hc fuel sets hsets

/-- T1 `overlap_sound` for the rule as run on a document whose parent types are coherent (`cohB`, evaluated by the
drivers on every input; it fails only for sub-selections under `__schema` / `__type` or under leaf-typed fields and
for fragments on non-composite types). -/
theorem overlap_sound (s : Schema) (d : Document) (h : cohB s d (envM s d) = true) :
    ∀ x, x ∈ (overlapM s d).2 →
      ∃ cs, cs ∈ typedSelSets s d ∧ ∃ a b, a ∈ flat (envM s d) cs.1.parent cs.2 ∧
        b ∈ flat (envM s d) cs.1.parent cs.2 ∧ a.node.key = b.node.key ∧ Blames x a b ∧
        PairConflict (envM s d) false a b := by
  have hc := coh_of_cohB s d (envM s d) (fragDefs_sel_sub d) h
  exact overlapRun_sound hc.1 (fuelFor d) (typedSelSets s d)
    (fun cs hcs => ⟨typedSelSets_sub s d cs hcs, hc.2 cs hcs⟩)

/-- corollary: the rule rejects only documents in which some selection set violates FieldsInSetCanMerge -/
theorem overlap_reject_sound (s : Schema) (d : Document) (h : cohB s d (envM s d) = true)
    (hrej : overlappingFieldsCanBeMerged s d ≠ []) :
    ∃ cs, cs ∈ typedSelSets s d ∧ SetConflict (envM s d) cs.1.parent cs.2 := by
  have hne : (overlapM s d).2 ≠ [] := by
    intro h0
    apply hrej
    simp [overlappingFieldsCanBeMerged, h0]
  rcases List.exists_mem_of_ne_nil _ hne with ⟨x, hx⟩
  rcases overlap_sound s d h x hx with ⟨cs, hcs, a, b, ha, hb, hk, _, hp⟩
  exact ⟨cs, hcs, a, b, ha, hb, hk, hp⟩

/-! ## OverlappingFieldsCanBeMerged: completeness on acyclic fragment tables, and the iff -/

/-- T2 `overlap_complete_acyclic`: on a document whose fragment spread graph is acyclic (`acyclicB` = the cycle rule
reports nothing), with unique fragment names and the decidable side conditions of `compB` (parent-type coherence
`cohB`, `argsFaithfulB`: printing is injective on the argument values that occur, `apartB`: locations separate
fragment bodies from the other selection sets — all evaluated by the drivers on every input), if SOME visited
selection set violates FieldsInSetCanMerge — two fields of its fully flattened field set, however deeply nested in
fragment spreads, with one response key that cannot be merged — then the memoised algorithm reports an error.
Proof: operational coverage invariant of the memo tables (`overlapRun_cov`: every skipped comparison was executed
under a not-weaker flag, every executed body's comparisons are covered) + induction on a measure that decreases along
nesting and along spreads (`cert`; this is where acyclicity is used) + no fuel exhaustion. -/
theorem overlap_complete_acyclic (s : Schema) (d : Document) (h : compB s d (envM s d) = true)
    (hconf : ∃ cs, cs ∈ typedSelSets s d ∧ SetConflict (envM s d) cs.1.parent cs.2) :
    overlappingFieldsCanBeMerged s d ≠ [] := by
  intro hnil
  apply complete_acyclic s d h hconf
  simpa [overlappingFieldsCanBeMerged] using hnil

/-- T2 `overlap_memo_iff_naive` on acyclic fragment tables: the memoised A–J algorithm reports a conflict iff some
selection set violates the brute-force FieldsInSetCanMerge, document-wide. -/
theorem overlap_iff_naive_acyclic (s : Schema) (d : Document) (h : compB s d (envM s d) = true) :
    overlappingFieldsCanBeMerged s d ≠ [] ↔
      ∃ cs, cs ∈ typedSelSets s d ∧ SetConflict (envM s d) cs.1.parent cs.2 := by
  have hcoh : cohB s d (envM s d) = true := by
    simp only [compB, Bool.and_eq_true] at h; exact h.1.1.1.1
  exact ⟨overlap_reject_sound s d hcoh, overlap_complete_acyclic s d h⟩

/-- the side conditions of `compB` that are not rules of their own -/
def sideB (s : Schema) (d : Document) : Bool :=
  cohB s d (envM s d) && argsFaithfulB s d (envM s d) && apartB d (fragDefs d)

/-- **the headline clause of C02**: if NoFragmentCycles, UniqueFragmentNames (`uniqueFragNames`) and
OverlappingFieldsCanBeMerged all report nothing, then no selection set of the document violates
FieldsInSetCanMerge — no two fields that can land on one response key differ in name, arguments or response shape,
however deeply one of them is nested in fragment spreads. (`sideB`: decidable side conditions, true for
parser-produced documents apart from `__schema`/`__type` sub-selections, checked by the drivers on every input.) -/
theorem accepted_document_has_no_conflict (s : Schema) (d : Document) (hside : sideB s d = true)
    (hcyc : noFragmentCycles s d = []) (huniq : uniqueFragNames d = true)
    (hov : overlappingFieldsCanBeMerged s d = []) :
    ∀ cs, cs ∈ typedSelSets s d → FieldsInSetCanMerge (envM s d) cs.1.parent cs.2 := by
  have hcomp : compB s d (envM s d) = true := by
    simp only [sideB, Bool.and_eq_true] at hside
    simp only [compB, Bool.and_eq_true, acyclicB, List.isEmpty_iff]
    exact ⟨⟨⟨⟨hside.1.1, huniq⟩, hcyc⟩, hside.1.2⟩, hside.2⟩
  intro cs hcs hconf
  exact overlap_complete_acyclic s d hcomp ⟨cs, hcs, hconf⟩ hov

/- Remaining gap of the full T2 `overlap_memo_iff_naive` (no acyclicity hypothesis):
   theorem overlap_memo_iff_naive (s d) (h : cohB … ∧ argsFaithfulB … ∧ apartB …) :
       overlappingFieldsCanBeMerged s d ≠ [] ↔ ∃ cs ∈ typedSelSets s d, SetConflict (envM s d) cs.1.parent cs.2
   On CYCLIC fragment tables the operational half (`overlapRun_cov`) still holds, but `cert` does not go through:
   a comparison can be answered by a memo entry that is still being executed (pending), so the induction needs a
   coinductive argument instead of a decreasing measure. Such documents are rejected by NoFragmentCycles anyway. -/

/-! ### non-vacuity: a coherent document on which the rule reports a conflict through a fragment spread -/

private def fdS (n : String) (t : GType) : FieldDefS := { name := n, type := t, args := [] }
/-- `type Q { i: I }  interface I { n: Int  s: String }` -/
def exSchema : Schema :=
  { types := [.scalar "Int" .int "", .scalar "String" .string "",
      .interface "I" [fdS "n" (.named "Int"), fdS "s" (.named "String")] true "",
      .object "Q" [] [fdS "i" (.named "I")] false ""],
    query := "Q", mutation := none, subscription := none, directives := [] }

private def nmAt (v : String) (a : Nat) : Name := ⟨v, ⟨a, a + 1⟩⟩
/-- `{ i { x: n ...F } }  fragment F on I { x: s }` with the selection-set locations a parser would assign -/
def exDoc : Document :=
  ⟨[.operation .query none [] []
      (.mk [.field none (nmAt "i" 2) [] []
        (some (.mk [.field (some (nmAt "x" 6)) (nmAt "n" 9) [] [] none ⟨6, 10⟩, .spread (nmAt "F" 14) [] ⟨11, 15⟩]
          ⟨4, 17⟩)) ⟨2, 17⟩] ⟨0, 19⟩) ⟨0, 19⟩,
    .fragment (nmAt "F" 30) (.named "I" ⟨35, 36⟩) []
      (.mk [.field (some (nmAt "x" 39)) (nmAt "s" 42) [] [] none ⟨39, 43⟩] ⟨37, 45⟩) ⟨21, 45⟩], ⟨0, 45⟩⟩

example : cohB exSchema exDoc (envM exSchema exDoc) = true ∧ locsDistinct exDoc = true := by decide +kernel
example : overlappingFieldsCanBeMerged exSchema exDoc ≠ [] := by decide +kernel
example : compB exSchema exDoc (envM exSchema exDoc) = true := by decide +kernel
example : (overlapM exSchema exDoc).1.oof = false ∧ (overlapM exSchema exDoc).1.cntFF ≥ 1 := by decide +kernel

/-- `{ i { x: n ...F } }  fragment F on I { x: n }` — accepted; all hypotheses of the headline corollary hold -/
def okDoc : Document :=
  ⟨[.operation .query none [] []
      (.mk [.field none (nmAt "i" 2) [] []
        (some (.mk [.field (some (nmAt "x" 6)) (nmAt "n" 9) [] [] none ⟨6, 10⟩, .spread (nmAt "F" 14) [] ⟨11, 15⟩]
          ⟨4, 17⟩)) ⟨2, 17⟩] ⟨0, 19⟩) ⟨0, 19⟩,
    .fragment (nmAt "F" 30) (.named "I" ⟨35, 36⟩) []
      (.mk [.field (some (nmAt "x" 39)) (nmAt "n" 42) [] [] none ⟨39, 43⟩] ⟨37, 45⟩) ⟨21, 45⟩], ⟨0, 45⟩⟩

example : sideB exSchema okDoc = true ∧ noFragmentCycles exSchema okDoc = [] ∧ uniqueFragNames okDoc = true ∧
    overlappingFieldsCanBeMerged exSchema okDoc = [] := by decide +kernel

end GqlModel.Validate.Overlap
