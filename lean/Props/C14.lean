import GqlProofs.Visitor
import GqlProofs.VisitorParallel
import GqlModel.Tables
import Generated.Tables
/-! # C14 — AST traversal visits every node once, in order, honouring skip and break

Property theorems only. `M` = the loop of `visitor.Visit` as the small-step machine `step`;
`S` = the recursive reference walk. All statements hold for every tree, every visitor (any state
type `σ`, any enter/leave functions — hence any assignment of continue/skip/break to (node, phase)
pairs, also history-dependent ones) and every initial state. -/
namespace GqlModel.Visitor
variable {σ : Type}

/-- C14 core for stateful visitors (no edits; D-14b repaired): for every tree, every visitor and every initial
visitor state, the loop ends with exactly the state the reference walk computes, in `broken` iff BREAK. -/
theorem machine_eq_reference (v : Visitor σ) (root : Node) (st : σ) :
    ∃ N, runN v N (init root) st = (if (walk v root st).2 then MS.broken else MS.done, (walk v root st).1) := by
  obtain ⟨id, slots⟩ := root
  rcases hE : v.enter st id ⟨none, none, [], []⟩ with ⟨st1, a⟩
  cases a with
  | brk => exact ⟨1, by simp [run_one, init, step, enterNode, hE, walk, visitNode]⟩
  | skip =>
    refine ⟨1 + 1, ?_⟩
    rw [runN_add, run_one, run_one]
    simp [init, step, enterNode, hE, walk, visitNode, leaveFrame]
  | cont =>
    let s1 : St := { keys := .slots slots, stack := [.slots []], parent := some id, path := [], anc := [none] }
    obtain ⟨N, hN⟩ := sim_slots v slots s1 id st1 rfl rfl (by simp [s1])
    rcases hV : visitSlots v id [] [none] slots st1 with ⟨st2, b⟩
    simp only [s1, hV] at hN
    cases b with
    | true =>
      refine ⟨1 + N, ?_⟩
      rw [runN_add, run_one]
      simp only [fin, if_true] at hN
      simp only [init, step, enterNode, hE, List.nil_append]
      rw [hN]
      simp [walk, visitNode, hE, hV]
    | false =>
      refine ⟨1 + (N + 1), ?_⟩
      rw [runN_add, run_one, runN_add, run_one]
      simp only [fin, Bool.false_eq_true, if_false] at hN
      simp only [init, step, enterNode, hE, List.nil_append]
      rw [hN]
      rcases hL : v.leave st2 id ⟨none, none, [], []⟩ with ⟨st3, a⟩
      cases a <;> simp [step, leaveFrame, hL, walk, visitNode, hE, hV]



/-- Once the loop has ended (normally or by BREAK) further iterations change nothing: the fuel given
to `runN` by the driver is irrelevant as soon as it suffices. -/
theorem runN_final (v : Visitor σ) (n : Nat) (m : MS) (st : σ) (h : m = .done ∨ m = .broken) :
    runN v n m st = (m, st) := by
  induction n with
  | zero => simp [runN]
  | succ n ih => rcases h with rfl | rfl <;> simpa [runN, step] using ih

/-- `machine_eq_reference` for every sufficiently large fuel. -/
theorem machine_eq_reference_fuel (v : Visitor σ) (root : Node) (st : σ) :
    ∃ N, ∀ fuel, N ≤ fuel →
      runN v fuel (init root) st = (if (walk v root st).2 then MS.broken else MS.done, (walk v root st).1) := by
  obtain ⟨N, hN⟩ := machine_eq_reference v root st
  refine ⟨N, fun fuel hf => ?_⟩
  obtain ⟨k, rfl⟩ := Nat.exists_eq_add_of_le hf
  rw [runN_add, hN]
  apply runN_final
  by_cases h : (walk v root st).2 <;> simp [h]

/-! ## Corollaries on event logs (σ := List Ev) -/

def enterIds (l : List Ev) : List Nat := (l.filter (fun e => e.phase = .enter)).map (·.id)
def leaveIds (l : List Ev) : List Nat := (l.filter (fun e => e.phase = .leave)).map (·.id)

theorem enterIds_append (a b : List Ev) : enterIds (a ++ b) = enterIds a ++ enterIds b := by
  simp [enterIds]
theorem leaveIds_append (a b : List Ev) : leaveIds (a ++ b) = leaveIds a ++ leaveIds b := by
  simp [leaveIds]

def allCont : Policy := fun _ _ => .cont

mutual
theorem allCont_node : ∀ (n : Node) (c : Ctx) (st : List Ev),
    (visitNode (logVisitor allCont) n c st).2 = false ∧
    enterIds (visitNode (logVisitor allCont) n c st).1.reverse = enterIds st.reverse ++ n.pre ∧
    leaveIds (visitNode (logVisitor allCont) n c st).1.reverse = leaveIds st.reverse ++ n.post
  | .mk id slots, c, st => by
    obtain ⟨h1, h2, h3⟩ := allCont_slots slots id c.path (c.anc ++ [c.parent]) (⟨.enter, id, c⟩ :: st)
    rcases hV : visitSlots (logVisitor allCont) id c.path (c.anc ++ [c.parent]) slots (⟨.enter, id, c⟩ :: st) with ⟨st2, b⟩
    rw [hV] at h1 h2 h3
    simp only at h1; subst h1
    have hE : (logVisitor allCont).enter st id c = (⟨.enter, id, c⟩ :: st, .cont) := rfl
    have hL : ∀ c', (logVisitor allCont).leave st2 id c' = (⟨.leave, id, c'⟩ :: st2, .cont) := fun _ => rfl
    simp only [visitNode, hE, hV, hL]
    simp only [List.reverse_cons, enterIds_append, leaveIds_append] at h2 h3 ⊢
    refine ⟨trivial, ?_, ?_⟩
    · rw [h2]; simp [enterIds, Node.pre]
    · rw [h3]; simp [leaveIds, Node.post]
theorem allCont_slots : ∀ (ss : List Slot) (pid : Nat) (path : List Key) (anc : List (Option Nat)) (st : List Ev),
    (visitSlots (logVisitor allCont) pid path anc ss st).2 = false ∧
    enterIds (visitSlots (logVisitor allCont) pid path anc ss st).1.reverse = enterIds st.reverse ++ Slot.preList ss ∧
    leaveIds (visitSlots (logVisitor allCont) pid path anc ss st).1.reverse = leaveIds st.reverse ++ Slot.postList ss
  | [], pid, path, anc, st => by simp [visitSlots, Slot.preList, Slot.postList]
  | .absent k :: rest, pid, path, anc, st => by
    simpa [visitSlots, Slot.preList, Slot.postList] using allCont_slots rest pid path anc st
  | .one k n :: rest, pid, path, anc, st => by
    obtain ⟨a1, a2, a3⟩ := allCont_node n ⟨some (.name k), some pid, path ++ [.name k], anc⟩ st
    rcases hV : visitNode (logVisitor allCont) n ⟨some (.name k), some pid, path ++ [.name k], anc⟩ st with ⟨st1, b⟩
    rw [hV] at a1 a2 a3
    simp only at a1; subst a1
    obtain ⟨b1, b2, b3⟩ := allCont_slots rest pid path anc st1
    simp only [visitSlots, hV, Slot.preList, Slot.postList]
    refine ⟨b1, ?_, ?_⟩
    · rw [b2, a2]; simp
    · rw [b3, a3]; simp
  | .many k n ns :: rest, pid, path, anc, st => by
    obtain ⟨a1, a2, a3⟩ := allCont_elems (n :: ns) 0 (path ++ [.name k]) (anc ++ [some pid]) st
    rcases hV : visitElems (logVisitor allCont) (path ++ [.name k]) (anc ++ [some pid]) (n :: ns) 0 st with ⟨st1, b⟩
    rw [hV] at a1 a2 a3
    simp only at a1; subst a1
    obtain ⟨b1, b2, b3⟩ := allCont_slots rest pid path anc st1
    simp only [visitSlots, hV, Slot.preList, Slot.postList]
    refine ⟨b1, ?_, ?_⟩
    · rw [b2, a2]; simp [Node.preList]
    · rw [b3, a3]; simp [Node.postList]
theorem allCont_elems : ∀ (ns : List Node) (i : Nat) (path : List Key) (anc : List (Option Nat)) (st : List Ev),
    (visitElems (logVisitor allCont) path anc ns i st).2 = false ∧
    enterIds (visitElems (logVisitor allCont) path anc ns i st).1.reverse = enterIds st.reverse ++ Node.preList ns ∧
    leaveIds (visitElems (logVisitor allCont) path anc ns i st).1.reverse = leaveIds st.reverse ++ Node.postList ns
  | [], i, path, anc, st => by simp [visitElems, Node.preList, Node.postList]
  | n :: ns, i, path, anc, st => by
    obtain ⟨a1, a2, a3⟩ := allCont_node n ⟨some (.idx i), none, path ++ [.idx i], anc⟩ st
    rcases hV : visitNode (logVisitor allCont) n ⟨some (.idx i), none, path ++ [.idx i], anc⟩ st with ⟨st1, b⟩
    rw [hV] at a1 a2 a3
    simp only at a1; subst a1
    obtain ⟨b1, b2, b3⟩ := allCont_elems ns (i+1) path anc st1
    simp only [visitElems, hV, Node.preList, Node.postList]
    refine ⟨b1, ?_, ?_⟩
    · rw [b2, a2]; simp
    · rw [b3, a3]; simp
end

/-- With a visitor that never skips or breaks, every node is entered exactly once, in document
(pre-)order, and left exactly once, in post-order; the traversal ends normally. -/
theorem each_node_once_in_document_order (root : Node) :
    (refEvents allCont root).2 = false ∧
    enterIds (refEvents allCont root).1 = root.pre ∧
    leaveIds (refEvents allCont root).1 = root.post := by
  have h := allCont_node root ⟨none, none, [], []⟩ []
  simpa [refEvents, walk, enterIds, leaveIds] using h

/-- …and the same holds for the loop of `visitor.Visit` (by `machine_eq_reference`). -/
theorem machine_each_node_once_in_document_order (root : Node) :
    ∃ N, ∀ fuel, N ≤ fuel →
      (machineEvents allCont root fuel).2 = MS.done ∧
      enterIds (machineEvents allCont root fuel).1 = root.pre ∧
      leaveIds (machineEvents allCont root fuel).1 = root.post := by
  obtain ⟨N, hN⟩ := machine_eq_reference_fuel (logVisitor allCont) root []
  obtain ⟨h1, h2, h3⟩ := each_node_once_in_document_order root
  refine ⟨N, fun fuel hf => ?_⟩
  have := hN fuel hf
  simp only [refEvents] at h1 h2 h3
  simp only [machineEvents, this, h1]
  exact ⟨by simp, h2, h3⟩

/-- SKIP on enter suppresses exactly the node's subtree and its leave: the walk of that node consists
of the enter callback alone and the traversal goes on. -/
theorem skip_suppresses_subtree_and_leave (v : Visitor σ) (id : Nat) (slots : List Slot) (c : Ctx) (st st' : σ)
    (h : v.enter st id c = (st', .skip)) : visitNode v (.mk id slots) c st = (st', false) := by
  simp [visitNode, h]

/-- BREAK on enter stops the traversal immediately: nothing else is called. -/
theorem break_on_enter_stops (v : Visitor σ) (id : Nat) (slots : List Slot) (c : Ctx) (st st' : σ)
    (h : v.enter st id c = (st', .brk)) : visitNode v (.mk id slots) c st = (st', true) := by
  simp [visitNode, h]

/-- A BREAK anywhere below propagates: no later sibling is visited (slots level). -/
theorem break_skips_later_siblings (v : Visitor σ) (pid : Nat) (path : List Key) (anc : List (Option Nat))
    (k : String) (n : Node) (rest : List Slot) (st st' : σ)
    (h : visitNode v n ⟨some (.name k), some pid, path ++ [.name k], anc⟩ st = (st', true)) :
    visitSlots v pid path anc (.one k n :: rest) st = (st', true) := by
  simp [visitSlots, h]

/-- Leave receives the key, parent and ancestors that enter received (the path without the node's own key). -/
theorem leave_ctx_eq_enter_ctx (v : Visitor σ) (id : Nat) (slots : List Slot) (c : Ctx) (st st1 st2 : σ)
    (he : v.enter st id c = (st1, .cont))
    (hs : visitSlots v id c.path (c.anc ++ [c.parent]) slots st1 = (st2, false)) :
    visitNode v (.mk id slots) c st =
      ((v.leave st2 id { key := c.key, parent := c.parent, path := c.path.dropLast, anc := c.anc }).1,
       decide ((v.leave st2 id { key := c.key, parent := c.parent, path := c.path.dropLast, anc := c.anc }).2 = .brk)) := by
  simp only [visitNode, he, hs]
  rcases hL : v.leave st2 id { c with path := c.path.dropLast } with ⟨st3, a⟩
  cases a <;> simp_all

/-- `VisitInParallel`: several visitors run in parallel each observe what they would observe alone.
For every tree with distinct node identities (Go: distinct pointers), every list of stateful sub-visitors
and every list of initial states, the traversal driven by the parallel visitor ends normally with each
sub-visitor in exactly the state its own traversal ends in, marked BREAK iff its own traversal broke —
whatever the other sub-visitors skip or break. -/
theorem parallel_projection (vs : List (Visitor σ)) (sts : List σ) (root : Node)
    (hl : sts.length = vs.length) (hnd : root.pre.Nodup) :
    walk (parallel vs) root (sts.map (fun st => (st, Mark.active))) =
      (List.zipWith (fun v st => ((walk v root st).1, markOf (walk v root st).2)) vs sts, false) := by
  unfold walk
  rw [node_fold (parallel vs) (parallel_alwaysCont vs), parallel_fold vs _ _ (by simp [hl])]
  congr 1
  rw [List.zipWith_map_right]
  congr 1
  funext v st
  exact wrap_node v root _ st hnd

/-- …and the loop of `visitor.Visit` driven by the parallel visitor does the same (by `machine_eq_reference`). -/
theorem machine_parallel_projection (vs : List (Visitor σ)) (sts : List σ) (root : Node)
    (hl : sts.length = vs.length) (hnd : root.pre.Nodup) :
    ∃ N, ∀ fuel, N ≤ fuel →
      runN (parallel vs) fuel (init root) (sts.map (fun st => (st, Mark.active))) =
        (MS.done, List.zipWith (fun v st => ((walk v root st).1, markOf (walk v root st).2)) vs sts) := by
  obtain ⟨N, hN⟩ := machine_eq_reference_fuel (parallel vs) root (sts.map (fun st => (st, Mark.active)))
  refine ⟨N, fun fuel hf => ?_⟩
  rw [hN fuel hf, parallel_projection vs sts root hl hnd]
  simp

/-- Tie to the code's tables, re-checked against the regenerated `Generated/Tables.lean` on every run:
the child-key table the traversal uses lists exactly the node-valued fields of every AST struct, in
declaration order (so "every reachable node" in the model's `Slot` list means every child the Go
structs can hold), and every node kind has an entry. -/
theorem child_keys_cover_ast_fields :
    GqlModel.Tables.childKeysCover Generated.queryDocumentKeys Generated.astStructFields Generated.kinds = true := by
  decide +kernel

/-! ## Non-vacuity: a concrete tree, with a skip and a list slot, on which machine and reference agree -/

def exTree : Node :=
  .mk 0 [.many "Definitions" (.mk 1 [.absent "Name", .one "SelectionSet" (.mk 2 [.many "Selections" (.mk 3 []) [.mk 4 []]])]) [.mk 5 []]]
def exPol : Policy := fun id ph => if id = 2 ∧ ph = .enter then .skip else .cont

example : (machineEvents exPol exTree (fuelFor exTree)).1 = (refEvents exPol exTree).1 := by decide +kernel
example : enterIds (refEvents exPol exTree).1 = [0, 1, 2, 5] := by decide +kernel
example : enterIds (refEvents allCont exTree).1 = [0, 1, 2, 3, 4, 5] := by decide +kernel

end GqlModel.Visitor
