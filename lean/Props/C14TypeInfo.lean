import GqlProofs.TypeInfoStacks
import Generated.Tables
/-! # C14, clause "type tracking reports at each node the schema types that apply at that position"

M = `GqlModel.TypeInfoStacks`: `graphql.TypeInfo` as coded (four stacks, three registers, `Enter`/`Leave` case by case)
driven the way `visitor.Visit(doc, visitor.VisitWithTypeInfo(ti, v))` drives it (Enter before the wrapped visitor's
enter, Leave after its leave, Leave also on SKIP). S = `GqlModel.Validate.tiRecords`: the type context of every node
computed top-down, without stacks; `refWalk` / `ctxRecords` are S for wrapped visitors that carry state / skip nodes.

Premises, exactly:
* `ArgsUnique s` — within each field / directive definition of the schema, argument names are pairwise distinct
  (the Go loops keep the LAST argument of a name, S the first; the library's config maps cannot produce two).
  Decidable sufficient check: `argsUniqueB s = true` (`argsUnique_of_check`), evaluated by the driver on every case.
* `isExecDoc d` (only where `tiRecords` itself is mentioned) — operations and fragments only; `tiRecords` does not
  descend into type-system definitions.
Nothing is assumed about the document being valid, about the stacks' depth, or about the wrapped visitor.
Not covered: `ActionUpdate` (edits), BREAK, a custom `FieldDefFn`. Name / Named / List / NonNull nodes ARE in the walked
tree (TypeInfo has no case for them: they are shown their parent's context); S does not list them, hence `obs` where
`tiRecords` is mentioned. The composition with the small-step machine of `visitor.Visit` is Props/C14Bridge. -/
namespace GqlModel.TypeInfoStacks
open GqlModel.Validate
variable {σ : Type}

/-- Core (any wrapped visitor: any state type, any enter/leave functions, skipping whatever it likes, also depending
on what it has seen): the traversal driven by the stack machine ends with the machine back at `NewTypeInfo`'s state,
and the wrapped visitor ends in exactly the state the TOP-DOWN reference walk leads it to — i.e. at every enter and
at every leave it was shown, by the getters, the context `ctxStep` derives from the parent's context alone. -/
theorem typeinfo_walk_eq_reference (s : Schema) (hU : ArgsUnique s) (v : Inner σ) (d : Document) (st : σ) :
    walkM s v d st = (TI.empty, refWalk s v d st) :=
  visit_M s hU v (docTree d) false false TI.empty st (docTree_wf d) pre_empty

/-- `typeinfo_eq_context`: for every schema and every executable document, a wrapped visitor that never skips is
shown at every node it enters — by `Type() / ParentType() / InputType() / FieldDef() / Directive() / Argument()`, i.e.
by the tops of the four stacks and the registers of M — exactly what the top-down S `tiRecords` assigns to that node
(and at the Document node the empty context). `obs` drops the Name / Named / List / NonNull nodes, which S does not
list; what those are shown is their parent's context (`typeinfo_walk_eq_reference`, `ctxStep … .other`). -/
theorem typeinfo_eq_context (s : Schema) (hU : ArgsUnique s) (d : Document) (hE : isExecDoc d = true) :
    obs (mRecords s noSkip d) = ⟨"Document", d.loc, TIState.empty⟩ :: tiRecords s d := by
  simp only [mRecords, typeinfo_walk_eq_reference s hU, refWalk, ref_logger, List.nil_append]
  exact ctxRecs_docTree s d hE

/-- `typeinfo_eq_context_under_skips` (the D-14a repair as a theorem): when the wrapped visitor skips arbitrary nodes
(`pol`, which may look at the node and at the type info it is shown), every node it still visits is shown the
top-down context of that node (`ctxRecords`), and what it sees is a sub-sequence of what a visitor that never skips
sees: same node, same registers. -/
theorem typeinfo_eq_context_under_skips (s : Schema) (hU : ArgsUnique s) (pol : TIRec → Bool) (d : Document) :
    mRecords s pol d = ctxRecords s pol d ∧ (mRecords s pol d).Sublist (mRecords s noSkip d) := by
  have h : ∀ p, mRecords s p d = ctxRecords s p d := fun p => by
    simp only [mRecords, typeinfo_walk_eq_reference s hU, refWalk, ref_logger, List.nil_append, ctxRecords]
  exact ⟨h pol, by rw [h pol, h noSkip]; exact ctxRecs_sublist s pol (docTree d) TIState.empty⟩

/-- …in terms of `tiRecords`: each record shown to a skipping visitor on an executable document is the Document
record or one of S's records. -/
theorem typeinfo_under_skips_sublist_tiRecords (s : Schema) (hU : ArgsUnique s) (pol : TIRec → Bool) (d : Document)
    (hE : isExecDoc d = true) :
    (obs (mRecords s pol d)).Sublist (⟨"Document", d.loc, TIState.empty⟩ :: tiRecords s d) := by
  rw [← typeinfo_eq_context s hU d hE]
  exact ((typeinfo_eq_context_under_skips s hU pol d).2).filter _

/-- `stacks_balanced`: after the walk all four stacks are empty again and the three registers are nil — for every
document, every wrapped visitor, whatever it skips. -/
theorem stacks_balanced (s : Schema) (hU : ArgsUnique s) (v : Inner σ) (d : Document) (st : σ) :
    (walkM s v d st).1 = TI.empty := by
  rw [typeinfo_walk_eq_reference s hU]

/-- balanced push/pop, locally and for arbitrary stacks: visiting any well-formed subtree from any machine state that
satisfies the register invariant gives the machine back unchanged (so every later sibling sees what the first saw). -/
theorem stacks_restored_after_every_subtree (s : Schema) (hU : ArgsUnique s) (v : Inner σ) (n : TNode)
    (inDir inArg : Bool) (ti : TI) (st : σ) (hwf : n.wf inDir inArg = true) (hpre : Pre inDir inArg ti) :
    (visit (M s) v n ti st).1 = ti := by
  rw [visit_M s hU v n inDir inArg ti st hwf hpre]

/-- `typeinfo_independent_of_handler_set`: the wrapped visitor as `*VisitorOptions` with ABSENT callbacks — enter-only,
leave-only, KindFuncMap entries with only Kind / Enter / Leave, EnterKindMap / LeaveKindMap for any set of kinds, any mix
(`GetVisitFn`'s precedence is `getEnterFn` / `getLeaveFn`). The machine is pushed and popped at every node whether or
not a callback fires there: it ends at `NewTypeInfo`'s state, and every callback that does fire is shown the top-down
context of its node (the option set behaves exactly like the total visitor whose missing functions do nothing). -/
theorem typeinfo_independent_of_handler_set (s : Schema) (hU : ArgsUnique s) (o : Opts σ) (d : Document) (st : σ) :
    walkMO s o d st = (TI.empty, refWalk s o.total d st) := by
  unfold walkMO
  rw [visitO_eq_visit (M s) rfl o]
  exact typeinfo_walk_eq_reference s hU o.total d st

/-- …in particular the stacks do not depend on which handlers the wrapped visitor has (two arbitrary option sets,
even over different state types, leave the same machine state after every well-formed subtree: the one they found). -/
theorem stacks_independent_of_handler_set {σ₁ σ₂ : Type} (s : Schema) (hU : ArgsUnique s) (o₁ : Opts σ₁) (o₂ : Opts σ₂)
    (n : TNode) (inDir inArg : Bool) (ti : TI) (st₁ : σ₁) (st₂ : σ₂) (hwf : n.wf inDir inArg = true) (hpre : Pre inDir inArg ti) :
    (visitO (M s) o₁ n ti st₁).1 = (visitO (M s) o₂ n ti st₂).1 := by
  rw [visitO_eq_visit (M s) rfl o₁, visitO_eq_visit (M s) rfl o₂, visit_M s hU _ n inDir inArg ti st₁ hwf hpre,
    visit_M s hU _ n inDir inArg ti st₂ hwf hpre]

/-- an enter-only generic visitor (`VisitorOptions{Enter: f}`) that records what it is shown sees exactly what the
enter+leave recorder sees — on an executable document `tiRecords` after the Document record -/
theorem typeinfo_eq_context_enter_only_visitor (s : Schema) (hU : ArgsUnique s) (d : Document) (hE : isExecDoc d = true) :
    obs (walkMO s (enterOnly (logger noSkip).enter) d []).2 = ⟨"Document", d.loc, TIState.empty⟩ :: tiRecords s d := by
  rw [typeinfo_independent_of_handler_set s hU, ← typeinfo_eq_context s hU d hE, mRecords, typeinfo_walk_eq_reference s hU]
  rfl

/-- the decidable schema check implies the premise of the theorems above -/
theorem argsUnique_of_argsUniqueB (s : Schema) (h : argsUniqueB s = true) : ArgsUnique s := argsUnique_of_check s h

/-- the child order the walked tree is built in is the one `visitor.QueryDocumentKeys` lists (regenerated from /repo
on every run) for every node kind the tree contains -/
theorem walk_child_order_is_queryDocumentKeys :
    walkChildKeys.all (fun p => Generated.queryDocumentKeys.lookup p.1 == some p.2) = true := by
  decide +kernel

/-! ## Witnesses (all `decide`): the repaired defect D-14a, the two seeded ListValue mutants, non-vacuity -/

private def L (a b : Nat) : Loc := ⟨a, b⟩
private def nm (s : String) (a b : Nat) : Name := ⟨s, L a b⟩
private def fdS (name : String) (t : GType) (args : List ArgDef := []) : FieldDefS := { name := name, type := t, args := args }

/-- `type Q { p: P }  type P { a: String, x: String }` -/
def exSchema : Schema :=
  { types := [.object "Q" [] [fdS "p" (.named "P")] false "",
              .object "P" [] [fdS "a" (.named "String"), fdS "x" (.named "String")] false "",
              .scalar "String" .string ""],
    query := "Q", mutation := none, subscription := none, directives := [] }

/-- `{ p { a ... { x } } }` (DESIGN §4 C14, D-14a) -/
def exDoc : Document :=
  ⟨[.operation .query none [] []
      (.mk [.field none (nm "p" 2 3) [] []
              (some (.mk [.field none (nm "a" 6 7) [] [] none (L 6 7),
                          .inline none [] (.mk [.field none (nm "x" 14 15) [] [] none (L 14 15)] (L 12 17)) (L 8 17)]
                      (L 4 19))) (L 2 19)] (L 0 21)) (L 0 21)], L 0 21⟩

/-- the wrapped visitor skips the field `a` -/
def exSkipA : TIRec → Bool := fun r => r.kind == "Field" && r.loc.start == 6

/-- `VisitWithTypeInfo` before fix de010d7: no `Leave` for a skipped node -/
def preFix (s : Schema) : Tracker := { M s with leaveOnSkip := false }

theorem exSchema_argsUnique : ArgsUnique exSchema := argsUnique_of_check _ (by decide +kernel)

/-- D-14a, as a record of the repaired defect: WITHOUT the leave-on-skip, `typeinfo_eq_context_under_skips` fails —
after skipping `a`, the field `x` is shown type nil / parent type nil / no field definition, which is not what it is
shown without skips. -/
theorem without_leave_on_skip_fails :
    ¬ (mRecordsWith (preFix exSchema) exSkipA exDoc).Sublist (mRecords exSchema noSkip exDoc) :=
  fun h => absurd (h.map row) (by decide +kernel)

/-- …the offending row, and the row of the code as it is -/
example : ⟨"Field", 14, 15, "nil", "nil", "nil", "nil", "nil", "nil"⟩ ∈ (mRecordsWith (preFix exSchema) exSkipA exDoc).map row := by
  decide +kernel
example : ⟨"Field", 14, 15, "String", "P", "nil", "x", "nil", "nil"⟩ ∈ (mRecords exSchema exSkipA exDoc).map row := by
  decide +kernel
/-- non-vacuity of the skip theorem on the same input: `a`'s subtree is gone, everything else is as without skips -/
example : (obs (mRecords exSchema exSkipA exDoc)).map row = ((obs (mRecords exSchema noSkip exDoc)).map row) := by
  decide +kernel   -- below `a` there is only its Name node: skipping removes no other record and — with the repair — changes none

/-- `{ p { a } p }` -/
def exDocSibling : Document :=
  ⟨[.operation .query none [] []
      (.mk [.field none (nm "p" 2 3) [] [] (some (.mk [.field none (nm "a" 6 7) [] [] none (L 6 7)] (L 4 9))) (L 2 9),
            .field none (nm "p" 10 11) [] [] none (L 10 11)] (L 0 13)) (L 0 13)], L 0 13⟩

/-- seeded variant C14-4: `TypeInfo.Leave` only inside `if fn != nil` of the Leave wrapper -/
def leaveOnlyWithHandler (s : Schema) : Tracker := { M s with leaveNeedsHandler := true }

/-- the enter-only recorder: `VisitorOptions{Enter: record}` -/
def exEnterOnly : Opts (List (String × TIRec)) := loggerOpts noSkip (true, false) (fun _ => none) (fun _ => false) (fun _ => false)

/-- seeded C14-4 as a record: with the variant, an enter-only visitor is shown the second `p` of `{ p { a } p }` with
parent type P (the frame of the first `p`'s selection set was never popped), no field definition, type nil; with the
code as it is: parent Q, field definition `p`, type P. So `typeinfo_independent_of_handler_set` fails for the variant. -/
theorem leave_only_with_handler_fails :
    (⟨"Field", 10, 11, "nil", "P", "nil", "nil", "nil", "nil"⟩ : Row) ∈
      ((mEventsWith (leaveOnlyWithHandler exSchema) exEnterOnly exDocSibling).map (fun e => row e.2)) ∧
    (⟨"Field", 10, 11, "P", "Q", "nil", "p", "nil", "nil"⟩ : Row) ∈
      ((mEvents exSchema exEnterOnly exDocSibling).map (fun e => row e.2)) ∧
    (mEventsWith (leaveOnlyWithHandler exSchema) exEnterOnly exDocSibling).map (fun e => row e.2) ≠
      (mEvents exSchema exEnterOnly exDocSibling).map (fun e => row e.2) := by
  decide +kernel

/-- `type Q { f(a: In, b: [Int]!): String }  input In { x: Int, y: Int }` -/
def exSchemaIn : Schema :=
  { types := [.object "Q" []
                [fdS "f" (.named "String")
                  [{ name := "a", type := .named "In", default := none },
                   { name := "b", type := .nonNull (.list (.named "Int")), default := none }]] false "",
              .inputObject "In" [{ name := "x", type := .named "Int", default := none },
                                 { name := "y", type := .named "Int", default := none }] "",
              .scalar "Int" .int "", .scalar "String" .string ""],
    query := "Q", mutation := none, subscription := none, directives := [] }

def exObjX : ObjField := .mk (nm "x" 8 9) (.list [.int "1" (L 12 13)] (L 11 14)) (L 8 14)
def exObjY : ObjField := .mk (nm "y" 16 17) (.int "2" (L 19 20)) (L 16 20)

/-- `{ f(a: {x: [1], y: 2}) }`: a list literal at the non-list position `x: Int` -/
def exDocListAtNonList : Document :=
  ⟨[.operation .query none [] []
      (.mk [.field none (nm "f" 2 3) [⟨nm "a" 4 5, .obj [exObjX, exObjY] (L 7 21), L 4 21⟩] [] none (L 2 22)] (L 0 24))
      (L 0 24)], L 0 24⟩

/-- `{ f(b: [1]) }`: a list literal for `[Int]!` -/
def exDocNonNullList : Document :=
  ⟨[.operation .query none [] []
      (.mk [.field none (nm "f" 2 3) [⟨nm "b" 4 5, .list [.int "1" (L 8 9)] (L 7 10), L 4 10⟩] [] none (L 2 11)] (L 0 13))
      (L 0 13)], L 0 13⟩

theorem exSchemaIn_argsUnique : ArgsUnique exSchemaIn := argsUnique_of_check _ (by decide +kernel)

/-- seeded mutant B ("ListValue at a non-list position no longer pushes nil", Leave still pops): the push/pop balance
is broken — visiting the ObjectField `x: [1]` with one entry on the input-type stack comes back with none … -/
def mutantB (s : Schema) : Tracker := { M s with enter := tiEnterNoNilPush s }
def tiOneInput : TI := { TI.empty with inputTypeStack := [some (.named "In")] }

theorem mutantB_unbalanced :
    (visit (mutantB exSchemaIn) (logger noSkip) (.mk "ObjectField" (L 8 14) (.objectField "x") [valueTree exObjX.value])
      tiOneInput []).1.inputTypeStack.length = 0 ∧
    (visit (M exSchemaIn) (logger noSkip) (.mk "ObjectField" (L 8 14) (.objectField "x") [valueTree exObjX.value])
      tiOneInput []).1.inputTypeStack.length = 1 := by
  decide +kernel

/-- … so the next sibling `y` is shown input type nil instead of `Int`: `typeinfo_eq_context` fails for the mutant
(while the final stacks are still empty: `Leave` pops only `if len > 0`, so the imbalance is visible only in between) -/
theorem mutantB_breaks_typeinfo_eq_context :
    (obs (mRecordsWith (mutantB exSchemaIn) noSkip exDocListAtNonList)).map row ≠
      ((⟨"Document", exDocListAtNonList.loc, TIState.empty⟩ :: tiRecords exSchemaIn exDocListAtNonList).map row) ∧
    ⟨"IntValue", 19, 20, "String", "Q", "nil", "f", "nil", "a"⟩ ∈ (mRecordsWith (mutantB exSchemaIn) noSkip exDocListAtNonList).map row ∧
    ⟨"IntValue", 19, 20, "String", "Q", "Int", "f", "nil", "a"⟩ ∈ (mRecords exSchemaIn noSkip exDocListAtNonList).map row := by
  decide +kernel

/-- seeded mutant A (`GetNullable` dropped before the `*List` assertion): inside a list literal for `[Int]!` the
element is shown input type nil instead of `Int` -/
def mutantA (s : Schema) : Tracker := { M s with enter := tiEnterNoNullable s }

theorem mutantA_breaks_typeinfo_eq_context :
    ⟨"IntValue", 8, 9, "String", "Q", "nil", "f", "nil", "b"⟩ ∈ (mRecordsWith (mutantA exSchemaIn) noSkip exDocNonNullList).map row ∧
    ⟨"IntValue", 8, 9, "String", "Q", "Int", "f", "nil", "b"⟩ ∈ (mRecords exSchemaIn noSkip exDocNonNullList).map row := by
  decide +kernel

/-- non-vacuity of `typeinfo_eq_context`: premises hold and M shows this 11-row table on a concrete input (by the theorem, S assigns the same) -/
example : isExecDoc exDocListAtNonList = true := by decide
example : (obs (mRecords exSchemaIn noSkip exDocListAtNonList)).map row =
    [⟨"Document", 0, 24, "nil", "nil", "nil", "nil", "nil", "nil"⟩,
     ⟨"OperationDefinition", 0, 24, "Q", "nil", "nil", "nil", "nil", "nil"⟩,
     ⟨"SelectionSet", 0, 24, "Q", "Q", "nil", "nil", "nil", "nil"⟩,
     ⟨"Field", 2, 22, "String", "Q", "nil", "f", "nil", "nil"⟩,
     ⟨"Argument", 4, 21, "String", "Q", "In", "f", "nil", "a"⟩,
     ⟨"ObjectValue", 7, 21, "String", "Q", "In", "f", "nil", "a"⟩,
     ⟨"ObjectField", 8, 14, "String", "Q", "Int", "f", "nil", "a"⟩,
     ⟨"ListValue", 11, 14, "String", "Q", "nil", "f", "nil", "a"⟩,
     ⟨"IntValue", 12, 13, "String", "Q", "nil", "f", "nil", "a"⟩,
     ⟨"ObjectField", 16, 20, "String", "Q", "Int", "f", "nil", "a"⟩,
     ⟨"IntValue", 19, 20, "String", "Q", "Int", "f", "nil", "a"⟩] := by
  decide +kernel

/-- …and S, computed on its own, is that table too (both sides of the theorem evaluated) -/
example : ((⟨"Document", exDocListAtNonList.loc, TIState.empty⟩ :: tiRecords exSchemaIn exDocListAtNonList).map row) =
    (obs (mRecords exSchemaIn noSkip exDocListAtNonList)).map row := by
  decide +kernel

end GqlModel.TypeInfoStacks
