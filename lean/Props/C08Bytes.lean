import GqlProofs.RoundTripMain
import Props.C03Lexer
import Props.C03Parser
import GqlProofs.RoundTripWF2
import GqlProofs.RoundTripWF3
import Props.C08
/-! # C08, byte level — printing an AST and parsing the BYTES back yields the same AST

The lexer half of the whole-document round trip, left open in `Props/C08.lean`, closed here:

* `print d` is taken as bytes through Lean's own UTF-8 encoder (`printBytes d = (print d).toUTF8.data.toList`);
* they are lexed by C03's bug-faithful lexer model `Lexer.lexAll` (two cursors, D-03a included);
* the tokens go through `LTok.toToken` into C03's parser model (`parseBytes = lexAll ≫ parseTokens`,
  GqlModel/ParseBytes.lean).

`WFDocument d` (GqlModel/PrinterWF.lean) is the premise: what every parser-produced tree satisfies.
Proof route: the printer's token view `docI d` satisfies the invariant `RoundTrip.LexK` (every separator is space /
newline / comma; every token text is a lexeme of its kind; a NAME / number / string is always followed by a separator
or a punctuator — `lexK_docI`); C03's SPEC tokeniser on such bytes yields exactly the items' tokens
(`lexLoopG_items`, per-token lemmas for names, numbers, punctuators, `...`, quoted strings, block-string
descriptions, all through the UTF-8 bridge); all Ignored gaps are ASCII, so D-03a's predicates are false and C03's
`model_eq_spec_partial` transports the result to the model M. -/
namespace GqlModel.C08
open GqlModel GqlModel.Printer GqlModel.Lexer GqlModel.RoundTrip

/-! ## any rendered item list -/

/-- M on the bytes of a rendered item list satisfying the invariant: the items' tokens at their byte offsets, EOF, no error -/
theorem lexAll_items (is : List Item) (h : LexK is []) :
    lexAll (utf8 (render is)) =
      ⟨lexToks is 0 ++ [⟨.eof, (utf8 (render is)).length, (utf8 (render is)).length, []⟩], none⟩ := by
  obtain ⟨h1, h2⟩ := kf_false_items is h
  rw [model_eq_spec_partial _ h1 h2, Spec.lexAll, lexAllG_items is h]
  simp only [Option.map_none]
  rw [lexItems_split]
  simp

/-! ## the printed text is ASCII outside string contents -/

/-- in the token stream of the printed bytes every Ignored gap is free of bytes ≥ 0x80 (separators are spaces, newlines
and commas), and lexing does not fail: both known-finding predicates of D-03a are false on printed text -/
theorem printed_text_ascii_ignored (d : Document) (hwf : WFDocument d) :
    (∀ gt ∈ (Spec.lexAllG (printBytes d)).tokens, Spec.hasHigh gt.1 = false) ∧
    (Spec.lexAllG (printBytes d)).err = none ∧
    Spec.nameAfterMultibyteIgnored (printBytes d) = false ∧ Spec.errorAfterMultibyte (printBytes d) = false := by
  have hk := lexK_docI d hwf
  rw [printBytes_eq]
  refine ⟨?_, ?_, (kf_false_items _ hk).1, (kf_false_items _ hk).2⟩
  · rw [lexAllG_items _ hk]
    exact lexItems_gaps _ [] 0 hk (by intro b hb; simp at hb)
  · rw [lexAllG_items _ hk]

/-! ## `lex_render_tokens` -/

/-- the tokens of the printed document at the byte offsets of their texts (`lexToks` walks the item list of
`printTokens_render` and adds up the UTF-8 lengths of the texts before each token) -/
def printedTokens (d : Document) : List LTok := lexToks (docI d) 0

/-- **T1 `lex_render_tokens`**: for every well-formed document, the lexer model on the UTF-8 bytes of `print d`
yields exactly the printed tokens — kinds, values (as bytes), start/end offsets — followed by EOF at the end of the
text, and no error. -/
theorem lex_render_tokens (d : Document) (hwf : WFDocument d) :
    lexAll (printBytes d) =
      ⟨printedTokens d ++ [⟨.eof, (printBytes d).length, (printBytes d).length, []⟩], none⟩ := by
  rw [printBytes_eq]; exact lexAll_items _ (lexK_docI d hwf)

/-- … their kinds and values (converted to the shared `Token`) are `printTokens d` … -/
theorem printedTokens_kinds_values (d : Document) :
    (printedTokens d).map (fun t => kvOf t.toToken) = printTokens d := lexToks_kv (docI d) 0

/-- … and their positions are those the rendering assigns: every printed token is an item `(kind, value, text)` of
the token view (`printTokens_render`), its value is the UTF-8 encoding of the item's value, and the bytes of the
printed text from `start` to `stop` are the UTF-8 encoding of the item's text -/
theorem printedTokens_extent (d : Document) : ∀ t ∈ printedTokens d,
    ∃ k v tx, Item.tok k v tx ∈ docI d ∧ t.kind = k ∧ t.value = utf8 v.toList ∧ t.stop = t.start + (utf8 tx).length ∧
      ((printBytes d).drop t.start).take (t.stop - t.start) = utf8 tx := by
  intro t ht
  rw [printBytes_eq]
  exact lexToks_extent (docI d) [] t ht

/-- the statement of `Props/C08.lean`'s residual comment, verbatim -/
theorem lex_render_tokens_kv (d : Document) (hwf : WFDocument d) :
    ∃ toks, lexAll (print d).toUTF8.data.toList = ⟨toks, none⟩ ∧
      toks.dropLast.map (fun t => kvOf t.toToken) = printTokens d := by
  refine ⟨_, lex_render_tokens d hwf, ?_⟩
  rw [List.dropLast_concat]
  exact printedTokens_kinds_values d

/-! ## `parse_print` -/

/-- **T1 + T2 `parse_print`, the property's main clause on bytes**: for every well-formed document — executable and
type-system definitions, descriptions, every value kind, arbitrary string contents — lexing and parsing the UTF-8
bytes of the printed text succeeds, the malformed-type flag stays down, and the result is the same document,
locations aside. -/
theorem parse_print (d : Document) (hwf : WFDocument d) :
    ∃ d', parseBytes (printBytes d) = .ok ⟨d', false⟩ ∧ d'.stripLoc = d.stripLoc := by
  have hl := lex_render_tokens d hwf
  have hk := lexK_docI d hwf
  have hne : ∀ t ∈ (printedTokens d).map LTok.toToken, t.kind ≠ .eof := (stream_tokens (docI d) hk).2
  obtain ⟨d', hp, hs⟩ := parseTokens_printTokens d hwf ((printedTokens d).map LTok.toToken) (printBytes d).length
    (by rw [List.map_map]; exact printedTokens_kinds_values d)
  refine ⟨d', ?_, hs⟩
  simp only [parseBytes, hl, List.map_append, List.map_cons, List.map_nil]
  rw [Parser.parseTokens, Parser.splitEOF_append (by rfl) hne]
  simp only [LTok.toToken, hp]

/-- **T1 `print_stable_bytes`**: whatever `parseBytes` returns for the printed bytes prints to the same text -/
theorem print_stable_bytes (d : Document) (hwf : WFDocument d) (p : Parser.Parsed)
    (hp : parseBytes (printBytes d) = .ok p) : print p.doc = print d ∧ p.typeRefMalformed = false := by
  obtain ⟨d', hd, hs⟩ := parse_print d hwf
  rw [hd] at hp
  cases hp
  exact ⟨print_eq_of_same_shape _ _ hs, rfl⟩

/-- printing, parsing the bytes, printing again: a fixed point after one round -/
theorem print_parse_print (d : Document) (hwf : WFDocument d) :
    ∃ p, parseBytes (printBytes d) = .ok p ∧ printBytes p.doc = printBytes d := by
  obtain ⟨d', hd, hs⟩ := parse_print d hwf
  exact ⟨_, hd, by simp only [printBytes, print_eq_of_same_shape _ _ hs]⟩

/-! ## layers: values and types on their own -/

/-- a printed value lexes to its tokens (`printValueTokens`) -/
theorem lex_printValue (v : Value) (hwf : Reader.WFValue v) :
    lexAll (printValue v).toUTF8.data.toList =
      ⟨lexToks (valueI v) 0 ++ [⟨.eof, (printValue v).toUTF8.data.toList.length, (printValue v).toUTF8.data.toList.length, []⟩], none⟩ ∧
    (lexToks (valueI v) 0).map (fun t => kvOf t.toToken) = printValueTokens v := by
  have e : (printValue v).toUTF8.data.toList = utf8 (render (valueI v)) := by
    rw [toUTF8_eq, render_valueI]; simp [printValue]
  rw [e]
  exact ⟨lexAll_items _ (G_valueI v hwf [] trivial), lexToks_kv _ 0⟩

/-- a printed type reference lexes to its tokens (`printTypeTokens`) -/
theorem lex_printType (t : TypeRef) (hwf : Reader.WFType t) :
    lexAll (printType t).toUTF8.data.toList =
      ⟨lexToks (typeI t) 0 ++ [⟨.eof, (printType t).toUTF8.data.toList.length, (printType t).toUTF8.data.toList.length, []⟩], none⟩ ∧
    (lexToks (typeI t) 0).map (fun t => kvOf t.toToken) = printTypeTokens t := by
  have e : (printType t).toUTF8.data.toList = utf8 (render (typeI t)) := by
    rw [toUTF8_eq, render_typeI]; simp [printType]
  rw [e]
  exact ⟨lexAll_items _ (G_typeI t hwf [] trivial), lexToks_kv _ 0⟩

/-! ## `parse_ok_WF`: the premise is exactly "the parser accepts"

Full statement of the property's quantifier ("every document the parser accepts"): FALSE as such on the pinned tree —
documents that went through the malformed-type-reference path of `parseType` (D-03b, known finding of C03, pinned by
`TestParseTypeErrorBracket*`) carry nil / partial type references; they are outside `WFDocument` and the flag
`typeRefMalformed` marks them.  With the flag down everything lexer + parser accept is well-formed. -/

/-- **T1 `parse_ok_WF`**: whatever `parseBytes` accepts with the malformed-type flag down is a `WFDocument`
(C03's `parser_sound_partial` gives a derivation in the grammar; the lexer model only produces well-formed NAME / INT /
FLOAT tokens — for every input, D-03a included; a derivation over such tokens denotes a well-formed tree). -/
theorem parse_ok_WF (src : Lexer.Bytes) (p : Parser.Parsed) (hp : parseBytes src = .ok p)
    (hb : p.typeRefMalformed = false) : WFDocument p.doc := by
  unfold parseBytes at hp
  split at hp
  · cases hp
  · split at hp
    · next p' hpt =>
      cases hp
      have hwf : Parser.typeRefWellFormed ((lexAll src).tokens.map LTok.toToken) = true := by
        simp [Parser.typeRefWellFormed, Parser.typeRefMalformed, hpt, hb]
      obtain ⟨toks, e, rest, hall, _, _, hd⟩ := Parser.parser_sound_partial _ _ hpt hwf
      apply derivesDoc_wf hd
      intro t ht
      exact lexAll_tokWF src t (by rw [hall]; simp [ht])
    · cases hp

/-- **the property, closed**: for every source the lexer + parser accept (flag down), printing the resulting AST and
parsing the printed bytes again succeeds and yields the same AST, locations aside; and printing is stable. -/
theorem roundtrip_of_accepted (src : Lexer.Bytes) (p : Parser.Parsed) (hp : parseBytes src = .ok p)
    (hb : p.typeRefMalformed = false) :
    ∃ d', parseBytes (printBytes p.doc) = .ok ⟨d', false⟩ ∧ d'.stripLoc = p.doc.stripLoc ∧ print d' = print p.doc := by
  obtain ⟨d', h1, h2⟩ := parse_print p.doc (parse_ok_WF src p hp hb)
  exact ⟨d', h1, h2, print_eq_of_same_shape _ _ h2⟩

/-- the flag hypothesis is needed: `query($a: ) {f}` is accepted (D-03b), the flag is up, and the variable definition
has no type (so `WFVarDef` fails) -/
example : (match parseBytes "query($a: ) {f}".toUTF8.data.toList with
    | .ok p => p.typeRefMalformed &&
        p.doc.defs.any (fun | .operation _ _ vars _ _ _ => vars.any (fun v => v.type.isNone) | _ => false)
    | .error _ => false) = true := by decide +kernel

/-! ## non-vacuity -/

private def L0 : Loc := ⟨0, 0⟩

/-- `{ f(a: "é⏎", b: -1.5e3, c: [E, $v]) @d ... on T { g } }` and
`"""café ☕""" type T implements I { "x\"" f(a: Int = 0): [T!]! }`: non-ASCII string and description contents, a description
that is not block-safe (printed quoted), a float, a variable, nested blocks -/
private def sampleDoc : Document :=
  ⟨[ .operation .query none [] []
      (.mk [ .field none ⟨"f", L0⟩
               [⟨⟨"a", L0⟩, .str "é\n" L0, L0⟩, ⟨⟨"b", L0⟩, .float "-1.5e3" L0, L0⟩,
                ⟨⟨"c", L0⟩, .list [.enum "E" L0, .var "v" L0] L0, L0⟩]
               [⟨⟨"d", L0⟩, [], L0⟩] none L0,
             .inline (some (.named "T" L0)) [] (.mk [.field none ⟨"g", L0⟩ [] [] none L0] L0) L0 ] L0) L0,
     .object ⟨some "café ☕", ⟨"T", L0⟩, [.named "I" L0], [],
       [⟨some "x\"", ⟨"f", L0⟩, [⟨none, ⟨"a", L0⟩, .named "Int" L0, some (.int "0" L0), [], L0⟩],
         .nonNull (.list (.nonNull (.named "T" L0) L0) L0) L0, [], L0⟩], L0⟩ ], L0⟩

private theorem sample_float : Reader.IsFloatLit "-1.5e3".toList :=
  ⟨"-1".toList, ".5".toList, "e3".toList, by decide, by decide, Or.inr (by decide), Or.inr (by decide), Or.inl (by decide)⟩

local macro "nm" : tactic => `(tactic| (show Reader.isNameC _ = true; decide))

/-- the premise of the byte-level theorems is satisfiable by a document with executable and type-system definitions -/
private theorem sample_wf : WFDocument sampleDoc := by
  refine ⟨by simp [sampleDoc], ?_, ?_, trivial⟩
  · refine ⟨trivial, trivial, trivial, by simp, ?_, ?_, trivial⟩
    · refine ⟨trivial, by nm, ⟨⟨by nm, trivial⟩, ⟨by nm, sample_float⟩, ⟨by nm, ?_⟩, trivial⟩, ⟨⟨by nm, trivial⟩, trivial⟩, trivial⟩
      exact ⟨⟨by nm, by decide, by decide, by decide⟩, by nm, trivial⟩
    · refine ⟨by nm, trivial, by simp, ?_, trivial⟩
      exact ⟨trivial, by nm, trivial, trivial, trivial⟩
  · refine ⟨by nm, ⟨by nm, trivial⟩, trivial, ?_, trivial⟩
    refine ⟨by nm, ⟨⟨by nm, by nm, ⟨by (show Reader.isIntLit _ = true; decide), trivial⟩, trivial⟩, trivial⟩, ?_, trivial⟩
    exact ⟨⟨by nm, trivial⟩, trivial⟩

example : ∃ d', parseBytes (printBytes sampleDoc) = .ok ⟨d', false⟩ ∧ d'.stripLoc = sampleDoc.stripLoc :=
  parse_print sampleDoc sample_wf

/-- `{ f(a: "é") }`: the models evaluated on the printed bytes — `"é"` occupies the four bytes [9, 13) -/
private def tinyDoc : Document :=
  ⟨[.operation .query none [] [] (.mk [.field none ⟨"f", L0⟩ [⟨⟨"a", L0⟩, .str "é" L0, L0⟩] [] none L0] L0) L0], L0⟩

example : (lexAll (printBytes tinyDoc)).tokens.map (fun t => (t.kind, t.start, t.stop)) =
    [(.braceL, 0, 1), (.name, 4, 5), (.parenL, 5, 6), (.name, 6, 7), (.colon, 7, 8), (.string, 9, 13), (.parenR, 13, 14),
     (.braceR, 15, 16), (.eof, 17, 17)] := by decide +kernel

example : (match parseBytes (printBytes tinyDoc) with | .ok p => print p.doc | .error _ => "") = print tinyDoc := by
  decide +kernel

end GqlModel.C08
