import GqlProofs.ParserErrPos
import GqlProofs.ParserLocal
import GqlProofs.ParserSound
import GqlProofs.ParserComplete
/-! # C18, syntax clause — where the parser reports a syntax error

Clause: "for a syntax error the reported position falls within the first token at which the text stops being the
beginning of any valid document".  In terms of the token-level model M (`GqlModel.Parser`, tied to the real parser
on every run by the C03 harness, which compares the error OFFSET of `parser.Parse` with M's on every rejected
case — green at /repo 75de65f, i.e. after the position repairs 4afb251, ad2148d, 39e3264, 75de65f):

```
-- FULL STATEMENT (not proved; see the gap below)
theorem syntax_error_at_first_nonviable_token (toks eofPos pos) (h : parseToks toks eofPos = .error (.syntax pos false)) :
    ∃ k, k ≤ toks.length ∧ pos = posAt (initState toks eofPos) k ∧
      ViablePrefix (toks.take k) ∧ (k < toks.length → ¬ ViablePrefix (toks.take (k + 1)))
```
(`bad = false` excludes parses that went through a malformed type reference, D-03b: there `parseType` accepts
a non-viable prefix and the error, if any, surfaces at a later token — `type_reference_reports_no_error`.)

Proved here, for the WHOLE grammar (executable and type-system definitions, every token list):
* `syntax_error_at_token_start` — the reported offset is the start offset of one of the input's tokens, or the EOF
  offset: never inside a token, never before the first or after the last token;
* `value_error_at_token_start` — the same for `parser.ParseValue`;
* `type_reference_reports_no_error` — `parseType` itself never reports a syntax error (the D-03b exclusion is exactly
  the set of parses whose flag is raised);
* `accepted_prefixes_viable`, `viablePrefix_take`, `syntax_error_not_document` — the easy directions around `ViablePrefix`.

GAP: the two halves "tokens before the reported one form a viable prefix" (needs a completion for every parser
context) and "with the reported token they do not" (needs: M's verdict up to token k depends only on tokens ≤ k+1,
i.e. a look-ahead locality theorem for all 45 actions, fuel included) are NOT proved, for no fragment.  They are
covered only by the C03 differential: stream (b) enumerates the viable-prefix tree of the real parser and checks, for
every minimal dead prefix, that M reports the same offset. -/
namespace GqlModel.Parser
open GqlModel GqlModel.Grammar

/-- every syntax error of M is reported at the start of one of the tokens of the input (index `k`), or, for
`k = |toks|`, at the EOF offset -/
theorem syntax_error_at_token_start (toks : List Token) (eofPos pos : Nat) (b : Bool) (l : Nat)
    (h : parseToks toks eofPos = .error (.syntax pos b l)) :
    ∃ k, k ≤ toks.length ∧ pos = (match toks.drop k with | t :: _ => t.start | [] => eofPos) :=
  parseToks_error_at_token h

/-- the same for `parser.ParseValue` (`parseValue` on the initial state) -/
theorem value_error_at_token_start (c : Bool) (toks : List Token) (eofPos pos : Nat) (b : Bool) (l : Nat)
    (h : parseValue c (initState toks eofPos) = .error (.syntax pos b l)) :
    ∃ k, k ≤ toks.length ∧ pos = (match toks.drop k with | t :: _ => t.start | [] => eofPos) :=
  ((inferInstance : ErrAt (parseValue c)).err _ _ _ _ h).atToken

/-- `parseType` has no failing path: a malformed type reference is never reported where it occurs (D-03b) -/
theorem type_reference_reports_no_error (σ : PState) (pos : Nat) (b : Bool) (l : Nat) :
    parseTypeOpt σ ≠ .error (.syntax pos b l) :=
  parseTypeFuel_no_syntax_error _ σ pos b l

/-- prefixes of viable prefixes are viable -/
theorem viablePrefix_take (ts : List Token) (k : Nat) (h : ViablePrefix ts) : ViablePrefix (ts.take k) := by
  obtain ⟨rest, e, d, hd⟩ := h
  refine ⟨ts.drop k ++ rest, e, d, ?_⟩
  rw [← List.append_assoc, List.take_append_drop]
  exact hd

/-- every prefix of an accepted token list (flag down) is viable -/
theorem accepted_prefixes_viable (toks : List Token) (eofPos : Nat) (d : Document)
    (h : parseToks toks eofPos = .ok ⟨d, false⟩) (k : Nat) : ViablePrefix (toks.take k) :=
  viablePrefix_take toks k ⟨[], eofPos, d, by simpa using parseToks_sound h⟩

/-- a reported syntax error means the token list is not a document (for any EOF offset) -/
theorem syntax_error_not_document (toks : List Token) (eofPos pos : Nat) (b : Bool) (l : Nat)
    (h : parseToks toks eofPos = .error (.syntax pos b l)) : ¬ ∃ d, DerivesDoc toks eofPos d := by
  rintro ⟨d, hd⟩
  rw [parseToks_complete hd] at h
  cases h

/-! ## NOT LATER: with the blamed token the text is no longer the beginning of any document

`k = |toks| - left` is the index of the token M blames (`syntax_error_blames_token`).  The parser model is deterministic
and reads left to right with one token of look-ahead (two after a description), so its verdict up to the first error
depends only on the tokens up to the blamed one (`parseToks_error_local`, GqlProofs/ParserLocal.lean: a prefix-determinism
theorem for all actions, fuel included); completeness (`parser_complete`) then excludes every continuation.  This holds
WITHOUT any side condition on D-03b: the leniency of `parseType` makes M accept too much, never reject too early. -/

/-- prefix determinism: M rejects every token list that starts with `toks[0..k]` exactly as it rejects `toks` -/
theorem syntax_error_prefix_determined (toks : List Token) (eofPos pos : Nat) (b : Bool) (l : Nat)
    (h : parseToks toks eofPos = .error (.syntax pos b l)) (hl : 0 < l) (rest : List Token) (eofPos' : Nat) :
    ∃ l', parseToks (toks.take (toks.length - l + 1) ++ rest) eofPos' = .error (.syntax pos b l') :=
  parseToks_error_local h hl rest eofPos'

/-- **not later**: no continuation of the prefix that INCLUDES the blamed token is a document of the grammar -/
theorem syntax_error_not_later (toks : List Token) (eofPos pos : Nat) (b : Bool) (l : Nat)
    (h : parseToks toks eofPos = .error (.syntax pos b l)) (hl : 0 < l) :
    ¬ ViablePrefix (toks.take (toks.length - l + 1)) := by
  rintro ⟨rest, eofPos', d, hd⟩
  obtain ⟨l', g⟩ := parseToks_error_local h hl rest eofPos'
  rw [parseToks_complete hd] at g
  cases g

/-! ## Lazy lexing: a parser rejection at token k is reported even if token k+1 is malformed

`parser.Parse` lexes one token ahead (`advance` returns the lexical error of the NEXT token at once), so on a text
whose tokens `toks` are followed by a malformed lexeme two errors compete.  `parseLazy toks` is the model's verdict
(`GqlModel/Parser.lean`): M runs on `toks`; an error M raises while at least one token is still unconsumed, and which
does not blame the non-existent token after `toks`, is the parser's own rejection and is what is returned; in every
other case (M advanced or looked past the last token, or would accept) the lexical error is returned.  That this is
what the real parser does is checked by the C03 differential on every text with a lexical error (stream `lexafter`:
every token sequence followed by a malformed lexeme of every class in LF/CR/CRLF layouts). -/

/-- the `left` recorded in an error never exceeds the number of tokens: it counts unconsumed tokens -/
theorem error_left_le (toks : List Token) (eofPos pos : Nat) (b : Bool) (l : Nat)
    (h : parseDocument (initState toks eofPos) = .error (.syntax pos b l)) : l ≤ toks.length :=
  ((inferInstance : ErrAt parseDocument).err _ _ _ _ h).1

/-- the offset of a syntax error is the start of exactly the token `left` determines: index `|toks| - left`
(`left = 0`: the EOF offset) -/
theorem syntax_error_blames_token (toks : List Token) (eofPos pos : Nat) (b : Bool) (l : Nat)
    (h : parseDocument (initState toks eofPos) = .error (.syntax pos b l)) :
    l ≤ toks.length ∧ pos = (match toks.drop (toks.length - l) with | t :: _ => t.start | [] => eofPos) :=
  (inferInstance : ErrAt parseDocument).err _ _ _ _ h

/-- **ordering**: if M rejects and the token it blames is one of the real tokens (`0 < left`), that rejection is
reported — the malformed lexeme after `toks` is never looked at -/
theorem parser_rejection_before_lexical_error (toks : List Token) (pos : Nat) (b : Bool) (l : Nat)
    (h : parseDocument (initState toks (freshEOF toks)) = .error (.syntax pos b l)) (hl : 0 < l) :
    parseLazy toks = .syntax pos := by
  simp [parseLazy, h, hl]

/-- conversely the lexical error is reported exactly when M accepts or blames the token after the last one -/
theorem lexical_error_reported_iff (toks : List Token) :
    parseLazy toks = .lexError ↔
      ((∃ r, parseDocument (initState toks (freshEOF toks)) = .ok r) ∨
       (∃ pos b, parseDocument (initState toks (freshEOF toks)) = .error (.syntax pos b 0)) ∨
       parseDocument (initState toks (freshEOF toks)) = .error .noEOF) := by
  unfold parseLazy
  match hr : parseDocument (initState toks (freshEOF toks)) with
  | .ok r => simp
  | .error (.syntax pos b l) =>
    simp only [reduceCtorEq, exists_false, false_or, or_false, Except.error.injEq, PErr.syntax.injEq]
    constructor
    · intro h
      split at h
      · cases h
      · rename_i hc
        exact ⟨pos, b, rfl, rfl, by omega⟩
    · rintro ⟨pos', b', rfl, rfl, rfl⟩
      simp
  | .error .fuel => simp
  | .error .noEOF => simp

theorem freshEOF_gt (toks : List Token) : ∀ t ∈ toks, t.start < freshEOF toks := by
  unfold freshEOF
  have key : ∀ (ts : List Token) (m : Nat), m ≤ ts.foldl (fun m t => max m (t.start + 1)) m ∧
      ∀ t ∈ ts, t.start < ts.foldl (fun m t => max m (t.start + 1)) m := by
    intro ts
    induction ts with
    | nil => intro m; exact ⟨Nat.le_refl _, by simp⟩
    | cons x xs ih =>
      intro m
      obtain ⟨h1, h2⟩ := ih (max m (x.start + 1))
      refine ⟨by simp only [List.foldl_cons]; omega, ?_⟩
      intro t ht
      simp only [List.foldl_cons]
      rcases List.mem_cons.mp ht with rfl | ht
      · omega
      · exact h2 t ht
  exact (key toks 0).2

/-- a reported parser rejection points at the start of one of the real tokens — never at or beyond the malformed lexeme -/
theorem lazy_syntax_error_at_real_token (toks : List Token) (pos : Nat) (h : parseLazy toks = .syntax pos) :
    ∃ t ∈ toks, pos = t.start := by
  unfold parseLazy at h
  match hr : parseDocument (initState toks (freshEOF toks)) with
  | .ok r => simp [hr] at h
  | .error (.syntax p b l) =>
    simp only [hr] at h
    split at h
    · rename_i hc
      simp only [LazyOut.syntax.injEq] at h
      subst h
      obtain ⟨hl, hpos⟩ := syntax_error_blames_token toks _ _ _ _ hr
      cases hd : toks.drop (toks.length - l) with
      | nil =>
        have := congrArg List.length hd
        simp at this
        omega
      | cons t r =>
        rw [hd] at hpos
        exact ⟨t, List.mem_of_mem_drop (by rw [hd]; simp), hpos⟩
    · cases h
  | .error .fuel => simp [hr] at h
  | .error .noEOF => simp [hr] at h

/-- the lazy-lexing verdict is never "out of fuel" -/
theorem lazy_never_fuel (toks : List Token) : parseLazy toks ≠ .fuel := by
  unfold parseLazy
  match hr : parseDocument (initState toks (freshEOF toks)) with
  | .ok r => simp
  | .error (.syntax p b l) => simp only; split <;> simp
  | .error .fuel =>
    exact absurd hr ((inferInstance : NFb toks.length parseDocument).nf (initState toks (freshEOF toks)) (Nat.le_refl _))
  | .error .noEOF => simp

end GqlModel.Parser
