import GqlProofs.ParserErrPos
import GqlProofs.ParserLocal
import GqlProofs.ParserSound
import GqlProofs.ParserComplete
import GqlProofs.ParserViable
import GqlProofs.RecogniseSound
import GqlModel.ParseBytes
/-! # C18, syntax clause — where the parser reports a syntax error

Clause: "for a syntax error the reported position falls within the first token at which the text stops being the
beginning of any valid document".  In terms of the token-level model M (`GqlModel.Parser`, tied to the real parser
on every run by the C03 harness, which compares the error OFFSET of `parser.Parse` with M's on every rejected
case), with `k = |toks| - left` the index of the token M blames:

```
-- FULL STATEMENT
theorem syntax_error_at_first_nonviable_token (toks eofPos pos b l) (h : parseToks toks eofPos = .error (.syntax pos b l)) :
    l ≤ toks.length ∧ pos = (match toks.drop (toks.length - l) with | t :: _ => t.start | [] => eofPos) ∧   -- (0) AT TOKEN k
    (b = false → ViablePrefix (toks.take (toks.length - l))) ∧                                              -- (2) NOT EARLIER
    (0 < l → ¬ ViablePrefix (toks.take (toks.length - l + 1)))                                              -- (1) NOT LATER
```

(2) carries the side condition `b = false` (the D-03b flag is down when the error is raised): after a malformed type
reference that `parseType` let through, e.g. `query ( $ a : [ ) {`, the tokens before the blamed `{` are NOT the
beginning of a document — the error surfaces late (`type_reference_reports_no_error`; C03 known finding
`typeRefMalformed`).  (0) and (1) need no side condition: the leniency of `parseType` makes M accept too much, it never
makes it reject, so a rejection of M is a rejection of the grammar, and locality is a statement about M alone.

PROVED, for the WHOLE grammar (executable and type-system definitions) and every token list:
* (0) `syntax_error_at_token_start`, `syntax_error_blames_token`, `value_error_at_token_start`;
* (1) `syntax_error_not_later` (via `syntax_error_prefix_determined`: M's verdict up to its first error depends only on
  the tokens up to the blamed one — a prefix-determinism theorem for all actions, fuel included, GqlProofs/ParserLocal.lean —
  and `parser_complete`);
* towards (2): `truncated_text_fails_only_at_eof` — M on the tokens before the blamed one either accepts or fails AT THE
  END of input, nowhere before;  `certified_completion_viable` — whenever the executable completion of
  `GqlModel/Grammar.lean` returns `some c` for a prefix, that prefix is viable (the answer is re-checked by the
  recogniser, which is proved sound), hence `syntax_error_at_first_nonviable_token_certified`: the full statement for
  every input on which the certificate exists;
* (0)+(1)+(2) for `parser.ParseValue` (the value sub-grammar: variables, scalars, enums, lists, objects, const and
  non-const): `value_error_at_first_nonviable_token`;
* `type_reference_reports_no_error`, `accepted_prefixes_viable`, `viablePrefix_take`, `syntax_error_not_document`;
* the byte-level composition `bytes_syntax_error_not_later` (lexer model ∘ parser model, `GqlModel.parseBytes`).

GAP — (2) NOT EARLIER for documents, as a theorem for all inputs:
```
theorem syntax_error_not_earlier (toks eofPos pos l) (h : parseToks toks eofPos = .error (.syntax pos false l)) :
    ViablePrefix (toks.take (toks.length - l))
```
By `truncated_text_fails_only_at_eof` it is equivalent to: "if M fails at the END of `ts` (left = 0, flag down) then `ts` is
viable", i.e. every parser state reached at end of input has a completion.  Proved for values
(`parseValueLiteral_cpl`, GqlProofs/ParserViable.lean, with the generic loop lemma `many_cpl` and the append-frame
lemmas `DValue.app` …).  MISSING for the rest (executable grammar AND type-system definitions alike):
  (a) append-frame lemmas for the other 40 derivation relations — unlike `DValue` they carry longest-match side
      conditions on absent optionals ("no `(` follows", "no `@` follows", "no `{` follows"), so appending tokens is only
      sound when the first appended token is outside the FIRST set of the absent optional: each lemma needs a look-ahead
      hypothesis and each use a FOLLOW-set fact;
  (b) a completion lemma `m σ = .error (.syntax _ _ 0) → ∃ comp, ∀ X (X's head outside FIRST-of-what-was-skipped), D …`
      for each of arguments, directives, type references, variable definitions, selection sets (fuel-indexed, mutual),
      operations, fragments, the 11 type-system definition forms and `parseDefinitions`;
  (c) the same through `parseType` with the flag down (completions must avoid D-03b shapes).
What stands in for it meanwhile: the executable `completeDoc`/`certifiedCompletion`; the C03 harness demands, for EVERY
rejected case of every stream (exhaustive token sequences to length 4, the reduced-alphabet viable-prefix tree, contexts,
generated documents, mutations, malformed-lexeme cases) whose flag is down, that the certificate exists — so (2) is PROVED for each such input —
and that the real parser accepts the text before the reported token followed by the completion. -/
namespace GqlModel.Parser
open GqlModel GqlModel.Grammar

/-- every syntax error of M is reported at the start of one of the tokens of the input (index `k`), or, for
`k = |toks|`, at the EOF offset -/
theorem syntax_error_at_token_start (toks : List Token) (eofPos pos : Nat) (b : Bool) (l : Nat)
    (h : parseToks toks eofPos = .error (.syntax pos b l)) :
    ∃ k, k ≤ toks.length ∧ pos = (match toks.drop k with | t :: _ => t.start | [] => eofPos) :=
  parseToks_error_at_token h

/-- the same for `parser.ParseValue` (`parseValue` on the initial state) -/
theorem value_error_at_token_start (c : Bool) (toks : List Token) (eofPos pos : Nat) (b : Bool) (l : Nat)
    (h : parseValue c (initState toks eofPos) = .error (.syntax pos b l)) :
    ∃ k, k ≤ toks.length ∧ pos = (match toks.drop k with | t :: _ => t.start | [] => eofPos) :=
  ((inferInstance : ErrAt (parseValue c)).err _ _ _ _ h).atToken

/-- `parseType` has no failing path: a malformed type reference is never reported where it occurs (D-03b) -/
theorem type_reference_reports_no_error (σ : PState) (pos : Nat) (b : Bool) (l : Nat) :
    parseTypeOpt σ ≠ .error (.syntax pos b l) :=
  parseTypeFuel_no_syntax_error _ σ pos b l

/-- prefixes of viable prefixes are viable -/
theorem viablePrefix_take (ts : List Token) (k : Nat) (h : ViablePrefix ts) : ViablePrefix (ts.take k) := by
  obtain ⟨rest, e, d, hd⟩ := h
  refine ⟨ts.drop k ++ rest, e, d, ?_⟩
  rw [← List.append_assoc, List.take_append_drop]
  exact hd

/-- every prefix of an accepted token list (flag down) is viable -/
theorem accepted_prefixes_viable (toks : List Token) (eofPos : Nat) (d : Document)
    (h : parseToks toks eofPos = .ok ⟨d, false⟩) (k : Nat) : ViablePrefix (toks.take k) :=
  viablePrefix_take toks k ⟨[], eofPos, d, by simpa using parseToks_sound h⟩

/-- a reported syntax error means the token list is not a document (for any EOF offset) -/
theorem syntax_error_not_document (toks : List Token) (eofPos pos : Nat) (b : Bool) (l : Nat)
    (h : parseToks toks eofPos = .error (.syntax pos b l)) : ¬ ∃ d, DerivesDoc toks eofPos d := by
  rintro ⟨d, hd⟩
  rw [parseToks_complete hd] at h
  cases h

/-! ## NOT LATER: with the blamed token the text is no longer the beginning of any document

`k = |toks| - left` is the index of the token M blames (`syntax_error_blames_token`).  The parser model is deterministic
and reads left to right with one token of look-ahead (two after a description), so its verdict up to the first error
depends only on the tokens up to the blamed one (`parseToks_error_local`, GqlProofs/ParserLocal.lean: a prefix-determinism
theorem for all actions, fuel included); completeness (`parser_complete`) then excludes every continuation.  This holds
WITHOUT any side condition on D-03b: the leniency of `parseType` makes M accept too much, never reject too early. -/

/-- prefix determinism: M rejects every token list that starts with `toks[0..k]` exactly as it rejects `toks` -/
theorem syntax_error_prefix_determined (toks : List Token) (eofPos pos : Nat) (b : Bool) (l : Nat)
    (h : parseToks toks eofPos = .error (.syntax pos b l)) (hl : 0 < l) (rest : List Token) (eofPos' : Nat) :
    ∃ l', parseToks (toks.take (toks.length - l + 1) ++ rest) eofPos' = .error (.syntax pos b l') ∧
      (toks.take (toks.length - l + 1) ++ rest).length - l' = toks.length - l :=
  let ⟨l', g, hidx, _⟩ := parseToks_error_local h hl rest eofPos'
  ⟨l', g, hidx⟩

/-- **not later**: no continuation of the prefix that INCLUDES the blamed token is a document of the grammar -/
theorem syntax_error_not_later (toks : List Token) (eofPos pos : Nat) (b : Bool) (l : Nat)
    (h : parseToks toks eofPos = .error (.syntax pos b l)) (hl : 0 < l) :
    ¬ ViablePrefix (toks.take (toks.length - l + 1)) := by
  rintro ⟨rest, eofPos', d, hd⟩
  obtain ⟨l', g, _, _⟩ := parseToks_error_local h hl rest eofPos'
  rw [parseToks_complete hd] at g
  cases g

/-- the text cut right before the blamed token is rejected, if at all, only for ending too early: M blames its end (EOF)
and nothing before — the first step towards NOT EARLIER -/
theorem truncated_text_fails_only_at_eof (toks : List Token) (eofPos pos : Nat) (b : Bool) (l : Nat)
    (h : parseToks toks eofPos = .error (.syntax pos b l)) (eofPos' pos' : Nat) (b' : Bool) (l' : Nat)
    (h' : parseToks (toks.take (toks.length - l)) eofPos' = .error (.syntax pos' b' l')) : l' = 0 :=
  parseToks_truncated h eofPos' pos' b' l' h'


/-! ## NOT EARLIER: the tokens before the blamed one are the beginning of a document

Proved for `parser.ParseValue`; for documents reduced to "failing at the end of input implies viable"
(`truncated_text_fails_only_at_eof`) and proved for each input on which the executable completion certifies itself. -/

/-- a certified completion proves the prefix viable (the recogniser that re-checks it is sound) -/
theorem certified_completion_viable (pre c : List Token) (h : certifiedCompletion pre = some c) : ViablePrefix pre := by
  unfold certifiedCompletion at h
  split at h
  · split at h
    · rename_i hr
      cases h
      unfold recogniseToks at hr
      cases hrun : run (recogniseFuel (pre ++ c)) (.nt .document) (pre ++ c) with
      | fuel => simp [hrun] at hr
      | no => simp [hrun] at hr
      | rest r =>
        simp only [hrun, Option.some.injEq, List.isEmpty_iff] at hr
        subst hr
        obtain ⟨d, hd⟩ := run_derivesDoc 0 (run_sound _ _ _ (.rest []) hrun)
        exact ⟨c, 0, d, hd⟩
    · cases h
  · cases h

/-- the full clause for every input on which the certificate exists (the C03 harness checks that it does on every
rejected case it generates) -/
theorem syntax_error_at_first_nonviable_token_certified (toks : List Token) (eofPos pos : Nat) (b : Bool) (l : Nat)
    (h : parseToks toks eofPos = .error (.syntax pos b l)) (c : List Token)
    (hc : certifiedCompletion (toks.take (toks.length - l)) = some c) :
    l ≤ toks.length ∧ pos = (match toks.drop (toks.length - l) with | t :: _ => t.start | [] => eofPos) ∧
    ViablePrefix (toks.take (toks.length - l)) ∧ (0 < l → ¬ ViablePrefix (toks.take (toks.length - l + 1))) := by
  have h0 : parseDocument (initState toks eofPos) = .error (.syntax pos b l) := by
    unfold parseToks at h
    split at h
    · cases h
    · rename_i e he; cases h; exact he
  have hb : l ≤ toks.length ∧ pos = (match toks.drop (toks.length - l) with | t :: _ => t.start | [] => eofPos) :=
    (inferInstance : ErrAt parseDocument).err _ _ _ _ h0
  exact ⟨hb.1, hb.2,
    certified_completion_viable _ _ hc, syntax_error_not_later toks eofPos pos b l h⟩

/-- the completion finds, and certifies, what one expects -/
example : certifiedCompletion [] = some [⟨.braceL, 0, 0, ""⟩, ⟨.name, 0, 0, "a"⟩, ⟨.braceR, 0, 0, ""⟩] := by decide +kernel
example : (certifiedCompletion [⟨.braceL, 0, 1, ""⟩, ⟨.name, 2, 3, "f"⟩, ⟨.parenL, 3, 4, ""⟩]).map (·.map (·.kind)) =
    some [.name, .colon, .int, .parenR, .braceR] := by decide +kernel
example : (certifiedCompletion [⟨.name, 0, 5, "query"⟩, ⟨.parenL, 5, 6, ""⟩, ⟨.dollar, 6, 7, ""⟩, ⟨.name, 7, 8, "v"⟩, ⟨.colon, 8, 9, ""⟩]).map
    (·.map (·.kind)) = some [.name, .bang, .parenR, .braceL, .name, .braceR] := by decide +kernel
example : (certifiedCompletion [⟨.name, 0, 4, "type"⟩, ⟨.name, 5, 6, "T"⟩, ⟨.name, 7, 17, "implements"⟩]).isSome = true := by decide +kernel
/-- `fragment on` is not the beginning of a document: no completion -/
example : certifiedCompletion [⟨.name, 0, 8, "fragment"⟩, ⟨.name, 9, 11, "on"⟩] = none := by decide +kernel

/-! ### `parser.ParseValue`: the whole clause -/

/-- the clause for `parser.ParseValue`: the reported offset is the start of token `k`, the tokens before it are the
beginning of a value, with it they are not -/
theorem value_error_at_first_nonviable_token (c : Bool) (toks : List Token) (eofPos pos : Nat) (b : Bool) (l : Nat)
    (h : parseValue c (initState toks eofPos) = .error (.syntax pos b l)) :
    l ≤ toks.length ∧ pos = (match toks.drop (toks.length - l) with | t :: _ => t.start | [] => eofPos) ∧
    ViableValuePrefix c (toks.take (toks.length - l)) ∧
    (0 < l → ¬ ViableValuePrefix c (toks.take (toks.length - l + 1))) :=
  ⟨((inferInstance : ErrAt (parseValue c)).err _ _ _ _ h).1, ((inferInstance : ErrAt (parseValue c)).err _ _ _ _ h).2,
   parseValue_not_earlier c toks eofPos pos b l h, parseValue_not_later c toks eofPos pos b l h⟩

/-- non-vacuity: `[1 } 2` is rejected at the `}` (offset 3, token 2 of 4: `left = 2`) -/
example : parseValue false (initState [⟨.bracketL, 0, 1, ""⟩, ⟨.int, 1, 2, "1"⟩, ⟨.braceR, 3, 4, ""⟩, ⟨.int, 5, 6, "2"⟩] 7) =
    .error (.syntax 3 false 2) := by rfl

/-! ## On bytes: lexer model ∘ parser model -/

/-- `parseBytes` (= `Lexer.lexAll` then M) reports a syntax error that blames a real token (`0 < left`) at the start
offset of a token `t` of the lexer's output, and the lexer's tokens up to and including `t` are not the beginning of
any document.  (That `[t.start, t.stop)` is `t`'s lexeme in the bytes is the lexer half's `token_delimits_lexeme_partial`;
a statement about BYTE continuations would be false — `fragment on` is rejected at `on`, `fragment onx …` is not.) -/
theorem bytes_syntax_error_not_later (src : Lexer.Bytes) (pos : Nat) (b : Bool) (l : Nat)
    (h : parseBytes src = .error (.parse (.syntax pos b l))) (hl : 0 < l) :
    ∃ toks e, splitEOF ((Lexer.lexAll src).tokens.map Lexer.LTok.toToken) = some (toks, e) ∧
      (Lexer.lexAll src).err = none ∧ l ≤ toks.length ∧
      (∃ t, toks[toks.length - l]? = some t ∧ pos = t.start) ∧
      ¬ ViablePrefix (toks.take (toks.length - l + 1)) := by
  unfold parseBytes at h
  split at h
  · cases h
  · rename_i herr
    split at h
    · cases h
    · rename_i e he
      cases h
      unfold parseTokens at he
      split at he
      · rename_i toks e hs
        have h0 : parseDocument (initState toks e.start) = .error (.syntax pos b l) := by
          unfold parseToks at he
          split at he
          · cases he
          · rename_i e' he'; cases he; exact he'
        have hb : l ≤ toks.length ∧ pos = (match toks.drop (toks.length - l) with | t :: _ => t.start | [] => e.start) :=
          (inferInstance : ErrAt parseDocument).err _ _ _ _ h0
        obtain ⟨hle, hpos⟩ := hb
        refine ⟨toks, e, hs, herr, hle, ?_, syntax_error_not_later toks e.start pos b l he hl⟩
        have hlt : toks.length - l < toks.length := by omega
        refine ⟨toks[toks.length - l], by simp [hlt], ?_⟩
        rw [List.drop_eq_getElem_cons hlt] at hpos
        exact hpos
      · cases he
        omega

/-! ## Lazy lexing: a parser rejection at token k is reported even if token k+1 is malformed

`parser.Parse` lexes one token ahead (`advance` returns the lexical error of the NEXT token at once), so on a text
whose tokens `toks` are followed by a malformed lexeme two errors compete.  `parseLazy toks` is the model's verdict
(`GqlModel/Parser.lean`): M runs on `toks`; an error M raises while at least one token is still unconsumed, and which
does not blame the non-existent token after `toks`, is the parser's own rejection and is what is returned; in every
other case (M advanced or looked past the last token, or would accept) the lexical error is returned.  That this is
what the real parser does is checked by the C03 differential on every text with a lexical error (stream `lexafter`:
every token sequence followed by a malformed lexeme of every class in LF/CR/CRLF layouts). -/

/-- the `left` recorded in an error never exceeds the number of tokens: it counts unconsumed tokens -/
theorem error_left_le (toks : List Token) (eofPos pos : Nat) (b : Bool) (l : Nat)
    (h : parseDocument (initState toks eofPos) = .error (.syntax pos b l)) : l ≤ toks.length :=
  ((inferInstance : ErrAt parseDocument).err _ _ _ _ h).1

/-- the offset of a syntax error is the start of exactly the token `left` determines: index `|toks| - left`
(`left = 0`: the EOF offset) -/
theorem syntax_error_blames_token (toks : List Token) (eofPos pos : Nat) (b : Bool) (l : Nat)
    (h : parseDocument (initState toks eofPos) = .error (.syntax pos b l)) :
    l ≤ toks.length ∧ pos = (match toks.drop (toks.length - l) with | t :: _ => t.start | [] => eofPos) :=
  (inferInstance : ErrAt parseDocument).err _ _ _ _ h

/-- **ordering**: if M rejects and the token it blames is one of the real tokens (`0 < left`), that rejection is
reported — the malformed lexeme after `toks` is never looked at -/
theorem parser_rejection_before_lexical_error (toks : List Token) (pos : Nat) (b : Bool) (l : Nat)
    (h : parseDocument (initState toks (freshEOF toks)) = .error (.syntax pos b l)) (hl : 0 < l) :
    parseLazy toks = .syntax pos := by
  simp [parseLazy, h, hl]

/-- conversely the lexical error is reported exactly when M accepts or blames the token after the last one -/
theorem lexical_error_reported_iff (toks : List Token) :
    parseLazy toks = .lexError ↔
      ((∃ r, parseDocument (initState toks (freshEOF toks)) = .ok r) ∨
       (∃ pos b, parseDocument (initState toks (freshEOF toks)) = .error (.syntax pos b 0))) := by
  unfold parseLazy
  match hr : parseDocument (initState toks (freshEOF toks)) with
  | .ok r => simp
  | .error (.syntax pos b l) =>
    simp only [reduceCtorEq, exists_false, false_or, Except.error.injEq, PErr.syntax.injEq]
    constructor
    · intro h
      split at h
      · cases h
      · rename_i hc
        exact ⟨pos, b, rfl, rfl, by omega⟩
    · rintro ⟨pos', b', rfl, rfl, rfl⟩
      simp
  | .error .fuel => simp

theorem freshEOF_gt (toks : List Token) : ∀ t ∈ toks, t.start < freshEOF toks := by
  unfold freshEOF
  have key : ∀ (ts : List Token) (m : Nat), m ≤ ts.foldl (fun m t => max m (t.start + 1)) m ∧
      ∀ t ∈ ts, t.start < ts.foldl (fun m t => max m (t.start + 1)) m := by
    intro ts
    induction ts with
    | nil => intro m; exact ⟨Nat.le_refl _, by simp⟩
    | cons x xs ih =>
      intro m
      obtain ⟨h1, h2⟩ := ih (max m (x.start + 1))
      refine ⟨by simp only [List.foldl_cons]; omega, ?_⟩
      intro t ht
      simp only [List.foldl_cons]
      rcases List.mem_cons.mp ht with rfl | ht
      · omega
      · exact h2 t ht
  exact (key toks 0).2

/-- a reported parser rejection points at the start of one of the real tokens — never at or beyond the malformed lexeme -/
theorem lazy_syntax_error_at_real_token (toks : List Token) (pos : Nat) (h : parseLazy toks = .syntax pos) :
    ∃ t ∈ toks, pos = t.start := by
  unfold parseLazy at h
  match hr : parseDocument (initState toks (freshEOF toks)) with
  | .ok r => simp [hr] at h
  | .error (.syntax p b l) =>
    simp only [hr] at h
    split at h
    · rename_i hc
      simp only [LazyOut.syntax.injEq] at h
      subst h
      obtain ⟨hl, hpos⟩ := syntax_error_blames_token toks _ _ _ _ hr
      cases hd : toks.drop (toks.length - l) with
      | nil =>
        have := congrArg List.length hd
        simp at this
        omega
      | cons t r =>
        rw [hd] at hpos
        exact ⟨t, List.mem_of_mem_drop (by rw [hd]; simp), hpos⟩
    · cases h
  | .error .fuel => simp [hr] at h

/-- the lazy-lexing verdict is never "out of fuel" -/
theorem lazy_never_fuel (toks : List Token) : parseLazy toks ≠ .fuel := by
  unfold parseLazy
  match hr : parseDocument (initState toks (freshEOF toks)) with
  | .ok r => simp
  | .error (.syntax p b l) => simp only; split <;> simp
  | .error .fuel =>
    exact absurd hr ((inferInstance : NFb toks.length parseDocument).nf (initState toks (freshEOF toks)) (Nat.le_refl _))

end GqlModel.Parser
