import GqlProofs.ParserErrPos
import GqlProofs.ParserSound
import GqlProofs.ParserComplete
/-! # C18, syntax clause — where the parser reports a syntax error

Clause: "for a syntax error the reported position falls within the first token at which the text stops being the
beginning of any valid document".  In terms of the token-level model M (`GqlModel.Parser`, tied to the real parser
on every run by the C03 harness, which compares the error OFFSET of `parser.Parse` with M's on every rejected
case — green at /repo 75de65f, i.e. after the position repairs 4afb251, ad2148d, 39e3264, 75de65f):

```
-- FULL STATEMENT (not proved; see the gap below)
theorem syntax_error_at_first_nonviable_token (toks eofPos pos) (h : parseToks toks eofPos = .error (.syntax pos false)) :
    ∃ k, k ≤ toks.length ∧ pos = posAt (initState toks eofPos) k ∧
      ViablePrefix (toks.take k) ∧ (k < toks.length → ¬ ViablePrefix (toks.take (k + 1)))
```
(`bad = false` excludes parses that went through a malformed type reference, D-03b: there `parseType` accepts
a non-viable prefix and the error, if any, surfaces at a later token — `type_reference_reports_no_error`.)

Proved here, for the WHOLE grammar (executable and type-system definitions, every token list):
* `syntax_error_at_token_start` — the reported offset is the start offset of one of the input's tokens, or the EOF
  offset: never inside a token, never before the first or after the last token;
* `value_error_at_token_start` — the same for `parser.ParseValue`;
* `type_reference_reports_no_error` — `parseType` itself never reports a syntax error (the D-03b exclusion is exactly
  the set of parses whose flag is raised);
* `accepted_prefixes_viable`, `viablePrefix_take`, `syntax_error_not_document` — the easy directions around `ViablePrefix`.

GAP: the two halves "tokens before the reported one form a viable prefix" (needs a completion for every parser
context) and "with the reported token they do not" (needs: M's verdict up to token k depends only on tokens ≤ k+1,
i.e. a look-ahead locality theorem for all 45 actions, fuel included) are NOT proved, for no fragment.  They are
covered only by the C03 differential: stream (b) enumerates the viable-prefix tree of the real parser and checks, for
every minimal dead prefix, that M reports the same offset. -/
namespace GqlModel.Parser
open GqlModel GqlModel.Grammar

/-- every syntax error of M is reported at the start of one of the tokens of the input (index `k`), or, for
`k = |toks|`, at the EOF offset -/
theorem syntax_error_at_token_start (toks : List Token) (eofPos pos : Nat) (b : Bool)
    (h : parseToks toks eofPos = .error (.syntax pos b)) :
    ∃ k, k ≤ toks.length ∧ pos = (match toks.drop k with | t :: _ => t.start | [] => eofPos) :=
  parseToks_error_at_token h

/-- the same for `parser.ParseValue` (`parseValue` on the initial state) -/
theorem value_error_at_token_start (c : Bool) (toks : List Token) (eofPos pos : Nat) (b : Bool)
    (h : parseValue c (initState toks eofPos) = .error (.syntax pos b)) :
    ∃ k, k ≤ toks.length ∧ pos = (match toks.drop k with | t :: _ => t.start | [] => eofPos) :=
  (inferInstance : ErrAt (parseValue c)).err _ _ _ h

/-- `parseType` has no failing path: a malformed type reference is never reported where it occurs (D-03b) -/
theorem type_reference_reports_no_error (σ : PState) (pos : Nat) (b : Bool) : parseTypeOpt σ ≠ .error (.syntax pos b) :=
  parseTypeFuel_no_syntax_error _ σ pos b

/-- prefixes of viable prefixes are viable -/
theorem viablePrefix_take (ts : List Token) (k : Nat) (h : ViablePrefix ts) : ViablePrefix (ts.take k) := by
  obtain ⟨rest, e, d, hd⟩ := h
  refine ⟨ts.drop k ++ rest, e, d, ?_⟩
  rw [← List.append_assoc, List.take_append_drop]
  exact hd

/-- every prefix of an accepted token list (flag down) is viable -/
theorem accepted_prefixes_viable (toks : List Token) (eofPos : Nat) (d : Document)
    (h : parseToks toks eofPos = .ok ⟨d, false⟩) (k : Nat) : ViablePrefix (toks.take k) :=
  viablePrefix_take toks k ⟨[], eofPos, d, by simpa using parseToks_sound h⟩

/-- a reported syntax error means the token list is not a document (for any EOF offset) -/
theorem syntax_error_not_document (toks : List Token) (eofPos pos : Nat) (b : Bool)
    (h : parseToks toks eofPos = .error (.syntax pos b)) : ¬ ∃ d, DerivesDoc toks eofPos d := by
  rintro ⟨d, hd⟩
  rw [parseToks_complete hd] at h
  cases h

end GqlModel.Parser
