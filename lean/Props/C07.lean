import GqlProofs.Locks
import Generated.Tables
/-! # C07 — One schema, plan and plan cache can serve concurrent requests safely

Full statement (properties.jsonl): any number of goroutines may concurrently validate, plan and execute against the
same schema, plan and plan cache: no data race, no panic/deadlock, and every response equals the sequential one —
including the first use of lazily initialised state on several goroutines at once.

What is proved here (about the abstract trace model `GqlModel.Locks` and about the regenerated tables):
* `discipline_race_free` — in every well-formed trace, if each location follows one of the three disciplines
  (written only before publication / accessed only under its mutex / accessed only atomically), every pair of
  conflicting accesses is ordered by happens-before: there is no data race.
* `lazy_init_schedule_independent` (+ `lazy_init_mutually_exclusive`) — the lazy initialiser whose check and store are ONE
  critical section (`Plan.abstractAlternative`) gives, under every schedule of any number of threads, every finished
  caller the value `init key`, and leaves exactly that value in the table.
* `lookup_compute_store_schedule_independent` — the same for `PlanCache.Get`'s protocol (lookup under the lock, compute
  outside, store under the lock; a miss is never mistaken for an entry).
* `sites_respect_discipline` — every write site of /repo to a field of a shared type (`Generated.lockFacts`) and every
  use of a lock-protected field (`Generated.fieldAccesses`) respects the discipline declared for that field in
  `GqlModel.Locks` (construction-only function / lazy initialiser forced at construction / named mutex held), the atomic
  and mutex fields are the expected ones, and every lazy initialiser is reachable from `NewSchema`/`NewEnum` in the
  regenerated call graph. A new unguarded write, a removed `Lock()`, a de-atomised counter break it.
* `lazy_inits_single_critical_section`, `lazy_guards_as_classified` — the shape premises: one `Lock(); defer Unlock()`
  per function, check and store in the same critical section (`split_critical_section_breaks_lazy_init` shows what goes
  wrong otherwise), and the write-once guards of the lazy initialisers are the ones that were read.

Residual (sampled by harness/cmd/c07 under the race detector, not proved): that the extractor's syntactic facts imply
the trace discipline for the real program (aliasing, user callbacks, the Go memory model itself), panics/deadlocks,
and equality of concurrent and sequential responses of the real binary. -/
namespace GqlModel.Locks

/-- No data race under the three disciplines: any two conflicting accesses are ordered by happens-before. -/
theorem discipline_race_free (tr : Trace) (p : Nat) (wf : WF tr p) (disc : Loc → Discipline)
    (hd : ∀ x, Respects tr p x (disc x)) :
    ∀ i j e₁ e₂, i < j → tr[i]? = some e₁ → tr[j]? = some e₂ → Conflict e₁ e₂ → HB tr i j := by
  intro i j e₁ e₂ hij h1 h2 hc
  rcases hc with ⟨x, w₁, a₁, w₂, a₂, ha1, ha2, hne, hw, hpl⟩
  have hx := hd x
  cases hdx : disc x with
  | atomicOnly =>
    rw [hdx] at hx
    have e1 := hx i e₁ w₁ a₁ h1 ha1
    have e2 := hx j e₂ w₂ a₂ h2 ha2
    rcases hpl with h | h <;> simp_all
  | guardedBy m =>
    rw [hdx] at hx
    exact guarded_ordered tr p wf m i j e₁ e₂ hij h1 h2 ha1 ha2 (hx i e₁ w₁ a₁ h1 ha1) (hx j e₂ w₂ a₂ h2 ha2) hne
  | prePublication =>
    rw [hdx] at hx
    -- the writer is thread 0 before the publication; the other access is by a thread that acquired after it
    have later_thread : ∀ k (e : Ev), tr[k]? = some e → e.tid ≠ 0 → ∃ a, p < a ∧ a ≤ k ∧ tr[a]? = some (Ev.acquire e.tid) := by
      intro k e hk hz
      rcases wf.acquired k e hk hz with ⟨a, hak, haq⟩
      exact ⟨a, wf.acquire_after a _ haq, hak, haq⟩
    rcases hw with hw | hw
    · subst hw
      rcases hx i e₁ a₁ h1 ha1 with ⟨ht0, hip⟩
      have hz : e₂.tid ≠ 0 := by rw [← ht0]; exact fun h => hne h.symm
      rcases later_thread j e₂ h2 hz with ⟨a, hpa, haj, haq⟩
      have haj' : a < j := by
        rcases Nat.lt_or_ge a j with h | h
        · exact h
        · have : a = j := by omega
          subst this; rw [h2] at haq; exact absurd (Option.some.inj haq) (acc_not_acquire ha2 _)
      exact .trans (.trans (.po hip h1 wf.published ht0) (.pub hpa wf.published haq)) (.po haj' haq h2 rfl)
    · subst hw
      rcases hx j e₂ a₂ h2 ha2 with ⟨ht0, hjp⟩
      have hz : e₁.tid ≠ 0 := by rw [← ht0]; exact hne
      rcases later_thread i e₁ h1 hz with ⟨a, hpa, hai, _⟩
      omega

/-- Every interleaving of any number of first uses of a lock-protected lazy initialiser: whoever has finished saw
`init (key t)`, the table holds `init k` for every key somebody finished with, and never anything else. -/
theorem lazy_init_schedule_independent {κ V : Type} [DecidableEq κ] (key : Tid → κ) (init : κ → V) (sched : List Tid) :
    (∀ t, (lrun key init sched).pc t = 4 →
      (lrun key init sched).out t = some (init (key t)) ∧ (lrun key init sched).cell (key t) = some (init (key t))) ∧
    (∀ k v, (lrun key init sched).cell k = some v → v = init k) := by
  have inv := LInv.run key init sched
  exact ⟨fun t h => ⟨inv.done_out t (by omega), inv.done_cell t (by omega)⟩, inv.cell_init⟩

/-- two schedules, same answers: the value a finished caller got does not depend on the interleaving -/
theorem lazy_init_same_result_any_two_schedules {κ V : Type} [DecidableEq κ] (key : Tid → κ) (init : κ → V)
    (s₁ s₂ : List Tid) (t : Tid) (h₁ : (lrun key init s₁).pc t = 4) (h₂ : (lrun key init s₂).pc t = 4) :
    (lrun key init s₁).out t = (lrun key init s₂).out t := by
  rw [((lazy_init_schedule_independent key init s₁).1 t h₁).1, ((lazy_init_schedule_independent key init s₂).1 t h₂).1]

/-- the critical section is exclusive: two threads are never both between Lock and Unlock -/
theorem lazy_init_mutually_exclusive {κ V : Type} [DecidableEq κ] (key : Tid → κ) (init : κ → V) (sched : List Tid)
    (t t' : Tid) :
    let s := lrun key init sched
    1 ≤ s.pc t → s.pc t ≤ 3 → 1 ≤ s.pc t' → s.pc t' ≤ 3 → t = t' := by
  intro s a b c d
  have inv := LInv.run key init sched
  have h1 := inv.crit_holds t a b
  have h2 := inv.crit_holds t' c d
  rw [h1] at h2
  exact Option.some.inj h2

/-- `PlanCache.Get`: lookup under the lock, compute WITHOUT the lock on a miss, store under the lock. Every schedule of
any number of threads: whoever has finished got `init (key t)`, and the table never holds anything else. (Sound because a
miss is a miss — compare `split_critical_section_breaks_lazy_init`, where a placeholder is read as an entry.) -/
theorem lookup_compute_store_schedule_independent {κ V : Type} [DecidableEq κ] (key : Tid → κ) (init : κ → V)
    (sched : List Tid) :
    (∀ t, (crun key init sched).pc t = 5 → (crun key init sched).out t = some (init (key t))) ∧
    (∀ k v, (crun key init sched).cell k = some v → v = init k) := by
  have inv := CInv.run key init sched
  exact ⟨inv.done_out, inv.cell_init⟩

/-- Table obligation, re-checked against /repo on every run. -/
theorem sites_respect_discipline :
    sitesRespectDiscipline Generated.lockFacts Generated.fieldAccesses Generated.atomicFields Generated.mutexFields
      Generated.constructionCalls = true := by
  decide +kernel

/-- Table obligation: every critical section of /repo is `Lock(); defer Unlock()` — one per function and mutex —, every
field used under a mutex is used in exactly one critical section of the function, and `Plan.abstractAlternative` has one:
the check-then-store atomicity that `lazy_init_schedule_independent` presupposes. -/
theorem lazy_inits_single_critical_section :
    singleCriticalSections Generated.critSections Generated.fieldRegions = true := by
  decide +kernel

/-- Table obligation: the lazy initialisers still start with the write-once guard they were classified under. -/
theorem lazy_guards_as_classified : lazyGuardsAsClassified Generated.lazyGuards = true := by
  decide +kernel

/-- Table obligation: package graphql has no process-wide mutable map / slice besides the two read-only configuration
lists. -/
theorem no_new_shared_package_state : (Generated.packageVars == expectedPackageVars) = true := by
  decide +kernel

/-- Table obligation: the schema walk of `NewSchema` still follows every kind of edge (the warm-up premise: every lazily
initialised type reachable from the type map is initialised before the schema is published). -/
theorem schema_walk_covers_all_edges : (Generated.schemaWalkEdges == expectedSchemaWalk) = true := by
  decide +kernel

/-- Table obligation: no function reachable (through the package's static call graph) from a call made while a mutex is
held locks that mutex again — `sync.Mutex` self-deadlocks. -/
theorem no_reentrant_locking : noReentrantLocking Generated.heldCalls Generated.reentrantLocks = true := by
  decide +kernel

/-- Why the shape matters: with the critical section split in two and the slot claimed by a placeholder in between, all
accesses are still under the mutex, yet there is a schedule of two threads in which the second one finishes with the
placeholder instead of `init`. -/
theorem split_critical_section_breaks_lazy_init :
    ∃ sched : List Tid, (srun (7 : Nat) sched).pc 1 = 5 ∧ (srun (7 : Nat) sched).out 1 = some none := by
  exact ⟨[0, 0, 1, 1], by decide⟩

/-! ## Non-vacuity -/

/-- a well-formed trace with a publication, two request threads, a guarded location (1, mutex 7), a pre-publication
location (0) and an atomic one (2): the hypotheses of `discipline_race_free` are satisfiable and there are conflicting
pairs in it -/
def exTrace : Trace :=
  [.write 0 0, .publish 0, .acquire 1, .acquire 2, .lock 1 7, .write 1 1, .unlock 1 7, .read 2 0, .awrite 1 2,
   .lock 2 7, .read 2 1, .unlock 2 7, .aread 2 2]

example : Conflict (.write 1 1) (.read 2 1) := ⟨1, true, false, false, false, rfl, rfl, by decide, .inl rfl, .inl rfl⟩

example : HB exTrace 5 10 :=
  .trans (.trans (.po (by decide) (by decide : exTrace[5]? = some (.write 1 1)) (by decide : exTrace[6]? = some (.unlock 1 7)) rfl)
    (.sync (by decide) (by decide : exTrace[6]? = some (.unlock 1 7)) (by decide : exTrace[9]? = some (.lock 2 7))))
    (.po (by decide) (by decide : exTrace[9]? = some (.lock 2 7)) (by decide : exTrace[10]? = some (.read 2 1)) rfl)

/-- three threads, two keys, an adversarial-looking schedule: all finished with the initial value -/
example : (lrun (fun t => t % 2) (fun k => k + 100) [0, 1, 2, 0, 1, 0, 0, 1, 2, 1, 1, 1, 2, 2, 2, 2]).out 2 = some 100 := by decide
example : (lrun (fun t => t % 2) (fun k => k + 100) [0, 1, 2, 0, 1, 0, 0, 1, 2, 1, 1, 1, 2, 2, 2, 2]).pc 2 = 4 := by decide

end GqlModel.Locks
