import GqlProofs.PlanReach
import GqlProofs.PlanSerial2
import GqlProofs.PlanDefer6
import GqlProofs.PlanFuel4
import GqlProofs.ExecExample
/-! # C01 — the refinement: what plan.go does (model M, `GqlModel/Plan.lean`) is what the algorithm prescribes (S, `GqlModel/Exec.lean`)

Property theorems only. M is tied to /repo on every run by an EXACT correspondence (harness c01, `ComparePlanModel`: data, error
paths, order of resolver calls and thunk calls, number of lazily planned sub-selections per execution — also on D-04c cases).

Premises used below, all explicit:
* `Acyclic frags rank` — the spread graph of the fragment table has a topological rank (all valid documents: NoFragmentCycles);
* `worldFuncFree w` — no resolver outcome contains a func value (no deferred value), for the EXACT refinement (error list, log order);
* `… ≠ .fuelOut` — M's dethunk loops were given enough fuel (the driver reports `fuelOut` as a check error, never as a response). -/
namespace GqlModel.Plan
open GqlModel.Exec GqlModel.Coerce

/-! ## 1. plan-time collection = CollectFields -/

/-- **specialised_collect_eq_spec.** A plan specialised with the request's variables (`planVars = some vars`: what `ExecutePlan` does
whenever a directive mentions a variable) collects, for every runtime type and every list of merged field nodes, exactly the
algorithm's groups — keys, order, occurrence lists. No premise on directives. -/
theorem specialised_collect_eq_spec (c : Ctx) (rank : String → Nat) (hac : Acyclic c.frags rank) (rt : String)
    (nodes : List (FieldNode × Chain))
    (hch : ∀ x ∈ nodes, ∀ sel, x.1.sel = some sel → ChainOK rank x.2 (setSpreads sel)) :
    liveGroups c.schema c.vars (planMerged c.schema c.frags (some c.vars) rt nodes) = collectMerged c rt (nodes.map (·.1)) := by
  have hfr : FragsOK c (some c.vars) := fun _ _ _ _ => .inl rfl
  obtain ⟨h1, h2⟩ := planMerged_sim (rt := rt) (pv := some c.vars) hac hfr nodes
    (fun x hx sel hs => ⟨.inl rfl, hch x hx sel hs⟩)
  rw [liveGroups_eq_groupsOf (fun fp hfp => (h2 fp hfp).pred), h1]

/-- **collect_static_indep_vars.** If no directive in the selection sets at hand and in the fragment table mentions a variable, the
STATIC plan (`planVars = none`, built once by `PlanQuery`) together with its run-time predicates yields the algorithm's groups for
EVERY variable assignment. -/
theorem collect_static_indep_vars (c : Ctx) (rank : String → Nat) (hac : Acyclic c.frags rank)
    (hstatic : ∀ n tc sel, fragOf c.frags n = some (tc, sel) → setDynamic sel = false) (rt : String)
    (nodes : List (FieldNode × Chain))
    (hn : ∀ x ∈ nodes, ∀ sel, x.1.sel = some sel → setDynamic sel = false ∧ ChainOK rank x.2 (setSpreads sel))
    (vars : Vars) :
    liveGroups c.schema vars (planMerged c.schema c.frags none rt nodes) =
      collectMerged { c with vars := vars } rt (nodes.map (·.1)) := by
  have hfr : FragsOK { c with vars := vars } none := fun n tc sel hf => .inr ⟨rfl, hstatic n tc sel hf⟩
  obtain ⟨h1, h2⟩ := planMerged_sim (c := { c with vars := vars }) (rt := rt) (pv := none) hac hfr nodes
    (fun x hx sel hs => ⟨.inr ⟨rfl, (hn x hx sel hs).1⟩, (hn x hx sel hs).2⟩)
  rw [liveGroups_eq_groupsOf (fun fp hfp => (h2 fp hfp).pred)]
  exact h1

/-- **static_plan_preds_trivial.** In both regimes every run-time predicate (`skipPredicate`) the planner produces is nil: the
`andPredicates` / `skipPredicate` machinery of plan.go is never exercised by a plan that `PlanQuery` / `specialise` built. -/
theorem static_plan_preds_trivial (c : Ctx) (pv : Option Vars) (rank : String → Nat) (hac : Acyclic c.frags rank)
    (hfr : FragsOK c pv) (rt : String) (sel : SelectionSet) (hreg : Regime pv c.vars (setDynamic sel)) :
    ∀ fp ∈ planSelectionSet c.schema c.frags pv rt sel, fp.pred = [] :=
  fun fp hfp => ((planSelectionSet_sim (rt := rt) hac hfr sel hreg).2 fp hfp).pred

/-- **chain_guard_inert_on_acyclic.** On a fragment table without spread cycles the descent-path guard of commit 8e56ec3
(`chain.has(fragName)`) never fires: planning the merged sub-selection of field nodes under their chains gives the same groups as
planning it with the guard disabled (empty chains). -/
theorem chain_guard_inert_on_acyclic (c : Ctx) (pv : Option Vars) (rank : String → Nat) (hac : Acyclic c.frags rank)
    (hfr : FragsOK c pv) (rt : String) (nodes : List (FieldNode × Chain))
    (hn : ∀ x ∈ nodes, NodeOK c pv rank x.1 x.2) :
    groupsOf (planMerged c.schema c.frags pv rt nodes) =
      groupsOf (planMerged c.schema c.frags pv rt (nodes.map (fun x => (x.1, ([] : Chain))))) := by
  rw [(planMerged_sim (rt := rt) hac hfr nodes hn).1]
  have hn' : ∀ x ∈ nodes.map (fun x => (x.1, ([] : Chain))), NodeOK c pv rank x.1 x.2 := by
    intro x hx
    obtain ⟨y, hy, rfl⟩ := List.mem_map.1 hx
    intro sel hs
    exact ⟨(hn y hy sel hs).1, fun _ h => by cases h⟩
  rw [(planMerged_sim (rt := rt) hac hfr _ hn').1, List.map_map]
  rfl

/-- **planCollect_eq_collect.** For a plan built by `PlanQuery` and ANY request variables: the plan that `ExecutePlan` walks (the
static plan, or its per-request specialisation when a directive mentions a variable) yields at the root exactly the groups of
`CollectFields` on the operation's selection set, and at every field plan it can ever reach (any depth, any runtime type — this
is what the lazily planned, memoised sub-selections hold) exactly the merged groups of that field's nodes. -/
theorem planCollect_eq_collect (s : Schema) (doc : Document) (opName : String) (p : Plan)
    (hp : planQuery s doc opName = .ok p) (rank : String → Nat) (hac : Acyclic doc.fragments rank) (vars : Vars) (w : World) :
    let q := if p.dynamicDirectives then p.specialise vars else p
    let c : Ctx := { schema := s, frags := doc.fragments, vars := vars, world := w }
    liveGroups s vars q.root = (collect c p.rootType p.sel ([], [])).1 ∧
    ∀ fid fp, At s doc.fragments q.planVars q.rootType q.root fid fp → ∀ rt,
      liveGroups s vars (planMerged s doc.fragments q.planVars rt fp.nodes) = collectMerged c rt fp.fieldNodes := by
  obtain ⟨op, name, varDefs, dirs, sel, loc, root, hsel, hroot, rfl⟩ := planQuery_ok hp
  have hmem := selectOperation_mem hsel
  intro q c
  by_cases hd : docDynamic doc = true
  · have hq : q = Plan.specialise (Plan.mk s varDefs sel doc.fragments root (op == .mutation) true none []) vars := by
      simp only [q, hd, if_true]
    have hfr : FragsOK c (some vars) := fun _ _ _ _ => .inl rfl
    have hs := planSelectionSet_sim (c := c) (rt := root) (pv := some vars) hac hfr sel (.inl rfl)
    rw [hq]
    simp only [Plan.specialise]
    refine ⟨?_, ?_⟩
    · rw [liveGroups_eq_groupsOf (fun fp hfp => (hs.2 fp hfp).pred)]; exact hs.1
    · intro fid fp hat rt
      obtain ⟨rt0, hok⟩ := at_fpOK (c := c) hac hfr hs.2 hat
      obtain ⟨h1, h2⟩ := planMerged_sim (c := c) (rt := rt) hac hfr fp.nodes hok.nodes
      rw [liveGroups_eq_groupsOf (fun fp' hfp' => (h2 fp' hfp').pred)]; exact h1
  · have hd' : docDynamic doc = false := by simpa using hd
    have hq : q = Plan.mk s varDefs sel doc.fragments root (op == .mutation) false none
        (planSelectionSet s doc.fragments none root sel) := by
      simp only [q, hd', Bool.false_eq_true, if_false]
    have hfr : FragsOK c none := fun n tc body hf => .inr ⟨rfl, static_of_docDynamic_frag hd' hf⟩
    have hs := planSelectionSet_sim (c := c) (rt := root) (pv := none) hac hfr sel
      (.inr ⟨rfl, static_of_docDynamic_op hd' hmem⟩)
    rw [hq]
    refine ⟨?_, ?_⟩
    · rw [liveGroups_eq_groupsOf (fun fp hfp => (hs.2 fp hfp).pred)]; exact hs.1
    · intro fid fp hat rt
      obtain ⟨rt0, hok⟩ := at_fpOK (c := c) hac hfr hs.2 hat
      obtain ⟨h1, h2⟩ := planMerged_sim (c := c) (rt := rt) hac hfr fp.nodes hok.nodes
      rw [liveGroups_eq_groupsOf (fun fp' hfp' => (h2 fp' hfp').pred)]; exact h1

/-! ## 2. the memo of lazily planned sub-selections is transparent (plan reuse) -/

/-- **memo_lookup_eq_recompute.** What `Plan.abstractAlternative` returns for the field plan at address `fid` and a runtime type —
from the memo on a hit, freshly planned on a miss — is `planMergedSelectionsForType` of that field plan's nodes: a pure function
of (runtime type, field nodes, chains). The memo stays valid. Any schema, any document. -/
theorem memo_lookup_eq_recompute (p : Plan) (hr : KeysNodup p.root) (m : Memo) (hv : p.MemoValid m) (fid : FpId)
    (fp : FieldPlan) (hat : At p.schema p.frags p.planVars p.rootType p.root fid fp) (rt : String) :
    (abstractAlternative p.schema p.frags p.planVars m fid fp rt).1 = planMerged p.schema p.frags p.planVars rt fp.nodes ∧
    p.MemoValid (abstractAlternative p.schema p.frags p.planVars m fid fp rt).2 :=
  alt_agree (c := { schema := p.schema, frags := p.frags, vars := [], world := default }) hr hv hat rt

/-- **memo_transparent.** Executing a plan with ANY valid pre-populated memo gives the response of executing it with the empty
memo (data, errors, event order — everything M observes), and leaves a valid memo. Every schema, document, variables, world, fuel;
no premise on thunks, validity of the document or fuel. -/
theorem memo_transparent (p : Plan) (hr : KeysNodup p.root) (inputs : Vars) (w : World) (m : Memo) (hv : p.MemoValid m)
    (fuel : Nat) :
    (executePlan p inputs w m fuel).1 = (executePlan p inputs w [] fuel).1 ∧ p.MemoValid (executePlan p inputs w m fuel).2 := by
  have h1 := executePlanCore_eq_ref p hr inputs w m hv fuel
  have h2 := executePlanCore_eq_ref p hr inputs w [] (memoValid_nil p) fuel
  refine ⟨?_, ?_⟩
  · simp only [executePlan]; rw [h1.1, h2.1]
  · simp only [executePlan]
    by_cases hd : p.dynamicDirectives = true
    · simp only [hd, if_true]; exact hv
    · have hd' : p.dynamicDirectives = false := by simpa using hd
      simp only [hd', Bool.false_eq_true, if_false]; exact h1.2 hd'

/-- one plan executed for a list of requests, the memo threaded through (what a `PlanCache` hit or a caller holding a `*Plan` does) -/
def executeMany (p : Plan) (fuel : Nat) : List (Vars × World) → Memo → List MResponse
  | [], _ => []
  | (inputs, w) :: rest, m =>
    let out := executePlan p inputs w m fuel
    out.1 :: executeMany p fuel rest out.2

/-- **plan_reuse_transparent.** Any number of executions of one plan built by `PlanQuery`, with different variables and different
worlds, each answer what a freshly built plan answers for that request. -/
theorem plan_reuse_transparent (s : Schema) (doc : Document) (opName : String) (p : Plan)
    (hp : planQuery s doc opName = .ok p) (fuel : Nat) (reqs : List (Vars × World)) :
    executeMany p fuel reqs [] = reqs.map (fun r => run s doc opName r.1 r.2 fuel) := by
  have hr := planQuery_root_nodup hp
  have key : ∀ (reqs : List (Vars × World)) (m : Memo), p.MemoValid m →
      executeMany p fuel reqs m = reqs.map (fun r => (executePlan p r.1 r.2 [] fuel).1) := by
    intro reqs
    induction reqs with
    | nil => intro m _; rfl
    | cons r rest ih =>
      intro m hv
      obtain ⟨inputs, w⟩ := r
      obtain ⟨h1, h2⟩ := memo_transparent p hr inputs w m hv fuel
      simp only [executeMany, List.map_cons, h1, ih _ h2]
  rw [key reqs [] (memoValid_nil p)]
  apply List.map_congr_left
  intro r _
  simp only [run, hp]

/-! ## 3. ExecutePlan ∘ PlanQuery = the algorithm -/

/-- **plan_exec_eq_spec_nothunk** (the refinement, exact form). For every schema, document whose fragment table has no spread cycle,
operation name, variables and fuel, and every world WITHOUT func values: what `PlanQuery` + `ExecutePlan` compute (static plan with
folded directives or per-request specialisation, lazily planned and memoised sub-selections, pre-coerced arguments, the recover
points, the dethunk passes) is what the execution algorithm computes — same class of response, the same data tree, the same
errors in the same order, the same resolver invocations (path, runtime parent type, field, coerced arguments, source, number of
merged nodes) in the same order. Only premise on fuel: M did not run out of it. -/
theorem plan_exec_eq_spec_nothunk (s : Schema) (doc : Document) (opName : String) (inputs : Vars) (w : World) (fuel : Nat)
    (rank : String → Nat) (hw : worldFuncFree w = true) (hac : Acyclic doc.fragments rank)
    (hM : run s doc opName inputs w fuel ≠ .fuelOut) :
    RespEq (execute s doc opName inputs w fuel) (run s doc opName inputs w fuel) :=
  run_respEq_execute s doc opName inputs w fuel rank hw hac hM

/-- **plan_exec_eq_spec_partial** (the refinement WITH deferred values — data). For every schema, document whose fragment table has
no spread cycle, operation name, variables, fuel and every world (deferred values at any depth, deferred values that yield deferred
values): if the algorithm's response is outside the known finding D-04c (its `kfThunk` is empty: no deferred value fails, or yields
null, under a non-null type) then `PlanQuery` + `ExecutePlan` answer in the same class (data / no data), M's data contains no
closure (everything deferred was forced: breadth-first for a query, depth-first per top-level field for a mutation), and read as a
JSON value it IS the algorithm's data tree. PARTIAL w.r.t. the design's `plan_exec_eq_spec` in two respects: the premise
`kf = []` (D-04c, see the witness below) and the ERROR component, which is not part of this statement (see the comment below).
Premise on fuel: M did not run out of it. -/
theorem plan_exec_eq_spec_partial (s : Schema) (doc : Document) (opName : String) (inputs : Vars) (w : World) (fuel : Nat)
    (rank : String → Nat) (hac : Acyclic doc.fragments rank)
    (d : Option (List (String × JVal))) (errs : List (Path × Bool)) (log : List LogEntry)
    (hS : execute s doc opName inputs w fuel = .result d errs log [])
    (hM : run s doc opName inputs w fuel ≠ .fuelOut) :
    ∃ md merrs mev, run s doc opName inputs w fuel = .result md merrs mev ∧
      (d = none ↔ md = none) ∧
      (∀ fs pfs, d = some fs → md = some pfs → PVal.fieldsToJ? pfs = some fs) :=
  run_data_eq_execute s doc opName inputs w fuel rank hac d errs log hS hM

/-- **plan_exec_eq_spec_effects** (the refinement WITH deferred values — errors and resolver invocations). Same premises as
`plan_exec_eq_spec_partial` (every world; outside D-04c: `kf = []`; `Acyclic`; M not out of fuel). `errs`, `log` are the
algorithm's errors and invocations, `merrs`, `calls mev` M's (= the library's, by the exact correspondence), all in order of
recording; the flag of an error / the field `deferred` of an invocation says "recorded while a deferred value is forced".
* OUTSIDE deferred values the two executions record the same errors and the same invocations (path, runtime parent type, field,
  coerced arguments, source, number of merged nodes), in the SAME ORDER: equal lists.
* INSIDE deferred values the algorithm's records are, up to a permutation, M's records PLUS some dropped ones (`dropE`, `dropL`):
  M's deferred errors / invocations are a sub-multiset of the algorithm's. (The algorithm forces a deferred value where it meets
  it; when a later failure nulls an ancestor of that position the library never forces it, and what the algorithm recorded inside
  is dropped: `dropped_deferred_error_witness`. Equality of the multisets is therefore NOT a theorem.) -/
theorem plan_exec_eq_spec_effects (s : Schema) (doc : Document) (opName : String) (inputs : Vars) (w : World) (fuel : Nat)
    (rank : String → Nat) (hac : Acyclic doc.fragments rank)
    (d : Option (List (String × JVal))) (errs : List (Path × Bool)) (log : List LogEntry)
    (hS : execute s doc opName inputs w fuel = .result d errs log [])
    (hM : run s doc opName inputs w fuel ≠ .fuelOut) :
    ∃ md merrs mev, run s doc opName inputs w fuel = .result md merrs mev ∧
      merrs.filter (fun e => !e.2) = errs.filter (fun e => !e.2) ∧
      (calls mev).filter (fun e => !e.deferred) = log.filter (fun e => !e.deferred) ∧
      ∃ dropE dropL, (errs.filter (fun e => e.2)).Perm (merrs.filter (fun e => e.2) ++ dropE) ∧
        (log.filter (fun e => e.deferred)).Perm ((calls mev).filter (fun e => e.deferred) ++ dropL) :=
  run_fx_execute s doc opName inputs w fuel rank hac d errs log hS hM

/-- **plan_exec_eq_spec_outside_d04c**: data, errors and invocations in one statement — everything `execute` and `run` observe,
with deferred values, outside the known finding. -/
theorem plan_exec_eq_spec_outside_d04c (s : Schema) (doc : Document) (opName : String) (inputs : Vars) (w : World) (fuel : Nat)
    (rank : String → Nat) (hac : Acyclic doc.fragments rank)
    (d : Option (List (String × JVal))) (errs : List (Path × Bool)) (log : List LogEntry)
    (hS : execute s doc opName inputs w fuel = .result d errs log [])
    (hM : run s doc opName inputs w fuel ≠ .fuelOut) :
    ∃ md merrs mev, run s doc opName inputs w fuel = .result md merrs mev ∧
      (d = none ↔ md = none) ∧
      (∀ fs pfs, d = some fs → md = some pfs → PVal.fieldsToJ? pfs = some fs) ∧
      merrs.filter (fun e => !e.2) = errs.filter (fun e => !e.2) ∧
      (calls mev).filter (fun e => !e.deferred) = log.filter (fun e => !e.deferred) ∧
      (∃ dropE dropL, (errs.filter (fun e => e.2)).Perm (merrs.filter (fun e => e.2) ++ dropE) ∧
        (log.filter (fun e => e.deferred)).Perm ((calls mev).filter (fun e => e.deferred) ++ dropL)) ∧
      (∀ e ∈ merrs, e ∈ errs) ∧ (∀ e ∈ calls mev, e ∈ log) := by
  obtain ⟨md, merrs, mev, h1, h2, h3⟩ := plan_exec_eq_spec_partial s doc opName inputs w fuel rank hac d errs log hS hM
  obtain ⟨md', merrs', mev', h1', h4, h5, dropE, dropL, h6, h7⟩ :=
    plan_exec_eq_spec_effects s doc opName inputs w fuel rank hac d errs log hS hM
  rw [h1] at h1'
  simp only [MResponse.result.injEq] at h1'
  obtain ⟨rfl, rfl, rfl⟩ := h1'
  refine ⟨md, merrs, mev, h1, h2, h3, h4, h5, ⟨dropE, dropL, h6, h7⟩, ?_, ?_⟩
  · intro e he
    cases hf : e.2 with
    | true =>
      have : e ∈ merrs.filter (fun e => e.2) ++ dropE := List.mem_append_left _ (List.mem_filter.2 ⟨he, hf⟩)
      exact (List.mem_filter.1 (h6.mem_iff.2 this)).1
    | false =>
      have : e ∈ merrs.filter (fun e => !e.2) := List.mem_filter.2 ⟨he, by simp [hf]⟩
      rw [h4] at this
      exact (List.mem_filter.1 this).1
  · intro e he
    cases hf : e.deferred with
    | true =>
      have : e ∈ (calls mev).filter (fun e => e.deferred) ++ dropL := List.mem_append_left _ (List.mem_filter.2 ⟨he, hf⟩)
      exact (List.mem_filter.1 (h7.mem_iff.2 this)).1
    | false =>
      have : e ∈ (calls mev).filter (fun e => !e.deferred) := List.mem_filter.2 ⟨he, by simp [hf]⟩
      rw [h5] at this
      exact (List.mem_filter.1 this).1

/-- **force_never_out_of_fuel.** One call of a closure whose deferred value the algorithm forced (witness `Wit`) never runs out of
the request's fuel; neither does phase one (part of `GenP`). -/
theorem force_never_out_of_fuel (c : Ctx) (pv : Option Vars) (rank : String → Nat) (F : Nat) (hac : Acyclic c.frags rank)
    (hfr : FragsOK c pv) (cl : Closure) (j : JVal) (hwit : Wit c pv rank F cl j) (mst : MSt) :
    (force c (recompute c.schema c.frags pv) F cl mst).1 ≠ .fuelOut :=
  force_no_fuelOut hac hfr cl j hwit mst

/-- **site_loop_never_out_of_fuel.** The loop at a dethunk site (call the closure, and what it yields, until something that is no
closure comes out; counter: the request's fuel + 2) never runs out on a closure whose deferred value the algorithm forced: the
algorithm unwraps one level of nesting per unit of its fuel, so the nesting depth is at most the fuel + 1. -/
theorem site_loop_never_out_of_fuel (c : Ctx) (pv : Option Vars) (rank : String → Nat) (F : Nat) (hac : Acyclic c.frags rank)
    (hfr : FragsOK c pv) (cl : Closure) (j : JVal) (hwit : Wit c pv rank F cl j) (mst : MSt) :
    (forceAll c (recompute c.schema c.frags pv) F cl mst).1 ≠ .fuelOut :=
  forceAll_nf hac hfr cl j hwit mst

/-- **plan_fuel_sufficient** (the fuel premise discharged). With deferred values, outside D-04c, acyclic fragment table: when the
algorithm answers WITH DATA `fs` from fuel `fuelS`, M answers (is not `fuelOut`) from every fuel `F ≥ fuelS` with
`F ≥ dethunkFuel fs = max (jdep (.obj fs)) (jcont (.obj fs) + 1)`, two measures of the RESPONSE: `jcont` = the number of maps and
lists in it (the breadth-first queue of a query pops each once, plus the final empty pop), `jdep` = along the deepest path the sum
of (entries + 2) per level (the depth-first recursion of a mutation). Tight for the queue: `fuel_bound_tight_witness`. Not covered:
a MUTATION answering `data: null` — the values forced before the failing top-level field are not in the response, so no bound in
terms of the response exists (M still only needs fuel ≥ their `jdep`). -/
theorem plan_fuel_sufficient (s : Schema) (doc : Document) (opName : String) (inputs : Vars) (w : World) (fuelS : Nat)
    (rank : String → Nat) (hac : Acyclic doc.fragments rank)
    (fs : List (String × JVal)) (errs : List (Path × Bool)) (log : List LogEntry)
    (hS : execute s doc opName inputs w fuelS = .result (some fs) errs log [])
    (F : Nat) (h1 : fuelS ≤ F) (h2 : dethunkFuel fs ≤ F) : run s doc opName inputs w F ≠ .fuelOut :=
  run_no_fuelOut s doc opName inputs w fuelS rank hac fs errs log hS F h1 h2

/-- **plan_exec_eq_spec_fueled**: `plan_exec_eq_spec_outside_d04c` for a response with data, WITHOUT the premise on M's fuel: the
algorithm answers from `fuelS`; M, run with any fuel `F` that covers `fuelS` and the response's `dethunkFuel`, answers with data
that read as a JSON value IS the algorithm's, the same non-deferred errors and invocations in the same order, and deferred ones a
sub-multiset. -/
theorem plan_exec_eq_spec_fueled (s : Schema) (doc : Document) (opName : String) (inputs : Vars) (w : World) (fuelS : Nat)
    (rank : String → Nat) (hac : Acyclic doc.fragments rank)
    (fs : List (String × JVal)) (errs : List (Path × Bool)) (log : List LogEntry)
    (hS : execute s doc opName inputs w fuelS = .result (some fs) errs log [])
    (F : Nat) (h1 : fuelS ≤ F) (h2 : dethunkFuel fs ≤ F) :
    ∃ pfs merrs mev, run s doc opName inputs w F = .result (some pfs) merrs mev ∧
      PVal.fieldsToJ? pfs = some fs ∧
      merrs.filter (fun e => !e.2) = errs.filter (fun e => !e.2) ∧
      (calls mev).filter (fun e => !e.deferred) = log.filter (fun e => !e.deferred) ∧
      (∃ dropE dropL, (errs.filter (fun e => e.2)).Perm (merrs.filter (fun e => e.2) ++ dropE) ∧
        (log.filter (fun e => e.deferred)).Perm ((calls mev).filter (fun e => e.deferred) ++ dropL)) := by
  have hM := plan_fuel_sufficient s doc opName inputs w fuelS rank hac fs errs log hS F h1 h2
  obtain ⟨k, rfl⟩ := Nat.le.dest h1
  have hS' := execute_fuel_add s doc opName inputs w fuelS _ hS (by simp) k
  obtain ⟨md, merrs, mev, a1, a2, a3, a4, a5, a6, _, _⟩ :=
    plan_exec_eq_spec_outside_d04c s doc opName inputs w (fuelS + k) rank hac (some fs) errs log hS' hM
  cases md with
  | none => exact absurd (a2.2 rfl) (by simp)
  | some pfs => exact ⟨pfs, merrs, mev, a1, a3 fs pfs rfl rfl, a4, a5, a6⟩

/- What is left of the design's `plan_exec_eq_spec` ("equal data, equal multisets of error paths, equal logs" for every request):
   (a) the known finding D-04c (a deferred value that fails, or yields null, under a NON-NULL type is forced after every recover
       scope is gone: the failure reaches the request level): `d04c_negation_witness` is the kernel-checked counterexample; the
       decidable predicate of the class is `kfThunk ≠ []` of the algorithm's response;
   (b) the DROPPED deferred effects: equality of the error multisets / of the logs is false (`dropped_deferred_error_witness`); what
       holds is `plan_exec_eq_spec_effects`, and that is what the harness compares (`errDeferred` tolerance);
   (c) fuel. `run … ≠ .fuelOut` cannot be had from `execute … ≠ .fuelOut` AT THE SAME FUEL VALUE (`fuel_is_not_shared_witness`):
       M's breadth-first queue consumes one unit per container of the response (up to exponentially many in the algorithm's
       recursion depth), the depth-first pass one per key and level. It IS had from a fuel that also covers the size of the
       response: `plan_fuel_sufficient` / `plan_exec_eq_spec_fueled` (responses with data; for `data: null` the theorems with the
       premise `run … ≠ .fuelOut` remain — a query needs no more than the algorithm's fuel there (`runPlan` returns phase one's
       failure), a mutation needs the `jdep` of values that are not in the response). The driver runs M with fuel 100000 and
       reports `fuelOut` as a check error, never as a response. -/

/-! ### the negation witness for D-04c -/

namespace Ex
open GqlModel.Exec.Ex

/-- `{ o { y x } }` where object 1's `x : String!` resolves to a deferred value that fails -/
def docKF : Document :=
  { defs := [.operation .query none [] [] (.mk [fld "o" (some [fld "y", fld "x"])] Loc.none) Loc.none], loc := Loc.none }

def worldKF : World :=
  { objects := [(1, { typeName := "O", fields := [("x", .value (.thunk .err)), ("y", .value (.int 2))] })],
    rootFields := [("o", .value (.ref 1))], isTypeOf := [], resolveType := [] }

def mData (r : MResponse) : Option (Option (List (String × JVal))) :=
  match r with
  | .result none _ _ => some none
  | .result (some fs) _ _ => (PVal.fieldsToJ? fs).map some
  | _ => none

def mErrs (r : MResponse) : List String :=
  match r with
  | .result _ errs _ => errs.map (fun e => pathStr e.1)
  | _ => ["<no result>"]

def mEvents (r : MResponse) : List String :=
  match r with
  | .result _ _ evs => evs.map (fun | .call e => "call " ++ pathStr e.path | .force p => "force " ++ pathStr p)
  | _ => ["<no result>"]

def sKf (r : Response) : List String :=
  match r with
  | .result _ _ _ kf => kf.map pathStr
  | _ => []

end Ex

open Ex GqlModel.Exec.Ex in
/-- **d04c_negation_witness.** A concrete valid request on which M (= the library, by correspondence) and the algorithm differ: the
algorithm nulls the nearest nullable ancestor (`o`), M loses the whole data. Both report the one error at `o.x`; the algorithm's
KF predicate (`kfThunk`) is non-empty. -/
theorem d04c_negation_witness :
    (obsData (execute schema docKF "" [] worldKF) == some [("o", JVal.null)]) = true ∧
    obsErrs (execute schema docKF "" [] worldKF) = ["o.x"] ∧
    sKf (execute schema docKF "" [] worldKF) = ["o.x"] ∧
    (match mData (run schema docKF "" [] worldKF) with | some none => true | _ => false) = true ∧
    mErrs (run schema docKF "" [] worldKF) = ["o.x"] ∧
    mEvents (run schema docKF "" [] worldKF) = ["call o", "call o.y", "call o.x", "force o.x"] := by
  decide +kernel

namespace Ex
open GqlModel.Exec.Ex

/-- object 1: `y : Int` (nullable) resolves to a deferred value that fails, `x : String!` fails outright -/
def worldDrop : World :=
  { objects := [(1, { typeName := "O", fields := [("x", .fail), ("y", .value (.thunk .err))] })],
    rootFields := [("o", .value (.ref 1))], isTypeOf := [], resolveType := [] }

/-- `Query { l : [O] }`, `O { l : [O], y : Int }` -/
def schemaL : Schema :=
  { types := [.scalar "Int" .int "",
      .object "Query" [] [{ name := "l", type := .list (.named "O"), args := [] }] false "",
      .object "O" [] [{ name := "l", type := .list (.named "O"), args := [] },
                      { name := "y", type := .named "Int", args := [] }] false ""],
    query := "Query", mutation := none, subscription := none, directives := [] }

def four (v : GoVal) : GoVal := .list [v, v, v, v]

/-- four objects each holding four objects: 26 containers in the response -/
def worldL : World :=
  { objects := [(1, { typeName := "O", fields := [("l", .value (four (.ref 2)))] }),
                (2, { typeName := "O", fields := [("y", .value (.int 1))] })],
    rootFields := [("l", .value (four (.ref 1)))], isTypeOf := [], resolveType := [] }

/-- `{ l { l { y } } }` -/
def docL : Document :=
  { defs := [.operation .query none [] [] (.mk [fld "l" (some [fld "l" (some [fld "y"])])] Loc.none) Loc.none], loc := Loc.none }

def isResult (r : Response) : Bool := match r with | .result _ _ _ _ => true | _ => false
def mIsResult (r : MResponse) : Bool := match r with | .result _ _ _ => true | _ => false
def mIsFuelOut (r : MResponse) : Bool := match r with | .fuelOut => true | _ => false

end Ex

open Ex GqlModel.Exec.Ex in
/-- **dropped_deferred_error_witness** (why the deferred parts are related by "plus dropped ones", not by equality): `{ o { y x } }`,
`y` a deferred value that fails under a nullable type, `x : String!` failing afterwards. The algorithm records `o.y` (deferred, in
place) and `o.x`; the library — and M — null `o` on `o.x` and never force `y`: one error. No D-04c involved (`kfThunk = []`). -/
theorem dropped_deferred_error_witness :
    obsErrs (execute schema docKF "" [] worldDrop) = ["o.y", "o.x"] ∧
    sKf (execute schema docKF "" [] worldDrop) = [] ∧
    mErrs (run schema docKF "" [] worldDrop) = ["o.x"] ∧
    mEvents (run schema docKF "" [] worldDrop) = ["call o", "call o.y", "call o.x"] ∧
    (obsData (execute schema docKF "" [] worldDrop) == some [("o", JVal.null)]) = true ∧
    (mData (run schema docKF "" [] worldDrop) == some (some [("o", JVal.null)])) = true := by
  decide +kernel

open Ex GqlModel.Exec.Ex in
/-- **fuel_is_not_shared_witness** (why `run … ≠ .fuelOut` is a premise, or else a larger fuel): with fuel 19 the algorithm answers,
M's breadth-first queue (26 containers) runs out; with fuel 27 both answer. -/
theorem fuel_is_not_shared_witness :
    isResult (execute schemaL docL "" [] worldL 19) = true ∧ mIsFuelOut (run schemaL docL "" [] worldL 19) = true ∧
    isResult (execute schemaL docL "" [] worldL 26) = true ∧ mIsFuelOut (run schemaL docL "" [] worldL 26) = true ∧
    mIsResult (run schemaL docL "" [] worldL 27) = true := by
  decide +kernel

open Ex GqlModel.Exec.Ex in
/-- **fuel_bound_tight_witness**: on that request the bound of `plan_fuel_sufficient` is 27 — exactly the least fuel from which M
answers (`fuel_is_not_shared_witness`: out of fuel at 26). -/
theorem fuel_bound_tight_witness :
    (match execute schemaL docL "" [] worldL 19 with
     | .result (some fs) _ _ _ => dethunkFuel fs
     | _ => 0) = 27 := by
  decide +kernel

/-! ## 4. the catch points of deferred values; mutations force per top-level field -/

/-- **thunk_failure_nullable_absorbed.** Whatever happens inside a deferred value whose position has a NULLABLE type — the thunk
fails, has another signature, or the completion of its result propagates a failure — its own catcher absorbs it: forcing never
fails (the position becomes null, with the error recorded). -/
theorem thunk_failure_nullable_absorbed (c : Ctx) (alt : Alt) (fuel : Nat) (cl : Closure) (st : MSt)
    (h : cl.t.isNonNull = false) : (force c alt fuel cl st).1 ≠ .fail := by
  unfold force
  cases hcr : cl.r with
  | none => simp [h]
  | some r =>
    cases r with
    | err => simp [h]
    | ok v =>
      simp only [h, Bool.false_eq_true, if_false]
      generalize mComplete c alt fuel true cl.t cl.rt cl.fid cl.fp cl.path v _ = z
      obtain ⟨r1, st1⟩ := z
      cases r1 <;> simp

/-- **thunk_failure_nonnull_escapes** (known finding D-04c, M is bug-faithful). A deferred value under a NON-NULL type whose thunk
fails (or is not a `func() (interface{}, error)`) is not absorbed anywhere: forcing fails with exactly that one error added, and a
failed forcing is the end of the request — data none, the errors recorded so far and that one. -/
theorem thunk_failure_nonnull_escapes (c : Ctx) (alt : Alt) (fuel : Nat) (cl : Closure) (st : MSt)
    (h : cl.t.isNonNull = true) (hr : cl.r = some .err ∨ cl.r = none) :
    (force c alt fuel cl st).1 = .fail ∧ (force c alt fuel cl st).2.errs = (cl.path, true) :: st.errs ∧
    ∀ st' : MSt, MResponse.of (.fail, st') = .result none st'.errs.reverse st'.events.reverse := by
  refine ⟨?_, ?_, fun _ => rfl⟩ <;> rcases hr with hr | hr <;> simp [force, hr, h, MSt.addErr, MSt.logEv]

/-- **mutation_forcing_serial.** At the root of a mutation (every schema, plan, world, fuel; every instance of the sub-plan oracle):
M's event log — resolver calls AND thunk calls — is the concatenation of one contiguous block per top-level field, in plan
(= document) order; every event of a block lies under that field's response key. No resolver of a later top-level field runs before
the earlier field's resolvers, the thunks it deferred and the resolvers run while forcing them are done. -/
theorem mutation_forcing_serial (c : Ctx) (alt : Alt) (dfuel : Nat) (rt : String) (fuel : Nat) (fps : List FieldPlan)
    (acc : List (String × PVal)) (st : MSt) :
    ∃ new, (mRootMut c alt dfuel fuel rt fps acc st).2.events = new ++ st.events ∧ MSerial (fps.map (·.key)) new.reverse :=
  mRootMut_serial c alt dfuel rt fuel fps acc st

/-- **mutation_values_settled.** Every value a top-level mutation field stores is closure-free when the next field starts: everything
it deferred — at any depth, also what forcing itself deferred, also deferred values yielded by deferred values — was forced inside
its block. (`AltND`: the sub-plan oracle returns field lists with distinct response keys — true of the memo and of recomputation.) -/
theorem mutation_values_settled (c : Ctx) (alt : Alt) (ha : AltND alt) (dfuel : Nat)
    (rt : String) (fuel : Nat) (fps : List FieldPlan) (st : MSt) (fs : List (String × PVal))
    (h : (mRootMut c alt dfuel fuel rt fps [] st).1 = .ok fs) : ∀ x ∈ fs, NoDef x.2 :=
  mRootMut_settled ha dfuel rt fuel fps [] st (fun _ h => by cases h) fs h

/-- **mutation_forcing_serial_request.** `PlanQuery` + `ExecutePlan` on a mutation operation: the response's events are
serial blocks over pairwise distinct top-level keys, and the data contains no closure — the final `dethunkMapDepthFirst` pass had
nothing to do. -/
theorem mutation_forcing_serial_request (s : Schema) (doc : Document) (opName : String) (inputs : Vars) (w : World) (fuel : Nat)
    (p : Plan) (hp : planQuery s doc opName = .ok p) (hmut : p.isMutation = true)
    (data : Option (List (String × PVal))) (errs : List (Path × Bool)) (events : List Event)
    (h : run s doc opName inputs w fuel = .result data errs events) :
    ∃ keys : List String, keys.Nodup ∧ MSerial keys events ∧ ∀ fs, data = some fs → ∀ x ∈ fs, NoDef x.2 :=
  run_mutation_serial s doc opName inputs w fuel p hp hmut data errs events h

/-- **planQuery_isMutation_is_operation_kind.** The serial regime is chosen by the KIND of the selected operation and by nothing
else — in particular not by the identity of the root type: a schema may name one object as query root AND mutation root
(`NewSchema` accepts that), and a mutation on it is still planned as a mutation (seed C13-11 derived the flag from
`rootType != schema.QueryType()`). -/
theorem planQuery_isMutation_is_operation_kind (s : Schema) (doc : Document) (opName : String) (p : Plan)
    (hp : planQuery s doc opName = .ok p)
    (op : OpType) (n : Option Name) (vds : List VarDef) (ds : List Directive) (sel : SelectionSet) (l : Loc)
    (hsel : selectOperation doc opName = .ok (.operation op n vds ds sel l)) :
    p.isMutation = (op == .mutation) := by
  unfold planQuery at hp
  rw [hsel] at hp
  simp only at hp
  cases hr : s.rootFor op.toString with
  | none => rw [hr] at hp; cases hp
  | some root =>
    rw [hr] at hp
    simp only [Except.ok.injEq] at hp
    rw [← hp]

/-- … and the per-request specialisation of a plan (documents with variable-driven `@skip` / `@include` are re-planned with
the request's variables) keeps the regime of the plan it specialises (seed C13-14 moved the flag into the root selection
plan and forgot it here). -/
theorem specialise_keeps_regime (p : Plan) (vars : Vars) :
    (p.specialise vars).isMutation = p.isMutation ∧ (p.specialise vars).rootType = p.rootType := ⟨rfl, rfl⟩

/-- **planQuery_keeps_all_fragments.** The plan carries the document's WHOLE fragment table — what `ResolveInfo.Fragments` hands to
every resolver, type resolver and `IsTypeOf` (C20) — not the part of it the selected operation reaches (seed C20-14 pruned it), and
specialisation keeps it. -/
theorem planQuery_keeps_all_fragments (s : Schema) (doc : Document) (opName : String) (p : Plan)
    (hp : planQuery s doc opName = .ok p) (vars : Vars) :
    p.frags = doc.fragments ∧ (p.specialise vars).frags = doc.fragments := by
  unfold planQuery at hp
  split at hp
  · cases hp
  · split at hp
    · cases hp
    · simp only [Except.ok.injEq] at hp
      rw [← hp]
      exact ⟨rfl, rfl⟩
  · cases hp

/-! ## Non-vacuity -/

open Ex GqlModel.Exec.Ex in
/-- the example document of `GqlProofs/ExecExample.lean` (fragments F → G with G spreading itself: CYCLIC, so `Acyclic` fails for
it) is executed identically by M and S all the same — mutation with a deferred top-level value: -/
example : mEvents (run schema doc "M" [] world) = ["call m1", "force m1", "call m1.y", "call m1.x", "call m2"] ∧
    mErrs (run schema doc "M" [] world) = ["m1.x"] ∧ obsErrs (execute schema doc "M" [] world) = ["m1.x"] := by
  decide +kernel

/-- an acyclic fragment table: rank F = 1, everything else 0, for `fragment F on Query { o { y } }` -/
example : Acyclic [("F", Definition.fragment ⟨"F", Loc.none⟩ (.named "Query" Loc.none) []
    (.mk [GqlModel.Exec.Ex.fld "o" (some [GqlModel.Exec.Ex.fld "y"])] Loc.none) Loc.none)]
    (fun n => if n = "F" then 1 else 0) := by
  intro n tc sel h m hm
  unfold fragOf at h
  by_cases hn : (("F" : String) == n) = true
  · simp [List.filter, hn] at h
    obtain ⟨_, rfl⟩ := h
    simp [setSpreads, selsSpreads, selSpreads, GqlModel.Exec.Ex.fld] at hm
  · simp [List.filter, hn] at h

/-- worlds without func values exist (the example world without its deferred `m1`) -/
example : worldFuncFree { GqlModel.Exec.Ex.world with rootFields := [("a", .value (.int 7)), ("o", .value (.ref 1))] } = true := by
  decide +kernel

namespace Ex
open GqlModel.Exec.Ex

/-- `a` and `m2` resolve to a thunk that returns a thunk -/
def worldNested : World :=
  { world with rootFields := [("a", .value (.thunk (.ok (.thunk (.ok (.int 7)))))),
                              ("m2", .value (.thunk (.ok (.thunk (.ok (.int 3))))))] }
def docNestedQ : Document :=
  { defs := [.operation .query none [] [] (.mk [fld "a"] Loc.none) Loc.none], loc := Loc.none }
def docNestedM : Document :=
  { defs := [.operation .mutation none [] [] (.mk [fld "m2"] Loc.none) Loc.none], loc := Loc.none }

end Ex

open Ex GqlModel.Exec.Ex in
/-- **nested_thunk_forced** (after /repo commit 2cf0d14; before it a query kept the second closure in its data): a deferred value
that yields a deferred value is forced to the end, by a query (breadth-first pass) and by a mutation (per-field depth-first pass)
alike, and M agrees with the algorithm. -/
theorem nested_thunk_forced :
    (mData (run schema docNestedQ "" [] worldNested) == some (some [("a", JVal.int 7)])) = true ∧
    mEvents (run schema docNestedQ "" [] worldNested) = ["call a", "force a", "force a"] ∧
    (mData (run schema docNestedM "" [] worldNested) == some (some [("m2", JVal.int 3)])) = true ∧
    mEvents (run schema docNestedM "" [] worldNested) = ["call m2", "force m2", "force m2"] ∧
    (obsData (execute schema docNestedQ "" [] worldNested) == some [("a", JVal.int 7)]) = true := by
  decide +kernel

end GqlModel.Plan
