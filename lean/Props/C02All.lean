import GqlModel.Validate.All
import Generated.Tables
import Props.C02Local
import Props.C02Typed
import Props.C02Graph
/-! # C02, the combined statement: a document is accepted iff all 24 rules' specifications hold

`validate s d` (Validate/All.lean) = the reports of the 24 rules as coded, in `graphql.SpecifiedRules` order
(`specified_rules_order`, against the table regenerated from rules.go on every run).

`all_rules_iff`:  `validate s d = [] ↔ AllRulesHold s d`, where `AllRulesHold` is the conjunction of the 24
DECLARATIVE specifications (none mentions a visitor, a memo table or a rule function). Side conditions, all decidable
and evaluated by the drivers on every generated case:
* `schemaInputsOkB s`   argument / directive-argument / input-field types are input types (schema construction);
* `AbstractInhabited s` every interface / union has a possible type;
* `Overlap.sideB s d`   the overlap theorem's parent-type coherence, faithful argument printing, location apartness
                        (c02b; true for parser-produced documents apart from `__schema`/`__type` sub-selections).
Two rules deviate from their own specification when run alone and still fit the combined statement: the graph rules
and the overlap rule are only specified for unique fragment names / acyclic spreads — both are conjuncts; and
UniqueOperationNames reports two anonymous operations (known finding) — LoneAnonymousOperation is a conjunct. -/
namespace GqlModel.Validate
open Graph Overlap

/-! ## order of the rules -/

/-- the combined model runs exactly the rules of `graphql.SpecifiedRules`, in that order -/
theorem specified_rules_order :
    specifiedRuleFns.map (fun r => r.1 ++ "Rule") = Generated.specifiedRules := by decide +kernel

theorem specified_rules_count : specifiedRuleFns.length = 24 := rfl

/-! ## the 24 specifications -/

structure AllRulesHold (s : Schema) (d : Document) : Prop where
  /-- ArgumentsOfCorrectType -/
  argumentsCoercible : ArgumentsCoercible s d
  /-- DefaultValuesOfCorrectType -/
  defaultsCoercible : DefaultsCoercible s d
  /-- FieldsOnCorrectType: a field selected under a composite parent type is defined by it (`fieldDef?_isSome_iff`) -/
  fieldsDefined : ∀ c nm args sel lc, Item.field c nm args sel lc ∈ items s d → c.parent.isSome → c.fieldDef.isSome
  /-- FragmentsOnCompositeTypes -/
  fragmentsOnComposite : FragmentsOnComposite s d
  /-- KnownArgumentNames -/
  argumentsKnown :
    (∀ c nm args sel lc fd, Item.field c nm args sel lc ∈ items s d → c.fieldDef = some fd →
        ∀ a ∈ args, ∃ dd ∈ fd.args, dd.name = a.name.value) ∧
    (∀ site c dir dd, Item.directive site c dir ∈ items s d → s.directive? dir.name.value = some dd →
        ∀ a ∈ dir.args, ∃ ad ∈ dd.args, ad.name = a.name.value)
  /-- KnownDirectives -/
  directivesKnown : ∀ site c dir, Item.directive site c dir ∈ items s d →
    ∃ dd, s.directive? dir.name.value = some dd ∧ site.location ∈ dd.locations
  /-- KnownFragmentNames -/
  fragmentsKnown : ∀ c nm lc, Item.spread c nm lc ∈ items s d → fragmentDefined d nm.value = true
  /-- KnownTypeNames -/
  typesKnown : ∀ p ∈ namedTypeNodes s d, s.known p.1 = true
  /-- LoneAnonymousOperation -/
  loneAnonymous : anonymousOps d = [] ∨ opCount d ≤ 1
  /-- NoFragmentCycles -/
  noCycles : ¬ Cyclic (fragDefs d)
  /-- NoUndefinedVariables -/
  variablesDefined : ∀ o ∈ opDefs d, ∀ u, UsageIn s (fragDefs d) o u → VarDefined o u.name
  /-- NoUnusedFragments -/
  fragmentsUsed : ∀ f ∈ fragDefs d, ∃ sel, sel ∈ opSels d ∧ FragUsed (fragDefs d) sel f.name.value
  /-- NoUnusedVariables -/
  variablesUsed : ∀ o ∈ opDefs d, ∀ v ∈ o.vars, v.var.value ≠ "" ∧ VarUsedIn s (fragDefs d) o v.var.value
  /-- OverlappingFieldsCanBeMerged: FieldsInSetCanMerge for every selection set, through any chain of fragments -/
  fieldsCanMerge : ∀ cs, cs ∈ typedSelSets s d → FieldsInSetCanMerge (envM s d) cs.1.parent cs.2
  /-- PossibleFragmentSpreads -/
  spreadsPossible : SpreadsPossible s d
  /-- ProvidedNonNullArguments -/
  requiredArguments :
    (∀ c nm args sel lc fd, Item.field c nm args sel lc ∈ items s d → c.fieldDef = some fd →
        ∀ dd ∈ fd.args, dd.type.isNonNull = true → ∃ a ∈ args, a.name.value = dd.name) ∧
    (∀ site c dir dd, Item.directive site c dir ∈ items s d → s.directive? dir.name.value = some dd →
        ∀ ad ∈ dd.args, ad.type.isNonNull = true → ∃ a ∈ dir.args, a.name.value = ad.name)
  /-- ScalarLeafs -/
  scalarLeafs : ∀ c nm args sel lc t, Item.field c nm args sel lc ∈ items s d → c.ty = some t →
    (sel.isSome ↔ s.leafT t.namedName = false)
  /-- UniqueArgumentNames -/
  argumentNamesUnique : ∀ args ∈ argLists s d, (args.map (·.name.value)).Nodup
  /-- UniqueFragmentNames -/
  fragmentNamesUnique : ((fragmentNames d).map (·.value)).Nodup
  /-- UniqueInputFieldNames -/
  inputFieldNamesUnique : ∀ fs ∈ (topValues s d).flatMap objectsDeep, (fs.map (·.name.value)).Nodup
  /-- UniqueOperationNames -/
  operationNamesUnique : ((operationNames d).map (·.value)).Nodup
  /-- UniqueVariableNames -/
  variableNamesUnique : ∀ vars ∈ varLists d, (vars.map (·.var.value)).Nodup
  /-- VariablesAreInputTypes -/
  variablesAreInput : VariablesAreInput s d
  /-- VariablesInAllowedPosition -/
  variablePositions : ∀ o ∈ opDefs d, ∀ u v, UsageIn s (fragDefs d) o u → varDefFor o.vars u.name = some v →
    varPosBad s v u = false

/-! ## glue -/

theorem validate_nil_iff (s : Schema) (d : Document) :
    validate s d = [] ↔
      argumentsOfCorrectType_S s d = [] ∧ defaultValuesOfCorrectType_S s d = [] ∧ fieldsOnCorrectType_S s d = [] ∧
      fragmentsOnCompositeTypes_S s d = [] ∧ knownArgumentNames_S s d = [] ∧ knownDirectives_S s d = [] ∧
      knownFragmentNames_S s d = [] ∧ knownTypeNames_S s d = [] ∧ loneAnonymousOperation_M s d = [] ∧
      noFragmentCycles s d = [] ∧ noUndefinedVariables s d = [] ∧ noUnusedFragments s d = [] ∧
      noUnusedVariables s d = [] ∧ overlappingFieldsCanBeMerged s d = [] ∧ possibleFragmentSpreads_M s d = [] ∧
      providedNonNullArguments_S s d = [] ∧ scalarLeafs_S s d = [] ∧ uniqueArgumentNames_M s d = [] ∧
      uniqueFragmentNames_M s d = [] ∧ uniqueInputFieldNames_M s d = [] ∧ uniqueOperationNames_M s d = [] ∧
      uniqueVariableNames_M s d = [] ∧ variablesAreInputTypes_S s d = [] ∧ variablesInAllowedPosition s d = [] := by
  simp only [validate, specifiedRuleFns, List.flatMap_cons, List.flatMap_nil, List.append_eq_nil_iff, and_true]

theorem fragNames_eq (d : Document) : fragNames (fragDefs d) = (fragmentNames d).map (·.value) := by
  unfold fragNames fragDefs fragmentNames
  rw [List.map_filterMap, List.map_filterMap]
  apply filterMap_congr'
  intro df _
  cases df <;> rfl

theorem uniqueFragNames_iff (d : Document) : uniqueFragNames d = true ↔ ((fragmentNames d).map (·.value)).Nodup := by
  unfold uniqueFragNames
  rw [decide_eq_true_iff, fragNames_eq]

theorem opKeys_length (d : Document) : (opKeys d).length = opCount d := by
  unfold opKeys opCount
  induction d.defs with
  | nil => rfl
  | cons df rest ih =>
    simp only [List.filterMap_cons, List.filter_cons]
    cases df with
    | operation op nm vars dirs sel lc => cases nm <;> simp [opKeyOf, isOperation, ih]
    | _ => simp [opKeyOf, isOperation, ih]

theorem operationNames_sublist (d : Document) : (operationNames d).Sublist (opKeys d) := by
  unfold operationNames opKeys
  induction d.defs with
  | nil => exact List.Sublist.slnil
  | cons df rest ih =>
    simp only [List.filterMap_cons]
    cases df with
    | operation op nm vars dirs sel lc =>
      cases nm with
      | none => simpa [opKeyOf] using List.Sublist.cons (⟨"", lc⟩ : Name) ih
      | some nm => simpa [opKeyOf] using List.Sublist.cons_cons nm ih
    | _ => simpa [opKeyOf] using ih

theorem nodup_of_length_le_one {α : Type} (l : List α) (h : l.length ≤ 1) : l.Nodup := by
  match l, h with
  | [], _ => exact List.nodup_nil
  | [a], _ => simp
  | _ :: _ :: _, h => simp at h

/-- UniqueOperationNames inside the conjunction: given LoneAnonymousOperation, the code's report (keyed by `""` for
anonymous operations) is empty iff the named operations are uniquely named -/
theorem uniqueOperationNames_iff_of_lone (s : Schema) (d : Document) (h : anonymousOps d = [] ∨ opCount d ≤ 1) :
    uniqueOperationNames_M s d = [] ↔ ((operationNames d).map (·.value)).Nodup := by
  rcases h with h | h
  · exact uniqueOperationNames_iff_partial s d h
  · rw [uniqueOperationNames_M_iff]
    have hk : ((opKeys d).map (·.value)).length ≤ 1 := by rw [List.length_map, opKeys_length]; exact h
    have hn : ((operationNames d).map (·.value)).length ≤ 1 := by
      rw [List.length_map]
      exact Nat.le_trans (operationNames_sublist d).length_le (by rw [opKeys_length]; exact h)
    exact ⟨fun _ => nodup_of_length_le_one _ hn, fun _ => nodup_of_length_le_one _ hk⟩

theorem noUnusedFragments_nil_iff (s : Schema) (d : Document) :
    noUnusedFragments s d = [] ↔ ∀ f ∈ fragDefs d, ∃ sel, sel ∈ opSels d ∧ FragUsed (fragDefs d) sel f.name.value := by
  rw [List.eq_nil_iff_forall_not_mem]
  simp only [noUnusedFragments_iff]
  constructor
  · intro hno f hf
    apply Classical.byContradiction
    intro hne
    exact hno _ ⟨f, hf, rfl, fun sel hsel hu => hne ⟨sel, hsel, hu⟩⟩
  · rintro h e ⟨f, hf, _, hno⟩
    obtain ⟨sel, hsel, hu⟩ := h f hf
    exact hno sel hsel hu

theorem noUndefinedVariables_nil_iff (s : Schema) (d : Document) :
    noUndefinedVariables s d = [] ↔ ∀ o ∈ opDefs d, ∀ u, UsageIn s (fragDefs d) o u → VarDefined o u.name := by
  rw [List.eq_nil_iff_forall_not_mem]
  simp only [noUndefinedVariables_iff]
  constructor
  · intro hno o ho u hu
    apply Classical.byContradiction
    intro hnd
    exact hno _ ⟨o, u, ho, hu, hnd, rfl⟩
  · rintro h e ⟨o, u, ho, hu, hnd, _⟩
    exact hnd (h o ho u hu)

theorem noUnusedVariables_nil_iff (s : Schema) (d : Document) :
    noUnusedVariables s d = [] ↔
      ∀ o ∈ opDefs d, ∀ v ∈ o.vars, v.var.value ≠ "" ∧ VarUsedIn s (fragDefs d) o v.var.value := by
  rw [List.eq_nil_iff_forall_not_mem]
  simp only [noUnusedVariables_iff]
  constructor
  · intro hno o ho v hv
    apply Classical.byContradiction
    intro hnu
    exact hno _ ⟨o, v, ho, hv, rfl, hnu⟩
  · rintro h e ⟨o, v, ho, hv, _, hnu⟩
    exact hnu (h o ho v hv)

theorem variablesInAllowedPosition_nil_iff (s : Schema) (d : Document) :
    variablesInAllowedPosition s d = [] ↔
      ∀ o ∈ opDefs d, ∀ u v, UsageIn s (fragDefs d) o u → varDefFor o.vars u.name = some v → varPosBad s v u = false := by
  rw [List.eq_nil_iff_forall_not_mem]
  simp only [variablesInAllowedPosition_iff]
  constructor
  · intro hno o ho u v hu hv
    cases hb : varPosBad s v u with
    | false => rfl
    | true => exact absurd ⟨o, u, v, ho, hu, hv, hb, rfl⟩ (hno _)
  · rintro h e ⟨o, u, v, ho, hu, hv, hb, _⟩
    rw [h o ho u v hu hv] at hb; cases hb

theorem noFragmentCycles_nil_iff (s : Schema) (d : Document) (hu : uniqueFragNames d = true) :
    noFragmentCycles s d = [] ↔ ¬ Cyclic (fragDefs d) := by
  have := cycles_iff s d hu
  constructor
  · intro h hc; exact (this.2 hc) h
  · intro h
    apply Classical.byContradiction
    intro hne
    exact h (this.1 hne)

theorem overlap_nil_iff (s : Schema) (d : Document) (hside : sideB s d = true) (hu : uniqueFragNames d = true)
    (hcyc : noFragmentCycles s d = []) :
    overlappingFieldsCanBeMerged s d = [] ↔
      ∀ cs, cs ∈ typedSelSets s d → FieldsInSetCanMerge (envM s d) cs.1.parent cs.2 := by
  have hcomp : compB s d (envM s d) = true := by
    simp only [sideB, Bool.and_eq_true] at hside
    simp only [compB, Bool.and_eq_true, acyclicB, List.isEmpty_iff]
    exact ⟨⟨⟨⟨hside.1.1, hu⟩, hcyc⟩, hside.1.2⟩, hside.2⟩
  constructor
  · intro hov; exact accepted_document_has_no_conflict s d hside hcyc hu hov
  · intro hall
    apply Classical.byContradiction
    intro hne
    obtain ⟨cs, hcs, hconf⟩ := (overlap_iff_naive_acyclic s d hcomp).1 hne
    exact hall cs hcs hconf

/-! ## the theorem -/

/-- **C02, first sentence**: the validator (all 24 rules of `graphql.SpecifiedRules`, as coded) reports nothing —
the document is accepted for the schema — if and only if the document satisfies the declarative specification of
every one of the 24 validation rules. -/
theorem all_rules_iff (s : Schema) (d : Document) (hS : schemaInputsOkB s = true) (hinh : AbstractInhabited s)
    (hside : sideB s d = true) : validate s d = [] ↔ AllRulesHold s d := by
  rw [validate_nil_iff]
  constructor
  · rintro ⟨h1, h2, h3, h4, h5, h6, h7, h8, h9, h10, h11, h12, h13, h14, h15, h16, h17, h18, h19, h20, h21, h22, h23, h24⟩
    have hu : uniqueFragNames d = true := (uniqueFragNames_iff d).2 ((uniqueFragmentNames_iff s d).1 h19)
    have hlone := (loneAnonymousOperation_iff s d).1 h9
    exact {
      argumentsCoercible := (argumentsOfCorrectType_iff s d hS).1 h1
      defaultsCoercible := (defaultValuesOfCorrectType_iff s d hS (varTypesOK_of_rules s d h8 h23)).1 h2
      fieldsDefined := (fieldsOnCorrectType_iff s d).1 h3
      fragmentsOnComposite := (fragmentsOnCompositeTypes_iff s d).1 h4
      argumentsKnown := (knownArgumentNames_iff s d).1 h5
      directivesKnown := (knownDirectives_iff s d).1 h6
      fragmentsKnown := (knownFragmentNames_iff s d).1 h7
      typesKnown := (knownTypeNames_iff s d).1 h8
      loneAnonymous := hlone
      noCycles := (noFragmentCycles_nil_iff s d hu).1 h10
      variablesDefined := (noUndefinedVariables_nil_iff s d).1 h11
      fragmentsUsed := (noUnusedFragments_nil_iff s d).1 h12
      variablesUsed := (noUnusedVariables_nil_iff s d).1 h13
      fieldsCanMerge := (overlap_nil_iff s d hside hu h10).1 h14
      spreadsPossible := (possibleFragmentSpreads_iff s d hinh).1 h15
      requiredArguments := (providedNonNullArguments_iff s d).1 h16
      scalarLeafs := (scalarLeafs_iff s d).1 h17
      argumentNamesUnique := (uniqueArgumentNames_iff s d).1 h18
      fragmentNamesUnique := (uniqueFragmentNames_iff s d).1 h19
      inputFieldNamesUnique := (uniqueInputFieldNames_iff s d).1 h20
      operationNamesUnique := (uniqueOperationNames_iff_of_lone s d hlone).1 h21
      variableNamesUnique := (uniqueVariableNames_iff s d).1 h22
      variablesAreInput := (variablesAreInputTypes_iff s d).1 h23
      variablePositions := (variablesInAllowedPosition_nil_iff s d).1 h24 }
  · intro h
    have hu : uniqueFragNames d = true := (uniqueFragNames_iff d).2 h.fragmentNamesUnique
    have h8 := (knownTypeNames_iff s d).2 h.typesKnown
    have h23 := (variablesAreInputTypes_iff s d).2 h.variablesAreInput
    have h10 := (noFragmentCycles_nil_iff s d hu).2 h.noCycles
    exact ⟨(argumentsOfCorrectType_iff s d hS).2 h.argumentsCoercible,
      (defaultValuesOfCorrectType_iff s d hS (varTypesOK_of_rules s d h8 h23)).2 h.defaultsCoercible,
      (fieldsOnCorrectType_iff s d).2 h.fieldsDefined,
      (fragmentsOnCompositeTypes_iff s d).2 h.fragmentsOnComposite,
      (knownArgumentNames_iff s d).2 h.argumentsKnown,
      (knownDirectives_iff s d).2 h.directivesKnown,
      (knownFragmentNames_iff s d).2 h.fragmentsKnown,
      h8,
      (loneAnonymousOperation_iff s d).2 h.loneAnonymous,
      h10,
      (noUndefinedVariables_nil_iff s d).2 h.variablesDefined,
      (noUnusedFragments_nil_iff s d).2 h.fragmentsUsed,
      (noUnusedVariables_nil_iff s d).2 h.variablesUsed,
      (overlap_nil_iff s d hside hu h10).2 h.fieldsCanMerge,
      (possibleFragmentSpreads_iff s d hinh).2 h.spreadsPossible,
      (providedNonNullArguments_iff s d).2 h.requiredArguments,
      (scalarLeafs_iff s d).2 h.scalarLeafs,
      (uniqueArgumentNames_iff s d).2 h.argumentNamesUnique,
      (uniqueFragmentNames_iff s d).2 h.fragmentNamesUnique,
      (uniqueInputFieldNames_iff s d).2 h.inputFieldNamesUnique,
      (uniqueOperationNames_iff_of_lone s d h.loneAnonymous).2 h.operationNamesUnique,
      (uniqueVariableNames_iff s d).2 h.variableNamesUnique,
      h23,
      (variablesInAllowedPosition_nil_iff s d).2 h.variablePositions⟩

/-- the same with every side condition in decidable form (what drv_c02 evaluates on each case) -/
theorem all_rules_iff_decidable (s : Schema) (d : Document) (hS : schemaInputsOkB s = true)
    (hinh : abstractInhabitedB s = true) (hside : sideB s d = true) : validate s d = [] ↔ AllRulesHold s d :=
  all_rules_iff s d hS (abstractInhabited_of_B s hinh) hside

/-- location soundness of the combined validator: every reported error belongs to one of the 24 rules' reports (each
of which is located at violating nodes by that rule's `…_sound` / `…_mem` / `…_iff` theorem) -/
theorem validate_mem (s : Schema) (d : Document) (e : VErr) :
    e ∈ validate s d ↔ ∃ r, r ∈ specifiedRuleFns ∧ e ∈ r.2 s d := by
  unfold validate
  simp only [List.mem_flatMap]

end GqlModel.Validate
