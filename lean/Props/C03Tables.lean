import GqlModel.Token
import Generated.Tables
/-! # C03 — table obligation: the token kinds of the lexer are the modelled ones, in the same order
(`Generated.tokenKinds` is regenerated from the `TokenKind` constants of language/lexer/lexer.go). -/
namespace GqlModel

theorem token_kinds_as_modelled : Generated.tokenKinds = TokenKind.goNames := by decide +kernel

/-- the wire numbering used by the drivers is the Go iota numbering (EOF = 1 …) -/
theorem token_kind_numbering :
    (List.range 20).map (fun i => (TokenKind.ofNat? (i + 1)).map TokenKind.toNat) = (List.range 20).map (fun i => some (i + 1)) := by
  decide +kernel

end GqlModel
