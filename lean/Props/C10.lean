import GqlProofs.Introspection
import GqlProofs.IntrospectionValues
/-! # C10 — Introspection describes the schema exactly

`introspect s supplied` (model M of `graphql.Do(schema, IntrospectionQuery)`, `GqlModel/Introspection.lean`) for every
schema `s` and every list `supplied` of type names handed to `SchemaConfig.Types` / `AppendType`.
Property theorems only; helper lemmas are in `GqlProofs/Introspection.lean`. -/
namespace GqlModel.Introspection
open GqlModel

/-- The description is exact: rebuilding a schema from the introspection result gives the schema's normal form
(type map restricted to what is reachable plus the introspection types, types / fields / arguments / enum values /
input fields sorted by name — Go keeps them in maps —, defaults as their literal text, runtime-only attributes
erased).  Holds for every schema (no well-formedness needed) and every split of its types. Covers kinds, names,
descriptions, fields with arguments and wrapped type references at any depth, interfaces, union members, enum values,
input fields, deprecation flags and reasons, directives with locations and arguments, and the root type names. -/
theorem introspection_lossless (s : Schema) (supplied : List String) :
    rebuild (introspect s supplied) = normalise s supplied := by
  simp only [rebuild, introspect, normalise, List.map_map]
  congr 1
  · exact List.map_congr_left (fun td _ => rebuildType_describeType _ _ td)
  · exact List.map_congr_left (fun d _ => rebuildDirective_directiveI _ d)

/-- The reported type set is the reachable closure: a name is in `__schema.types` iff it is reachable from the roots,
`__Schema` and the supplied types through the references `typeMapReducer` follows (and resolves to a definition); the
list of reported names is `typesClosure`, without duplicates. -/
theorem types_eq_reachable_closure (s : Schema) (supplied : List String) :
    (introspect s supplied).types.map (·.name) = typesClosure s supplied ∧
    (typesClosure s supplied).Nodup ∧
    ∀ n, n ∈ typesClosure s supplied ↔ Reachable (allTypes s) (initialNames s supplied) n :=
  ⟨introspect_type_names s supplied, typesClosure_nodup s supplied, mem_typesClosure_iff s supplied⟩

/-- Every named type a described type refers to is itself described (no dangling reference in the result). -/
theorem described_types_closed (s : Schema) (supplied : List String) (n : String) (td : TypeDef) (c : String)
    (hn : n ∈ typesClosure s supplied) (htd : findType (allTypes s) n = some td) (hc : c ∈ typeRefs td)
    (hr : (findType (allTypes s) c).isSome) : c ∈ typesClosure s supplied :=
  (mem_typesClosure_iff s supplied c).mpr (((mem_typesClosure_iff s supplied n).mp hn).step htd hc hr)

/-- … and so is every type a directive argument refers to. -/
theorem directive_arg_types_described (s : Schema) (supplied : List String) (d : DirectiveDefS) (a : ArgDef)
    (hd : d ∈ s.directives) (ha : a ∈ d.args) (hr : (findType (allTypes s) a.type.namedName).isSome) :
    a.type.namedName ∈ typesClosure s supplied := by
  refine (mem_typesClosure_iff s supplied _).mpr (Reachable.init ?_ hr)
  simp only [initialNames, List.mem_append, List.mem_flatMap, List.mem_map]
  exact Or.inr ⟨d, hd, a, ha, rfl⟩

/-- Possible types are listed once: for a schema in which no object lists an interface twice and no union a member
twice (`membersOnce`; the library does not enforce it — see notes/agents/C10.md), the `possibleTypes` of every
described type are pairwise distinct. -/
theorem possibleTypes_nodup (s : Schema) (supplied : List String) (h : s.types.all membersOnce = true) :
    ∀ t ∈ (introspect s supplied).types, ∀ pts, t.possibleTypes = some pts → (pts.map TRef.name).Nodup := by
  apply possibleTypes_nodup_aux s supplied _ h
  have := filterMap_findType_names (allTypes s) (typesClosure s supplied)
    (fun n hn => ((mem_typesClosure_iff s supplied n).mp hn).resolves)
  simp only [closureDefs]
  rw [this]
  exact typesClosure_nodup s supplied

/-- the hypothesis is needed: an object that lists its interface twice is listed twice (bug-faithful model; the real
library does the same, reproduced in notes/agents/C10.md) -/
example :
    let s : Schema := { types := [.interface "I" [] true "", .object "O" ["I", "I"] [] false "",
                                  .object "Q" [] [{ name := "o", type := .named "O", args := [] }] false "",
                                  .scalar "String" .string "", .scalar "Boolean" .boolean ""],
                        query := "Q", mutation := none, subscription := none, directives := [] }
    ((introspect s).types.filter (·.name == "I")).map (fun t => (t.possibleTypes.getD []).map TRef.name) = [["O", "O"]] := by
  decide +kernel

/-! ## What the possible types, interfaces and reference kinds are -/

/-- the possible types of a described interface are exactly the described object types that list it -/
theorem interface_possibleTypes_spec (s : Schema) (supplied : List String) (n : String) (fs : List FieldDefS) (rt : Bool) (d : String) (o : String) :
    o ∈ ((describeType (allTypes s) (closureDefs s supplied) (.interface n fs rt d)).possibleTypes.getD []).map TRef.name ↔
      ∃ ifaces ofs ito od, TypeDef.object o ifaces ofs ito od ∈ closureDefs s supplied ∧ n ∈ ifaces := by
  simp only [describeType, Option.getD_some, List.map_map, Function.comp_def, name_describeRef_named, List.map_id']
  exact mem_implementers _ n o

/-- the possible types of a union are its configured members, in order -/
theorem union_possibleTypes_spec (all defs : List TypeDef) (n : String) (ms : List String) (rt : Bool) (d : String) :
    ((describeType all defs (.union n ms rt d)).possibleTypes.getD []).map TRef.name = ms := by
  simp [describeType, Function.comp_def, name_describeRef_named]

/-- the interfaces of an object are the configured ones, in order -/
theorem object_interfaces_spec (all defs : List TypeDef) (n : String) (ifaces : List String) (fs : List FieldDefS) (ito : Bool) (d : String) :
    ((describeType all defs (.object n ifaces fs ito d)).interfaces.getD []).map TRef.name = ifaces := by
  simp [describeType, Function.comp_def, name_describeRef_named]

/-- a reference carries the kind of the type it names -/
theorem ref_kind_spec (all : List TypeDef) (n : String) (td : TypeDef) (h : findType all n = some td) :
    describeRef all (.named n) = .named (kindStr td) n := by
  simp [describeRef, h]

/-! ## Default values -/

theorem metaTypes_wfInputTypes : wfInputTypes metaTypes = true := by decide +kernel

theorem wfInputTypes_all (s : Schema) (h : wfInputTypes s.types = true) : wfInputTypes (allTypes s) = true := by
  simp only [wfInputTypes, allTypes, List.all_append, Bool.and_eq_true] at h ⊢
  exact ⟨h, metaTypes_wfInputTypes⟩

/-- Every reported default value is a GraphQL literal that, parsed and coerced against the argument's type, gives back
the configured default: for every schema whose enums and input objects are well-formed (`wfInputTypes`: value / field
names are valid names, distinct, and no enum value is called true / false / null — what `NewEnum` and `NewInputObject`
enforce), every input type `t` and every conformant value `v` (a value input coercion can produce for `t`),
reading the printed text back (`parseValue`) and coercing it (`coerceLit` = `valueFromAST`) yields `v`.
Full strength on the repaired tree (commit b8e02d5); it was false at the pinned tree, see the witnesses below. -/
theorem default_roundtrip (s : Schema) (t : GType) (v : JVal) (hwf : wfInputTypes s.types = true)
    (hc : conformant (allTypes s) t v = true) :
    reread s t (printDefault s t v) = some v := by
  obtain ⟨l, hl, hok, hco⟩ := value_roundtrip (allTypes s) (wfInputTypes_all s hwf) v t hc
  simp only [reread, parseValue, printDefault, printDefaultIn, hl, Option.map_some, Option.getD_some,
    String.toList_ofList, readLit_printLit l hok, hco]

/-- … and that text is what introspection reports as `defaultValue` (never null for a conformant default). -/
theorem conformant_default_reported (s : Schema) (t : GType) (v : JVal) (hwf : wfInputTypes s.types = true)
    (hc : conformant (allTypes s) t v = true) :
    defaultText (allTypes s) t (some v) = some (printDefault s t v) := by
  obtain ⟨l, hl, _, _⟩ := value_roundtrip (allTypes s) (wfInputTypes_all s hwf) v t hc
  simp [defaultText, printDefault, printDefaultIn, hl]

/-! ### The record of D-10a: the same statement was false for the function as it was at the pinned tree -/

def d10aSchema : Schema :=
  { types := [.enum "Color" [{ name := "RED", internal := .int 0 }, { name := "GREEN", internal := .int 1 }] "",
              .inputObject "In" [{ name := "a", type := .named "Int", default := none }] "",
              .scalar "Int" .int "", .scalar "String" .string "", .scalar "Boolean" .boolean "",
              .object "Q" [] [{ name := "f", type := .named "String", args := [] }] false ""],
    query := "Q", mutation := none, subscription := none, directives := [] }

/-- hypotheses of `default_roundtrip` are satisfiable, with values of enum and input-object kind -/
example : wfInputTypes d10aSchema.types = true ∧
    conformant (allTypes d10aSchema) (.named "Color") (.int 0) = true ∧
    conformant (allTypes d10aSchema) (.list (.named "In")) (.list [.obj [("a", .int 1)]]) = true := by decide +kernel

/-- `default_roundtrip_partial` — what held at the pinned tree: the round trip for defaults without an enum or
input-object value inside (`defaultIsScalarLike`), because there the old function computes what the repaired one does. -/
theorem default_roundtrip_pinned_partial (s : Schema) (t : GType) (v : JVal) (hwf : wfInputTypes s.types = true)
    (hc : conformant (allTypes s) t v = true) (hs : defaultIsScalarLike s t v = true) :
    reread s t (printDefaultPinned s t v) = some v := by
  have h := default_roundtrip s t v hwf hc
  obtain ⟨l, hl, _, _⟩ := value_roundtrip (allTypes s) (wfInputTypes_all s hwf) v t hc
  have hp : printDefaultPinned s t v = printDefault s t v := by
    simp only [printDefaultPinned, printDefault, printDefaultIn, pinned_eq_on_scalarLike (allTypes s) v t hs, hl]
    rfl
  rw [hp]; exact h

/-- pinned tree: `e: Color = 0` was reported as `0`, which reads back as null, not as the configured `0` … -/
example : printDefaultPinned d10aSchema (.named "Color") (.int 0) = "0" ∧
    (reread d10aSchema (.named "Color") (printDefaultPinned d10aSchema (.named "Color") (.int 0)) == some (.int 0)) = false ∧
    (reread d10aSchema (.named "Color") (printDefaultPinned d10aSchema (.named "Color") (.int 0)) == some .null) = true := by
  decide +kernel

/-- … and `o: In = {a: 1}` as the string literal `"map[a:1]"` (reads back as null) -/
example : printDefaultPinned d10aSchema (.named "In") (.obj [("a", .int 1)]) = "\"map[a:1]\"" ∧
    (reread d10aSchema (.named "In") (printDefaultPinned d10aSchema (.named "In") (.obj [("a", .int 1)]))
      == some (.obj [("a", .int 1)])) = false := by
  decide +kernel

/-- the repaired function on the same inputs -/
example : printDefault d10aSchema (.named "Color") (.int 0) = "RED" ∧
    printDefault d10aSchema (.list (.named "In")) (.list [.obj [("a", .int 1)]]) = "[{a: 1}]" := by decide +kernel

end GqlModel.Introspection
