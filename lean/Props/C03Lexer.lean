import GqlProofs.LexerGrammar
/-! # C03, lexer half — property theorems

`M` = `GqlModel.Lexer` (lexer.go, function for function, two cursors), `S` = `GqlModel.Lexer.Spec` (the lexical
grammar of the GraphQL spec as a maximal-munch tokeniser on bytes). -/
namespace GqlModel.Lexer
open GqlModel.Utf8 GqlModel.Lexer.Spec

/-! ## M = S

Full statement (FALSE on the pinned tree, D-03a):  `∀ bytes, lexAll bytes = Spec.lexAll bytes`.
Proved: the `…_partial` forms below, outside the decidable known-finding predicates
`nameAfterMultibyteIgnored` (a NAME token after an Ignored gap containing a byte ≥ 0x80) and
`errorAfterMultibyte` (a byte ≥ 0x80 between the last token and the offending byte: only the error OFFSET
differs), plus the negation witnesses. -/

/-- Outside D-03a the model's token stream IS the spec's token stream (kinds, byte offsets, values), lexing
fails iff the spec's tokeniser fails, and at the same error site. -/
theorem model_eq_spec_asciiIgnored_partial (bytes : Bytes) (h : nameAfterMultibyteIgnored bytes = false) :
    (lexAll bytes).tokens = (Spec.lexAll bytes).tokens ∧
    (lexAll bytes).err.map (·.kind) = (Spec.lexAll bytes).err.map (·.kind) := by
  have hn : ∀ gt ∈ (lexLoopG (bytes.length + 1) (bytes.drop 0) 0).tokens, gt.2.kind = .name → hasHigh gt.1 = false := by
    intro gt hgt hk
    simp only [nameAfterMultibyteIgnored, lexAllG, List.any_eq_false, Bool.and_eq_true, beq_iff_eq, not_and,
      Bool.not_eq_true] at h
    exact h gt (by simpa using hgt) hk
  obtain ⟨e, he, hk, -⟩ := lexLoop_spec bytes (bytes.length + 1) 0 hn
  simp only [List.drop_zero] at he hk
  simp only [lexAll, Spec.lexAll, lexAllG, he, hk, Option.map_map, true_and]
  rfl

/-- Outside both rune/byte classes the model and the spec agree on everything, error offset included. -/
theorem model_eq_spec_partial (bytes : Bytes) (h1 : nameAfterMultibyteIgnored bytes = false)
    (h2 : errorAfterMultibyte bytes = false) : lexAll bytes = Spec.lexAll bytes := by
  have hn : ∀ gt ∈ (lexLoopG (bytes.length + 1) (bytes.drop 0) 0).tokens, gt.2.kind = .name → hasHigh gt.1 = false := by
    intro gt hgt hk
    simp only [nameAfterMultibyteIgnored, lexAllG, List.any_eq_false, Bool.and_eq_true, beq_iff_eq, not_and,
      Bool.not_eq_true] at h1
    exact h1 gt (by simpa using hgt) hk
  obtain ⟨e, he, -, hee⟩ := lexLoop_spec bytes (bytes.length + 1) 0 hn
  simp only [List.drop_zero] at he hee
  have : e = (lexLoopG (bytes.length + 1) bytes 0).err.map (·.2) := by
    apply hee
    intro ge hge
    simp only [errorAfterMultibyte, lexAllG, hge] at h2
    exact h2
  simp only [lexAll, Spec.lexAll, lexAllG, he, this]

/-- In particular M = S on every input without bytes ≥ 0x80 (pure ASCII source text). -/
theorem model_eq_spec_ascii (bytes : Bytes) (h : hasHigh bytes = false) : lexAll bytes = Spec.lexAll bytes := by
  obtain ⟨h1, h2⟩ := lexLoopG_gaps_ascii (bytes.length + 1) bytes 0 h
  apply model_eq_spec_partial
  · simp only [nameAfterMultibyteIgnored, lexAllG, List.any_eq_false, Bool.and_eq_true, beq_iff_eq, not_and, Bool.not_eq_true]
    intro gt hgt _; exact h1 gt hgt
  · simp only [errorAfterMultibyte, lexAllG]
    match he : (lexLoopG (bytes.length + 1) bytes 0).err with
    | none => rfl
    | some ge => exact h2 ge he

/-- `{ a #é\n bc }` -/
def witnessD03a : Bytes := [123, 32, 97, 32, 35, 0xC3, 0xA9, 10, 32, 98, 99, 32, 125]

/-- Negation witness for the full statement (D-03a): the predicate holds and the model — like the real lexer —
produces the NAME tokens `a`, `bc`, `c` where the grammar has `a`, `bc`. -/
theorem model_ne_spec_witness :
    nameAfterMultibyteIgnored witnessD03a = true ∧
    (lexAll witnessD03a).tokens.map (fun t => (t.kind, t.start, t.stop, t.value)) =
      [(.braceL, 0, 1, []), (.name, 2, 3, [97]), (.name, 8, 10, [98, 99]), (.name, 10, 11, [99]), (.braceR, 12, 13, []),
       (.eof, 13, 13, [])] ∧
    (Spec.lexAll witnessD03a).tokens.map (fun t => (t.kind, t.start, t.stop, t.value)) =
      [(.braceL, 0, 1, []), (.name, 2, 3, [97]), (.name, 9, 11, [98, 99]), (.braceR, 12, 13, []), (.eof, 13, 13, [])] := by
  decide +kernel

/-- `"é\q"`: the bad escape is at byte offset 4; the lexer reports 3 (start + 1 + two runes). -/
def witnessErrOffset : Bytes := [34, 0xC3, 0xA9, 92, 113, 34]

/-- Negation witness for "error offsets are byte offsets" (same root cause as D-03a). -/
theorem error_offset_witness :
    errorAfterMultibyte witnessErrOffset = true ∧ nameAfterMultibyteIgnored witnessErrOffset = false ∧
    (lexAll witnessErrOffset).err = some ⟨3, .badEscape⟩ ∧ (Spec.lexAll witnessErrOffset).err = some ⟨4, .badEscape⟩ := by
  decide +kernel

-- the premises of the partial theorems are satisfiable, also by inputs with multi-byte characters
example : nameAfterMultibyteIgnored [123, 32, 97, 32, 125] = false ∧ errorAfterMultibyte [123, 32, 97, 32, 125] = false := by
  decide +kernel
/-- `#é\n{ "é" }` : multi-byte in a comment and in a string, but no NAME after it -/
example : nameAfterMultibyteIgnored [35, 0xC3, 0xA9, 10, 123, 32, 34, 0xC3, 0xA9, 34, 32, 125] = false ∧
    lexAll [35, 0xC3, 0xA9, 10, 123, 32, 34, 0xC3, 0xA9, 34, 32, 125] =
      Spec.lexAll [35, 0xC3, 0xA9, 10, 123, 32, 34, 0xC3, 0xA9, 34, 32, 125] := by
  decide +kernel

/-! ## Progress and termination -/

/-- Every call of `readToken` either fails with a genuine lexical error, or returns EOF, or returns a token that
ends strictly after the offset the scan started from and inside the body: the cursor of the `Lex` closure moves
forward. The fuel `len(body)+1` given to the model's loops is never exhausted. -/
theorem lex_progress (body : Bytes) (p : Nat) :
    (∀ t, readToken body p = .ok t →
      (t.kind = .eof ∧ t.start = t.stop) ∨ (t.kind ≠ .eof ∧ p < t.stop ∧ t.stop ≤ body.length)) ∧
    (∀ e, readToken body p = .error e → e.kind ≠ .fuel) := by
  have h := readToken_progress body p
  constructor
  · intro t ht; rw [ht] at h; exact h
  · intro e he; rw [he] at h; exact h

/-- Iterating `Lex` as the parser does terminates within `len(body)+1` calls: it ends in a lexical error or in
an EOF token, and EOF is the last token only. -/
theorem lexAll_terminates (body : Bytes) :
    (∀ e, (lexAll body).err = some e → e.kind ≠ .fuel) ∧
    ((lexAll body).err = none → ∃ t, (lexAll body).tokens.getLast? = some t ∧ t.kind = .eof) ∧
    (∀ t ∈ (lexAll body).tokens.dropLast, t.kind ≠ .eof) :=
  ⟨lexLoop_no_fuel body _ 0 (by omega), (lexLoop_shape body _ 0).2, (lexLoop_shape body _ 0).1⟩

/-! ## Strings -/

/-- The value of a STRING token is the spec's semantic value of the quoted text (`Spec.stringBody`: escapes
decoded, `\uXXXX` as UTF-8, everything else byte for byte), its extent is the quoted text; a malformed string
is rejected at the same site. Holds for every byte string, valid UTF-8 or not. -/
theorem string_value_spec (f : Nat) (rest : Bytes) (start : Nat) (hf : rest.length < f) :
    (∀ len v, stringBody rest = .ok (len, v) →
      readString f (34 :: rest) start = .ok ⟨.string, start, start + 1 + len, v⟩) ∧
    (∀ o k, stringBody rest = .error (o, k) → ∃ q, readString f (34 :: rest) start = .error ⟨q, k⟩) := by
  have h := readStringLoop_spec f rest (start + 1) (start + 1) hf
  constructor
  · intro len v hs
    rw [hs] at h; simp only at h
    simp [readString, h, makeToken]
  · intro o k hs
    rw [hs] at h; simp only at h
    obtain ⟨q, hq, -⟩ := h
    exact ⟨q, by simp [readString, hq]⟩

/-- `Spec.stringBody` is exactly the `StringValue` production with its semantic values (`StrChars`, the derivation
relation in GqlModel/LexerGrammar.lean): it accepts `body"…` with value `v` iff `body` derives `StringCharacter*`
with value `v`. Together with `string_value_spec`: a STRING token's value is the grammar's semantic value. -/
theorem stringBody_iff_grammar (bs : Bytes) (len : Nat) (v : Bytes) :
    stringBody bs = .ok (len, v) ↔ ∃ body rest, bs = body ++ 34 :: rest ∧ len = body.length + 1 ∧ StrChars body v := by
  constructor
  · exact stringBody_sound _ bs (Nat.le_refl _) len v
  · rintro ⟨body, rest, rfl, rfl, hd⟩
    exact stringBody_complete hd rest

/-- …hence, for the real reader: `readString` on `"` body `"` rest returns value `v` whenever `body` derives
`StringCharacter*` with value `v`. -/
theorem string_value_grammar (f : Nat) (body rest v : Bytes) (start : Nat) (hf : (body ++ 34 :: rest).length < f)
    (hd : StrChars body v) :
    readString f (34 :: (body ++ 34 :: rest)) start = .ok ⟨.string, start, start + 1 + (body.length + 1), v⟩ :=
  (string_value_spec f (body ++ 34 :: rest) start hf).1 _ _ (stringBody_complete hd rest)

/-- **unquote ∘ quote = id**: for every byte string `s` and every continuation `rest`, reading the GraphQL-quoted
rendering of `s` (`quoteString`, printer.go:128) yields exactly `s` and stops exactly at `rest`. -/
theorem unquote_quote (s rest : Bytes) (start f : Nat) (hf : (quoteString s ++ rest).length ≤ f) :
    readString f (quoteString s ++ rest) start = .ok ⟨.string, start, start + (quoteString s).length, s⟩ := by
  have e : quoteString s ++ rest = 34 :: (quoteBody s ++ 34 :: rest) := by simp [quoteString]
  rw [e] at hf ⊢
  have := (string_value_spec f (quoteBody s ++ 34 :: rest) start (by simp at hf ⊢; omega)).1 _ _ (stringBody_quoteBody s rest)
  rw [this]
  simp [quoteString]; omega

/-- …and as a token: `readToken` positioned at the quoted rendering returns the STRING token with value `s`
(when `s` is empty the continuation must not start with a quote, or `"""` would open a block string). -/
theorem unquote_quote_token (s rest : Bytes) (p rp f : Nat) (hf : (quoteString s ++ rest).length < f)
    (h : s = [] → rest.head? ≠ some 34) :
    readTokenAt f (quoteString s ++ rest) p rp = .ok ⟨.string, p, p + (quoteString s).length, s⟩ := by
  have e : quoteString s ++ rest = 34 :: (quoteBody s ++ 34 :: rest) := by simp [quoteString]
  rw [e] at hf ⊢
  have hspec := readTokenAt_spec f 34 (quoteBody s ++ 34 :: rest) p rp hf
  have hnb : ¬ ((quoteBody s ++ 34 :: rest).head? = some 34 ∧ ((quoteBody s ++ 34 :: rest).drop 1).head? = some 34) := by
    match s with
    | [] => simpa [quoteBody] using h rfl
    | b :: bs =>
      obtain ⟨x, xs, hx, hne⟩ := quoteByte_head b
      simp [quoteBody, hx, hne]
  rw [token_quote, if_neg hnb, stringBody_quoteBody] at hspec
  simp only [reduceCtorEq, if_false] at hspec
  rw [hspec]
  simp [quoteString, makeToken]

example : quoteString [104, 34, 7, 127, 200, 10] = [34, 104, 92, 34, 92, 117, 48, 48, 48, 55, 92, 117, 48, 48, 55, 70, 200, 92, 110, 34] := by
  decide +kernel

/-! ## Block strings -/

/-- `blockStringValue` (lexer.go:381) IS the spec's `BlockStringValue()`: lines split at LF, CR LF and CR, common
indentation of all lines but the first removed, leading and trailing blank lines dropped, joined with LF. -/
theorem blockString_spec (raw : Bytes) : Lexer.blockStringValue raw = Spec.blockStringValue raw :=
  blockStringValue_eq raw

/-- A BLOCK_STRING token's value is `BlockStringValue()` of the raw text between the triple quotes with `\"""`
read as `"""`; its extent is the whole lexeme; malformed block strings are rejected at the same site. -/
theorem blockString_token_spec (f : Nat) (rest : Bytes) (start : Nat) (hf : rest.length < f) :
    (∀ len raw, blockBody rest = .ok (len, raw) →
      readBlockString f (34 :: 34 :: 34 :: rest) start = .ok ⟨.blockString, start, start + 3 + len, Spec.blockStringValue raw⟩) ∧
    (∀ o k, blockBody rest = .error (o, k) → ∃ q, readBlockString f (34 :: 34 :: 34 :: rest) start = .error ⟨q, k⟩) := by
  have h := readBlockLoop_spec f rest (start + 3) (start + 3) hf
  constructor
  · intro len raw hs
    rw [hs] at h; simp only at h
    simp [readBlockString, h, makeToken, blockStringValue_eq]
  · intro o k hs
    rw [hs] at h; simp only at h
    obtain ⟨q, hq, -⟩ := h
    exact ⟨q, by simp [readBlockString, hq]⟩

/-- CR, LF and CRLF each end one line; `"\n    a\r\n      b\r    c\n  "` is `a`, `  b`, `c` -/
example : Spec.blockStringValue [10, 32, 32, 32, 32, 97, 13, 10, 32, 32, 32, 32, 32, 32, 98, 13, 32, 32, 32, 32, 99, 10, 32, 32] =
    [97, 10, 32, 32, 98, 10, 99] := by decide +kernel
/-- the first line keeps its indentation and its content: `"  abc\n  b"` -/
example : Lexer.blockStringValue [32, 32, 97, 98, 99, 10, 32, 32, 98] = [32, 32, 97, 98, 99, 10, 98] := by decide +kernel

/-! ## Numbers -/

/-- A number token is cut by maximal munch: its value is the scanned lexeme, and the byte that follows cannot
continue it — it is not a digit, and after an Int it is none of `.`, `e`, `E` (those commit the lexer to a
fraction / exponent: `1.`, `1e`, `01` are errors, never `1` followed by something). -/
theorem number_maximal_munch (f : Nat) (rest : Bytes) (p : Nat) (hf : rest.length < f) (t : LTok)
    (h : readNumber f rest p (runeAt rest).1 (runeAt rest).2 = .ok t) :
    t.start = p ∧ p < t.stop ∧ t.value = rest.take (t.stop - p) ∧ (t.kind = .int ∨ t.kind = .float) ∧
    ∀ d, (rest.drop (t.stop - p)).head? = some d →
      ¬ isDigitByte d ∧ (t.kind = .int → d ≠ 46 ∧ d ≠ 69 ∧ d ≠ 101) := by
  rw [readNumber_spec f rest p hf] at h
  match hn : number rest with
  | .error (o, e) => rw [hn] at h; simp at h
  | .ok (k, len) =>
    rw [hn] at h; simp only [Except.ok.injEq] at h
    subst h
    have hb := number_bound rest
    rw [hn] at hb; simp only at hb
    have e : p + len - p = len := by omega
    refine ⟨rfl, ?_, ?_, number_kind hn, ?_⟩
    · show p < p + len; omega
    · show rest.take len = rest.take (p + len - p); rw [e]
    · intro d hd
      have hd' : (rest.drop len).head? = some d := by
        have : (makeToken k p (p + len) (rest.take len)).stop - p = len := e
        rw [this] at hd; exact hd
      exact number_follow hn d hd'

/-- The lexeme of an INT token is an IntValue, the lexeme of a FLOAT token a FloatValue of the grammar
(`IsIntValue` / `IsFloatValue`: the productions IntegerPart, FractionalPart, ExponentPart as predicates on complete
lexemes, GqlModel/LexerGrammar.lean). -/
theorem number_token_grammar (f : Nat) (rest : Bytes) (p : Nat) (hf : rest.length < f) (t : LTok)
    (h : readNumber f rest p (runeAt rest).1 (runeAt rest).2 = .ok t) :
    (t.kind = .int ∧ IsIntValue t.value) ∨ (t.kind = .float ∧ IsFloatValue t.value) := by
  rw [readNumber_spec f rest p hf] at h
  match hn : number rest with
  | .error (o, e) => rw [hn] at h; simp at h
  | .ok (k, len) =>
    rw [hn] at h; simp only [Except.ok.injEq] at h
    subst h
    exact number_sound hn

/-- what the library does with the edge forms (checked against the real lexer by the harness as well) -/
example : (lexAll [49, 46]).err = some ⟨2, .expectedDigit⟩ ∧ (lexAll [49, 101]).err = some ⟨2, .expectedDigit⟩ ∧
    (lexAll [48, 49]).err = some ⟨1, .digitAfterZero⟩ ∧ (lexAll [45]).err = some ⟨1, .expectedDigit⟩ ∧
    (lexAll [49, 97]).tokens.map (·.kind) = [.int, .name, .eof] ∧ (lexAll [48, 120]).tokens.map (·.kind) = [.int, .name, .eof] := by
  decide +kernel

/-! ## Punctuators -/

/-- Each of the thirteen one-byte punctuators is a token of its own kind, one byte long, whatever follows. -/
theorem punctuator_tokens (c : UInt8) (k : TokenKind) (h : punctuatorByte c = some k) (f : Nat) (r : Bytes) (p rp : Nat)
    (hf : (c :: r).length < f) : readTokenAt f (c :: r) p rp = .ok ⟨k, p, p + 1, []⟩ := by
  have hctl : ¬ isCtrl c := by
    intro hc
    have hlt : c.toNat < 32 := hc.1
    have : punctuatorByte c = none := by
      unfold punctuatorByte
      rw [if_neg (by bnorm; omega), if_neg (by bnorm; omega), if_neg (by bnorm; omega), if_neg (by bnorm; omega),
        if_neg (by bnorm; omega), if_neg (by bnorm; omega), if_neg (by bnorm; omega), if_neg (by bnorm; omega),
        if_neg (by bnorm; omega), if_neg (by bnorm; omega), if_neg (by bnorm; omega), if_neg (by bnorm; omega),
        if_neg (by bnorm; omega)]
    rw [this] at h; cases h
  have hs := readTokenAt_spec f c r p rp hf
  rw [token_punct c r hctl h] at hs
  simp only [punctuatorByte_ne_name h, if_false] at hs
  exact hs

/-- `...` is the SPREAD token (three bytes). -/
theorem spread_token (f : Nat) (r : Bytes) (p rp : Nat) (hf : (46 :: 46 :: 46 :: r).length < f) :
    readTokenAt f (46 :: 46 :: 46 :: r) p rp = .ok ⟨.spread, p, p + 3, []⟩ := by
  have hs := readTokenAt_spec f 46 (46 :: 46 :: r) p rp hf
  rw [token_dot] at hs
  simpa [makeToken] using hs

/-- the punctuator table: exactly these bytes, with the kinds of lexer.go's `TokenKind` constants -/
theorem punctuator_table :
    (List.range 256).filterMap (fun n => (punctuatorByte (UInt8.ofNat n)).map (fun k => (n, k))) =
      [(33, .bang), (36, .dollar), (38, .amp), (40, .parenL), (41, .parenR), (58, .colon), (61, .equals), (64, .at),
       (91, .bracketL), (93, .bracketR), (123, .braceL), (124, .pipe), (125, .braceR)] := by
  decide +kernel

/-! ## Start/End delimit the lexeme

Full statement (false on the pinned tree for NAME tokens after a multi-byte Ignored gap, D-03a): for every non-EOF token
`t` of `lexAll bytes`, lexing `bytes[t.start, t.stop)` on its own yields exactly that token (at offset 0) and EOF. -/

theorem token_delimits_lexeme_partial (bytes : Bytes) (h : nameAfterMultibyteIgnored bytes = false) (t : LTok)
    (ht : t ∈ (lexAll bytes).tokens) (hk : t.kind ≠ .eof) :
    lexAll ((bytes.drop t.start).take (t.stop - t.start)) =
      ⟨[⟨t.kind, 0, t.stop - t.start, t.value⟩, ⟨.eof, t.stop - t.start, t.stop - t.start, []⟩], none⟩ := by
  rw [(model_eq_spec_asciiIgnored_partial bytes h).1] at ht
  simp only [Spec.lexAll, List.mem_map] at ht
  obtain ⟨gt, hgt, rfl⟩ := ht
  obtain ⟨-, c, r, hd, htk⟩ := lexLoopG_mem _ bytes 0 gt hgt hk
  simp only [Nat.sub_zero] at hd
  rw [hd]
  have hb := token_bound c r
  rw [htk] at hb; simp only [TokOk_ok] at hb
  have hlen : ((c :: r).take (gt.2.stop - gt.2.start)).length = gt.2.stop - gt.2.start := by
    rw [List.length_take]; omega
  have htl : token ((c :: r).take (gt.2.stop - gt.2.start)) =
      .ok (gt.2.kind, ((c :: r).take (gt.2.stop - gt.2.start)).length, gt.2.value) := by
    rw [hlen]; exact token_take c r htk
  have hG := lexAllG_lexeme _ htl
  have h1 : nameAfterMultibyteIgnored ((c :: r).take (gt.2.stop - gt.2.start)) = false := by
    simp [nameAfterMultibyteIgnored, hG]
  have h2 : errorAfterMultibyte ((c :: r).take (gt.2.stop - gt.2.start)) = false := by
    simp [errorAfterMultibyte, hG]
  rw [model_eq_spec_partial _ h1 h2]
  simp only [Spec.lexAll, hG, hlen, List.map_cons, List.map_nil, Option.map_none, makeToken]

/-- the witness again: in `{ a #é\n bc }` the extent [8,10) of the second NAME is ` b`, not `bc` -/
example : (lexAll ((witnessD03a.drop 8).take 2)).tokens.map (fun t => (t.kind, t.value)) = [(.name, [98]), (.eof, [])] := by
  decide +kernel

end GqlModel.Lexer
