import GqlProofs.Cost
import GqlProofs.CostSize
import GqlProofs.CostWeight
import GqlProofs.OverlapCost
import GqlProofs.GraphCost
import GqlProofs.VisitorCount
import GqlProofs.PossibleCost
import Props.C14
/-! # C19 — Planning work is polynomial in document size (plan sites)

Property theorems only. `M` = `GqlModel.Cost`: the planner of /repo/plan.go with the two `verif` step counters
threaded through (`collect` = calls of `collectInto`, `pms` = calls of `planMergedSelectionsForType`); the
harness compares both counters with the real library on scaled families (`go_count == M_count`).
The counters of the overlap rule (validation) are modelled by worker c02b in `GqlModel/Validate/Overlap.lean` (imported,
not duplicated); the section "Validation" below proves the closed bound `overlap_cost_poly` on top of that model, and
the harness compares all three validation counters of the real rule with it on every case.

All statements hold for every schema, every document (also unvalidated: cyclic fragments, unknown names,
duplicate fragment names), every operation name, every variable assignment and every world.

FULL STATEMENT of the property ("the work done to validate and to plan a document grows at most polynomially …
does not grow with the number of object types an abstract field could resolve to nor exponentially with nesting
depth or with the number of fragments that spread one another. Executing a request plans only the runtime types
actually encountered"): for the PLAN sites it is the conjunction of the plan theorems below; the VALIDATION part
is `overlap_cost_poly` / `overlap_cost_quartic` (calls of `findConflict` ≤ 5·N⁴, every factor a syntactic size) together
with c02b's memo-body bounds; that the growth is in practice quadratic is measured (fitted exponent), not proved.
The REST of validation: the five graph rules and the `ValidationContext` helpers are bounded in the section "graph rules"
(`graph_rules_work_cached`: ≤ 4N + O·(6 + 3F + S + 4U) + cycles), the visitor-driven local rules in
`local_rules_callbacks` (≤ 2·nodes·24 callbacks in one traversal). Not counted anywhere: the work inside a callback and
the construction of error values (linear in the source length per reported location). -/
namespace GqlModel.Cost

/-- number of `collectInto` calls `PlanQuery` can make: the operation's own selection set, the inline fragments
directly inside it, and every fragment definition once (body + its inline fragments). Fields are NOT descended,
the schema does not occur. -/
def topLevelSize (s : Schema) (doc : Document) (opName : String) : Nat :=
  match selectOp s doc opName with
  | .ok (_, ss) => 1 + inlSet ss + fragsSize (fragTable doc)
  | .error _ => 0

/-- T1. `PlanQuery` itself is linear in the operation's top-level selection: its `collectInto` calls are bounded by
the selection sets reachable at the ROOT level through inline fragments and spreads, each fragment counted once;
it never calls `planMergedSelectionsForType`. The bound does not mention nesting depth below the root, the number
of implementers, or how fragments spread each other below the root. -/
theorem planQuery_cost_le_top_level_size (s : Schema) (doc : Document) (opName : String) :
    (planCost s doc opName).collect ≤ topLevelSize s doc opName ∧ (planCost s doc opName).pms = 0 := by
  unfold planCost topLevelSize
  cases h : selectOp s doc opName with
  | error e => simp
  | ok p =>
    obtain ⟨root, ss⟩ := p
    simp only
    split
    · simp
    · refine ⟨?_, rfl⟩
      have := collectTop_collect_le (Env.ctx ⟨s, fragTable doc, none⟩ root) [] ss
      simpa [rootPlan, Env.ctx] using this

/-! ### the top-level size is at most the number of selection sets written in the document -/

/-- T1 (corollary). The bound of `planQuery_cost_le_top_level_size` is at most the number of selection sets
written in the document: `PlanQuery` is linear in the document size. -/
theorem topLevelSize_le_docSets (s : Schema) (doc : Document) (opName : String) :
    topLevelSize s doc opName ≤ docSets doc := by
  unfold topLevelSize
  cases h : selectOp s doc opName with
  | error e => simp
  | ok p =>
    obtain ⟨root, ss⟩ := p
    simp only
    have hf := fragsSize_le doc
    have hss : setsSet ss ≤ opSets doc.defs := by
      unfold selectOp at h
      cases hl : selectOpLoop opName doc.defs none with
      | error e => simp [hl] at h
      | ok r =>
        cases r with
        | none => simp [hl] at h
        | some q =>
          obtain ⟨op, ss'⟩ := q
          simp only [hl] at h
          split at h
          · rename_i r hr
            cases h
            rcases selectOpLoop_sets opName doc.defs none op ss hl with h1 | h1
            · cases h1
            · exact h1
          · cases h
    have := inlSet_le ss
    simp only [docSets] at *
    omega

/-- T1. Adding object types — in particular further implementers of the interfaces a document mentions — to a
schema does not change the counters of `PlanQuery` (nothing is expanded per possible type at plan time).
`extra` may implement any interfaces; its names must not be root operation types. -/
theorem plan_cost_indep_of_possible_types (s : Schema) (extra : List TypeDef) (doc : Document) (opName : String)
    (hobj : ∀ t ∈ extra, isObjectDef t = true)
    (hroot : ∀ t ∈ extra, ∀ op, s.rootFor op ≠ some t.name) :
    planCost (extend s extra) doc opName = planCost s doc opName := by
  unfold planCost
  rw [selectOp_extend]
  cases h : selectOp s doc opName with
  | error e => rfl
  | ok p =>
    obtain ⟨root, ss⟩ := p
    simp only
    split
    · rfl
    · have hr : ∀ t ∈ extra, t.name ≠ root := by
        intro t ht heq
        unfold selectOp at h
        cases hl : selectOpLoop opName doc.defs none with
        | error e => simp [hl] at h
        | ok r =>
          cases r with
          | none => simp [hl] at h
          | some q =>
            obtain ⟨op, ss'⟩ := q
            simp only [hl] at h
            split at h
            · rename_i r hr
              cases h
              exact hroot t ht _ (by rw [hr, heq])
            · cases h
      simp only [rootPlan, ctx_extend s extra hobj root hr]

/-- T1. Lazy planning: every entry of the plan's `abstractAlternatives` memo tables after an execution belongs to a
(field plan, runtime type) pair that the execution actually completed — no type is planned because it is merely
POSSIBLE. -/
theorem lazy_plans_only_encountered_types (s : Schema) (doc : Document) (opName : String) (vars : Vars) (world : World)
    (root : String) (ss : SelectionSet) (hop : selectOp s doc opName = .ok (root, ss)) :
    let e : Env := ⟨s, fragTable doc, if docDynamic doc then some vars else none⟩
    ∀ en ∈ (execPlan s doc opName vars world).log,
      en.id ∈ completedW e (rootPlan e root ss).fields [] world := by
  intro e en hen
  simp only [execPlan, hop] at hen
  rcases execW_mem e world _ _ _ en hen with h | h
  · simp at h
  · exact h

/-- T1. The visited set: within one `planMergedSelectionsForType` call (and within the root collection) the body
of each named fragment is entered at most once, however often and wherever it is spread. -/
theorem collect_visits_each_fragment_once_per_set (c : Ctx) (subs : List (SelectionSet × Chain)) :
    (planMerged c subs {}).entered.Nodup :=
  (planMerged_ent c subs {} ⟨List.nodup_nil, fun _ h => by simp at h⟩).1

/-- T1. Total planning work of a request (PlanQuery + everything planned lazily while executing):
* `collect` = root collection + Σ over the memo entries of their cost, and each entry costs at most the size of
  ONE level of its merged sub-selection (`levelSize`: the merged sets, their inline fragments, each fragment once);
* `pms` = number of memo entries;
* memo entries are pairwise different (field plan, runtime type) pairs, all of them actually completed — so there
  are at most as many as completions in the world.
Hence work ≤ topLevelSize + Σ_{distinct completed (field plan, runtime type)} levelSize: polynomial (linear × linear)
in document size and data size, independent of the number of possible types. -/
theorem plan_work_le_completed_positions (s : Schema) (doc : Document) (opName : String) (vars : Vars) (world : World) :
    let r := execPlan s doc opName vars world
    r.counts.collect ≤ topLevelSize s doc opName +
        (r.log.map (fun en => (en.subs.map (fun ss => 1 + inlSet ss.1)).sum + fragsSize (fragTable doc))).sum ∧
    r.counts.pms = r.log.length ∧
    (r.log.map (·.id)).Nodup ∧
    r.log.length ≤ world.size := by
  intro r
  unfold topLevelSize
  simp only [r, execPlan]
  cases hop : selectOp s doc opName with
  | error e => simp
  | ok p =>
    obtain ⟨root, ss⟩ := p
    simp only
    generalize he : (⟨s, fragTable doc, if docDynamic doc then some vars else none⟩ : Env) = e
    have hfr : e.frags = fragTable doc := by rw [← he]
    have hok := execW_ok e world (rootPlan e root ss).fields [] {} ⟨List.nodup_nil, fun _ h => by simp at h, rfl⟩
    have hroot : (rootPlan e root ss).collect ≤ 1 + inlSet ss + fragsSize (fragTable doc) := by
      have := collectTop_collect_le (e.ctx root) [] ss
      simpa [rootPlan, Env.ctx, hfr] using this
    refine ⟨?_, by first | rfl | trivial, hok.1, ?_⟩
    · have hsum : ∀ (log : List Entry), (∀ en ∈ log, EntryOK e.frags en) →
          logCollect log ≤ (log.map (fun en => (en.subs.map (fun ss => 1 + inlSet ss.1)).sum + fragsSize (fragTable doc))).sum := by
        intro log
        induction log with
        | nil => intro _; simp [logCollect]
        | cons en rest ih =>
          intro h
          have h1 := (h en (List.mem_cons_self ..)).1
          have h2 := ih (fun x hx => h x (List.mem_cons_of_mem _ hx))
          simp only [logCollect, List.map_cons, List.sum_cons, hfr] at *
          omega
      have := hsum _ hok.2.1
      omega
    · -- distinct ids, all among the completed positions
      have hsub : (List.map (·.id) (execW e (rootPlan e root ss).fields [] world {}).log) ⊆
          completedW e (rootPlan e root ss).fields [] world := by
        intro id hid
        obtain ⟨en, hen, rfl⟩ := List.mem_map.1 hid
        rcases execW_mem e world _ _ _ en hen with h | h
        · simp at h
        · exact h
      have h1 := List.Nodup.length_le_of_subset hok.1 hsub
      have h2 := completedW_length e world (rootPlan e root ss).fields []
      simp only [List.length_map] at h1
      omega

/-- T1 `merged_asts_counted_once`. In ONE `planMergedSelectionsForType` every field node is appended to exactly one group and
every selection set is entered at most once (inline fragments syntactically, fragment bodies by the visited set), so
the merged field ASTs of ALL groups together number at most the field nodes written directly in the collected sets plus
those written directly in the fragment definitions — whatever the spread graph. (A counting argument: no node identity
is needed.) -/
theorem merged_asts_counted_once (c : Ctx) (subs : List (SelectionSet × Chain)) :
    astCount (planMerged c subs {}).fields ≤
      (subs.map (fun s => bSet (fun _ => 1) s.1)).sum + potential (fun f => bSet (fun _ => 1) f.2.2) c.frags [] :=
  planMerged_astCount c subs

/-- the depth bound of `exec_depth_bounded_by_selection` (Props/C09) as a function of the request -/
def depthBound (doc : Document) (ss : SelectionSet) : Nat :=
  1 + depthSet ss + (maxBodyDepth (fragTable doc) + 1) * (fragTable doc).length

/-- T2 `plan_cost_linear_in_expanded_selection`. The selection sets merged into the sub-selections of one level are
selection sets of the document, counted once per level: `fieldsW` (sets at or below the merged sub-selections) grows
by at most the fragment definitions' sets per level of descent (`planMerged_fieldsW`). Hence a lazily planned
sub-selection at response path `p` costs at most `sets(operation) + (|p| + 1) · sets(fragments)` collectInto calls —
linear in the document for every position — and the whole request

    collect ≤ topLevelSize + #planned positions · (depthBound + 1) · docSets,   #planned positions ≤ completions in the data,

i.e. linear in the size of the expanded selection actually completed (document size × expansion depth × completions).
`depthBound = 1 + depth(operation) + (deepest fragment body + 1) · #fragments` bounds |p| for EVERY document: for
fragment-acyclic documents the expansion is finite anyway and the chain guard never fires; on cyclic (unvalidated)
documents the guard cuts the expansion below a fragment's own body, which is what keeps |p|, and with it this
bound, polynomial (≤ docSets³-ish per position) instead of data-dependent. -/
theorem plan_cost_linear_in_expanded_selection (s : Schema) (doc : Document) (opName : String) (vars : Vars)
    (world : World) (root : String) (ss : SelectionSet) (hop : selectOp s doc opName = .ok (root, ss)) :
    let r := execPlan s doc opName vars world
    (∀ en ∈ r.log, en.cost ≤ setsSet ss + (en.id.length + 1) * fragSets doc.defs ∧ en.id.length ≤ depthBound doc ss) ∧
    r.counts.collect ≤ topLevelSize s doc opName + r.log.length * ((depthBound doc ss + 1) * docSets doc) ∧
    r.log.length ≤ world.size := by
  intro r
  have hwork := plan_work_le_completed_positions s doc opName vars world
  simp only [r, execPlan, hop] at hwork ⊢
  generalize he : (⟨s, fragTable doc, if docDynamic doc then some vars else none⟩ : Env) = e at hwork ⊢
  have hfr : e.frags = fragTable doc := by rw [← he]
  have hFS := fragSetsTbl_le doc
  have hop' := selectOp_sets s doc opName root ss hop
  have hroot := rootPlan_fieldsW e root ss
  -- per entry
  have hcost := execW_cost e (setsSet ss + fragSetsTbl e.frags) world (rootPlan e root ss).fields [] {}
    (by simp only [List.length_nil, Nat.zero_mul]; omega) (fun _ h => by simp at h)
  have hdepth := log_depth_le e root ss world
  have hentry : ∀ en ∈ (execW e (rootPlan e root ss).fields [] world {}).log,
      en.cost ≤ setsSet ss + (en.id.length + 1) * fragSets doc.defs ∧ en.id.length ≤ depthBound doc ss := by
    intro en hen
    have h1 := hcost en hen
    have h2 := hdepth en hen
    rw [hfr] at h1 h2
    refine ⟨?_, by simpa [depthBound] using h2⟩
    have hm : en.id.length * fragSetsTbl (fragTable doc) ≤ en.id.length * fragSets doc.defs :=
      Nat.mul_le_mul_left _ hFS
    rw [Nat.succ_mul]
    omega
  refine ⟨hentry, ?_, hwork.2.2.2⟩
  -- total
  have hsum : ∀ (log : List Entry), (∀ en ∈ log, en.cost ≤ setsSet ss + (en.id.length + 1) * fragSets doc.defs ∧
      en.id.length ≤ depthBound doc ss) → logCollect log ≤ log.length * ((depthBound doc ss + 1) * docSets doc) := by
    intro log
    induction log with
    | nil => intro _; simp [logCollect]
    | cons en rest ih =>
      intro h
      have h1 := h en (List.mem_cons_self ..)
      have h2 := ih (fun x hx => h x (List.mem_cons_of_mem _ hx))
      have hb : setsSet ss + (en.id.length + 1) * fragSets doc.defs ≤ (depthBound doc ss + 1) * docSets doc := by
        have a1 : (en.id.length + 1) * fragSets doc.defs ≤ (depthBound doc ss + 1) * fragSets doc.defs :=
          Nat.mul_le_mul_right _ (by omega)
        have a2 : opSets doc.defs ≤ (depthBound doc ss + 1) * opSets doc.defs := Nat.le_mul_of_pos_left _ (by omega)
        have a3 : (depthBound doc ss + 1) * docSets doc =
            (depthBound doc ss + 1) * opSets doc.defs + (depthBound doc ss + 1) * fragSets doc.defs := by
          simp only [docSets, Nat.mul_add]
        omega
      simp only [logCollect, List.map_cons, List.sum_cons, List.length_cons, Nat.succ_mul] at *
      omega
  have hroot2 : (rootPlan e root ss).collect ≤ topLevelSize s doc opName := by
    have := collectTop_collect_le (e.ctx root) [] ss
    simp only [topLevelSize, hop]
    simpa [rootPlan, Env.ctx, hfr] using this
  have := hsum _ hentry
  omega

/-- C09 T1 (stated here because it is about this model; re-exported by `Props/C09.lean`):
the plan-time collection terminates on ARBITRARY fragment tables — cyclic, with duplicate or unknown names —
within the fuel `number of fragment definitions + 1`: the model's out-of-fuel flag is never raised, neither by
`PlanQuery` nor by any lazily planned sub-selection of any execution. -/
theorem plan_never_out_of_fuel (s : Schema) (doc : Document) (opName : String) (vars : Vars) (world : World) :
    (execPlan s doc opName vars world).oof = false := by
  simp only [execPlan]
  cases hop : selectOp s doc opName with
  | error e => rfl
  | ok p =>
    obtain ⟨root, ss⟩ := p
    simp only
    generalize (⟨s, fragTable doc, if docDynamic doc then some vars else none⟩ : Env) = e
    have hok := execW_ok e world (rootPlan e root ss).fields [] {} ⟨List.nodup_nil, fun _ h => by simp at h, rfl⟩
    have h1 : (rootPlan e root ss).oof = false := by
      simp only [rootPlan]; rw [collectTop_oof]
    rw [h1, hok.2.2]; rfl

end GqlModel.Cost

/-! ## Validation: a closed polynomial bound on the work of OverlappingFieldsCanBeMerged

`GqlModel.Validate.Overlap.overlapM` is worker c02b's model of the memoised rule, with the counters of the three `verif`
sites: `nFC` (`findConflict`), `cntFF` (`collectConflictsBetweenFieldsAndFragment` bodies), `cntBF`
(`collectConflictsBetweenFragments` bodies). c02b's `memo_body_at_most_once` (Props/C02Graph) bounds `cntFF ≤ 2·S·Fn` and
`cntBF ≤ 2·F²`; the theorems below close the gap to the TOTAL work. -/
namespace GqlModel.Validate.Overlap
open GqlModel.Validate GqlModel.Validate.Graph

/-- T2 `overlap_cost_poly`, general form (any environment whose fragment table comes from the document, any list of
visited selection sets of the document, ANY fuel): the number of `findConflict` calls is at most
`Σ_{visited sets} fields(set)² + nFieldsDoc² · (2·nSets·nSpreadNames + 2·|fragment table|²)`. -/
theorem overlap_cost_poly_gen (d : Document) (e : Env) (hloc : locsDistinct d = true)
    (hT : ∀ f, f ∈ e.tbl → f.sel ∈ allSets d) (fuel : Nat)
    (sets : List (TCtx × SelectionSet)) (hsets : ∀ cs, cs ∈ sets → cs.2 ∈ allSets d) :
    (overlapRun e fuel sets).1.nFC ≤
      nFieldsDoc d * nFieldsDoc d * (sets.length + 2 * (nSets d * nSpreadNames d) + 2 * (e.tbl.length * e.tbl.length)) := by
  have h := overlapRun_cost (d := d) (e := e) hloc hT fuel sets hsets
  have hs := sum_sq_le sets (nFieldsDoc d) (fun cs hcs => fieldsSet_le_doc (hsets cs hcs))
  have hinit : phi d e OState.init =
      nFieldsDoc d * nFieldsDoc d * (2 * (nSets d * nSpreadNames d) + 2 * (e.tbl.length * e.tbl.length)) := by
    simp only [phi, bodyBudget, remaining, OState.init, List.length_nil, Nat.sub_zero, Nat.zero_add,
      length_univFF, length_univBF]
  have hle : (overlapRun e fuel sets).1.nFC ≤ phi d e (overlapRun e fuel sets).1 := by
    simp only [phi]; omega
  rw [hinit] at h
  generalize nFieldsDoc d * nFieldsDoc d = K at *
  have e1 : K * (sets.length + 2 * (nSets d * nSpreadNames d) + 2 * (e.tbl.length * e.tbl.length)) =
      K * (2 * (nSets d * nSpreadNames d) + 2 * (e.tbl.length * e.tbl.length)) + sets.length * K := by
    rw [Nat.mul_comm sets.length K, ← Nat.mul_add]
    congr 1
    omega
  rw [e1]
  omega

/-- T2 `overlap_cost_poly`. For every schema and every document whose selection sets start at distinct bytes (true of
every parsed document; the drivers check it on every input), also an invalid one with cyclic fragments, the memoised
rule as run by `ValidateDocument` calls `findConflict` at most
`overlapBound d = nFieldsDoc² · (nSets + 2·nSets·nSpreadNames + 2·nFrags²)` times — every factor a syntactic size. -/
theorem overlap_cost_poly (s : Schema) (d : Document) (hloc : locsDistinct d = true) :
    (overlapM s d).1.nFC ≤ overlapBound d := by
  have h := overlap_cost_poly_gen d (envM s d) hloc (fragDefs_sel_sub d) (fuelFor d) (typedSelSets s d)
    (typedSelSets_sub s d)
  rw [length_typedSelSets] at h
  exact h

/-- T2 (corollary): at most `5 · N⁴` calls for `N = docSize d` = fields + selection sets + distinct spread names +
fragment definitions. (On the measured families the growth is at most quadratic in the document size.) -/
theorem overlap_cost_quartic (s : Schema) (d : Document) (hloc : locsDistinct d = true) :
    (overlapM s d).1.nFC ≤ 5 * docSize d ^ 4 := by
  have h := overlap_cost_poly s d hloc
  unfold overlapBound at h
  have hA : nFieldsDoc d ≤ docSize d := by unfold docSize; omega
  have hB : nSets d ≤ docSize d := by unfold docSize; omega
  have hC : nSpreadNames d ≤ docSize d := by unfold docSize; omega
  have hD : nFrags d ≤ docSize d := by unfold docSize; omega
  generalize docSize d = N at *
  have h1 : nFieldsDoc d * nFieldsDoc d ≤ N * N := Nat.mul_le_mul hA hA
  have h2 : nSets d * nSpreadNames d ≤ N * N := Nat.mul_le_mul hB hC
  have h3 : nFrags d * nFrags d ≤ N * N := Nat.mul_le_mul hD hD
  have h4 : nSets d ≤ N * N := Nat.le_trans hB (Nat.le_mul_self N)
  have h5 : nSets d + 2 * (nSets d * nSpreadNames d) + 2 * (nFrags d * nFrags d) ≤ 5 * (N * N) := by omega
  have h6 := Nat.mul_le_mul h1 h5
  have e : N ^ 4 = N * N * (N * N) := by
    simp [Nat.pow_succ, Nat.mul_assoc]
  rw [e]
  have e2 : N * N * (5 * (N * N)) = 5 * (N * N * (N * N)) := by
    rw [Nat.mul_left_comm]
  omega

/-- the other two validation counters, restated from c02b's `memo_body_at_most_once` (no new proof) -/
theorem overlap_memo_bodies (s : Schema) (d : Document) :
    (overlapM s d).1.cntFF ≤ 2 * (nSets d * nSpreadNames d) ∧ (overlapM s d).1.cntBF ≤ 2 * (nFrags d * nFrags d) := by
  have h := overlapRun_inv (d := d) (e := envM s d) (fragDefs_sel_sub d) (fuelFor d) (typedSelSets s d)
    (typedSelSets_sub s d)
  exact h.counts

end GqlModel.Validate.Overlap

/-! ## Validation: the graph rules and the `ValidationContext` helpers

Model: worker c02b's `GqlModel.Validate.Graph` (`fragmentSpreads`, `recursivelyReferenced`, `detect`/`cycleRun`,
`varUsagesOp/Frag`, `recursiveUsages`, the five rules). `GqlModel/GraphCost.lean` adds instrumented twins of the three loop
algorithms (same code + a step counter) and the work of the rules as a function of the step counts.
Unit of work: one iteration of a Go loop body / one visitor callback. -/
namespace GqlModel.Validate.Graph
open GqlModel.Validate

/-- T1. The instrumented twins ARE the modelled algorithms: erasing the counters gives back c02b's functions (whose
agreement with /repo is checked by C02's correspondence). -/
theorem step_counters_erase (tbl : List Frag) (fsCost : SelectionSet → Nat) :
    (∀ fuel stk acc n, (fsLoopC fuel stk acc n).1 = fsLoop fuel stk acc) ∧
    (∀ fuel stk col frs n, (rrfLoopC tbl fsCost fuel stk col frs n).1 = rrfLoop tbl fuel stk col frs) ∧
    (∀ fuel f sc, (detectC tbl fuel f sc).1 = detect tbl fuel f sc.1) ∧
    (cycleRunC tbl).1 = cycleRun tbl :=
  ⟨fsLoopC_erase, rrfLoopC_erase tbl fsCost, detectC_erase tbl, cycleRunC_erase tbl⟩

/-- T1 `FragmentSpreads(ss)`, computed from scratch, pops every selection set at or below `ss` exactly once and scans
every selection exactly once; it returns one entry per spread node. -/
theorem fragmentSpreads_steps (ss : SelectionSet) :
    fsSteps ss = setsSet ss + selsSet ss ∧ fsSteps ss ≤ nodesSet ss ∧ (fragmentSpreads ss).length = nSpreadsSet ss :=
  ⟨fsSteps_eq ss, fsSteps_le_nodes ss, fragmentSpreads_length ss⟩

/-- T1 `RecursivelyReferencedFragments(op)` (whatever a `FragmentSpreads` request costs, `fsCost`): the operation's
selection set and the selection set of every fragment it returns are popped exactly once; the returned fragments
are definitions of the table with pairwise different names — at most one per definition, on ANY spread graph
(cycles, duplicate names, undefined names). `collectedNames` is what guarantees it. -/
theorem recursivelyReferenced_steps (tbl : List Frag) (fsCost : SelectionSet → Nat) (opSel : SelectionSet) :
    rrfSteps tbl fsCost opSel =
      popCost fsCost opSel + popSum fsCost ((recursivelyReferenced tbl opSel).map (·.sel)) ∧
    (recursivelyReferenced tbl opSel).length ≤ tbl.length ∧
    (∀ f, f ∈ recursivelyReferenced tbl opSel → f ∈ tbl) ∧
    ((recursivelyReferenced tbl opSel).map (·.name.value)).Nodup :=
  rrfSteps_eq tbl fsCost opSel

/-- T1 NoFragmentCycles: at most one `detectCycleRecursive` call per fragment definition (`visitedFrags`), at most
`maxSpreads` loop iterations per call, and every reported cycle copies a path no longer than the recursion is deep:
calls ≤ F, iterations ≤ F·S, copied path entries ≤ F·S·(F+2). -/
theorem cycle_detection_steps (tbl : List Frag) :
    (cycleRunC tbl).2.calls ≤ tbl.length ∧
    (cycleRunC tbl).2.iters ≤ tbl.length * maxSpreads tbl ∧
    (cycleRunC tbl).2.errLen ≤ tbl.length * maxSpreads tbl * (tbl.length + 2) := by
  obtain ⟨h1, h2, h3⟩ := cycleRunC_le tbl
  have a2 : (cycleRunC tbl).2.iters ≤ tbl.length * maxSpreads tbl :=
    Nat.le_trans h2 (Nat.mul_le_mul_right _ h1)
  exact ⟨h1, a2, Nat.le_trans h3 (Nat.mul_le_mul_right _ a2)⟩

/-- T2 `graph_rules_work_uncached`: the five graph rules WITHOUT the four caches of `ValidationContext` — every rule
re-traverses, for every operation, the operation and its whole fragment closure:
work ≤ `O·(4 + 4F + 21N)` + cycles, `O` operations, `F` fragment definitions, `N = docNodes` AST nodes. -/
theorem graph_rules_work_uncached (s : Schema) (d : Document) :
    graphWorkUncached s d ≤ graphBoundUncached (nOps d) (nFragDefs d) (docNodes d) :=
  graphWorkUncached_le s d

/-- T2 `graph_rules_work_cached`: the code as it is. One pass over the document (`4N`), the cycle rule, and per
operation only the pops of its closure (≤ 3F), the spread LISTS scanned (≤ S = spread nodes of the document) and the
usage LISTS concatenated and looped over by three rules (≤ 4U, U = variable usages of the document):
work ≤ `4N + O·(6 + 3F + S + 4U)` + cycles. What the caches buy: the per-operation term counts list entries (S, U)
instead of AST nodes (21·N per operation without them). -/
theorem graph_rules_work_cached (s : Schema) (d : Document) :
    graphWorkCached s d ≤ graphBoundCached (nOps d) (nFragDefs d) (docNodes d) (docSpreads d) (docUsages s d) :=
  graphWorkCached_le s d

/-- the list sizes are themselves at most the document size -/
theorem list_sizes_le_docNodes (s : Schema) (d : Document) :
    docSpreads d ≤ docNodes d ∧ docUsages s d ≤ docNodes d ∧ nFragDefs d ≤ docNodes d ∧ nOps d ≤ docNodes d := by
  refine ⟨docSpreads_le_docNodes d, docUsages_le_docNodes s d, ?_, ?_⟩
  · have : nFragDefs d ≤ fragNodes d := by
      simp only [nFragDefs, fragNodes]
      generalize fragDefs d = l
      induction l with
      | nil => simp
      | cons f rest ih => simp only [List.length_cons, List.map_cons, List.sum_cons, nodesFrag]; omega
    simp only [docNodes_split]; omega
  · have : nOps d ≤ opNodes d := by
      simp only [nOps, opNodes]
      generalize opDefs d = l
      induction l with
      | nil => simp
      | cons o rest ih => simp only [List.length_cons, List.map_cons, List.sum_cons, nodesOp]; omega
    simp only [docNodes_split]; omega

end GqlModel.Validate.Graph

/-! ## Possible-type tables: planning asks for none, validation for at most two per visited selection

`Schema.PossibleTypes(abstract)` hands out the table of object types of an interface / union (verif site
`VerifSitePossibleTypesEnumerated` adds its length). PLANNING decides type conditions by `Schema.IsPossibleType`, a lookup in
the map built with the schema: the cost model consults `Ctx.applies` once per fragment and its counters do not depend on
the implementers (`plan_cost_indep_of_possible_types`); the harness asserts that EVERY step counter of `PlanQuery` and of the
lazily planned sub-selections of `ExecutePlan`, the new site included, is exactly equal for 4 … 20000 implementers.
VALIDATION legitimately enumerates (PossibleFragmentSpreads' `doTypesOverlap`, FieldsOnCorrectType's suggestions): -/
namespace GqlModel.Validate

/-- T2 `validation_possible_type_tables`: one `ValidateDocument` asks for possible-type tables with at most
`2 · maxPossible · (fields + spreads + inline fragments visited)` entries in total — polynomial in document size ×
possible types, NOT independent of the number of implementers (and the harness compares the real counter with
`ptValidation` exactly). -/
theorem validation_possible_type_tables (s : Schema) (d : Document) :
    ptValidation s d ≤ 2 * maxPossible s * nSelectionItems s d :=
  ptValidation_le s d

end GqlModel.Validate

/-! ## Validation: the visitor-driven local rules — one traversal, a bounded number of callbacks

`ValidateDocument` runs all rules as sub-visitors of ONE `VisitInParallel` traversal (validator.go `VisitUsingRules`).
On C14's model of `visitor.Visit` / `VisitInParallel` (its correspondence with /repo is C14's check): -/
namespace GqlModel.Visitor

theorem zipWith_countV (pols : List Policy) (root : Node) :
    List.zipWith (fun v st => ((walk v root st).1, markOf (walk v root st).2)) (pols.map countV) (pols.map (fun _ => 0)) =
      pols.map (fun p => ((walk (countV p) root 0).1, markOf (walk (countV p) root 0).2)) := by
  induction pols with
  | nil => rfl
  | cons p rest ih => simp only [List.map_cons, List.zipWith_cons_cons, ih]

/-- T1 `local_rules_callbacks`: for every tree with distinct node identities and every list of `k` rules — each
abstracted to "counts its callbacks, decides continue / skip / break by an arbitrary policy" — the ONE traversal that
`VisitInParallel` drives makes at most `2 · nodes · k` rule callbacks in total (exactly that many when no rule skips
or breaks: `walk_count_allCont`). Reuses `parallel_projection` (C14); the per-callback work of a rule is a constant
number of schema lookups (`TypeInfo`), outside this count. -/
theorem local_rules_callbacks (pols : List Policy) (root : Node) (hnd : root.pre.Nodup) :
    (((walk (parallel (pols.map countV)) root (pols.map (fun _ => ((0 : Nat), Mark.active)))).1).map (·.1)).sum
      ≤ 2 * root.pre.length * pols.length := by
  have h := parallel_projection (pols.map countV) (pols.map (fun _ => (0 : Nat))) root (by simp) hnd
  simp only [List.map_map, Function.comp_def] at h
  rw [h, zipWith_countV]
  simp only [List.map_map, Function.comp_def]
  have := GqlModel.Validate.Graph.sum_map_le_mul (fun p => (walk (countV p) root 0).1) pols (2 * root.pre.length)
    (fun p _ => walk_count_le p root)
  rw [Nat.mul_comm] at this
  exact this

/-- the number of rules, from the table regenerated from /repo's `SpecifiedRules` on every run -/
theorem specified_rules_count : Generated.specifiedRules.length = 24 := by decide

end GqlModel.Visitor

namespace GqlModel.Cost

/-! ## Non-vacuity -/

private def L : Loc := Loc.none
private def nm (s : String) : Name := ⟨s, L⟩
private def fld (n : String) (sub : Option SelectionSet := none) (alias : Option String := none) : Selection :=
  .field (alias.map nm) (nm n) [] [] sub L
private def sp (n : String) : Selection := .spread (nm n) [] L
private def sset (l : List Selection) : SelectionSet := .mk l L

/-- `type Q implements I { q: Q  i: I  leaf: String }  interface I { leaf: String }  type T implements I {…}` -/
def exSchema : Schema :=
  { types := [ .scalar "String" .string "",
               .interface "I" [⟨"leaf", .named "String", [], "", ""⟩] true "",
               .object "Q" ["I"] [⟨"q", .named "Q", [], "", ""⟩, ⟨"i", .named "I", [], "", ""⟩, ⟨"leaf", .named "String", [], "", ""⟩] false "",
               .object "T" ["I"] [⟨"leaf", .named "String", [], "", ""⟩] false "" ],
    query := "Q", mutation := none, subscription := none, directives := [] }

/-- the D-19a family at n = 2, made CYCLIC (F2 spreads F0 again):
`{ ...F0 } fragment F0 on Q { x: q { ...F1 } y: q { ...F1 } } fragment F1 on Q { x: q { ...F0 } y: q { ...F0 } leaf }` -/
def exDoc : Document :=
  { defs := [ .operation .query none [] [] (sset [sp "F0"]) L,
              .fragment (nm "F0") (.named "Q" L) [] (sset [fld "q" (some (sset [sp "F1"])) (some "x"), fld "q" (some (sset [sp "F1"])) (some "y")]) L,
              .fragment (nm "F1") (.named "Q" L) [] (sset [fld "q" (some (sset [sp "F0"])) (some "x"), fld "q" (some (sset [sp "F0"])) (some "y"), fld "leaf"]) L ],
    loc := L }

/-- a world that descends three levels along `x` and completes `y` once -/
def exWorld : World :=
  .node (.cons "x" "Q" (.node (.cons "x" "Q" (.node (.cons "x" "Q" (.node .nil) .nil)) (.cons "y" "Q" (.node .nil) .nil))) .nil)

example : planCost exSchema exDoc "" = ⟨2, 0⟩ := by decide +kernel
example : topLevelSize exSchema exDoc "" = 3 := by decide +kernel
example : docSets exDoc = 7 := by decide +kernel
/-- the third level of `x` is not planned: below `F0 → x → F1 → x` the spread of `F0` is on the chain (descent-path guard) -/
example : execPlanCost exSchema exDoc "" [] exWorld = ⟨6, 3⟩ := by decide +kernel
example : (execPlan exSchema exDoc "" [] exWorld).oof = false := by decide +kernel
example : (execPlan exSchema exDoc "" [] exWorld).log.map (·.id) =
    [[("x", "Q"), ("y", "Q")], [("x", "Q"), ("x", "Q")], [("x", "Q")]] := by
  decide +kernel
/-- implementers do not matter: sixteen more implementers of `I`, same plan counters (instance of the theorem) -/
example : planCost (extend exSchema ((List.range 16).map (fun i => .object s!"T{i}" ["I"] [] false ""))) exDoc ""
    = planCost exSchema exDoc "" := by decide +kernel
/-- the hypotheses of `lazy_plans_only_encountered_types` are satisfiable -/
example : ∃ root ss, selectOp exSchema exDoc "" = .ok (root, ss) := ⟨_, _, rfl⟩

end GqlModel.Cost

namespace GqlModel.Validate.Overlap
private def onm (s : String) : Name := ⟨s, ⟨0, 0⟩⟩

/-- `{ a: leaf  a: q { leaf }  ...F }  fragment F on Q { a: q { leaf ...F } }` with the byte positions a parser assigns
(distinct selection-set locations); `F` spreads itself below a field, so the document is invalid — the bound holds anyway -/
def ovDoc : Document :=
  { defs := [ .operation .query none [] []
                (.mk [.field (some (onm "a")) (onm "leaf") [] [] none ⟨2, 3⟩,
                      .field (some (onm "a")) (onm "q") [] []
                        (some (.mk [.field none (onm "leaf") [] [] none ⟨12, 13⟩] ⟨10, 14⟩)) ⟨5, 14⟩,
                      .spread (onm "F") [] ⟨16, 20⟩] ⟨0, 22⟩) ⟨0, 22⟩,
              .fragment (onm "F") (.named "Q" ⟨40, 41⟩) []
                (.mk [.field (some (onm "a")) (onm "q") [] []
                        (some (.mk [.field none (onm "leaf") [] [] none ⟨52, 53⟩, .spread (onm "F") [] ⟨54, 58⟩] ⟨50, 60⟩))
                        ⟨45, 60⟩] ⟨43, 62⟩) ⟨30, 62⟩ ],
    loc := ⟨0, 62⟩ }

/-- the hypothesis of `overlap_cost_poly` is satisfiable, and the bound is not vacuous on it -/
example : locsDistinct ovDoc = true := by decide +kernel
example : (overlapM GqlModel.Cost.exSchema ovDoc).1.nFC = 4 := by decide +kernel
example : overlapBound ovDoc = 350 ∧ docSize ovDoc = 11 := by decide +kernel

open GqlModel.Validate.Graph in
/-- graph rules on the same (cyclic) document: one `detectCycleRecursive` call, one loop iteration, one error of path
length 1; work 82 with the caches (bound 131), 232 without (bound 713) -/
example : (cycleRunC (fragDefs ovDoc)).2 = ⟨1, 1, 1⟩ ∧ (cycleRunC (fragDefs ovDoc)).1.errs.length = 1 := by decide +kernel
open GqlModel.Validate.Graph in
example : graphWorkCached GqlModel.Cost.exSchema ovDoc = 82 ∧
    graphBoundCached (nOps ovDoc) (nFragDefs ovDoc) (docNodes ovDoc) (docSpreads ovDoc) (docUsages GqlModel.Cost.exSchema ovDoc) = 131 := by
  decide +kernel
open GqlModel.Validate.Graph in
example : graphWorkUncached GqlModel.Cost.exSchema ovDoc = 232 ∧
    graphBoundUncached (nOps ovDoc) (nFragDefs ovDoc) (docNodes ovDoc) = 713 := by decide +kernel
end GqlModel.Validate.Overlap
