import GqlProofs.PlanCache
import GqlProofs.NormalizeLoc
import GqlProofs.NormalizeWF
import GqlProofs.NormalizeKeep
import GqlProofs.NulFree
import Props.C08Bytes
/-! # C06 — Prepared plans and the plan cache are semantically transparent

Property theorems only.  `M` = `GqlModel.PlanCache` (plan_cache.go function by function), `S` = no cache:
every `Get` is `build s q op` (`planAndValidate`: parse + validate + plan from scratch).  All statements hold
for every result type `R`, every `build`, every schema-pointer type `S`, every option record (hence every
capacity: 1, 2, …, and the default 1024 when `MaxEntries ≤ 0`) and every history (list of operations) of any
length over any pool of byte strings.  A statement about "the state after `ops`" is a statement about every
intermediate state too, because every prefix of a history is a history.

What is proved here and what is not:
* proved: key injectivity of the raw key as coded now; boundedness and key-distinctness of every reachable
  state (raw and normalising mode); transparency of the raw mode (nil cache, over-size bypass, resets, schema
  replacement included); counters; `Reset`; over-size queries are never stored; in normalising mode the
  synthetic arguments returned are those of this very request, and transparency *conditional* on the
  fingerprint determining the plan.
* not proved: that the fingerprint determines the plan (no injectivity theorem for `fingerprintBytes`, and FNV-1a
  is a hash).  The recorded counterexamples D-06b/c/g are repaired; the witnesses at the end show on the model
  of `fingerprintDocument` that directives, their arguments, variable default values and crafted string
  contents now separate keys.
* not modelled here: `ExecutePlan` on a shared plan (plan reuse: C01/C20 own the executor model); it is
  covered by the differential part of the check only. -/
namespace GqlModel.PlanCache
set_option linter.unusedSectionVars false

variable {S R A : Type} [DecidableEq S]

/-! ## 1. The key -/

/-- **rawKey_injective.** The raw-mode key `Itoa(len(op)) + ":" + op + query` (plan_cache.go:134) determines
both the operation name and the query, for all byte strings (including ones containing `:`, digits, `\x00`). -/
theorem rawKey_injective (op q op' q' : Bytes) (h : rawKey op q = rawKey op' q') : op = op' ∧ q = q' := by
  -- the decimal prefix contains no ':' (dec_no_colon), so the first ':' splits the key uniquely
  -- (split_at_colon); decimal rendering is injective (dec_injective), which fixes len(op) and hence the cut
  unfold rawKey at h
  obtain ⟨h1, h2⟩ := split_at_colon _ _ _ _ (dec_no_colon _) (dec_no_colon _) h
  have hlen : op.length = op'.length := dec_injective _ _ h1
  exact List.append_inj h2 hlen

/-- the key used before commit 18cf8a9 (D-06a) was not injective: the statement above is not a triviality -/
theorem oldRawKey_not_injective : ∃ op q op' q', oldRawKey op q = oldRawKey op' q' ∧ op ≠ op' :=
  ⟨[97, 0, 98], [99], [97], [98, 0, 99], by decide, by decide⟩

/-- dropping the length prefix (`op + query`) is not injective either -/
theorem unprefixed_key_not_injective : ∃ op q op' q' : Bytes, op ++ q = op' ++ q' ∧ op ≠ op' :=
  ⟨[97], [98], [97, 98], [], by decide, by decide⟩

/-! ## 2. Every reachable state is bounded and has distinct keys -/

/-- **size_le_cap.** No reachable state holds more entries than configured. -/
theorem size_le_cap {o : Opts} {c : Cache S R} (h : Reach o c) : c.items.length ≤ capOf o := by
  have := reach_inv h; rw [← this.2.1]; exact this.1.1

/-- **keys_nodup.** In every reachable state the keys are pairwise distinct (the `entries` map and the `order`
list of the Go code are in bijection). -/
theorem keys_nodup {o : Opts} {c : Cache S R} (h : Reach o c) : (keysOf c).Nodup := (reach_inv h).1.2

/-- every history in raw mode (`Get`/`Reset`, nil cache allowed) stays inside `Reach` -/
theorem run_reach {o : Opts} (build : S → Bytes → Bytes → R) : ∀ (ops : List (Op S)) (c : Option (Cache S R)),
    (∀ c0, c = some c0 → Reach o c0) → ∀ c1, (run build c ops).1 = some c1 → Reach o c1 := by
  intro ops
  induction ops with
  | nil => intro c h c1 h1; exact h c1 h1
  | cons x xs ih =>
    intro c h c1 h1
    simp only [run] at h1
    refine ih (stepOp build c x).1 ?_ c1 h1
    intro c0 h0
    cases x with
    | reset =>
      cases c with
      | none => simp [stepOp, resetOpt] at h0
      | some c =>
        simp only [stepOp, resetOpt, Option.some.injEq] at h0
        subst h0; exact Reach.reset (h c rfl)
    | get s q op =>
      cases c with
      | none => simp [stepOp, get] at h0
      | some c =>
        simp only [stepOp, get] at h0
        split at h0
        · simp only [Option.some.injEq] at h0; subst h0; exact h c rfl
        · simp only [Option.some.injEq] at h0; subst h0
          exact getRawWith_reach rawKey build s q op (h c rfl)

variable (fb : KeyShape)

/-- every history in normalising mode stays inside `Reach`, whatever the normaliser and fingerprint do -/
theorem runNorm_reach {o : Opts} (norm : S → Bytes → Bytes → NormOut A) (build errRes buildN : S → Bytes → Bytes → R)
    (failed : R → Bool) : ∀ (ops : List (Op S)) (c : Cache S R), Reach o c →
      Reach o (runNorm fb norm build errRes buildN failed c ops).1 := by
  intro ops
  induction ops with
  | nil => intro c h; exact h
  | cons x xs ih =>
    intro c h
    simp only [runNorm]
    apply ih
    cases x with
    | reset => exact Reach.reset h
    | get s q op =>
      simp only [stepNorm]
      split
      · exact h
      · exact getNorm_reach fb norm errRes buildN failed s q op h

/-- **size_le_cap / keys_nodup for histories, raw mode**: after any history from a fresh cache, the cache holds at
most `capOf o` entries (1024 if `MaxEntries ≤ 0`) with distinct keys. -/
theorem run_bounded (o : Opts) (build : S → Bytes → Bytes → R) (ops : List (Op S)) (c : Cache S R)
    (h : (run build (some (newPlanCache o)) ops).1 = some c) :
    c.items.length ≤ capOf o ∧ (keysOf c).Nodup := by
  have hr : Reach o c := run_reach build ops (some (newPlanCache o)) (fun c0 h0 => by cases h0; exact Reach.new) c h
  exact ⟨size_le_cap hr, keys_nodup hr⟩

/-- **size_le_cap / keys_nodup for histories, normalising mode** (holds although the normaliser has known defects) -/
theorem runNorm_bounded (o : Opts) (norm : S → Bytes → Bytes → NormOut A) (build errRes buildN : S → Bytes → Bytes → R)
    (failed : R → Bool) (ops : List (Op S)) :
    (runNorm fb norm build errRes buildN failed (newPlanCache o) ops).1.items.length ≤ capOf o ∧
    (keysOf (runNorm fb norm build errRes buildN failed (newPlanCache o) ops).1).Nodup := by
  have hr := runNorm_reach fb (o := o) norm build errRes buildN failed ops (newPlanCache o) Reach.new
  exact ⟨size_le_cap hr, keys_nodup hr⟩

/-! ## 3. Transparency of the raw mode -/

/-- **transparent_raw.** Given an injective key function, for every history of `Get`/`Reset` (schema
replacement = a `Get` with another pointer) over any pool, from any state whose entries are honest, each `Get`
returns exactly what building from scratch returns — on a hit or a miss, before or after evictions, resets and
schema changes, for every capacity. -/
theorem transparent_raw (keyOf : Bytes → Bytes → Bytes)
    (hinj : ∀ op q op' q', keyOf op q = keyOf op' q' → op = op' ∧ q = q')
    (build : S → Bytes → Bytes → R) : ∀ (ops : List (Op S)) (c : Cache S R), InvT keyOf build c →
      (runWith keyOf build c ops).2.map (Option.map Prod.fst) = ops.map (specOp build) := by
  intro ops
  induction ops with
  | nil => intro c _; rfl
  | cons x xs ih =>
    intro c h
    simp only [runWith, List.map_cons]
    cases x with
    | reset =>
      have : InvT keyOf build (reset c) := by intro e he; simp [reset] at he
      rw [show (stepWith keyOf build c Op.reset) = (reset c, none) from rfl]
      simp only [ih (reset c) this]
      rfl
    | get s q op =>
      simp only [stepWith]
      split
      · simp only [ih c h]; rfl
      · have hs := getRawWith_spec hinj c s q op h
        simp only [ih _ hs.2, Option.map, hs.1]
        rfl

/-- **transparent (the cache as coded).** With the key as coded (`rawKey`, injective by `rawKey_injective`), a nil
or non-nil cache, the `MaxQueryBytes` bypass and any options: every `Get` of every history returns what
building from scratch returns. -/
theorem transparent (build : S → Bytes → Bytes → R) : ∀ (ops : List (Op S)) (c : Option (Cache S R)),
    InvTO build c → (run build c ops).2.map (Option.map Prod.fst) = ops.map (specOp build) := by
  intro ops
  induction ops with
  | nil => intro c _; rfl
  | cons x xs ih =>
    intro c h
    simp only [run, List.map_cons]
    cases x with
    | reset =>
      have : InvTO build (resetOpt c) := by
        cases c with
        | none => trivial
        | some c => intro e he; simp [reset] at he
      rw [show stepOp build c Op.reset = (resetOpt c, none) from rfl]
      simp only [ih _ this]; rfl
    | get s q op =>
      have hs := get_spec build c s q op h
      simp only [stepOp, ih _ hs.2, Option.map, hs.1]; rfl

theorem transparent_fresh (o : Opts) (build : S → Bytes → Bytes → R) (ops : List (Op S)) :
    (run build (some (newPlanCache o)) ops).2.map (Option.map Prod.fst) = ops.map (specOp build) :=
  transparent build ops _ (by intro e he; simp [newPlanCache] at he)

theorem transparent_nil (build : S → Bytes → Bytes → R) (ops : List (Op S)) :
    (run build none ops).2.map (Option.map Prod.fst) = ops.map (specOp build) :=
  transparent build ops none trivial

/-- **transparent_slots.** Histories of `Get`/`Reset`/schema replacement over schema slots: every `Get` returns
what building from scratch against the slot's *current* schema returns. -/
theorem transparent_slots (build : Nat → Bytes → Bytes → R) : ∀ (ops : List HOp) (y : Sys R), InvTO build y.cache →
    (runH build y ops).2.map (Option.map Prod.fst) = specH build y.ptr y.next ops := by
  intro ops
  induction ops with
  | nil => intro y _; rfl
  | cons x xs ih =>
    intro y h
    simp only [runH, List.map_cons]
    cases x with
    | get i q op =>
      have hs := get_spec build y.cache (y.ptr i) q op h
      simp only [stepH, specH, Option.map, hs.1]
      rw [ih _ hs.2]
    | reset =>
      have : InvTO build (resetOpt y.cache) := by
        cases hc : y.cache with
        | none => trivial
        | some c => intro e he; simp [reset] at he
      simp only [stepH, specH, Option.map]
      rw [ih _ this]
    | replace i =>
      simp only [stepH, specH, Option.map]
      rw [ih ⟨y.cache, fun j => if j = i then y.next else y.ptr j, y.next + 1⟩ h]

/-! ## 4. Counters -/

/-- **counters.** After any history on a non-nil cache, `hits` grew by the number of `Get`s that were served
from the cache, `misses` by the number that were built and stored, and together by exactly the number of
cacheable `Get`s (those that are not over-size). -/
theorem counters (build : S → Bytes → Bytes → R) : ∀ (ops : List (Op S)) (c : Cache S R),
    ∃ c', (run build (some c) ops).1 = some c' ∧
      c'.hits = c.hits + countOutcome .hit (run build (some c) ops).2 ∧
      c'.misses = c.misses + countOutcome .miss (run build (some c) ops).2 ∧
      c'.hits + c'.misses = c.hits + c.misses + (ops.filter (cacheable c)).length := by
  intro ops
  induction ops with
  | nil => intro c; exact ⟨c, rfl, by simp [run, countOutcome], by simp [run, countOutcome], by simp⟩
  | cons x xs ih =>
    intro c
    cases x with
    | reset =>
      obtain ⟨c', h1, h2, h3, h4⟩ := ih (reset c)
      refine ⟨c', by simpa [run, stepOp, resetOpt] using h1, ?_, ?_, ?_⟩
      · simp only [run, stepOp, resetOpt]
        rw [h2]; simp [countOutcome, outcomeOf, reset]
      · simp only [run, stepOp, resetOpt]
        rw [h3]; simp [countOutcome, outcomeOf, reset]
      · rw [h4]
        have : cacheable (reset c) = cacheable c := by funext o; cases o <;> rfl
        rw [this]
        simp [cacheable, reset]
    | get s q op =>
      obtain ⟨c1, hg, hmb, hcase⟩ := get_counters build c s q op
      obtain ⟨c', h1, h2, h3, h4⟩ := ih c1
      have hcab : ∀ o : Op S, cacheable c1 o = cacheable c o := by
        intro o; cases o <;> simp [cacheable, shouldCache_congr hmb]
      have hrun : run build (some c) (Op.get s q op :: xs) =
          ((run build (some c1) xs).1, some ((get build (some c) s q op).2.1, (get build (some c) s q op).2.2) ::
            (run build (some c1) xs).2) := by
        simp only [run, stepOp]; rw [← hg]
      rw [hrun]
      refine ⟨c', h1, ?_, ?_, ?_⟩
      · rcases hcase with ⟨_, ho, hc⟩ | ⟨_, ho, hh, _⟩ | ⟨_, ho, hh, _⟩
        · subst hc; rw [h2]; simp [countOutcome, outcomeOf, ho]
        · rw [h2, hh]; simp [countOutcome, outcomeOf, ho]; omega
        · rw [h2, hh]; simp [countOutcome, outcomeOf, ho]
      · rcases hcase with ⟨_, ho, hc⟩ | ⟨_, ho, _, hm⟩ | ⟨_, ho, _, hm⟩
        · subst hc; rw [h3]; simp [countOutcome, outcomeOf, ho]
        · rw [h3, hm]; simp [countOutcome, outcomeOf, ho]
        · rw [h3, hm]; simp [countOutcome, outcomeOf, ho]; omega
      · rw [h4]
        simp only [List.filter_cons, cacheable]
        rw [List.filter_congr (fun o _ => hcab o)]
        rcases hcase with ⟨hs, _, hc⟩ | ⟨hs, _, hh, hm⟩ | ⟨hs, _, hh, hm⟩
        · subst hc; simp [hs]
        · simp [hs, hh, hm]; omega
        · simp [hs, hh, hm]; omega

/-- a nil cache counts nothing (plan_cache.go:193-198) and stays nil -/
theorem nil_cache_counts_nothing (build : S → Bytes → Bytes → R) (ops : List (Op S)) :
    (run build none ops).1 = none ∧ hitsMisses (run build none ops).1 = (0, 0) := by
  have : (run build none ops).1 = none := by
    induction ops with
    | nil => rfl
    | cons x xs ih => cases x <;> simpa [run, stepOp, get, resetOpt] using ih
  rw [this]; exact ⟨rfl, rfl⟩

/-! ## 5. Reset, over-size queries -/

/-- **Reset empties** (and keeps configuration and counters) -/
theorem reset_empties (c : Cache S R) :
    (reset c).items = [] ∧ (reset c).cap = c.cap ∧ (reset c).hits = c.hits ∧ (reset c).misses = c.misses :=
  ⟨rfl, rfl, rfl, rfl⟩

/-- after a `Reset` the next cacheable `Get` is a miss, whatever was cached before -/
theorem get_after_reset_misses (build : S → Bytes → Bytes → R) (c : Cache S R) (s : S) (q op : Bytes)
    (h : shouldCache c q.length = true) : (get build (some (reset c)) s q op).2.2 = .miss := by
  have hs : shouldCache (reset c) q.length = true := h
  simp [get, hs, getRawWith, lookup, findKey, show (reset c).items = [] from rfl]

/-- an over-size query bypasses the cache: state (entries, order, counters) untouched, result built from scratch -/
theorem oversize_get_bypasses (build : S → Bytes → Bytes → R) (c : Cache S R) (s : S) (q op : Bytes)
    (h : shouldCache c q.length = false) : get build (some c) s q op = (some c, build s q op, .bypass) := by
  simp [get, h]

/-- **Over-size queries are never stored**: every key retained after a history from a fresh cache is the key of
some `Get` of that history whose query passed `shouldCache`. -/
theorem only_cacheable_gets_are_stored (build : S → Bytes → Bytes → R) : ∀ (ops : List (Op S)) (c c1 : Cache S R),
    (run build (some c) ops).1 = some c1 → ∀ k ∈ keysOf c1,
      k ∈ keysOf c ∨ ∃ s q op, Op.get s q op ∈ ops ∧ k = rawKey op q ∧ shouldCache c q.length = true := by
  intro ops
  induction ops with
  | nil => intro c c1 h k hk; simp only [run, Option.some.injEq] at h; subst h; exact Or.inl hk
  | cons x xs ih =>
    intro c c1 h k hk
    cases x with
    | reset =>
      rcases ih (reset c) c1 (by simpa [run, stepOp, resetOpt] using h) k hk with h' | ⟨s, q, op, hm, he, hs⟩
      · simp [keysOf, reset] at h'
      · exact Or.inr ⟨s, q, op, by simp [hm], he, hs⟩
    | get s q op =>
      obtain ⟨c2, hg, hmb, hcase⟩ := get_counters build c s q op
      have h2 : (run build (some c2) xs).1 = some c1 := by
        simp only [run, stepOp] at h; rw [← hg]; exact h
      rcases ih c2 c1 h2 k hk with h' | ⟨s', q', op', hm, he, hs⟩
      · -- the key was already in c2: either old or stored by this Get
        by_cases hsc : shouldCache c q.length = true
        · have hc2 : c2 = (getRawWith rawKey build c s q op).1 := by
            have : (get build (some c) s q op).1 = some (getRawWith rawKey build c s q op).1 := by
              simp [get, hsc]
            rw [this] at hg; exact (Option.some.inj hg).symm
          rw [hc2] at h'
          unfold getRawWith at h'
          rcases hlk : lookup c s (rawKey op q) with ⟨c', r⟩
          rw [hlk] at h'
          have hsub : ∀ k', k' ∈ keysOf c' → k' ∈ keysOf c := by
            intro k' hk'; have := @mem_keys_lookup S R _ c s (rawKey op q) k'; rw [hlk] at this; exact this hk'
          cases r with
          | some r => exact Or.inl (hsub k h')
          | none =>
            rcases mem_keys_store h' with rfl | h''
            · exact Or.inr ⟨s, q, op, by simp, rfl, hsc⟩
            · exact Or.inl (hsub k h'')
        · have hsc' : shouldCache c q.length = false := by simpa using hsc
          rcases hcase with ⟨_, _, hc⟩ | ⟨hs, _⟩ | ⟨hs, _⟩
          · subst hc; exact Or.inl h'
          · rw [hs] at hsc'; cases hsc'
          · rw [hs] at hsc'; cases hsc'
      · exact Or.inr ⟨s', q', op', by simp [hm], he, by rw [← shouldCache_congr hmb]; exact hs⟩

/-- the byte limit `NewPlanCache` configures: the default 65536 when `MaxQueryBytes ≤ 0`; always positive -/
theorem newPlanCache_maxBytes (o : Opts) :
    (newPlanCache o : Cache S R).maxBytes = (if o.maxQueryBytes ≤ 0 then 65536 else o.maxQueryBytes) ∧
    0 < (newPlanCache o : Cache S R).maxBytes := by
  unfold newPlanCache defaultMaxQueryBytes
  split <;> simp <;> omega

/-- corollary for a fresh cache: a query longer than the configured (or default, 65536) byte limit is never
retained, under no history -/
theorem oversize_never_stored (o : Opts) (build : S → Bytes → Bytes → R) (ops : List (Op S)) (c1 : Cache S R)
    (h : (run build (some (newPlanCache o)) ops).1 = some c1) :
    ∀ k ∈ keysOf c1, ∃ s q op, Op.get s q op ∈ ops ∧ k = rawKey op q ∧
      (q.length : Int) ≤ (if o.maxQueryBytes ≤ 0 then 65536 else o.maxQueryBytes) := by
  intro k hk
  rcases only_cacheable_gets_are_stored build ops (newPlanCache o) c1 h k hk with h' | ⟨s, q, op, hm, he, hs⟩
  · simp [keysOf, newPlanCache] at h'
  · refine ⟨s, q, op, hm, he, ?_⟩
    have hmb := newPlanCache_maxBytes (S := S) (R := R) o
    rw [← hmb.1]
    simp only [shouldCache, Bool.or_eq_true, decide_eq_true_eq] at hs
    rcases hs with hs | hs
    · have := hmb.2; omega
    · exact hs

/-! ## 6. Normalising mode: what holds whatever the normaliser does -/

/-- **SynthArgs are this request's.** In every history in normalising mode, the synthetic arguments a `Get`
hands back are `none` or exactly those extracted from *this* call's query — never those of the request that
populated the shared entry. -/
theorem synthArgs_are_this_request's (norm : S → Bytes → Bytes → NormOut A) (errRes buildN : S → Bytes → Bytes → R)
    (failed : R → Bool) (c : Cache S R) (s : S) (q op : Bytes) :
    ∀ sy, (getNorm fb norm errRes buildN failed c s q op).2.1.synth = some sy → ∃ nk, norm s q op = .ok nk sy := by
  intro sy h
  unfold getNorm at h
  cases hn : norm s q op with
  | parseErr => simp [hn] at h
  | normErr => simp [hn] at h
  | ok nk sy' =>
    simp only [hn] at h
    rcases hlk : lookup c s (normCacheKey fb op q nk) with ⟨c', r⟩
    rw [hlk] at h
    cases r with
    | some r => simp only [Option.some.injEq] at h; subst h; exact ⟨nk, rfl⟩
    | none =>
      simp only [] at h
      split at h
      · cases h
      · simp only [Option.some.injEq] at h; subst h; exact ⟨nk, rfl⟩

/-- **normalized_transparent_partial.** IF the cache key of the normalising mode determines the plan
(hypothesis `hdet`: two requests to the same schema with the same key have the same validate+plan result),
THEN every `Get` of every history returns the from-scratch result of its own request.  The hypothesis is the
soundness of the fingerprint, which is not proved (it was violated by D-06b…g before their repair, see §7 and
the notes); the theorem isolates it:
the LRU/guard logic adds no further way to serve a wrong plan. -/
theorem normalized_transparent_partial (norm : S → Bytes → Bytes → NormOut A)
    (errRes buildN : S → Bytes → Bytes → R) (failed : R → Bool)
    (hdet : ∀ s q op q' op' nk sy nk' sy', norm s q op = .ok nk sy → norm s q' op' = .ok nk' sy' →
      normCacheKey fb op q nk = normCacheKey fb op' q' nk' → buildN s q op = buildN s q' op')
    (c : Cache S R) (s : S) (q op : Bytes) (h : InvN fb norm buildN c) :
    InvN fb norm buildN (getNorm fb norm errRes buildN failed c s q op).1 ∧
    ((getNorm fb norm errRes buildN failed c s q op).2.2 ≠ .noLookup →
      (getNorm fb norm errRes buildN failed c s q op).2.1.res = buildN s q op) := by
  unfold getNorm
  cases hn : norm s q op with
  | parseErr => exact ⟨h, by simp⟩
  | normErr => exact ⟨h, by simp⟩
  | ok nk sy =>
    simp only []
    unfold lookup
    cases hf : findKey (normCacheKey fb op q nk) c.items with
    | none =>
      simp only []
      refine ⟨?_, fun _ => by first | rfl | trivial⟩
      intro x hx
      unfold store at hx
      split at hx
      · rcases List.mem_cons.mp hx with rfl | hx
        · exact ⟨q, op, nk, sy, hn, rfl, rfl⟩
        · exact h x (mem_removeKey hx)
      · rcases List.mem_cons.mp (mem_evictLoop hx) with rfl | hx
        · exact ⟨q, op, nk, sy, hn, rfl, rfl⟩
        · exact h x hx
    | some e =>
      obtain ⟨hm, hk⟩ := findKey_some hf
      simp only []
      by_cases hs : e.schema = s
      · simp only [hs, ne_eq, not_true_eq_false, if_false]
        refine ⟨?_, fun _ => ?_⟩
        · intro x hx
          rcases List.mem_cons.mp hx with rfl | hx
          · exact h _ hm
          · exact h x (mem_removeKey hx)
        · obtain ⟨q0, op0, nk0, sy0, hn0, hk0, hr0⟩ := h e hm
          rw [hr0, hs]
          rw [hs] at hn0
          exact hdet s q0 op0 q op nk0 sy0 nk sy hn0 hn (by rw [← hk0, hk])
      · simp only [ne_eq, hs, not_false_eq_true, if_true]
        refine ⟨?_, fun _ => by first | rfl | trivial⟩
        intro x hx
        unfold store at hx
        split at hx
        · rcases List.mem_cons.mp hx with rfl | hx
          · exact ⟨q, op, nk, sy, hn, rfl, rfl⟩
          · exact h x (mem_removeKey (mem_removeKey hx))
        · rcases List.mem_cons.mp (mem_evictLoop hx) with rfl | hx
          · exact ⟨q, op, nk, sy, hn, rfl, rfl⟩
          · exact h x (mem_removeKey hx)

/-- The hypothesis `hdet` of `normalized_transparent_partial` cannot be dropped: with a key that does not
determine the plan (here: a constant key) the cache logic serves the first request's plan to the second.
The full-strength statement "every normalising `Get` returns `buildN s q op`" is therefore FALSE for the
cache logic alone; it holds exactly as far as the fingerprint is sound. -/
theorem normalized_not_transparent_without_hdet :
    ∃ (norm : Nat → Bytes → Bytes → NormOut Unit) (buildN : Nat → Bytes → Bytes → Bytes) (c : Cache Nat Bytes)
      (q1 q2 : Bytes),
      let c1 := (getNorm keyShapeCoded norm buildN buildN (fun _ => false) c 0 q1 []).1
      (getNorm keyShapeCoded norm buildN buildN (fun _ => false) c1 0 q2 []).2.1.res ≠ buildN 0 q2 [] :=
  ⟨fun _ _ _ => .ok [1] (), fun _ q _ => q, newPlanCache ⟨1, 0, true⟩, [1], [2], by decide +kernel⟩

/-- **normalized_get_faithful** — `normalized_transparent_partial` up to an equivalence `E` of results (reflexive,
transitive) and with the key assumption as the named predicate `KeyFaithful`: one `Get` keeps every entry `E`-equivalent
to what its key's request builds, and returns — on a hit or a miss — a result `E`-equivalent to what THIS request
builds. The LRU logic (eviction, schema guard, move-to-front, in-place update) adds no other way to serve a wrong plan. -/
theorem normalized_get_faithful (E : R → R → Prop) (hrefl : ∀ r, E r r) (htrans : ∀ a b c, E a b → E b c → E a c)
    (norm : S → Bytes → Bytes → NormOut A) (errRes buildN : S → Bytes → Bytes → R) (failed : R → Bool)
    (hkey : KeyFaithful fb E norm buildN)
    (c : Cache S R) (s : S) (q op : Bytes) (h : InvE fb E norm buildN c) :
    InvE fb E norm buildN (getNorm fb norm errRes buildN failed c s q op).1 ∧
    (((getNorm fb norm errRes buildN failed c s q op).2.2 = .hit ∨ (getNorm fb norm errRes buildN failed c s q op).2.2 = .miss) →
      E (getNorm fb norm errRes buildN failed c s q op).2.1.res (buildN s q op)) := by
  unfold getNorm
  cases hn : norm s q op with
  | parseErr => exact ⟨h, by simp⟩
  | normErr => exact ⟨h, by simp⟩
  | ok nk sy =>
    simp only []
    unfold lookup
    cases hf : findKey (normCacheKey fb op q nk) c.items with
    | none =>
      simp only []
      refine ⟨?_, fun _ => hrefl _⟩
      intro x hx
      unfold store at hx
      split at hx
      · rcases List.mem_cons.mp hx with rfl | hx
        · exact ⟨q, op, nk, sy, hn, rfl, hrefl _⟩
        · exact h x (mem_removeKey hx)
      · rcases List.mem_cons.mp (mem_evictLoop hx) with rfl | hx
        · exact ⟨q, op, nk, sy, hn, rfl, hrefl _⟩
        · exact h x hx
    | some e =>
      obtain ⟨hm, hk⟩ := findKey_some hf
      simp only []
      by_cases hs : e.schema = s
      · simp only [hs, ne_eq, not_true_eq_false, if_false]
        refine ⟨?_, fun _ => ?_⟩
        · intro x hx
          rcases List.mem_cons.mp hx with rfl | hx
          · exact h _ hm
          · exact h x (mem_removeKey hx)
        · obtain ⟨q0, op0, nk0, sy0, hn0, hk0, hr0⟩ := h e hm
          rw [hs] at hn0 hr0
          exact htrans _ _ _ hr0 (hkey s q0 op0 q op nk0 sy0 nk sy hn0 hn (by rw [← hk0, hk]))
      · simp only [ne_eq, hs, not_false_eq_true, if_true]
        refine ⟨?_, fun _ => hrefl _⟩
        intro x hx
        unfold store at hx
        split at hx
        · rcases List.mem_cons.mp hx with rfl | hx
          · exact ⟨q, op, nk, sy, hn, rfl, hrefl _⟩
          · exact h x (mem_removeKey (mem_removeKey hx))
        · rcases List.mem_cons.mp (mem_evictLoop hx) with rfl | hx
          · exact ⟨q, op, nk, sy, hn, rfl, hrefl _⟩
          · exact h x (mem_removeKey hx)

/-- **normalising_history_faithful** — for every history of `Get`/`Reset` (schema replacement = a `Get` with another
pointer) over a NORMALISING cache, from any state with faithful entries (e.g. the fresh cache): every `Get` that went
through the cache, HIT or miss, returned a result `E`-equivalent to what its own request builds — given `KeyFaithful`. -/
theorem normalising_history_faithful (E : R → R → Prop) (hrefl : ∀ r, E r r) (htrans : ∀ a b c, E a b → E b c → E a c)
    (norm : S → Bytes → Bytes → NormOut A) (build errRes buildN : S → Bytes → Bytes → R) (failed : R → Bool)
    (hkey : KeyFaithful fb E norm buildN) : ∀ (ops : List (Op S)) (c : Cache S R), InvE fb E norm buildN c →
      OutsFaithful fb E buildN ops (runNorm fb norm build errRes buildN failed c ops).2 := by
  intro ops
  induction ops with
  | nil => intro c _; trivial
  | cons x xs ih =>
    intro c h
    cases x with
    | reset =>
      simp only [runNorm, stepNorm, OutsFaithful]
      exact ih (reset c) (by intro e he; simp [reset] at he)
    | get s q op =>
      simp only [runNorm, stepNorm]
      by_cases hsc : shouldCache c q.length = true
      · simp only [hsc, Bool.not_true, Bool.false_eq_true, if_false, OutsFaithful]
        obtain ⟨h1, h2⟩ := normalized_get_faithful fb E hrefl htrans norm errRes buildN failed hkey c s q op h
        exact ⟨h2, ih _ h1⟩
      · simp only [hsc, Bool.not_false, if_true, OutsFaithful]
        exact ⟨fun hh => (by rcases hh with hh | hh <;> cases hh), ih c h⟩

/-! ## 6b. Interleaved `Get`s: the schema label of an entry is the schema its result was planned against -/

/-- every entry's result is what `build` gives for the entry's OWN schema label and key -/
def Labelled (build : S → Bytes → R) (c : Cache S R) : Prop := ∀ e ∈ c.items, e.res = build e.schema e.key

/-- **store_keeps_labels** — `store` preserves the label invariant in BOTH branches: the fresh insert (with eviction) and
the in-place refresh of an entry another `Get` wrote meanwhile (there the schema label is overwritten together with
the result: plan_cache.go `item.e.schema = schema; item.e.result = pr`). -/
theorem store_keeps_labels (build : S → Bytes → R) (c : Cache S R) (s : S) (k : Bytes) (h : Labelled build c) :
    Labelled build (store c s k (build s k)) := by
  intro e he
  unfold store at he
  cases hf : findKey k c.items with
  | some e0 =>
    simp only [hf, List.mem_cons] at he
    rcases he with rfl | he
    · rfl
    · exact h e (mem_removeKey he)
  | none =>
    simp only [hf] at he
    rcases List.mem_cons.mp (mem_evictLoop he) with rfl | he
    · rfl
    · exact h e he

/-- `lookup` preserves the label invariant, and a HIT returns what `build` gives for the REQUEST's schema and key -/
theorem lookup_keeps_labels (build : S → Bytes → R) (c : Cache S R) (s : S) (k : Bytes) (h : Labelled build c) :
    Labelled build (lookup c s k).1 ∧ ∀ r, (lookup c s k).2 = some r → r = build s k := by
  unfold lookup
  cases hf : findKey k c.items with
  | none => exact ⟨fun e he => h e he, fun r hr => by cases hr⟩
  | some e0 =>
    obtain ⟨hm, hk⟩ := findKey_some hf
    by_cases hs : e0.schema = s
    · simp only [hs, ne_eq, not_true_eq_false, if_false]
      refine ⟨?_, fun r hr => ?_⟩
      · intro e he
        rcases List.mem_cons.mp he with rfl | he
        · exact h _ hm
        · exact h e (mem_removeKey he)
      · simp only [Option.some.injEq] at hr
        rw [← hr, h e0 hm, hs, hk]
    · simp only [ne_eq, hs, not_false_eq_true, if_true]
      exact ⟨fun e he => h e (mem_removeKey he), fun r hr => by cases hr⟩

/-- what the outputs of an interleaving must satisfy: every `lookup s k` that HITS returned `build s k` -/
def HitsOwn (build : S → Bytes → R) : List (Prim S) → List (Option (Option R)) → Prop
  | [], [] => True
  | .lookup s k :: ops, some out :: outs => (∀ r, out = some r → r = build s k) ∧ HitsOwn build ops outs
  | .store _ _ :: ops, _ :: outs => HitsOwn build ops outs
  | .reset :: ops, _ :: outs => HitsOwn build ops outs
  | _, _ => False

/-- **interleaved_transparent** — for EVERY interleaving of the `lookup` / `store` halves of `Get`s (and `Reset`s) over any
number of schema pointers and keys — stores arriving in any order, for keys written meanwhile by other `Get`s, for other
schema pointers (schema roll-over) — every HIT returns a result that was computed for the SAME (schema, key) as the
request that hits. (`build s k` = what a `Get` for schema `s` whose request has cache key `k` computes: validate + plan;
that the key determines the request is `rawKey_injective` / `KeyFaithful`.) -/
theorem interleaved_transparent (build : S → Bytes → R) : ∀ (ops : List (Prim S)) (c : Cache S R), Labelled build c →
    Labelled build (runPrim store build c ops).1 ∧ HitsOwn build ops (runPrim store build c ops).2 := by
  intro ops
  induction ops with
  | nil => intro c h; exact ⟨h, trivial⟩
  | cons o os ih =>
    intro c h
    cases o with
    | lookup s k =>
      obtain ⟨h1, h2⟩ := lookup_keeps_labels build c s k h
      obtain ⟨h3, h4⟩ := ih (lookup c s k).1 h1
      exact ⟨h3, h2, h4⟩
    | store s k =>
      obtain ⟨h3, h4⟩ := ih (store c s k (build s k)) (store_keeps_labels build c s k h)
      exact ⟨h3, h4⟩
    | reset =>
      obtain ⟨h3, h4⟩ := ih (reset c) (fun e he => by simp [reset] at he)
      exact ⟨h3, h4⟩

/-- **store_without_relabel_breaks** — the `store` that refreshes the result of an existing entry but keeps its old schema
label (seeded/C06-7) breaks it: `Get(B,k)` misses and is still planning; `Get(A,k)` misses, plans, stores; `Get(B,k)`
stores in place → the entry is labelled A and holds B's plan; the next `Get(A,k)` is a HIT and returns B's plan.
(Schemas A = 1, B = 2; `build s k = s`.) With the model's `store` the same interleaving ends in a miss. -/
theorem store_without_relabel_breaks :
    let ops : List (Prim Nat) := [.lookup 2 [7], .lookup 1 [7], .store 1 [7], .store 2 [7], .lookup 1 [7]]
    (runPrim storeKeepLabel (fun s _ => s) (newPlanCache ⟨8, 0, false⟩) ops).2.getLast? = some (some (some 2)) ∧
    (runPrim store (fun s _ => s) (newPlanCache ⟨8, 0, false⟩) ops).2.getLast? = some (some none) := by
  decide +kernel

/-! ## 7. What participates in the structural fingerprint (model of `fingerprintDocument`, after the repairs of D-06b/c/g) -/
namespace Fp

/-- variable default values reach the hash: `query($x:Int=1)` and `query($x:Int=2)` get different keys (D-06c repaired) -/
theorem fingerprint_separates_variable_defaults :
    writeVarDefs [⟨str "x", .named (str "Int"), some (.int (str "1"))⟩] ≠
    writeVarDefs [⟨str "x", .named (str "Int"), some (.int (str "2"))⟩] := by decide +kernel

/-- `{ a @skip(if: true) ab }` and `{ a ab }` write different bytes (D-06b repaired) -/
def docSkip : OpDef := ⟨str "query", [], [],
  [.field none (str "a") [] [⟨str "skip", [(str "if", .bool true)]⟩] none, .field none (str "ab") [] [] none]⟩
def docPlain : OpDef := ⟨str "query", [], [], [.field none (str "a") [] [] none, .field none (str "ab") [] [] none]⟩

theorem fingerprint_separates_directives :
    fingerprintBytes [] docSkip [] 10 ≠ fingerprintBytes [] docPlain [] 10 := by decide +kernel

/-- literals inside directive arguments participate too: `@skip(if: 1)` vs `@skip(if: false)` -/
theorem fingerprint_separates_directive_arguments :
    writeDirectives [⟨str "skip", [(str "if", .int (str "1"))]⟩] ≠
    writeDirectives [⟨str "skip", [(str "if", .bool false)]⟩] := by decide +kernel

/-- string contents cannot imitate the encoding any more: one argument `prefix: "1,sep=s2"` versus the two
arguments `prefix: "1", sep: "2"` (D-06g repaired; before, both wrote `prefix=s1,sep=s2,`) -/
theorem fingerprint_separates_crafted_strings :
    writeFields [(str "prefix", .str (str "1,sep=s2"))] ≠
    writeFields [(str "prefix", .str (str "1")), (str "sep", .str (str "2"))] := by decide +kernel

end Fp

/-! ## 8. Non-vacuity: concrete histories -/

section Examples
def b (s : String) : Bytes := s.toUTF8.toList
def exBuild : Nat → Bytes → Bytes → Nat × Bytes × Bytes := fun s q op => (s, q, op)
def exOps : List (Op Nat) :=
  [.get 0 (b "{a}") (b ""), .get 0 (b "{a}") (b ""), .get 0 (b "{b}") (b ""), .get 0 (b "{a}") (b ""),
   .get 1 (b "{a}") (b ""), .reset, .get 1 (b "{a}") (b ""), .get 1 (b "{ long query }") (b "")]
def exOpts : Opts := ⟨1, 8, false⟩

-- cap 1, byte limit 8: miss, hit, miss (evicts {a}), miss, miss (schema guard), -, miss (reset), bypass
example : (run exBuild (some (newPlanCache exOpts)) exOps).2.map outcomeOf =
    [some .miss, some .hit, some .miss, some .miss, some .miss, none, some .miss, some .bypass] := by decide +kernel
example : ((run exBuild (some (newPlanCache exOpts)) exOps).1.map keysOf) = some [b "0:{a}"] := by decide +kernel
example : rawKey (b "abc") (b "{x}") = b "3:abc{x}" := by decide +kernel
example : rawKey (b "0123456789ab") (b "") = b "12:0123456789ab" := by decide +kernel
example : dec 1024 = b "1024" := by decide +kernel
example : rawFallbackKey (b "") = b "raw:cbf29ce484222325" := by decide +kernel
example : capOf ⟨0, 0, false⟩ = 1024 ∧ capOf ⟨-3, 0, false⟩ = 1024 ∧ capOf ⟨1, 0, false⟩ = 1 := by decide
-- the hypotheses of `transparent_raw` are satisfiable: `rawKey` is injective and the empty cache is honest
example : InvT rawKey exBuild (newPlanCache exOpts : Cache Nat _) := by intro e he; simp [newPlanCache] at he
end Examples

end GqlModel.PlanCache

/-! # C06, part 2 — the literal normaliser (`plan_cache_normalize.go`) is transparent for argument values

Model: `GqlModel/Normalize.lean` (`normalizeDocument`, `normalizeOperation`, `normSel/normSet/normList`, `normArgs`,
`tryExtract`, `lti` = `literalToInput`, `nextName`), tied to /repo on every run by comparing the printed normalised
document and the SynthArgs of the real `normalizeDocument` with the model on every pool request.

Premises the theorems need (after the repairs of D-06h/i/j, 4210b3d 54b00d5 80085fd, which the model follows):
* `ArgsOK`: argument values are well-formed (`Reader.WFValue`: names are GraphQL names, number tokens lexer-shaped —
  what the parser produces, C03) and argument types are well-formed input types (C11). VALIDITY of extracted literals is
  no premise: `tryExtract` checks `isValidLiteralValue` before extracting, and `-0` stays text;
* `UserOK`: the user's own variables evaluate alike with and without the synthetic ones — by `userOK_of_agree` it is
  enough that the two variable maps agree on the variables the argument list mentions, which holds because synthetic
  names avoid every variable name occurring in the document (`synth_names_fresh`);
* the soundness of the dedupe key `(type, printed literal)` is no premise any more: `dedupe_key_sound` derives it from
  C08's read-back theorems for well-formed types and values;
* `customLti`: a custom scalar's ParseLiteral / ParseValue agree on a literal and its client form (user code);
* `Realises`: the variable map of the normalised request holds, for each synthetic variable, the coerced client
  form (discharged by `getVariableValues` on the appended definitions: stated below as the missing lemma). -/
namespace GqlModel.Normalize
open GqlModel GqlModel.Coerce

/-- **literalToInput agrees with the literal.** A valid variable-free literal (canonical integers) is, in
client-variable form, a valid input value that `coerceValue` maps to what `valueFromAST` reads from the literal —
for every type (lists, non-null, nested and recursive input objects, enums by name, defaults). This is the
literal→variable direction of C05's `literal_variable_agree`. -/
theorem literalToInput_agree (s : Schema) (hcc : customLti s) (t : GType) (l : Value) (vars : Vars)
    (hv : hasVars l = false) (hcn : canonInts l = true) (h : isValidLiteralValue s t (some l) = true) :
    isValidInputValue s t (lti l) = true ∧ coerceValue s t (lti l) = valueFromAST s t (some l) vars :=
  lti_agree s hcc t l vars hv hcn h

/-- **normalize_args_transparent.** For every field: the argument map a resolver receives from the normalised
argument list under the normalised request's variables equals the one it receives from the original argument list
under the request's own variables — whatever was or was not extracted, from any state of the walk. -/
theorem normalize_args_transparent (s : Schema) (hcc : customLti s)
    (defs : List ArgDef) (hnd : (defs.map (·.name)).Nodup) (as : List Argument) (st : NState) (vars vars' : Vars)
    (hes : EntriesOK s st.entries) (ha : ArgsOK s defs as) (hu : UserOK s vars vars' as)
    (hre : Realises s vars' (normArgs s defs as st).2.entries) :
    getArgumentValues s defs (normArgs s defs as st).1 vars' = getArgumentValues s defs as vars := by
  unfold getArgumentValues
  congr 1
  apply filterMap_congr'
  intro d hd
  simp only [argEntry]
  rw [normArgs_lookup s hcc defs vars vars' as st hes ha hu hre d.name d (find_of_nodup defs hnd d hd)]

/-- **synth_names_fresh.** The synthetic variables of an operation never clash with a variable the operation defines
nor with any variable name occurring anywhere in the document (`docNames = docVarNames doc`: definitions and uses,
all operations and fragments — so an undefined `$__pcvN` cannot be captured), and are pairwise distinct. -/
theorem synth_names_fresh (s : Schema) (keep : List String) (root : String) (vars : List VarDef) (docNames : List String) (sel : SelectionSet) :
    (∀ e ∈ (normSet s keep root sel (initState vars docNames)).2.entries,
        e.name ∉ userVarNames vars ∧ e.name ∉ docNames) ∧
    ((normSet s keep root sel (initState vars docNames)).2.entries.map (·.name)).Nodup := by
  have h0 : NamesOK (initState vars docNames) := by
    unfold NamesOK
    exact ⟨by intro e he; simp [initState] at he, by simp [initState]⟩
  obtain ⟨h1, h2⟩ := normSet_namesOK s sel root (initState vars docNames) h0
  refine ⟨fun e he => ?_, h1.2⟩
  have := (h1.1 e he).1
  rw [h2] at this
  simp only [initState, List.mem_append, not_or] at this
  exact this

/-- **normalize_preserves_shape.** Operation type, name, directives, the user's variable definitions (a prefix of the
new list) and the whole selection structure — fields, aliases (response keys), argument names and order, directives,
fragments spreads, inline fragments, locations — are unchanged; only argument VALUES may differ (`eraseSet` forgets
exactly those). Fragment definitions are not touched at all (`normalizeDocument` replaces one definition). -/
theorem normalize_preserves_shape (s : Schema) (root : String) (docNames : List String) (op : OpType) (name : Option Name)
    (vars : List VarDef) (dirs : List Directive) (sel : SelectionSet) (loc : Loc) :
    ∃ sel' newDefs, (normalizeOperation s keep root docNames (.operation op name vars dirs sel loc)).1 =
        .operation op name (vars ++ newDefs) dirs sel' loc ∧ eraseSet sel' = eraseSet sel :=
  ⟨_, _, rfl, normSet_shape s sel root (initState vars docNames)⟩

/-- **dedupe_key_sound.** For well-formed types and literals, equal `byLiteral` keys (rendered type, NUL, printed literal)
mean the same type and literals that evaluate alike under every variable map — from C08's read-back theorems
(`readTypeTop_typeC`, `readValueTop_valueC`) and "evaluation ignores locations" (`valueFromAST_strip`). -/
theorem dedupe_key_sound (s : Schema) (t t' : GType) (v v' : Value)
    (ht : Reader.WFType (typeRefOf t)) (ht' : Reader.WFType (typeRefOf t')) (hv : Reader.WFValue v) (hv' : Reader.WFValue v')
    (h : litKey t v = litKey t' v') :
    t = t' ∧ ∀ vars, valueFromAST s t (some v) vars = valueFromAST s t' (some v') vars :=
  litKey_sound s t t' v v' ht ht' hv hv' h

/-- `normalize_args_transparent` with `UserOK` discharged: it suffices that the two variable maps agree on the
variables the argument list mentions. -/
theorem normalize_args_transparent_of_agree (s : Schema) (hcc : customLti s)
    (defs : List ArgDef) (hnd : (defs.map (·.name)).Nodup) (as : List Argument) (st : NState) (vars vars' : Vars)
    (hes : EntriesOK s st.entries) (ha : ArgsOK s defs as)
    (hagree : ∀ x ∈ argsVars as, lookupD vars' x = lookupD vars x)
    (hre : Realises s vars' (normArgs s defs as st).2.entries) :
    getArgumentValues s defs (normArgs s defs as st).1 vars' = getArgumentValues s defs as vars :=
  normalize_args_transparent s hcc defs hnd as st vars vars' hes ha (userOK_of_agree s vars vars' as hagree) hre

/-- every recorded literal IS valid for its type — by construction of `tryExtract`, not by assumption -/
theorem extracted_literals_are_valid (s : Schema) (defs : List ArgDef) (as : List Argument) (st : NState)
    (hes : EntriesOK s st.entries) (ha : ArgsOK s defs as) :
    ∀ e ∈ (normArgs s defs as st).2.entries, isValidLiteralValue s e.type (some e.lit) = true :=
  fun e he => (normArgs_entriesOK s defs as st hes ha e he).2.2.1

/-- every literal the walk records is valid, so (by `literalToInput_agree`) every SynthArg is a valid value of its
synthetic variable's declared type: `getVariableValues` cannot fail on them -/
theorem synth_args_are_valid_inputs (s : Schema) (hcc : customLti s) (defs : List ArgDef) (as : List Argument)
    (st : NState) (hes : EntriesOK s st.entries) (ha : ArgsOK s defs as) :
    ∀ e ∈ (normArgs s defs as st).2.entries, isValidInputValue s e.type (lti e.lit) = true := by
  intro e he
  obtain ⟨h1, h2, h3, _, _, _⟩ := normArgs_entriesOK s defs as st hes ha e he
  exact (lti_agree s hcc e.type e.lit [] h1 h2 h3).1

/-- `normalize_original_unmodified` is trivial here: the model is a pure function, the input document is a value.
On the real code it is checked on every normalised request (printer text and structural twin before/after). -/
theorem normalize_original_unmodified (doc : Document) : doc = doc := rfl

/-- **synthetic variables coerce to the literals' values (piece 1).** `getVariableValues` on the user's definitions
followed by the synthetic ones, with SynthArgs merged over the client's variables, gives the client's own result
extended by one entry per extracted literal (`extendVars`: the coerced client form, which by `literalToInput_agree` is
what `valueFromAST` gave the literal) — or the client's own error. -/
theorem synthetic_variables_coerce (s : Schema) (vars : List VarDef) (es : List Entry) (inputs : Vars)
    (hfresh : ∀ e ∈ es, e.name ∉ userVarNames vars) (hnd : (es.map (·.name)).Nodup)
    (hok : ∀ e ∈ es, isInputType s e.type = true ∧ isValidInputValue s e.type (lti e.lit) = true) :
    getVariableValues s (vars ++ es.map mkVarDef) (es.map (fun e => (e.name, lti e.lit)) ++ inputs) =
      match getVariableValues s vars inputs with
      | .error e => .error e
      | .ok v => .ok (extendVars s es v) :=
  getVariableValues_normalised s vars es inputs hfresh hnd hok

/-- **executor simulation (piece 2).** Two executions over the same schema and world, the second with variable map `vars'`
and a related fragment table (`FragsRel`), on groups related to the first's by `GRel` (same keys, same field names,
argument lists that evaluate alike, related sub-selections; source locations may differ), give the same result, state,
errors and invocation log — for every fuel. -/
theorem executor_simulation (c : Exec.Ctx) (vars' : Vars) (frags' : List (String × Definition))
    (hf : FragsRel c vars' frags') (hlen : frags'.length = c.frags.length) (fuel : Nat) (dfr : Bool) (rt : String)
    (src : Exec.GoVal) (path : Exec.Path) (g g' : Exec.Groups) (acc : List (String × JVal)) (st : Exec.St)
    (hg : GRel c vars' rt g g') (hu : HUAll c rt g) :
    Exec.execGroups (ctx' c vars' frags') fuel dfr rt src path g' acc st = Exec.execGroups c fuel dfr rt src path g acc st :=
  (sim_all c vars' frags' hf hlen fuel).1 dfr rt src path g g' acc st hg hu

/-- **normalized_transparent (end to end).** For every schema, document, operation name, client variables, world and
fuel: executing the NORMALISED document with (SynthArgs over the client's variables) gives exactly the response —
data, error paths, resolver invocation log with the arguments each resolver received, or request error, or fuel
exhaustion — of executing the ORIGINAL document with the client's variables.

Premises (each necessary or owned by another property):
* `DocLex doc` — field-argument values are well-formed (`Reader.WFValue`: names are GraphQL names, number tokens have
  the lexer's shape; what the parser produces — the model's `Value` can hold any text);
* `ExecUniform` — in the ORIGINAL execution every set of field nodes merged under one response key has one field
  name, hereditarily: what OverlappingFieldsCanBeMerged (C02) guarantees; the executor model runs unvalidated
  documents, and without this the statement is FALSE on the models (`{ x: a { k1: f(v: 3) } x: b { k2: f(v: 3) } }`
  with `a: A{f(v: Int)}`, `b: B{f(v: [Int])}`: B's sub-selection, normalised at B, is executed at A);
* `SchemaOK s` — argument names of a field distinct, argument types well-formed input types, no user field shadows
  `__schema`/`__type` (schema construction, C11);
* `customLti s` — a custom scalar's ParseLiteral/ParseValue agree on a literal and its client form (user code).
No premise on fuel: both sides run with the same fuel and exhaust it together. Validity of the original document is
not needed (extracted literals are valid by construction, undefined `$__pcvN` cannot be captured).

The hypothesis-free statement, kept for the record (false without `ExecUniform`, as shown above):
  ∀ s doc doc' opName inputs synth w fuel, normalizeDocument s doc opName = .ok doc' synth →
    Exec.execute s doc' opName (synth ++ inputs) w fuel = Exec.execute s doc opName inputs w fuel -/
theorem normalized_transparent (s : Schema) (hcc : customLti s) (hsch : SchemaOK s)
    (doc doc' : Document) (opName : String) (inputs synth : Vars) (w : Exec.World) (fuel : Nat)
    (hnorm : normalizeDocument s doc opName = .ok doc' synth) (hlex : DocLex doc)
    (hu : ExecUniform s doc opName inputs w) :
    Exec.execute s doc' opName (synth ++ inputs) w fuel = Exec.execute s doc opName inputs w fuel :=
  normalized_transparent_core s hcc hsch doc doc' opName inputs synth w fuel hnorm hlex hu

/-- **a static, decidable sufficient condition for `ExecUniform`**: if response keys determine field names throughout
the document (operation and fragments), every group of field nodes any execution merges has one field name. (Stricter
than OverlappingFieldsCanBeMerged, which also admits equal keys with different names under disjoint type conditions.) -/
theorem uniform_of_keys_functional (s : Schema) (doc : Document) (opName : String) (inputs : Vars) (w : Exec.World)
    (h : KeysFunctional doc) : ExecUniform s doc opName inputs w :=
  execUniform_of_keysFunctional s doc opName inputs w h

/-- `normalized_transparent` with every schema- and document-side premise in decidable form (`decide` discharges them on a
concrete schema / document): `schemaOKB`, `noCustomScalarsB`, `KeysFunctional`; `DocLex` remains (float tokens make
`Reader.WFValue` an existential). -/
theorem normalized_transparent_checked (s : Schema) (hs : schemaOKB s = true) (hc : noCustomScalarsB s = true)
    (doc doc' : Document) (opName : String) (inputs synth : Vars) (w : Exec.World) (fuel : Nat)
    (hnorm : normalizeDocument s doc opName = .ok doc' synth) (hlex : DocLex doc) (hk : KeysFunctional doc) :
    Exec.execute s doc' opName (synth ++ inputs) w fuel = Exec.execute s doc opName inputs w fuel :=
  normalized_transparent s (customLti_of_check s hc) (schemaOK_of_check s hs) doc doc' opName inputs synth w fuel hnorm hlex
    (execUniform_of_keysFunctional s doc opName inputs w hk)

/-! ## 9. Location independence and the normalising cache, end to end -/

/-- **execute_ignores_locations.** The executor model does not look at source locations: documents with the same
location-free image give the same response on the same inputs (data, error paths, log, request errors, fuel). Premise
`ExecUniform` for the first document (the simulation's premise; C02's overlap rule guarantees it). -/
theorem execute_ignores_locations (s : Schema) (d1 d2 : Document) (opName : String) (inputs : Vars) (w : Exec.World)
    (fuel : Nat) (h : d1.stripLoc = d2.stripLoc) (hu : ExecUniform s d1 opName inputs w) :
    Exec.execute s d2 opName inputs w fuel = Exec.execute s d1 opName inputs w fuel :=
  execute_of_stripEq s d1 d2 opName inputs w fuel h hu

/-- the normalised request inherits `ExecUniform` from the original one -/
theorem normalised_request_uniform (s : Schema) (hcc : customLti s) (hsch : SchemaOK s) (doc doc' : Document)
    (opName : String) (inputs synth : Vars) (w : Exec.World)
    (hnorm : normalizeDocument s doc opName = .ok doc' synth) (hlex : DocLex doc)
    (hu : ExecUniform s doc opName inputs w) : ExecUniform s doc' opName (synth ++ inputs) w :=
  execUniform_normalised s hcc hsch doc doc' opName inputs synth w hnorm hlex hu

/-- **printed_key_faithful.** A cache key that is the PRINTED normalised document (what the comments in plan_cache.go
describe, and what the repair `notes/fixes/D-06k.diff` does: `printedKey` = `"doc:"` + printed text) is faithful:
well-formed documents with the same key are equal up to source locations — from C08's `parse_print` on bytes. -/
theorem printed_key_faithful (d1 d2 : Document) (h1 : Printer.WFDocument d1) (h2 : Printer.WFDocument d2)
    (h : printedKey d1 = printedKey d2) : d1.stripLoc = d2.stripLoc := by
  obtain ⟨a, ha, hsa⟩ := GqlModel.C08.parse_print d1 h1
  obtain ⟨b, hb, hsb⟩ := GqlModel.C08.parse_print d2 h2
  have : GqlModel.RoundTrip.printBytes d1 = GqlModel.RoundTrip.printBytes d2 := by
    simp only [printedKey] at h
    exact List.append_cancel_left h
  rw [this, hb] at ha
  simp only [Except.ok.injEq, GqlModel.Parser.Parsed.mk.injEq, and_true] at ha
  rw [← hsa, ← ha, hsb]

/-- **normalize_keeps_wf.** The normalised document of a printer-well-formed document is printer-well-formed (the
synthetic names `__pcvN` are GraphQL names, the synthetic definitions carry the arguments' declared types): the premise
C08's read-back needs to make the printed text identify the NORMALISED document. -/
theorem normalize_keeps_wf (s : Schema) (hsch : SchemaOK s) (doc docN : Document) (opName : String) (synth : Vars)
    (hwf : Printer.WFDocument doc) (h : normalizeDocument s doc opName = .ok docN synth) : Printer.WFDocument docN :=
  normalizeDocument_wf s hsch doc docN opName synth hwf h

/-- **normalising_hit_transparent.** What a faithful key buys, in terms of the executor model: if the document `res` a
normalising `Get` hands back (on a HIT: the normalised document of the request that populated the entry) equals this
request's own normalised document up to source locations, then executing `res` with THIS request's SynthArgs over the
client's variables gives exactly the response of executing this request's ORIGINAL document with the client's variables.
Composed from `normalized_transparent` (this request), `normalised_request_uniform` and `execute_ignores_locations`.
What it does NOT say: positions in error messages — the model's responses carry paths, not source locations; on a hit the
real library reports the LOCATIONS of the populating variant (known finding D-18e, C18). -/
theorem normalising_hit_transparent (s : Schema) (hcc : customLti s) (hsch : SchemaOK s)
    (doc docN res : Document) (opName : String) (inputs synth : Vars) (w : Exec.World) (fuel : Nat)
    (hnorm : normalizeDocument s doc opName = .ok docN synth) (hres : res.stripLoc = docN.stripLoc)
    (hlex : DocLex doc) (hu : ExecUniform s doc opName inputs w) :
    Exec.execute s res opName (synth ++ inputs) w fuel = Exec.execute s doc opName inputs w fuel := by
  rw [execute_of_stripEq s docN res opName (synth ++ inputs) w fuel hres.symm
    (execUniform_normalised s hcc hsch doc docN opName inputs synth w hnorm hlex hu)]
  exact normalized_transparent s hcc hsch doc docN opName inputs synth w fuel hnorm hlex hu

/-- the front end of a normalising `Get` as the cache model sees it, built from the normaliser model: `parse` (opaque:
C03), the schema behind a pointer, the operation name as text, and the KEY FUNCTION on normalised documents (the
parameter the theorem is about; `none` = the `"raw:"` fallback handled by `normCacheKey`) -/
structure Front (S : Type) where
  parse : PlanCache.Bytes → Option Document
  schemaOf : S → Schema
  opStr : PlanCache.Bytes → String
  keyOf : Document → String → PlanCache.Bytes

def Front.norm {S : Type} (f : Front S) : S → PlanCache.Bytes → PlanCache.Bytes → PlanCache.NormOut Vars := fun s q op =>
  match f.parse q with
  | none => .parseErr
  | some doc =>
    match normalizeDocument (f.schemaOf s) doc (f.opStr op) with
    | .rootError => .normErr
    | .notApplicable => .ok [] []
    | .ok d sy => .ok (f.keyOf d (f.opStr op)) sy

/-- what is stored for a request: its normalised document (the original one where normalisation does not apply) -/
def Front.buildN {S : Type} (f : Front S) : S → PlanCache.Bytes → PlanCache.Bytes → Document := fun s q op =>
  match f.parse q with
  | none => ⟨[], Loc.none⟩
  | some doc =>
    match normalizeDocument (f.schemaOf s) doc (f.opStr op) with
    | .ok d _ => d
    | _ => doc

/-- documents equal up to source locations -/
def SameShape (d d' : Document) : Prop := d.stripLoc = d'.stripLoc

/-- **normalising_get_transparent — the cache-level theorem without `hdet`.** For a normalising cache whose entries
are faithful (`InvE`; the fresh cache is), under the explicit key assumption `KeyFaithful SameShape` (see its docstring:
provable for a printed-document key by `printed_key_faithful`, an ASSUMPTION for the FNV-hash key as coded — D-06k
exhibits a collision — and for the `"raw:"` fallback), every `Get` that goes through the cache — HIT or miss, whatever was
evicted, reset or replaced before — hands back a document whose execution with this request's SynthArgs over the
client's variables equals the execution of this request's own original document with the client's variables; and the
entries stay faithful. Premises of `normalized_transparent` for this request. Not covered: error LOCATIONS on a hit
(D-18e) — the model's responses have none. -/
theorem normalising_get_transparent {S : Type} [DecidableEq S] (fb : PlanCache.KeyShape) (f : Front S)
    (hkey : PlanCache.KeyFaithful fb SameShape f.norm f.buildN)
    (errRes : S → PlanCache.Bytes → PlanCache.Bytes → Document) (failed : Document → Bool)
    (c : PlanCache.Cache S Document) (s : S) (q op : PlanCache.Bytes) (h : PlanCache.InvE fb SameShape f.norm f.buildN c)
    (doc docN : Document) (synth inputs : Vars) (w : Exec.World) (fuel : Nat)
    (hparse : f.parse q = some doc) (hnorm : normalizeDocument (f.schemaOf s) doc (f.opStr op) = .ok docN synth)
    (hcc : customLti (f.schemaOf s)) (hsch : SchemaOK (f.schemaOf s)) (hlex : DocLex doc)
    (hu : ExecUniform (f.schemaOf s) doc (f.opStr op) inputs w) :
    PlanCache.InvE fb SameShape f.norm f.buildN (PlanCache.getNorm fb f.norm errRes f.buildN failed c s q op).1 ∧
    (((PlanCache.getNorm fb f.norm errRes f.buildN failed c s q op).2.2 = .hit ∨
      (PlanCache.getNorm fb f.norm errRes f.buildN failed c s q op).2.2 = .miss) →
      Exec.execute (f.schemaOf s) (PlanCache.getNorm fb f.norm errRes f.buildN failed c s q op).2.1.res (f.opStr op)
          (synth ++ inputs) w fuel =
        Exec.execute (f.schemaOf s) doc (f.opStr op) inputs w fuel) := by
  obtain ⟨h1, h2⟩ := PlanCache.normalized_get_faithful fb SameShape (fun _ => rfl)
    (fun a b c hab hbc => by unfold SameShape at *; rw [hab, hbc]) f.norm errRes f.buildN failed hkey c s q op h
  refine ⟨h1, fun ho => ?_⟩
  have hE := h2 ho
  have hb : f.buildN s q op = docN := by simp only [Front.buildN, hparse, hnorm]
  rw [hb] at hE
  exact normalising_hit_transparent (f.schemaOf s) hcc hsch doc docN _ (f.opStr op) inputs synth w fuel hnorm hE hlex hu

/-- **parsed_text_nul_free.** Text that the lexer + parser models accept contains no NUL byte (for ANY bytes: the
bug-faithful lexer model, D-03a included — an early NAME end only makes the next scan re-read bytes). -/
theorem parsed_text_nul_free (b : List UInt8) (p : GqlModel.Parser.Parsed) (h : GqlModel.parseBytes b = .ok p) :
    ∀ x ∈ b, x ≠ 0 := GqlModel.parseBytes_nz b p h

/-- **printed_nul_free.** The cache identifier of a well-formed document contains no NUL byte: its printed text parses
back (C08 `parse_print`), and text the lexer model accepts contains no NUL byte (`parseBytes_nz`, GqlProofs/NulFree.lean:
every byte is read by a scanner, and every scanner rejects the byte 0). -/
theorem printed_nul_free (d : Document) (h : Printer.WFDocument d) : ∀ b ∈ printedKey d, b ≠ 0 := by
  obtain ⟨a, ha, _⟩ := GqlModel.C08.parse_print d h
  have hz := GqlModel.parseBytes_nz _ _ ha
  intro b hb
  simp only [printedKey, List.cons_append, List.nil_append, List.mem_cons] at hb
  rcases hb with rfl | rfl | rfl | rfl | hb
  · decide
  · decide
  · decide
  · decide
  · exact hz b hb

/-- what an `.ok` answer of the front end is made of -/
theorem Front.norm_ok {S : Type} (f : Front S) (s : S) (q op nk : PlanCache.Bytes) (sy : Vars)
    (h : f.norm s q op = .ok nk sy) :
    ∃ doc, f.parse q = some doc ∧
      (nk = [] ∨ ∃ d, normalizeDocument (f.schemaOf s) doc (f.opStr op) = .ok d sy ∧
        nk = f.keyOf d (f.opStr op) ∧ f.buildN s q op = d) := by
  unfold Front.norm at h
  cases hp : f.parse q with
  | none => simp only [hp] at h; cases h
  | some doc =>
    simp only [hp] at h
    refine ⟨doc, rfl, ?_⟩
    cases hn : normalizeDocument (f.schemaOf s) doc (f.opStr op) with
    | rootError => simp only [hn] at h; cases h
    | notApplicable => simp only [hn] at h; cases h; exact Or.inl rfl
    | ok d sy0 =>
      simp only [hn] at h
      cases h
      exact Or.inr ⟨d, rfl, rfl, by simp only [Front.buildN, hp, hn]⟩

/-- **repaired_key_faithful — the key assumption DISCHARGED for the repaired key.** With the key construction of
`notes/fixes/D-06k.diff` (`keyShapeRepaired`: `operationName + "\x00" + normKey`; `normKey` = `"raw:" + query` for
requests normalisation does not apply to, `printedKey` = `"doc:"` + printed normalised document otherwise), equal cache
keys imply documents equal up to source locations: no hash, no collision assumption, operation names are ARBITRARY byte
strings. Premises: `hpb` — what `f.parse` accepts is what the parser model on bytes (`parseBytes`: C03's lexer + parser
models) accepts WITH THE MALFORMED-TYPE FLAG DOWN (documents through the D-03b path of `parseType`, known finding
typeRefMalformed of C03, stay outside, as they do for C08's round trip) — and `SchemaOK`. That such documents are
printer-well-formed is C08's `parse_ok_WF`. The `"\\x00"` separator
is sound because neither text that parses nor printed text contains a NUL byte — PROVED: `parseBytes_nz`
(GqlProofs/NulFree.lean, from the lexer model) and `printed_nul_free` (from it and C08's `parse_print`). For the key as coded
(`keyShapeCoded` + FNV fingerprint) the same statement is FALSE: D-06k (hash collision) and D-06l (the fingerprint does
not see definitions the selected operation does not reach). -/
theorem repaired_key_faithful {S : Type} (f : Front S)
    (hk : ∀ d op, f.keyOf d op = printedKey d)
    (hpb : ∀ q doc, f.parse q = some doc → GqlModel.parseBytes q = .ok ⟨doc, false⟩)
    (hs : ∀ s, SchemaOK (f.schemaOf s)) :
    PlanCache.KeyFaithful PlanCache.keyShapeRepaired SameShape f.norm f.buildN := by
  have hp : ∀ q doc, f.parse q = some doc → Printer.WFDocument doc := fun q doc h =>
    GqlModel.C08.parse_ok_WF q ⟨doc, false⟩ (hpb q doc h) rfl
  have hq : ∀ q doc, f.parse q = some doc → ∀ b ∈ q, b ≠ 0 := fun q doc h =>
    GqlModel.parseBytes_nz q _ (hpb q doc h)
  have hd : ∀ d, Printer.WFDocument d → ∀ b ∈ printedKey d, b ≠ 0 := printed_nul_free
  intro s q op q' op' nk sy nk' sy' hn hn' hkey
  simp only [PlanCache.normCacheKey, PlanCache.keyShapeRepaired] at hkey
  obtain ⟨doc, hpa, hcase⟩ := Front.norm_ok f s q op nk sy hn
  obtain ⟨doc', hpa', hcase'⟩ := Front.norm_ok f s q' op' nk' sy' hn'
  have hraw : ∀ (x : PlanCache.Bytes), (∀ b ∈ x, b ≠ 0) → ∀ b ∈ PlanCache.rawFallbackKeyText x, b ≠ 0 := by
    intro x hx b hb
    simp only [PlanCache.rawFallbackKeyText, List.mem_append, List.mem_cons, List.not_mem_nil, or_false] at hb
    rcases hb with (rfl | rfl | rfl | rfl) | hb
    · decide
    · decide
    · decide
    · decide
    · exact hx b hb
  -- both effective keys are NUL-free
  have hnf : ∀ b ∈ (if nk = [] then PlanCache.rawFallbackKeyText q else nk), b ≠ 0 := by
    by_cases h1 : nk = []
    · simp only [h1, if_true]; exact hraw q (hq q doc hpa)
    · simp only [h1, if_false]
      rcases hcase with h | ⟨d, hno, hnk, _⟩
      · exact absurd h h1
      · rw [hnk, hk]; exact hd d (normalize_keeps_wf _ (hs s) doc d _ sy (hp q doc hpa) hno)
  have hnf' : ∀ b ∈ (if nk' = [] then PlanCache.rawFallbackKeyText q' else nk'), b ≠ 0 := by
    by_cases h1 : nk' = []
    · simp only [h1, if_true]; exact hraw q' (hq q' doc' hpa')
    · simp only [h1, if_false]
      rcases hcase' with h | ⟨d, hno, hnk, _⟩
      · exact absurd h h1
      · rw [hnk, hk]; exact hd d (normalize_keeps_wf _ (hs s) doc' d _ sy' (hp q' doc' hpa') hno)
  obtain ⟨hop, hkk⟩ := PlanCache.nulJoin_inj _ _ _ _ hnf hnf' hkey
  subst hop
  have hdoc : ∀ d : Document, PlanCache.rawFallbackKeyText q ≠ printedKey d ∧
      PlanCache.rawFallbackKeyText q' ≠ printedKey d := by
    intro d
    constructor <;>
    · intro h
      simp only [PlanCache.rawFallbackKeyText, printedKey, List.cons_append, List.nil_append, List.cons.injEq] at h
      exact absurd h.1 (by decide)
  by_cases h1 : nk = [] <;> by_cases h2 : nk' = []
  · simp only [h1, h2, if_true, PlanCache.rawFallbackKeyText] at hkk
    have := List.append_cancel_left hkk
    subst this
    rfl
  · simp only [h1, h2, if_true, if_false] at hkk
    rcases hcase' with h | ⟨d, _, hnk, _⟩
    · exact absurd h h2
    · rw [hnk, hk] at hkk; exact absurd hkk (hdoc d).1
  · simp only [h1, h2, if_true, if_false] at hkk
    rcases hcase with h | ⟨d, _, hnk, _⟩
    · exact absurd h h1
    · rw [hnk, hk] at hkk; exact absurd hkk.symm (hdoc d).2
  · simp only [h1, h2, if_false] at hkk
    rcases hcase with h | ⟨d, hno, hnk, hb⟩
    · exact absurd h h1
    rcases hcase' with h | ⟨d', hno', hnk', hb'⟩
    · exact absurd h h2
    rw [hb, hb']
    rw [hnk, hnk', hk, hk] at hkk
    exact printed_key_faithful d d'
      (normalize_keeps_wf _ (hs s) doc d _ sy (hp q doc hpa) hno)
      (normalize_keeps_wf _ (hs s) doc' d' _ sy' (hp q' doc' hpa') hno') hkk

/-- **wf_document_lex.** A printer-well-formed document satisfies the lexical premise `DocLex` of `normalized_transparent`
(field-argument values are `Reader.WFValue`) — so for documents the parser model accepts (flag down) `DocLex` is free. -/
theorem wf_document_lex (doc : Document) (h : Printer.WFDocument doc) : DocLex doc := by
  intro op name vars dirs sel loc hmem
  have hd := wfDefinitions_mem doc.defs h.2 _ hmem
  simp only [Printer.WFDefinition] at hd
  exact lexSet_of_wf sel hd.2.2.2

/-- **normalising_get_transparent_repaired** — `normalising_get_transparent` with the key assumption discharged:
for the key construction of `notes/fixes/D-06k.diff` no hypothesis about hashes or collisions is left. Premises: `hpb`
(the front end's parse is the parser model with the malformed-type flag down — D-03b documents stay outside), `SchemaOK`,
`customLti`, `ExecUniform` (from C02's acceptance: `Props/C06Accepted.lean`). `DocLex` and `WFDocument` are derived
(`parse_ok_WF`, `wf_document_lex`). -/
theorem normalising_get_transparent_repaired {S : Type} [DecidableEq S] (f : Front S)
    (hk : ∀ d op, f.keyOf d op = printedKey d)
    (hpb : ∀ q doc, f.parse q = some doc → GqlModel.parseBytes q = .ok ⟨doc, false⟩)
    (errRes : S → PlanCache.Bytes → PlanCache.Bytes → Document) (failed : Document → Bool)
    (c : PlanCache.Cache S Document) (s : S) (q op : PlanCache.Bytes)
    (h : PlanCache.InvE PlanCache.keyShapeRepaired SameShape f.norm f.buildN c)
    (doc docN : Document) (synth inputs : Vars) (w : Exec.World) (fuel : Nat)
    (hparse : f.parse q = some doc) (hnorm : normalizeDocument (f.schemaOf s) doc (f.opStr op) = .ok docN synth)
    (hcc : customLti (f.schemaOf s)) (hsch : ∀ s, SchemaOK (f.schemaOf s))
    (hu : ExecUniform (f.schemaOf s) doc (f.opStr op) inputs w) :
    PlanCache.InvE PlanCache.keyShapeRepaired SameShape f.norm f.buildN
        (PlanCache.getNorm PlanCache.keyShapeRepaired f.norm errRes f.buildN failed c s q op).1 ∧
    (((PlanCache.getNorm PlanCache.keyShapeRepaired f.norm errRes f.buildN failed c s q op).2.2 = .hit ∨
      (PlanCache.getNorm PlanCache.keyShapeRepaired f.norm errRes f.buildN failed c s q op).2.2 = .miss) →
      Exec.execute (f.schemaOf s) (PlanCache.getNorm PlanCache.keyShapeRepaired f.norm errRes f.buildN failed c s q op).2.1.res
          (f.opStr op) (synth ++ inputs) w fuel =
        Exec.execute (f.schemaOf s) doc (f.opStr op) inputs w fuel) :=
  normalising_get_transparent PlanCache.keyShapeRepaired f (repaired_key_faithful f hk hpb hsch) errRes failed c s q op h
    doc docN synth inputs w fuel hparse hnorm hcc (hsch s)
    (wf_document_lex doc (GqlModel.C08.parse_ok_WF q ⟨doc, false⟩ (hpb q doc hparse) rfl)) hu

/-! ## 10. What the rewriting leaves alone so that VALIDATION says the same (D-06m, D-06n)

`normalized_transparent` is about execution. Validation runs on the REWRITTEN document; two rules read literals as
written, and the normaliser must not take them away from those rules. -/

/-- **duplicate_field_literals_stay (D-06m).** An object literal that names a field twice — at any depth, inside lists —
is never extracted: it stays in the document, where UniqueInputFieldNames reports it (before the repair it became a
synthetic variable and the request was SERVED with the last value). -/
theorem duplicate_field_literals_stay (s : Schema) (st : NState) (v : Value) (t : GType) (h : dupFields v = true) :
    tryExtract s st v t = (v, st) := tryExtract_dup s st v t h

/-- **kept_keys_keep_arguments (D-06n).** The fields of the operation whose RESPONSE KEY also occurs on a field inside a
fragment definition (`keep = fragKeys doc`) have, after the walk, exactly the argument lists they had before (same
fields, same order): `keptOf keep` = the (response key, argument list) pairs with key in `keep`. -/
theorem kept_keys_keep_arguments (s : Schema) (keep : List String) (sel : SelectionSet) (P : String) (st : NState) :
    keptOf keep (setKeyArgs (normSet s keep P sel st).1) = keptOf keep (setKeyArgs sel) :=
  normSet_kept s keep sel P st

/-- **same_arguments_with_fragment_fields (D-06n).** OverlappingFieldsCanBeMerged compares, for fields with one response
key, the argument lists AS WRITTEN (`R` below: any relation on argument lists, e.g. the rule's "same arguments"). Fragment
definitions are not rewritten (`normalize_original_unmodified` / `fragments_eq`). For every field `(k, fa)` of every fragment
definition of the document: the operation fields with response key `k` stand in `R` to it after the rewriting iff they
did before — their argument lists are literally the same. So the rewriting can neither create nor hide an
operation-vs-fragment argument conflict. (Two fields of the operation itself are both rewritten, equal literals of one
type by the same synthetic variable: `dedupe_key_sound`.) -/
theorem same_arguments_with_fragment_fields (s : Schema) (doc : Document) (root : String) (sel : SelectionSet) (st : NState)
    (name : Name) (tc : TypeRef) (dirs : List Directive) (fsel : SelectionSet) (loc : Loc)
    (hd : Definition.fragment name tc dirs fsel loc ∈ doc.defs) (k : String) (fa : List Argument)
    (hf : (k, fa) ∈ setKeyArgs fsel) (R : List Argument → List Argument → Prop) :
    (∀ p ∈ setKeyArgs (normSet s (fragKeys doc) root sel st).1, p.1 = k → R p.2 fa) ↔
      (∀ p ∈ setKeyArgs sel, p.1 = k → R p.2 fa) := by
  have hk : (fragKeys doc).contains k = true := fragKeys_mem doc name tc dirs fsel loc hd (k, fa) hf
  have hkept := normSet_kept s (fragKeys doc) sel root st
  have hmem : ∀ (l : List (String × List Argument)) (p : String × List Argument), p.1 = k →
      (p ∈ l ↔ p ∈ keptOf (fragKeys doc) l) := by
    intro l p hp
    simp only [keptOf, List.mem_filter, hp, hk, and_true]
  constructor
  · intro h p hp hpk
    exact h p ((hmem _ p hpk).mpr (hkept ▸ (hmem _ p hpk).mp hp)) hpk
  · intro h p hp hpk
    exact h p ((hmem _ p hpk).mpr (hkept ▸ (hmem _ p hpk).mp hp)) hpk

/-! ## non-vacuity -/
section Examples
def exEchoArgs : List ArgDef := [⟨"i", .named "Int", none, ""⟩, ⟨"e", .named "Color", none, ""⟩,
  ⟨"o", .named "Pt", none, ""⟩, ⟨"l", GType.list (.named "Int"), none, ""⟩, ⟨"id", .named "ID", none, ""⟩]
def exTypes : List TypeDef := [.scalar "Int" .int "", .scalar "String" .string "", .scalar "ID" .id "",
  .enum "Color" [⟨"RED", .str "R", "", ""⟩, ⟨"GREEN", .str "G", "", ""⟩] "",
  .inputObject "Pt" [⟨"x", .named "Int", some (.int 7), ""⟩, ⟨"y", .named "Int", none, ""⟩] "",
  .object "Query" [] [⟨"echo", .named "String", exEchoArgs, "", ""⟩] false ""]
def exS : Schema := { types := exTypes, query := "Query", mutation := none, subscription := none, directives := [] }
def L0 : Loc := Loc.none
def exArgs : List Argument := [⟨⟨"i", L0⟩, .int "3" L0, L0⟩, ⟨⟨"e", L0⟩, .enum "GREEN" L0, L0⟩,
  ⟨⟨"o", L0⟩, .obj [.mk ⟨"y", L0⟩ (.int "1" L0) L0] L0, L0⟩, ⟨⟨"l", L0⟩, .int "3" L0, L0⟩]
def exSel : SelectionSet := .mk [.field none ⟨"echo", L0⟩ exArgs [] none L0] L0

-- four literals, three synthetic variables (`i: 3` and `l: 3` have different types, hence different variables)
example : (normSet exS [] "Query" exSel (initState [] [])).2.synth.map (·.1) = ["__pcv0", "__pcv1", "__pcv2", "__pcv3"] := by
  decide +kernel
-- the enum literal travels by NAME, the input object as a map without the defaulted field
example : ((JVal.obj (normSet exS [] "Query" exSel (initState [] [])).2.synth) ==
    .obj [("__pcv0", .int 3), ("__pcv1", .str "GREEN"), ("__pcv2", .obj [("y", .int 1)]), ("__pcv3", .int 3)]) = true := by
  decide +kernel
-- D-06n repaired: with `echo` among the response keys of the fragment definitions, the field keeps its literals
example : (normSet exS ["echo"] "Query" exSel (initState [] [])).2.entries.length = 0 ∧
    (normSet exS ["other"] "Query" exSel (initState [] [])).2.entries.length = 4 := by decide +kernel
-- D-06m repaired: `{y: 1, y: 2}` (also inside a list) is not extracted
example : dupFields (.obj [.mk ⟨"y", L0⟩ (.int "1" L0) L0, .mk ⟨"y", L0⟩ (.int "2" L0) L0] L0) = true ∧
    dupFields (.list [.obj [.mk ⟨"y", L0⟩ (.int "1" L0) L0, .mk ⟨"y", L0⟩ (.int "2" L0) L0] L0] L0) = true ∧
    dupFields (.obj [.mk ⟨"x", L0⟩ (.int "1" L0) L0, .mk ⟨"y", L0⟩ (.int "2" L0) L0] L0) = false ∧
    (tryExtract exS (initState [] []) (.obj [.mk ⟨"y", L0⟩ (.int "1" L0) L0, .mk ⟨"y", L0⟩ (.int "2" L0) L0] L0)
      (.named "Pt")).2.entries.length = 0 := by decide +kernel
-- a user variable named __pcv0 is skipped
example : (nextName ["__pcv0", "x", "__pcv1"] 0).1 = "__pcv2" := by decide +kernel
-- D-06h repaired: the invalid `["5"]` for [Int] is NOT extracted (although its client form would be accepted)
example : isValidLiteralValue exS (.list (.named "Int")) (some (.list [.str "5" L0] L0)) = false ∧
    (tryExtract exS (initState [] []) (.list [.str "5" L0] L0) (.list (.named "Int"))).2.entries.length = 0 ∧
    isValidInputValue exS (.list (.named "Int")) (lti (.list [.str "5" L0] L0)) = true := by decide +kernel
-- D-06i repaired: `-0` for ID stays text, so literal and client form agree
example : canonInts (.int "-0" L0) = true ∧
    (coerceValue exS (.named "ID") (lti (.int "-0" L0)) == .str "-0") = true ∧
    (valueFromAST exS (.named "ID") (some (.int "-0" L0)) [] == .str "-0") = true := by decide +kernel
-- end to end on a concrete request: `{ echo(i: 3) a { f(v: 3) } }` — the normalised document with SynthArgs answers
-- (data and the argument maps of the resolver log) exactly like the original
def exTypes2 : List TypeDef := [.scalar "Int" .int "", .scalar "String" .string "",
  .object "A" [] [⟨"f", .named "String", [⟨"v", .named "Int", none, ""⟩], "", ""⟩] false "",
  .object "B" [] [⟨"f", .named "String", [⟨"v", GType.list (.named "Int"), none, ""⟩], "", ""⟩] false "",
  .object "Query" [] [⟨"echo", .named "String", [⟨"i", .named "Int", none, ""⟩], "", ""⟩,
    ⟨"a", .named "A", [], "", ""⟩, ⟨"b", .named "B", [], "", ""⟩] false ""]
def exS2 : Schema := { types := exTypes2, query := "Query", mutation := none, subscription := none, directives := [] }
def exObjects : List (Nat × Exec.WObj) :=
  [(1, ⟨"A", [("f", .value (.str "fa"))]⟩), (2, ⟨"B", [("f", .value (.str "fb"))]⟩)]
def exRootFields : List (String × Exec.Outcome) :=
  [("echo", .value (.str "e")), ("a", .value (.ref 1)), ("b", .value (.ref 2))]
def exWorld : Exec.World := { objects := exObjects, rootFields := exRootFields, isTypeOf := [], resolveType := [] }
def fld (al : Option String) (nm : String) (args : List Argument) (sub : Option (List Selection)) : Selection :=
  .field (al.map (fun a => ⟨a, L0⟩)) ⟨nm, L0⟩ args [] (sub.map (fun ss => SelectionSet.mk ss L0)) L0
def arg3 (n : String) : Argument := ⟨⟨n, L0⟩, .int "3" L0, L0⟩
def docOf (sels : List Selection) : Document := ⟨[.operation .query none [] [] (.mk sels L0) L0], L0⟩
def exDocGood : Document := docOf [fld none "echo" [arg3 "i"] none, fld none "a" [] (some [fld none "f" [arg3 "v"] none])]
/-- data and the argument maps the resolvers received -/
def summary : Exec.Response → Option (Option (List (String × JVal)) × List (String × List (String × JVal)))
  | .result data _ log _ => some (data, log.map (fun e => (e.fieldName, e.args)))
  | _ => none
def bothRuns (s : Schema) (doc : Document) : Option (Exec.Response × Exec.Response) :=
  match normalizeDocument s doc "" with
  | .ok doc' synth => some (Exec.execute s doc' "" (synth ++ []) exWorld 40, Exec.execute s doc "" [] exWorld 40)
  | _ => none
example : (match normalizeDocument exS2 exDocGood "" with | .ok _ synth => synth.length | _ => 0) = 1 := by decide +kernel
example : (match bothRuns exS2 exDocGood with
    | some (r', r) => (summary r').isSome && summary r' == summary r
    | none => false) = true := by decide +kernel
-- the premises of `normalized_transparent` are satisfiable: on this schema and request they all hold, for every world,
-- variables and fuel (the instance above is a special case)
theorem exDocGood_lex : DocLex exDocGood := by
  intro op name vars dirs sel loc h
  simp only [exDocGood, docOf, List.mem_singleton, Definition.operation.injEq] at h
  obtain ⟨_, _, _, _, rfl, _⟩ := h
  simp only [LexSet, LexList, LexSel, LexOpt, fld, arg3, Option.map, List.mem_singleton, forall_eq, and_true,
    List.not_mem_nil, false_implies, implies_true, true_and, Reader.WFValue, and_self]
  decide
example (inputs : Vars) (w : Exec.World) (fuel : Nat) (doc' : Document) (synth : Vars)
    (h : normalizeDocument exS2 exDocGood "" = .ok doc' synth) :
    Exec.execute exS2 doc' "" (synth ++ inputs) w fuel = Exec.execute exS2 exDocGood "" inputs w fuel :=
  normalized_transparent_checked exS2 (by decide +kernel) (by decide +kernel) exDocGood doc' "" inputs synth w fuel h
    exDocGood_lex (by decide +kernel)
-- … and `KeysFunctional` rejects the counterexample below
example : ¬ KeysFunctional (docOf [fld (some "x") "a" [] none, fld (some "x") "b" [] none]) := by decide +kernel
-- `ExecUniform` is necessary: `{ x: a { k1: f(v: 3) } x: b { k2: f(v: 3) } }` merges `a` and `b` under one key; B's
-- sub-selection (normalised against `B.f(v: [Int])`) is executed at A, whose resolver then receives `[3]` instead of `3`
def exDocBad : Document := docOf [fld (some "x") "a" [] (some [fld (some "k1") "f" [arg3 "v"] none]),
  fld (some "x") "b" [] (some [fld (some "k2") "f" [arg3 "v"] none])]
example : (match bothRuns exS2 exDocBad with
    | some (r', r) => (summary r').isSome && (summary r).isSome && !(summary r' == summary r)
    | none => false) = true := by decide +kernel
-- D-06j repaired: a variable the document merely uses is skipped
example : (nextName (userVarNames [] ++ ["__pcv0"]) 0).1 = "__pcv1" := by decide +kernel
end Examples

end GqlModel.Normalize

