import GqlProofs.Subscription
import Generated.Tables
import GqlModel.ChanTables
/-! # C15 — A subscription delivers one correct result per source event, then closes

Property theorems only. The object is the transition system `GqlModel.Subscription.step` (model M of
`graphql.Subscribe` / `ExecuteSubscription`, see the anchors there). A *schedule* is a list of actions; `run`
returns `none` when an action of the list is not enabled, so `run … acts = some s` says "`acts` is a possible
run and ends in `s`". All theorems quantify over **every** schedule of **any** length (induction over the
action list), every event list, every `exec` (what `Execute` makes of an event) and every consumer behaviour.

`Cfg.ctxErr` is the result `{data: null, errors: [ctx.Err()]}`. `Execute` runs under the request context, so a
result computed for an event taken *after* cancellation may be that context error instead of the mapped result
(C16); the model marks this on the action (`produce true`, enabled only once cancelled). -/
namespace GqlModel.Subscription
variable {ε ρ : Type}

/-- **One result per source event, in source order, each the mapped event** — on every schedule.
What the consumer has received corresponds one-to-one and in order to a prefix `pre` of the source's events;
each result is `exec` of its event, except that a result may be the context error when the context is
cancelled by now; and if `Execute` never ran under the done context (no `produce true` in the schedule — in
particular if the context was never cancelled) the delivered list is exactly `map exec pre`. -/
theorem delivered_is_mapped_prefix (c : Cfg ε ρ) (events : List ε) (acts : List Act) (s : St ε ρ)
    (h : run c (init (.stream events)) acts = some s) :
    ∃ pre rest, events = pre ++ rest ∧ s.delivered.length = pre.length ∧
      (∀ (i : Nat) (r : ρ) (e : ε), s.delivered[i]? = some r → pre[i]? = some e →
          r = c.exec e ∨ (s.cancelled = true ∧ r = c.ctxErr)) ∧
      ((∀ a ∈ acts, a ≠ .produce true) → s.delivered = pre.map c.exec) := by
  have h1 := streamInv_run c events acts _ s (streamInv_init c _ events) h
  obtain ⟨_, pre, rest, hev, hm, _⟩ := h1
  refine ⟨pre, rest, hev, hm.length_eq, fun i r e hr he => hm.get i r e hr he, fun hp => ?_⟩
  have h2 := streamInv_run_pure c events acts _ s hp (streamInv_init c false events) h
  obtain ⟨_, pre', rest', hev', hm', _⟩ := h2
  have hm'' : Matches (fun r e => r = c.exec e) s.delivered pre' :=
    hm'.mono (fun r e hre => by rcases hre with h | ⟨h, _⟩; exact h; cases h)
  have hl : pre'.length = pre.length := by rw [← hm.length_eq, hm'.length_eq]
  have : pre' = pre := by
    have := congrArg (List.take pre.length) (hev.symm.trans hev')
    simpa [List.take_append_of_le_length, ← hl] using this.symm
  rw [← this]; exact hm''.eq_map

/-- corollary: as long as the context is not cancelled the delivered list is exactly the mapped prefix -/
theorem delivered_exact_until_cancel (c : Cfg ε ρ) (events : List ε) (acts : List Act) (s : St ε ρ)
    (h : run c (init (.stream events)) acts = some s) (hc : s.cancelled = false) :
    ∃ pre rest, events = pre ++ rest ∧ s.delivered = pre.map c.exec := by
  obtain ⟨_, pre, rest, hev, hm, _⟩ := streamInv_run c events acts _ s (streamInv_init c _ events) h
  refine ⟨pre, rest, hev, Matches.eq_map (hm.mono (fun r e hre => ?_))⟩
  rcases hre with h | ⟨h, _⟩
  · exact h
  · rw [hc] at h; cases h

/-- **Closed after the source closes or the context is cancelled.**
(1) *only then*: whenever the result channel is closed, either the context was cancelled, or the source was
closed after its last event and then every event's result has been delivered;
(2) *then indeed*: once the context is cancelled, or the source is closed and drained and the consumer reads,
at most two further steps of the forwarder and the consumer (no step of anybody else) close the channel. -/
theorem closed_after_source_closed_or_cancelled (c : Cfg ε ρ) (events : List ε) (acts : List Act) (s : St ε ρ)
    (h : run c (init (.stream events)) acts = some s) :
    (s.closedSeen = true → s.cancelled = true ∨ (s.srcClosed = true ∧ s.delivered = events.map c.exec)) ∧
    ((s.cancelled = true ∨ (s.srcClosed = true ∧ s.pending = [] ∧ s.consumer = .reading)) →
      ∃ more t, more.length ≤ 2 ∧ (∀ a ∈ more, a = .deliver ∨ a = .finish ∨ a = .observeCancel) ∧
        run c s more = some t ∧ t.closedSeen = true) := by
  have hinv := streamInv_run c events acts _ s (streamInv_init c _ events) h
  obtain ⟨pending, srcClosed, cancelled, fwd, buf, consumer, delivered⟩ := s
  obtain ⟨hb, pre, rest, hev, hm, hf⟩ := hinv
  simp only at hb hm hf
  subst hb
  constructor
  · intro hcl
    cases fwd <;> simp [St.closedSeen] at hcl
    simp only [] at hf
    rcases hf with hf | ⟨h1, _, h3⟩
    · exact Or.inl hf
    · cases hcanc : cancelled with
      | true => exact Or.inl rfl
      | false =>
        refine Or.inr ⟨h1, ?_⟩
        subst h3
        simp only [List.append_nil] at hev
        subst hev
        subst hcanc
        exact Matches.eq_map (hm.mono (fun r e hre => by rcases hre with h | ⟨h, _⟩; exact h; cases h))
  · intro hpre
    simp only at hpre
    cases fwd with
    | done => exact ⟨[], _, by simp, by simp, rfl, by simp [St.closedSeen]⟩
    | final r => exact hf.elim
    | idle =>
      rcases hpre with hc | ⟨h1, h2, _⟩
      · subst hc
        refine ⟨[.observeCancel], _, ?_, ?_, rfl, ?_⟩ <;> simp [St.closedSeen]
      · subst h1; subst h2
        refine ⟨[.finish], _, ?_, ?_, rfl, ?_⟩ <;> simp [St.closedSeen]
    | holding r =>
      rcases hpre with hc | ⟨h1, h2, h3⟩
      · subst hc
        refine ⟨[.observeCancel], _, ?_, ?_, rfl, ?_⟩ <;> simp [St.closedSeen]
      · subst h1; subst h2; subst h3
        refine ⟨[.deliver, .finish], _, ?_, ?_, rfl, ?_⟩ <;> simp [St.closedSeen]

/-- **A request that fails to parse, validate or subscribe delivers exactly one error result and is then
closed.** `r` is that error result. For both mechanisms (buffered closed channel of `sendOneResultAndClose`;
`send(r)` inside the goroutine) and on every schedule: nothing but `r` is ever delivered and at most once; a
reading consumer's next receive delivers `r` and the channel is closed right after; once closed, `r` has been
delivered — unless the context was cancelled first, the only way the goroutine may drop it. -/
theorem invalid_request_one_error_then_closed (c : Cfg ε ρ) (r : ρ) (req : Request ε ρ)
    (hreq : req = .invalid r ∨ req = .oneShot r) (acts : List Act) (s : St ε ρ)
    (h : run c (init req) acts = some s) :
    (s.delivered = [] ∨ s.delivered = [r]) ∧
    (s.closedSeen = true → s.delivered = [r] ∨ (req = .oneShot r ∧ s.cancelled = true ∧ s.delivered = [])) ∧
    (s.closedSeen = false → s.consumer = .reading →
      ∃ t, step c s .deliver = some t ∧ t.delivered = [r] ∧ t.closedSeen = true) := by
  rcases hreq with rfl | rfl
  · have hinv : InvalidInv r s :=
      inv_run c (InvalidInv r) (fun s t a => invalidInv_step c r a) acts _ s ⟨rfl, rfl, Or.inl ⟨rfl, rfl⟩⟩ h
    obtain ⟨pending, srcClosed, cancelled, fwd, buf, consumer, delivered⟩ := s
    obtain ⟨hp, hf, hb⟩ := hinv
    simp only at hp hf hb
    subst hp; subst hf
    rcases hb with ⟨rfl, rfl⟩ | ⟨rfl, rfl⟩
    · refine ⟨Or.inl rfl, by simp [St.closedSeen], fun _ hc => ?_⟩
      simp only at hc; subst hc
      refine ⟨_, rfl, ?_, ?_⟩ <;> simp [St.closedSeen]
    · exact ⟨Or.inr rfl, fun _ => Or.inl rfl, by simp [St.closedSeen]⟩
  · have hinv : OneShotInv r s :=
      inv_run c (OneShotInv r) (fun s t a => oneShotInv_step c r a) acts _ s ⟨rfl, rfl, Or.inl ⟨rfl, rfl⟩⟩ h
    obtain ⟨pending, srcClosed, cancelled, fwd, buf, consumer, delivered⟩ := s
    obtain ⟨hp, hb, hf⟩ := hinv
    simp only at hp hb hf
    subst hp; subst hb
    rcases hf with ⟨rfl, rfl⟩ | ⟨rfl, rfl⟩ | ⟨rfl, rfl, rfl⟩
    · refine ⟨Or.inl rfl, by simp [St.closedSeen], fun _ hc => ?_⟩
      simp only at hc; subst hc
      refine ⟨_, rfl, ?_, ?_⟩ <;> simp [St.closedSeen]
    · exact ⟨Or.inr rfl, fun _ => Or.inl rfl, by simp [St.closedSeen]⟩
    · exact ⟨Or.inl rfl, fun _ => Or.inr ⟨rfl, rfl, rfl⟩, by simp [St.closedSeen]⟩

/-- every schedule made of forwarder / receive / producer actions only is finite: at most `2·|events| + 2`
steps from the start (so maximal runs exist and end in terminal states) -/
theorem progress_runs_are_bounded (c : Cfg ε ρ) (events : List ε) (acts : List Act) (s : St ε ρ)
    (hp : ∀ a ∈ acts, a ∈ progressActs) (h : run c (init (.stream events)) acts = some s) :
    acts.length ≤ 2 * events.length + 2 := by
  have := progress_run_bound c acts _ s hp h
  simp [measure, init, blank, fwdRank] at this
  omega

/-- **Prompt consumer, no cancellation ⇒ every maximal run delivers all events, then closes.**
If the schedule contains no `cancel` and the consumer never pauses or stops, then in any state where no
action of the forwarder, the consumer or the producer is enabled any more (a terminal state; by
`progress_runs_are_bounded` every run reaches one) all events have been delivered, mapped, in order, and the
channel is closed. -/
theorem terminal_states_complete (c : Cfg ε ρ) (events : List ε) (acts : List Act) (s : St ε ρ)
    (h : run c (init (.stream events)) acts = some s)
    (hno : ∀ a ∈ acts, a ≠ .cancel ∧ a ≠ .pause ∧ a ≠ .stop)
    (hterm : s.terminal c = true) :
    s.delivered = events.map c.exec ∧ s.closedSeen = true ∧ s.goroutineAlive = false := by
  have hI : s.consumer = .reading ∧ s.cancelled = false :=
    inv_run_of c (fun s => s.consumer = .reading ∧ s.cancelled = false)
      (fun a => a ≠ .cancel ∧ a ≠ .pause ∧ a ≠ .stop) (prompt_uncancelled_step c) acts _ s hno ⟨rfl, rfl⟩ h
  have hinv := streamInv_run c events acts _ s (streamInv_init c _ events) h
  obtain ⟨pending, srcClosed, cancelled, fwd, buf, consumer, delivered⟩ := s
  obtain ⟨hb, pre, rest, hev, hm, hf⟩ := hinv
  obtain ⟨h1, h2⟩ := hI
  simp only at hb hm hf h1 h2
  subst hb; subst h1; subst h2
  cases fwd with
  | idle =>
    cases pending <;> cases srcClosed <;> simp [St.terminal, progressActs, step] at hterm
  | holding r => simp [St.terminal, progressActs, step] at hterm
  | final r => exact hf.elim
  | done =>
    simp only [] at hf
    rcases hf with hf | ⟨_, _, h3⟩
    · cases hf
    · subst h3
      simp only [List.append_nil] at hev
      subst hev
      refine ⟨?_, by simp [St.closedSeen], by simp [St.goroutineAlive]⟩
      exact Matches.eq_map (hm.mono (fun r e hre => by rcases hre with h | ⟨h, _⟩; exact h; cases h))

/-- **After cancellation no goroutine of the subscription stays blocked.** For every kind of request and on
every schedule: once the context is cancelled, a forwarder that has not returned yet — idle, holding a stream
result, or holding a one-shot result — can take its `<-ctx.Done()` branch at once, whatever the consumer does
(also when it stopped reading for good), and that step ends the goroutine and closes the channel without
delivering anything further. (True because both sends are `select`s with `ctx.Done()`: repairs cdfe557, 8fc288b.) -/
theorem no_forwarder_stuck_after_cancel (c : Cfg ε ρ) (req : Request ε ρ) (acts : List Act) (s : St ε ρ)
    (_h : run c (init req) acts = some s) (hc : s.cancelled = true) (ha : s.goroutineAlive = true) :
    ∃ t, step c s .observeCancel = some t ∧ t.goroutineAlive = false ∧ t.delivered = s.delivered ∧
      t.consumer = s.consumer := by
  obtain ⟨pending, srcClosed, cancelled, fwd, buf, consumer, delivered⟩ := s
  simp only at hc; subst hc
  cases fwd <;> simp [St.goroutineAlive] at ha <;> exact ⟨_, rfl, rfl, rfl, rfl⟩

/-- …and the forwarder cannot stay anywhere else: a cancelled state in which no action of the forwarder, the
consumer or the producer is enabled has no live goroutine (with `progress_runs_are_bounded`: after cancel
every maximal run ends with the goroutine gone). -/
theorem cancelled_terminal_has_no_goroutine (c : Cfg ε ρ) (s : St ε ρ) (hc : s.cancelled = true)
    (hterm : s.terminal c = true) : s.goroutineAlive = false := by
  obtain ⟨pending, srcClosed, cancelled, fwd, buf, consumer, delivered⟩ := s
  simp only at hc; subst hc
  cases fwd <;> simp [St.terminal, progressActs, step] at hterm <;> simp [St.goroutineAlive]

/-- Tie to the code, re-checked against the regenerated `Generated/Tables.lean` on every run: the result
channel of `ExecuteSubscription` is the only channel made there and is unbuffered (so `deliver` is a
rendezvous, as modelled), and `sendOneResultAndClose` makes one channel of capacity 1 (so preloading it with
the single error result cannot block, as modelled by `Request.invalid`). -/
theorem result_channels_as_modelled :
    ChanTables.chanCaps Generated.chanMakes "subscription.go" "ExecuteSubscription" = [some 0] ∧
    ChanTables.chanCaps Generated.chanMakes "subscription.go" "sendOneResultAndClose" = [some 1] := by
  decide +kernel

/-! ## Non-vacuity: concrete schedules (events are numbers, `exec e = 10·e + 1`, context error = 0) -/

def exCfg : Cfg Nat Nat := { exec := fun e => 10 * e + 1, ctxErr := 0 }

/-- a complete run: two events, prompt consumer, source closes, forwarder finishes -/
example : (run exCfg (init (.stream [1, 2])) [.produce false, .deliver, .produce false, .deliver, .closeSource, .finish]).map
    (fun s => (s.delivered, s.closedSeen, s.terminal exCfg)) = some ([11, 21], true, true) := by decide
/-- cancel while a result is pending and the consumer has stopped: the forwarder leaves -/
example : (run exCfg (init (.stream [1, 2])) [.produce false, .stop, .cancel, .observeCancel]).map
    (fun s => (s.delivered, s.closedSeen, s.goroutineAlive)) = some ([], true, false) := by decide
/-- an event taken after cancellation may be answered with the context error -/
example : (run exCfg (init (.stream [1, 2])) [.produce false, .cancel, .deliver, .produce true, .deliver]).map
    (fun s => s.delivered) = some [11, 0] := by decide
/-- `produce true` is not enabled before cancellation, nor a second `deliver` without a result -/
example : run exCfg (init (.stream [1])) [.produce true] = none := by decide
example : run exCfg (init (.stream [1])) [.produce false, .deliver, .deliver] = none := by decide
/-- one-shot paths -/
example : (run exCfg (init (.invalid 7)) [.cancel, .deliver]).map (fun s => (s.delivered, s.closedSeen)) =
    some ([7], true) := by decide
example : (run exCfg (init (.oneShot 7)) [.stop, .cancel, .observeCancel]).map
    (fun s => (s.delivered, s.closedSeen)) = some ([], true) := by decide

end GqlModel.Subscription
