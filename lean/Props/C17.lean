import GqlProofs.ExtCtx
/-! # C17 — Extension hooks are balanced, ordered and fault-isolated

Property theorems only. `M` = `Ext.run` (graphql.Do + Execute + ExecutePlan + resolvePlannedField + the
`handleExtensions*` functions + addExtensionResults as coded today, i.e. with D-17a…d repaired); `S` = the log
predicates `PhaseOrder`, `Balanced`, `Nested`, `PanicsReported` of `GqlModel/Ext.lean`. All statements are for
every list of extensions with distinct names (any length), every request outcome class (syntax / validation /
operation / variable error, any list of executed fields with outcomes ok / error / panic / non-null failure) and
every assignment of ok | panic(error | string | other) to the 11 hooks of every extension.

History: on the pinned tree both theorems were false (D-17b: phases of other extensions left open after a failed
start hook; D-17c: no per-field finish call when a resolver panics; D-17d: hook errors dropped when a non-null
root field fails). They were then proved as `…_partial` under the negation of three class predicates, with
`decide`-checked negation witnesses (kept in notes/agents/C17-pinned/). The library was repaired (a934e54,
5dab2fb, cfba981, 537e26f); the model follows the repaired code and the theorems below are the FULL statements.
Requests whose context is done form a further class, proved covered at the end of this file. -/
namespace GqlModel.Ext

/-! ## The expected outcomes used by `Balanced` on the log of `run xs req` are what the finish functions get -/

theorem expectedOut_parse (xs : List ExtBehaviour) (hnd : NodupNames xs) (req : RequestOutcomeClass)
    (h : reachesParse xs = true) :
    expectedOut req (run xs req).1 .parse = if req = .syntaxErr || anyFault xs .parseStart then .err else .ok := by
  simp only [expectedOut, any_sf_parse xs hnd req, h, Bool.true_and]

theorem expectedOut_val (xs : List ExtBehaviour) (hnd : NodupNames xs) (req : RequestOutcomeClass)
    (h : reachesVal xs req = true) :
    expectedOut req (run xs req).1 .val = if req = .validationErr || anyFault xs .valStart then .err else .ok := by
  simp only [expectedOut, any_sf_val xs hnd req, h, Bool.true_and]

theorem expectedOut_exec (xs : List ExtBehaviour) (hnd : NodupNames xs) (req : RequestOutcomeClass)
    (h : reachesExec xs req = true) :
    expectedOut req (run xs req).1 .exec = if anyFault xs .execStart then .err else bodyOut xs req := by
  simp only [expectedOut, execOut_run xs hnd req h]

/-! ## The property -/

/-- PhaseOrder: each extension sees init, parse start, validation start, execution start, one resolve
notification immediately before each resolver call (same field), then result collection — a prefix of this
sequence, in this order, nothing skipped, nothing twice. -/
theorem phase_order (xs : List ExtBehaviour) (req : RequestOutcomeClass) (hnd : NodupNames xs) :
    PhaseOrder (names xs) (run xs req).1 := by
  intro a ha
  obtain ⟨b, hb, rfl⟩ := List.mem_map.1 ha
  have := po_view xs b req
  simp only [phaseOrderFor, proj_run xs hnd b hb req, Bool.and_eq_true, bne_iff_ne, ne_eq]
  exact this

/-- Nested: parse, validation and execution phases of one extension do not overlap each other, init or result
collection; every resolve phase lies inside the execution phase; a finish function closes the innermost phase. -/
theorem nested (xs : List ExtBehaviour) (req : RequestOutcomeClass) (hnd : NodupNames xs) :
    Nested (names xs) (run xs req).1 := by
  intro a ha
  obtain ⟨b, hb, rfl⟩ := List.mem_map.1 ha
  simp only [nestedFor, proj_run xs hnd b hb req, bne_iff_ne, ne_eq]
  exact nest_view xs b hb req

/-- Balanced: every phase whose start hook returned is finished exactly once, with the outcome of that phase
(error for a syntax / validation error, for a phase aborted by another extension's failing start hook, for a
failed or panicking resolver, for an execution result that carries errors), and nothing else is finished. -/
theorem balanced (xs : List ExtBehaviour) (req : RequestOutcomeClass) (hnd : NodupNames xs) :
    Balanced req (names xs) (run xs req).1 := by
  intro a ha
  obtain ⟨b, hb, rfl⟩ := List.mem_map.1 ha
  simp only [balancedFor, proj_run xs hnd b hb req, beq_iff_eq]
  exact bal_view xs b hb req _ (expectedOut_parse xs hnd req) (expectedOut_val xs hnd req)
    (expectedOut_exec xs hnd req) (fun _ => rfl)

/-- **trace_balanced_ordered_nested** (full statement): for every request outcome, any number of extensions with
distinct names and any fault assignment, the hook log of `Do` is ordered, balanced and nested. -/
theorem trace_balanced_ordered_nested (xs : List ExtBehaviour) (req : RequestOutcomeClass) (hnd : NodupNames xs) :
    PhaseOrder (names xs) (run xs req).1 ∧ Balanced req (names xs) (run xs req).1 ∧ Nested (names xs) (run xs req).1 :=
  ⟨phase_order xs req hnd, balanced xs req hnd, nested xs req hnd⟩

/-- every panicking hook call (any panic value) has its own error in `Result.Errors`; more precisely the hook
errors of the result are exactly the panicking hook calls of the log, in call order. Holds for any names. -/
theorem hook_errors_eq_faults (xs : List ExtBehaviour) (req : RequestOutcomeClass) :
    (run xs req).2.errors.filter isHookErr = faultClasses (run xs req).1 := (fc_run xs req).symm

theorem panics_reported (xs : List ExtBehaviour) (req : RequestOutcomeClass) :
    reported (run xs req).1 (run xs req).2 = true := reported_run xs req

/-- **panic_isolated** (full statement): every panicking hook is reported as an error of the result and the
started phases of the other extensions are still finished. That the request is never taken down has no
counterpart in the model (`run` is total; since the D-17a repair no recover block can re-panic): the harness treats
every panic escaping `graphql.Do` as a violation. -/
theorem panic_isolated (xs : List ExtBehaviour) (req : RequestOutcomeClass) (hnd : NodupNames xs) :
    PanicsReported req (names xs) (run xs req).1 (run xs req).2 :=
  ⟨panics_reported xs req, fun a ha _ => balanced xs req hnd a ha⟩

/-! ## Non-vacuity and concrete logs -/

def okExt (n : Nat) : ExtBehaviour := ⟨n, fun _ => .ok, true⟩
/-- extension `n` whose hook `h` panics with `k` -/
def faultyExt (n : Nat) (h : Hook) (k : PanicKind) : ExtBehaviour :=
  ⟨n, fun h' => if h' = h then .panic k else .ok, true⟩

example : NodupNames [okExt 1, faultyExt 2 .parseEnd .str, faultyExt 3 .resStart .other] := by decide

/-- a fault-free run of two extensions over a request with one field shows the complete pipeline -/
example : (run [okExt 1, okExt 2] (.exec [.ok])).1.map (fun e => (e.ext, e.hook)) =
    [(1, .init), (2, .init), (1, .parseStart), (2, .parseStart), (1, .parseEnd), (2, .parseEnd),
     (1, .valStart), (2, .valStart), (1, .valEnd), (2, .valEnd), (1, .execStart), (2, .execStart),
     (1, .resStart), (2, .resStart), (0, .resolver), (1, .resEnd), (2, .resEnd), (1, .execEnd), (2, .execEnd),
     (1, .hasResult), (1, .getResult), (2, .hasResult), (2, .getResult)] := by decide

/-- the D-17b situation on the repaired code: extension 2 panics in `ParseDidStart`; extension 1's parse phase
is finished (with an error outcome) before `Do` returns, and both errors' worth of information is kept -/
theorem d17b_repaired :
    (run [okExt 1, faultyExt 2 .parseStart .err] (.exec [.ok])).1.map (fun e => (e.ext, e.hook, e.out)) =
      [(1, .init, .none), (2, .init, .none), (1, .parseStart, .none), (2, .parseStart, .none), (1, .parseEnd, .err)] ∧
    (run [okExt 1, faultyExt 2 .parseStart .err] (.exec [.ok])).2.errors = [.hook 2 .parseStart .err] := by decide

/-- the D-17c situation on the repaired code: the resolver panics, the per-field finish function is called with
an error outcome -/
theorem d17c_repaired :
    (run [okExt 1] (.exec [.panic])).1.map (fun e => (e.hook, e.out)) =
      [(.init, .none), (.parseStart, .none), (.parseEnd, .ok), (.valStart, .none), (.valEnd, .ok),
       (.execStart, .none), (.resStart, .none), (.resolver, .err), (.resEnd, .err), (.execEnd, .err),
       (.hasResult, .none), (.getResult, .none)] := by decide

/-- the D-17d situation on the repaired code: the hook error survives the failure of a non-null root field -/
theorem d17d_repaired :
    (run [faultyExt 1 .resStart .str] (.exec [.ok, .errNN])).2.errors
      = [.hook 1 .resStart .str, .hook 1 .resStart .str, .request] := by decide

/-! ## Requests whose context is done (cancelled / past its deadline) before `ExecutePlan`'s `select` yields

`runCtx xs fields at` = log when `Do` returns and result; `ctxLate xs fields at` = what the abandoned executor
goroutine logs afterwards. The class is covered by the classes above: for the caller's goroutine it IS the
`ctxReq` (= request error at execution) class, and the executor's resolve events are those of the live run. -/

/-- the log at return without the executor's events, and the result, are those of `run xs ctxReq` -/
theorem ctx_toplevel_covered (xs : List ExtBehaviour) (fields : List FieldOutcome) (c : CtxAt) (hnd : NodupNames xs) :
    topLevel (runCtx xs fields c).1 = (run xs ctxReq).1 ∧ (runCtx xs fields c).2 = (run xs ctxReq).2 :=
  ⟨runCtx_toplevel xs hnd fields c, runCtx_summary xs fields c⟩

/-- the resolve events of the complete log are those of the live run (or none, if the body is not reached) -/
theorem ctx_resolve_covered (xs : List ExtBehaviour) (fields : List FieldOutcome) (c : CtxAt) (hnd : NodupNames xs) :
    resolveOnly ((runCtx xs fields c).1 ++ ctxLate xs fields c)
      = if reachesBody xs (.exec fields) then (executeFields xs 0 fields).1 else [] :=
  runCtx_resolveOnly xs hnd fields c

/-- **trace_balanced_ordered_nested for the context-done class**: whatever the context state, init / parse /
validation / execution / result collection are ordered, every such phase that was started is finished exactly once
(execution with an error outcome) before `Do` returns, they are nested, results are collected; and every resolve
phase the executor starts — before or after `Do` returned — is announced right before its resolver call and
finished exactly once with the field's outcome. -/
theorem ctx_trace_balanced_ordered_nested (xs : List ExtBehaviour) (fields : List FieldOutcome) (c : CtxAt)
    (hnd : NodupNames xs) :
    CtxBalancedOrderedNested fields (names xs) (runCtx xs fields c).1 (ctxLate xs fields c) := by
  refine ⟨?_, ?_, ?_, ?_⟩
  · rw [runCtx_toplevel xs hnd]; exact phase_order xs ctxReq hnd
  · rw [runCtx_toplevel xs hnd]; exact balanced xs ctxReq hnd
  · rw [runCtx_toplevel xs hnd]; exact nested xs ctxReq hnd
  · intro a ha
    obtain ⟨b, hb, rfl⟩ := List.mem_map.1 ha
    exact ctx_resolvePhases xs hnd fields c b hb

/-- **panic_isolated for the context-done class** (hooks called on the caller's goroutine) -/
theorem ctx_panic_isolated (xs : List ExtBehaviour) (fields : List FieldOutcome) (c : CtxAt) (hnd : NodupNames xs) :
    CtxPanicsReported (names xs) (runCtx xs fields c).1 (runCtx xs fields c).2 := by
  unfold CtxPanicsReported
  rw [runCtx_toplevel xs hnd, runCtx_summary]
  exact panic_isolated xs ctxReq hnd

/-- the context is cancelled while the resolver of the first of two fields runs: `Do` returns after finishing the
execution phase (error outcome) and collecting results; the executor finishes both fields afterwards -/
theorem ctx_cancel_in_resolver_example :
    (runCtx [okExt 1] [.ok, .ok] (.inResolver 0)).1.map (fun e => (e.hook, e.fld, e.out)) =
      [(.init, 0, .none), (.parseStart, 0, .none), (.parseEnd, 0, .ok), (.valStart, 0, .none), (.valEnd, 0, .ok),
       (.execStart, 0, .none), (.resStart, 0, .none), (.resolver, 0, .ok), (.execEnd, 0, .err),
       (.hasResult, 0, .none), (.getResult, 0, .none)] ∧
    (ctxLate [okExt 1] [.ok, .ok] (.inResolver 0)).map (fun e => (e.hook, e.fld, e.out)) =
      [(.resEnd, 0, .ok), (.resStart, 1, .none), (.resolver, 1, .ok), (.resEnd, 1, .ok)] ∧
    (runCtx [okExt 1] [.ok, .ok] (.inResolver 0)).2 = ⟨[.request], [1], false⟩ := by decide

/-- Observation O-17f (inherent to abandoning the executor; NOT claimed by the theorems above): in the complete log
of such a request a resolve phase is open across the execution finish, and the error of a resolve hook that panics
in the abandoned executor is not in the result. -/
theorem ctx_full_log_observation :
    ¬ Nested [1] ((runCtx [okExt 1] [.ok] (.inResolver 0)).1 ++ ctxLate [okExt 1] [.ok] (.inResolver 0)) ∧
    reported ((runCtx [faultyExt 1 .resStart .err] [.ok] (.inResolver 0)).1)
      (runCtx [faultyExt 1 .resStart .err] [.ok] (.inResolver 0)).2 = false := by decide

/-- Outside the hypothesis of distinct names (still true of the code): two extensions registered under one name —
the finish-function map keeps one entry per name, so only the later registration's finish functions run:
2 parse starts, 1 parse end, not balanced. -/
theorem shared_name_loses_finish :
    ((run [okExt 7, okExt 7] .syntaxErr).1.filter (fun e => e.hook == .parseStart)).length = 2 ∧
    ((run [okExt 7, okExt 7] .syntaxErr).1.filter (fun e => e.hook == .parseEnd)).length = 1 ∧
    ¬ Balanced .syntaxErr [7] (run [okExt 7, okExt 7] .syntaxErr).1 := by decide

end GqlModel.Ext
