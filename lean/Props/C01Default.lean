import GqlModel.DefaultResolve
import GqlProofs.DefaultResolve
import Generated.Tables
import GqlModel.DefaultWorld
/-! # C01 / C20 — the default resolver (`DefaultResolveFn`, executor.go 510-583)

A field without a `Resolve` function is resolved by reading the property named by the field out of the parent
value. These theorems are about the model `GqlModel.DefaultResolve.defaultResolve` (M: the function branch by
branch, the struct-field loop as a recursion over the declaration order); the unit `c01dr` of the C01 check
compares M with the real `graphql.DefaultResolveFn` on generated parent values (structs built with
`reflect.StructOf`, maps of several static types, pointers, resolver implementations) and end to end through
`graphql.Do`.

What a user relies on (S): the parent value *is* a property table; the field's value is the table entry under
the field's name, whatever the declaration order of struct fields or the iteration order of a map. The theorems
say exactly when that holds (one field answers for the name) and what happens when it does not (declaration
order decides; witnesses below). -/
namespace GqlModel.DefaultResolve

/-- M = S for structs: the loop returns the first field, in declaration order, that answers for the name
(Go name up to case, or head of the `json` / `graphql` tag), nil when none does. -/
theorem struct_first_match (ptr : Bool) (fs : List SField) (name : String) :
    defaultResolve (.struct ptr fs) name = Spec.structProperty fs name :=
  scan_eq_find fs name

/-- Order-free form: when exactly one field of the struct answers for the name, that field's value is the
result wherever the field stands; a pointer to the struct behaves like the struct. -/
theorem struct_unique_match (ptr : Bool) (fs : List SField) (name : String) (f : SField)
    (hf : f ∈ fs) (hm : fieldMatches f name = true)
    (huniq : ∀ g ∈ fs, fieldMatches g name = true → g = f) :
    defaultResolve (.struct ptr fs) name = fieldValue f := by
  rw [struct_first_match]
  unfold Spec.structProperty
  rw [find_of_unique (fieldMatches · name) fs f hf hm huniq]

/-- No field answers: nil, no panic (also on structs with unexported fields). -/
theorem struct_no_match (ptr : Bool) (fs : List SField) (name : String)
    (h : ∀ g ∈ fs, fieldMatches g name = false) :
    defaultResolve (.struct ptr fs) name = .value .nil := by
  rw [struct_first_match]
  unfold Spec.structProperty
  rw [find_none_of_all_false (fieldMatches · name) fs h]

/-- A struct type that encodes a property table unambiguously (field `i` answers for key `i` and for no other
listed key, all fields exported) gives back entry `i` for key `i`: the struct source behaves like the table. -/
theorem struct_encodes_table (ptr : Bool) (fs : List SField) (ks : List String)
    (h : Unambiguous fs ks) (hexp : ∀ f ∈ fs, f.exported = true)
    (i : Nat) (hi : i < fs.length) (hk : i < ks.length) :
    defaultResolve (.struct ptr fs) ks[i] = .value fs[i].val := by
  rw [struct_first_match]
  unfold Spec.structProperty
  have hfind : fs.find? (fieldMatches · ks[i]) = some fs[i] := by
    rw [List.find?_eq_some_iff_getElem]
    refine ⟨(h.2 i i hi hk).mpr rfl, i, hi, rfl, ?_⟩
    intro j hj
    have hjl : j < fs.length := Nat.lt_trans hj hi
    have : ¬ fieldMatches fs[j] ks[i] = true := fun hm => by
      have := (h.2 j i hjl hk).mp hm
      omega
    simpa using this
  rw [hfind]
  simp [fieldValue, hexp fs[i] (List.getElem_mem hi)]

/-- The decidable form the harness evaluates implies the hypothesis of `struct_encodes_table`. -/
theorem unambiguous_of_unambiguousB (fs : List SField) (ks : List String)
    (h : unambiguousB fs ks = true) : Unambiguous fs ks := by
  unfold unambiguousB at h
  simp only [Bool.and_eq_true, beq_iff_eq, List.all_eq_true, List.mem_range] at h
  refine ⟨h.1, ?_⟩
  intro i j hi hj
  have := h.2 i hi j hj
  simp only [List.getElem?_eq_getElem hi, List.getElem?_eq_getElem hj] at this
  have hb : fieldMatches fs[i] ks[j] = (i == j) := by simpa using this
  rw [hb]
  simp

/-- Maps: with distinct keys (every Go map) the result depends on the SET of entries only — the order in
which the harness, or Go's randomised iteration, lists them is irrelevant. -/
theorem map_entry_order_irrelevant (es es' : List (String × PVal)) (name : String)
    (hnd : (es.map (·.1)).Nodup) (hnd' : (es'.map (·.1)).Nodup)
    (hsame : ∀ e, e ∈ es ↔ e ∈ es') :
    defaultResolve (.mapIface es) name = defaultResolve (.mapIface es') name ∧
    ∀ ke el, defaultResolve (.mapRefl ke el es) name = defaultResolve (.mapRefl ke el es') name := by
  have hl : lookup es name = lookup es' name := by
    cases h : lookup es name with
    | some v =>
      have hm := lookup_some_mem es name v h
      exact (lookup_of_mem_nodup es' name v hnd' ((hsame _).mp hm)).symm
    | none =>
      cases h' : lookup es' name with
      | none => rfl
      | some v =>
        have hm := lookup_some_mem es' name v h'
        rw [lookup_of_mem_nodup es name v hnd ((hsame _).mpr hm)] at h
        cases h
  refine ⟨by simp [defaultResolve, hl], ?_⟩
  intro ke el
  simp [defaultResolve, hl]

/-- `map[string]interface{}`: an entry is handed back as it is, except that a `func() interface{}` is called;
an absent key and a nil entry both give nil. -/
theorem mapIface_entry (es : List (String × PVal)) (name : String) (v : PVal)
    (hnd : (es.map (·.1)).Nodup) (hm : (name, v) ∈ es) :
    defaultResolve (.mapIface es) name = ifaceProperty (some v) := by
  simp only [defaultResolve, lookup_of_mem_nodup es name v hnd hm]

/-- … and `ifaceProperty (some v)` is `v` itself unless `v` is a `func() interface{}`, which is called. -/
theorem ifaceProperty_some (v : PVal) :
    ifaceProperty (some v) = (match v with | .func0 id => .called id | v => .value v) := by
  cases v <;> rfl

theorem mapIface_absent (es : List (String × PVal)) (name : String) (h : name ∉ es.map (·.1)) :
    defaultResolve (.mapIface es) name = .value .nil := by
  simp [defaultResolve, lookup_none_of_not_mem es name h, ifaceProperty]

theorem no_panic_on_wellFormed (s : Source) (name : String) (h : wellFormed s = true) :
    defaultResolve s name ≠ .panic := by
  cases s with
  | untypedNil => simp [wellFormed] at h
  | resolver out => simp [defaultResolve]
  | nilPtr => simp [defaultResolve]
  | ptrOther => simp [defaultResolve]
  | other => simp [defaultResolve]
  | struct ptr fs =>
    rw [struct_first_match]
    unfold Spec.structProperty
    cases hf : fs.find? (fieldMatches · name) with
    | none => simp
    | some f =>
      have hmem : f ∈ fs := List.mem_of_find?_eq_some hf
      have : f.exported = true := by
        simp only [wellFormed, List.all_eq_true] at h
        exact h f hmem
      simp [fieldValue, this]
  | mapIface es =>
    simp only [defaultResolve]
    cases lookup es name with
    | none => simp [ifaceProperty]
    | some v => cases v <;> simp [ifaceProperty]
  | mapRefl ke el es =>
    simp only [wellFormed, Bool.and_eq_true, Bool.or_eq_true, bne_iff_ne, ne_eq, List.all_eq_true] at h
    simp only [defaultResolve, h.1, if_true]
    cases hl : lookup es name with
    | none => simp [reflProperty]
    | some v =>
      have hmem := lookup_some_mem es name v hl
      cases el <;> cases v <;> simp [reflProperty]
      -- el = func0, v = nil is excluded by well-formedness
      rcases h.2 with h2 | h2
      · exact absurd rfl h2
      · exact absurd rfl (h2 _ hmem)

/-- The name comparison of the struct path is an equivalence relation on names (case-insensitive equality on ASCII): a
field answers for every spelling of its Go name and two fields whose names differ by case only answer for the same
names — which is why `Unambiguous` must be demanded and is not automatic. -/
theorem equalFold_equivalence :
    (∀ a, equalFold a a = true) ∧
    (∀ a b, equalFold a b = true → equalFold b a = true) ∧
    (∀ a b c, equalFold a b = true → equalFold b c = true → equalFold a c = true) := by
  refine ⟨?_, ?_, ?_⟩
  · intro a; simp [equalFold]
  · intro a b h
    simp only [equalFold, beq_iff_eq] at h ⊢
    exact h.symm
  · intro a b c h1 h2
    simp only [equalFold, beq_iff_eq] at h1 h2 ⊢
    exact h1.trans h2

/-! ## Witnesses (kernel-evaluated): what happens outside the hypotheses -/

/-- Declaration order decides between a tag match and a name match: the comment "try matching the field name
first" holds per field only. `struct{A int `json:"x"`; X int}` answers `x` with `A`. -/
theorem declaration_order_decides :
    defaultResolve (.struct false [⟨"A", true, "x", "", .plain 1⟩, ⟨"X", true, "", "", .plain 2⟩]) "x"
      = .value (.plain 1) ∧
    defaultResolve (.struct false [⟨"X", true, "", "", .plain 2⟩, ⟨"A", true, "x", "", .plain 1⟩]) "x"
      = .value (.plain 2) := by decide

/-- An unexported field that answers for the name makes `Interface()` panic, also when a later exported field
would answer too. -/
theorem unexported_match_panics :
    defaultResolve (.struct true [⟨"name", false, "", "", .plain 1⟩, ⟨"Name", true, "", "", .plain 2⟩]) "name"
      = .panic := by decide

/-- A `func() interface{}` property is called in a `map[string]interface{}` and in a
`map[string]func() interface{}`, but handed back uncalled by a NAMED map type with interface elements. -/
theorem func0_called_by_static_type_only :
    defaultResolve (.mapIface [("f", .func0 7)]) "f" = .called 7 ∧
    defaultResolve (.mapRefl true .func0 [("f", .func0 7)]) "f" = .called 7 ∧
    defaultResolve (.mapRefl true .iface [("f", .func0 7)]) "f" = .value (.func0 7) := by decide

/-- `json:"nm,omitempty"` answers for `nm`; case folding applies to the Go name only, not to tags. -/
theorem tag_options_and_case :
    defaultResolve (.struct false [⟨"Name", true, "nm,omitempty", "", .plain 1⟩]) "nm" = .value (.plain 1) ∧
    defaultResolve (.struct false [⟨"Name", true, "nm,omitempty", "", .plain 1⟩]) "NAME" = .value (.plain 1) ∧
    defaultResolve (.struct false [⟨"Name", true, "nm,omitempty", "", .plain 1⟩]) "NM" = .value .nil := by decide

/-- non-vacuity of `struct_encodes_table`: a three-field struct whose fields answer through name, json tag and
graphql tag respectively is unambiguous for its three keys -/
example : unambiguousB
    [⟨"Id", true, "", "", .plain 1⟩, ⟨"A", true, "title,omitempty", "", .plain 2⟩, ⟨"B", true, "-", "n", .func0 3⟩]
    ["id", "title", "n"] = true := by decide

example : wellFormed (.mapRefl true .func0 [("f", .func0 7)]) = true := by decide

/-! ## Regenerated tie: the constants the model hard-codes

`harness/cmd/extract/defresolve.go` lists, from the current source of `DefaultResolveFn`, in source order: the
type assertions on the parent value and its properties, how the Go field name is compared, how a tag is split and
which segment counts, and which tags are consulted in which order. The model's `fieldMatches` (`equalFold` on the
name, `tagHead` = segment 0 of a comma split, `json` before `graphql`), `ifaceProperty` / `reflProperty`
(`func() interface{}` is the one func type that is called) and the `resolver` source kind are written against
exactly these constants. -/
theorem default_resolver_constants_as_modelled :
    Generated.defaultResolveConstants =
      [("assert", "FieldResolver"),
       ("nameMatch", "strings.EqualFold(typeField.Name, p.Info.FieldName)"),
       ("tagSplit", "strings.Split(t, \",\")"),
       ("tagSegment", "0"),
       ("tag", "json"),
       ("tag", "graphql"),
       ("assert", "map[string]interface{}"),
       ("assert", "func() interface{}"),
       ("assert", "func() interface{}")] := by decide

end GqlModel.DefaultResolve

/-! ## End to end: the response does not depend on how a property table is rendered as a Go value

`Exec.execute` is the execution algorithm S of C01; `defaultWorld` is its resolver table for default-resolved
objects. -/
namespace GqlModel.DefaultResolve
open GqlModel.Exec GqlModel.Coerce

/-- Two renderings of the same objects that the default resolver cannot tell apart on the schema's field names
give the same response (data, errors, invocation log), for every schema, document, variables and fuel. -/
theorem response_independent_of_rendering (s : Schema) (doc : Document) (op : String) (inputs : Vars) (fuel : Nat)
    (I : Interp) (names : List String) (base : World)
    (objs : List (Nat × String × Source × Source))
    (h : ∀ o ∈ objs, ∀ n ∈ names, defaultResolve o.2.2.1 n = defaultResolve o.2.2.2 n) :
    execute s doc op inputs (defaultWorld I names (objs.map fun o => (o.1, o.2.1, o.2.2.1)) base) fuel =
    execute s doc op inputs (defaultWorld I names (objs.map fun o => (o.1, o.2.1, o.2.2.2)) base) fuel := by
  have hw : defaultWorld I names (objs.map fun o => (o.1, o.2.1, o.2.2.1)) base =
            defaultWorld I names (objs.map fun o => (o.1, o.2.1, o.2.2.2)) base := by
    unfold defaultWorld
    simp only [List.map_map]
    congr 1
    apply List.map_congr_left
    intro o ho
    simp only [Function.comp, objOf]
    congr 2
    apply List.map_congr_left
    intro n hn
    rw [h o ho n hn]
  rw [hw]

/-- A struct (or pointer to struct) that encodes a property table unambiguously and the `map[string]interface{}`
holding the same table are indistinguishable for the default resolver on the table's keys, provided no entry is
a `func() interface{}` (a map calls such an entry, a struct field hands it back: `struct_vs_map_func0_differs`). -/
theorem struct_vs_map (ptr : Bool) (fs : List SField) (tbl : List (String × PVal))
    (hun : Unambiguous fs (tbl.map (·.1))) (hexp : ∀ f ∈ fs, f.exported = true)
    (hval : ∀ i (hi : i < fs.length) (hj : i < tbl.length), fs[i].val = tbl[i].2)
    (hnd : (tbl.map (·.1)).Nodup) (hnf : ∀ e ∈ tbl, ∀ id, e.2 ≠ .func0 id)
    (n : String) (hn : n ∈ tbl.map (·.1)) :
    defaultResolve (.struct ptr fs) n = defaultResolve (.mapIface tbl) n := by
  obtain ⟨i, hi, hni⟩ := List.getElem_of_mem hn
  have hlen : fs.length = tbl.length := by simpa using hun.1
  have hit : i < tbl.length := by simpa using hi
  have hif : i < fs.length := by omega
  have hkey : n = tbl[i].1 := by rw [← hni]; simp
  have h1 := struct_encodes_table ptr fs (tbl.map (·.1)) hun hexp i hif hi
  rw [hni] at h1
  rw [h1, hval i hif hit]
  have hmem : (n, tbl[i].2) ∈ tbl := by
    rw [hkey]
    exact List.getElem_mem hit
  rw [mapIface_entry tbl n tbl[i].2 hnd hmem]
  have := hnf tbl[i] (List.getElem_mem hit)
  generalize tbl[i].2 = v at this ⊢
  cases v with
  | func0 id => exact absurd rfl (this id)
  | nil => rfl
  | plain id => rfl
  | funcOther id => rfl

theorem struct_vs_map_func0_differs :
    defaultResolve (.struct false [⟨"F", true, "", "", .func0 1⟩]) "f" = .value (.func0 1) ∧
    defaultResolve (.mapIface [("f", .func0 1)]) "f" = .called 1 := by decide

end GqlModel.DefaultResolve
